"""Shared machinery of the /verif checks: build steps, Lean obligations + axiom audit,
correspondence runners, evidence writer, violation / known-finding reporting."""
import fcntl, hashlib, json, os, re, shutil, subprocess, sys, time

VERIF = os.path.dirname(os.path.dirname(os.path.abspath(__file__)))
REPO = os.environ.get("VERIF_REPO", "/repo")
LEAN = os.path.join(VERIF, "lean")
HARNESS = os.path.join(VERIF, "harness")
BUILD = os.path.join(VERIF, ".build")
ORACLE = os.path.join(LEAN, ".lake", "build", "bin", "rie-oracle")
ALLOWED_AXIOMS = {"propext", "Classical.choice", "Quot.sound"}
FORBIDDEN = re.compile(r"\bsorry\b|\badmit\b|^\s*axiom\s|native_decide|bv_decide|implemented_by|\bunsafe\s|maxHeartbeats\s+0")

GOENV = dict(os.environ, GOFLAGS="-mod=mod", GOPROXY="off", GOSUMDB="off", GOTOOLCHAIN="local",
             GOCACHE=os.environ.get("GOCACHE", os.path.join(BUILD, "gocache")))


class Lock:
    def __init__(self, name):
        os.makedirs(BUILD, exist_ok=True)
        self.path = os.path.join(BUILD, name + ".lock")
    def __enter__(self):
        self.f = open(self.path, "w")
        fcntl.flock(self.f, fcntl.LOCK_EX)
        return self
    def __exit__(self, *a):
        fcntl.flock(self.f, fcntl.LOCK_UN)
        self.f.close()


def run(cmd, cwd=None, env=None, timeout=None, stdin=None):
    p = subprocess.run(cmd, cwd=cwd, env=env, timeout=timeout, input=stdin,
                       stdout=subprocess.PIPE, stderr=subprocess.STDOUT, text=True, errors="replace")
    return p.returncode, p.stdout


class Ctx:
    """One check run for one property."""
    def __init__(self, prop, tier, seed):
        self.prop, self.tier, self.seed = prop, tier, seed
        self.t0 = time.time()
        self.violations = []      # (signature, description, replay_path, found_input)
        self.known_hits = []
        self.obligations = []     # (name, ok, detail)
        self.cov = {"evaluations": 0, "distinct_nontrivial": 0, "samples": [], "rule": "",
                    "distribution": {}, "correspondence": []}
        self.assumptions = []
        self.trusted = ["Lean 4.33.0 kernel", "axioms: subset of {propext, Classical.choice, Quot.sound} (audited per theorem this run)"]
        self.replay_n = 0
        os.makedirs(os.path.join(VERIF, "evidence"), exist_ok=True)
        os.makedirs(os.path.join(VERIF, "replays"), exist_ok=True)
        self.work = os.path.join(BUILD, "work", prop)
        shutil.rmtree(self.work, ignore_errors=True)
        os.makedirs(self.work, exist_ok=True)

    # ---------- reporting ----------
    def replay_path(self, tag):
        self.replay_n += 1
        return os.path.join(VERIF, "replays", f"{self.prop}-{tag}-seed{self.seed}-{self.replay_n}.txt")

    def violation(self, signature, description, replay_text, found_input=True, tag="v"):
        """signature: stable identifier of *this* failing input/history (matched against known_findings.json)."""
        kf = known_findings()
        for e in kf.get("findings", []):
            if e.get("property") == self.prop and e.get("signature") == signature and e.get("status") == "open":
                if signature not in [k[0] for k in self.known_hits]:
                    self.known_hits.append((signature, e.get("what", description)))
                return
        if any(v[0] == signature for v in self.violations):
            return
        if len(self.violations) >= 6:
            self.suppressed = getattr(self, "suppressed", 0) + 1
            return
        path = self.replay_path(tag)
        with open(path, "w") as f:
            f.write(f"property={self.prop}\nsignature={signature}\nfound_failing_input={found_input}\n{description}\n\n{replay_text}\n")
        self.violations.append((signature, description, path, found_input))

    # ---------- builds ----------
    def build_go(self, *cmds):
        """(re)build harness binaries against /repo's current working tree with -tags verif."""
        with Lock("go"):
            try:
                shutil.copy(os.path.join(REPO, "go.sum"), os.path.join(HARNESS, "go.sum"))
            except OSError:
                pass
            for c in cmds:
                rc, out = run(["go", "build", "-tags", "verif"] + modfile_args() + ["-o", os.path.join(BUILD, c), "./cmd/" + c],
                              cwd=HARNESS, env=GOENV, timeout=900)
                if rc != 0:
                    self.violation(f"harness-build:{c}", f"harness command {c} no longer builds against {REPO} (an API the correspondence check uses changed or the tree does not compile with -tags verif)",
                                   "correspondence that no longer checks: go build of verifharness/cmd/" + c + "\n\n" + out[-6000:], found_input=False, tag="build")
                    return False
        return True

    def lake_build(self, targets, label=None):
        with Lock("lake"):
            rc, out = run(["lake", "build"] + list(targets), cwd=LEAN, timeout=3000)
        out = "\n".join(l for l in out.splitlines() if not l.startswith("trace:"))
        return rc == 0, out

    def lean_obligations(self, module, extra_modules=()):
        """Build Rie.Props.<module> (kernel re-check of the theorems incl. regenerated-table
        obligations) and audit axioms of every theorem in its namespace."""
        mods = [f"Rie.Props.{module}"] + list(extra_modules)
        ok, out = self.lake_build(mods + ["Rie.AuditCmd", "rie-oracle"])
        if not ok:
            self.obligations.append((f"lake build {' '.join(mods)}", False, out[-4000:]))
            return False, out
        # forbidden tokens (outside comments) in every Lean source of the project
        bad = scan_forbidden()
        if bad:
            self.obligations.append(("source scan (sorry/admit/axiom/native_decide/…)", False, "\n".join(bad)))
            return False, "\n".join(bad)
        self.obligations.append(("source scan (sorry/admit/axiom/native_decide/…)", True, ""))
        audit = os.path.join(LEAN, "Rie", "Audit", f"{module}.lean")
        os.makedirs(os.path.dirname(audit), exist_ok=True)
        with open(audit, "w") as f:
            f.write(f"import Rie.AuditCmd\nimport Rie.Props.{module}\n#audit_props Rie.Props.{module}\n")
        with Lock("lake"):
            rc, aout = run(["lake", "env", "lean", audit], cwd=LEAN, timeout=1200)
        n = 0
        allok = rc == 0
        for m in re.finditer(r"AUDIT (\S+) axioms=\[([^\]]*)\]", aout):
            n += 1
            axs = {a for a in m.group(2).split(",") if a}
            good = axs <= ALLOWED_AXIOMS
            allok &= good
            self.obligations.append((m.group(1), good, "axioms=" + ",".join(sorted(axs))))
        if n == 0:
            allok = False
            self.obligations.append((f"audit {module}", False, aout[-2000:]))
        return allok, aout

    def oracle_available(self):
        """After a failed proof obligation: can the executable model still be built (on the
        regenerated tables)? Then the search for a concrete failing input goes on."""
        ok, _ = self.lake_build(["rie-oracle"])
        return ok and os.path.exists(ORACLE)

    # ---------- correspondence ----------
    def oracle_bin(self):
        """A private copy of rie-oracle (another check may relink the shared one meanwhile)."""
        mine = os.path.join(self.work, "rie-oracle")
        if not os.path.exists(mine):
            with Lock("lake"):
                shutil.copy(ORACLE, mine)
        return mine

    def oracle(self, model, trace_path):
        with open(trace_path, "rb") as f:
            p = subprocess.run([self.oracle_bin(), model], stdin=f, stdout=subprocess.PIPE, stderr=subprocess.STDOUT, timeout=1800)
        out = p.stdout.decode(errors="replace")
        mism = [l for l in out.splitlines() if l.startswith("MISMATCH")]
        m = re.search(r"SUMMARY cases=(\d+) steps=(\d+) mismatches=(\d+)", out)
        if not m:
            return None, mism, out
        return (int(m.group(1)), int(m.group(2)), int(m.group(3))), mism, out

    def add_stats(self, name, stats_path):
        try:
            st = json.load(open(stats_path))
        except Exception:
            return
        self.cov["evaluations"] += st.get("cases", 0)
        self.cov["distinct_nontrivial"] += st.get("distinct_nontrivial", 0)
        self.cov["samples"] += [f"{name}: {s}" for s in st.get("samples", [])][:4]
        self.cov["distribution"][name] = st.get("distribution", {})
        if st.get("notes"):
            self.cov.setdefault("notes", []).extend(f"{name}: {n}" for n in st["notes"][:5])

    # ---------- finish ----------
    def finish(self, level="proof", rule="", explanation=None, exhaustive=None):
        ob_total = len(self.obligations)
        ob_ok = sum(1 for o in self.obligations if o[1])
        for name, ok, detail in self.obligations:
            if not ok:
                self.violation("proof:" + name, f"proof obligation no longer checks: {name}",
                               "theorem / obligation that no longer checks: " + name + "\n\n" + detail, found_input=False, tag="proof")
        cov = dict(self.cov)
        cov["rule"] = rule or cov.get("rule", "")
        cov["obligations"] = ob_total
        cov["discharged"] = ob_ok
        cov["obligation_list"] = [{"name": n, "ok": ok, "detail": d[:200]} for n, ok, d in self.obligations]
        cov["checker_cmd"] = f"cd /verif/lean && lake build Rie.Props.{self.prop} && lake env lean Rie/Audit/{self.prop}.lean  (driven by /verif/check {self.prop})"
        cov["trusted_base"] = self.trusted
        if explanation:
            cov["explanation"] = explanation
        if exhaustive is not None:
            cov["exhaustive"] = exhaustive
        if not cov["samples"]:
            cov["samples"] = [o[0] for o in self.obligations[:3]] or ["(none)"]
        ev = {"property_id": self.prop, "tier": self.tier, "seed": self.seed, "level": level,
              "coverage": cov, "assumptions": self.assumptions, "wall_s": round(time.time() - self.t0, 2),
              "violations": len(self.violations),
              "known_findings_hit": [k[0] for k in self.known_hits]}
        with open(os.path.join(VERIF, "evidence", f"{self.prop}.json"), "w") as f:
            json.dump(ev, f, indent=1)
        for sig, what in self.known_hits:
            print(f"KNOWN-FINDING: property={self.prop} {what} [{sig}]")
        for sig, desc, path, found in self.violations:
            tail = "" if found else " no-failing-input-found"
            print(f"VIOLATION property={self.prop} replay={path}{tail}")
            # the head of the replay file, so that a log of this run is enough to see what failed
            try:
                with open(path, errors="replace") as rf:
                    for k, ln in enumerate(rf):
                        if k >= 14:
                            break
                        print("  | " + ln.rstrip("\n")[:400])
            except OSError:
                pass
        print(f"{self.prop}: tier={self.tier} seed={self.seed} obligations={ob_ok}/{ob_total} "
              f"evaluations={cov['evaluations']} distinct={cov['distinct_nontrivial']} "
              f"violations={len(self.violations)} known={len(self.known_hits)} wall={ev['wall_s']}s")
        return 1 if self.violations else 0


def modfile_args():
    """When VERIF_REPO points at a scratch copy of the repository, build against it through an
    alternate go.mod (the committed one replaces go.amzn.com by /repo)."""
    if os.path.realpath(REPO) == "/repo":
        return []
    d = os.path.join(BUILD, "modfile")
    os.makedirs(d, exist_ok=True)
    with open(os.path.join(d, "go.mod"), "w") as f:
        f.write(f"module verifharness\n\ngo 1.22\n\nrequire go.amzn.com v0.0.0\n\nreplace go.amzn.com => {os.path.realpath(REPO)}\n")
    shutil.copy(os.path.join(REPO, "go.sum"), os.path.join(d, "go.sum"))
    return ["-modfile=" + os.path.join(d, "go.mod")]


def known_findings():
    try:
        return json.load(open(os.path.join(VERIF, "known_findings.json")))
    except Exception:
        return {"findings": []}


def strip_comments(text):
    # remove /- … -/ (nested) and -- … comments
    out, i, depth, n = [], 0, 0, len(text)
    while i < n:
        if text.startswith("/-", i):
            depth += 1; i += 2; continue
        if depth and text.startswith("-/", i):
            depth -= 1; i += 2; continue
        if depth:
            if text[i] == "\n": out.append("\n")
            i += 1; continue
        if text.startswith("--", i):
            while i < n and text[i] != "\n": i += 1
            continue
        out.append(text[i]); i += 1
    return "".join(out)


def scan_forbidden():
    bad = []
    for root, _, files in os.walk(LEAN):
        if ".lake" in root:
            continue
        for fn in files:
            if not fn.endswith(".lean") or fn == "AuditCmd.lean":
                continue
            p = os.path.join(root, fn)
            txt = strip_comments(open(p, encoding="utf-8").read())
            for ln, line in enumerate(txt.splitlines(), 1):
                if FORBIDDEN.search(line):
                    bad.append(f"{p}:{ln}: {line.strip()[:120]}")
    return bad


def parse_trace_cases(path):
    """Return dict case-id -> list of lines of that case."""
    cases, cur, cid = {}, None, None
    with open(path, errors="replace") as f:
        for line in f:
            line = line.rstrip("\n")
            if line.startswith("case "):
                cid = line[5:]; cur = []; cases[cid] = cur
            elif cur is not None:
                cur.append(line)
    return cases


def parallel(cmds, timeout=3000, env=None):
    """Run a list of argv lists concurrently (≤16 at a time); return list of (rc, output).
    Output goes through temp files (a child that prints more than a pipe buffer must not block)."""
    import tempfile
    res = [None] * len(cmds)
    running = []
    i = 0
    maxp = int(os.environ.get("VERIF_JOBS", "16"))
    while i < len(cmds) or running:
        while i < len(cmds) and len(running) < maxp:
            tf = tempfile.TemporaryFile(mode="w+", errors="replace")
            p = subprocess.Popen(cmds[i], stdout=tf, stderr=subprocess.STDOUT, env=env)
            running.append((i, p, time.time(), tf))
            i += 1
        still = []
        for (k, p, t0, tf) in running:
            if p.poll() is not None:
                tf.seek(0); res[k] = (p.returncode, tf.read()[-200000:]); tf.close()
            elif time.time() - t0 > timeout:
                p.kill(); p.wait()
                tf.seek(0); res[k] = (-9, "timeout\n" + tf.read()[-20000:]); tf.close()
            else:
                still.append((k, p, t0, tf))
        running = still
        time.sleep(0.02)
    return res
