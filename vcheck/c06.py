"""C06 — tied through the full-stack harness and the Lean system model (see lean/Rie/Props/C06.lean)."""
from . import stackrun as S
from . import monitors as M

PLAN = [('faults', 10, 5), ('shutdown', 5, 1)]
MONITORS = [M.mon_fault_body, M.mon_one_outcome, M.mon_body_set, M.mon_completion_barrier]
THEOREMS = "C06_first_fault_recorded, C06_exit_cancels, C06_failure_body, C06_failure_type, C06_reset_received_silent, C06_failure_requests_reset"
CORPUS = ['C06']


def check(ctx):
    return S.standard_check(ctx, "C06", PLAN, MONITORS, THEOREMS, corpus_dirs=CORPUS, e2e=1)


def replay(ctx, path):
    return S.standard_replay(ctx, "C06", path, MONITORS)
