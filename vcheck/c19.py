"""C19 — local supervisor: one truthful exit event per process, kill means gone.

Proof part: Lean theorems `Rie.Props.C19.*` about the supervisor's bookkeeping (all op sequences).
Tie: `supdrv` drives the REAL supervisor.LocalSupervisor with real /bin/sh children;
  * sequential cases (many processes alive, one call at a time, each at a determinate point) are
    replayed op by op on the Lean model (`rie-oracle supervisor`);
  * all cases (sequential and racing) leave `# fact …` lines = raw ground-truth observations
    (/proc/<pid>/stat, pid marker files, process-group scans, call results and instants, events), which
    `judge_case` below judges WITHOUT the model, stating the English property on the observed values.
What the kernel does (signal delivery, reaping, process groups) is sampled, not proved.
"""
import glob, itertools, os, re, time
from . import common as C

NEAR_SLACK_US = 0          # t0 is taken before the deadline is fixed, so "timed out" ⇒ t1-t0 ≥ distance
FAR_US = 25_000_000        # supdrv farDeadline
TERMINATE_MAX_US = 5_000_000


# ---------------------------------------------------------------- fact parsing

def parse_facts(lines):
    procs, events, calls, other = [], [], [], []
    for ln in lines:
        if not ln.startswith("# fact "):
            continue
        ws = ln[7:].split()
        d = {"_": ws[0]}
        for w in ws[1:]:
            k, _, v = w.partition("=")
            d[k] = v
        for k in ("t0", "t1", "t", "rel", "extt", "gone_at"):
            if k in d:
                try:
                    d[k] = int(d[k])
                except ValueError:
                    pass
        {"proc": procs, "event": events, "call": calls}.get(ws[0], other).append(d)
    return procs, events, calls, other


def dl_class(dl):
    return dl.split(":")[0]


def dl_us(dl):
    return int(dl.split(":")[1]) if ":" in dl else None


# ---------------------------------------------------------------- the model-free oracle

def allowed_statuses(p, ev_t, calls, procs, mode):
    """What the true wait status of process p can be, given only what was done to it before its
    event arrived: its own script, releases, foreign signals, Terminate / Kill calls on its name."""
    s = set()
    kind = p["kind"]
    if kind in ("exit", "selfsig"):
        s.add(p["natural"])
    if p["rel"] >= 0 and p["rel"] < ev_t:
        s.add(p["natural"])
    if p["extt"] >= 0 and p["extt"] < ev_t:
        s.add("sig:" + p["ext"])
    later = [q for q in procs if q["name"] == p["name"] and q["started"] == "1" and q["t0"] > p["t0"]]
    for c in calls:
        if c["k"] not in ("kill", "terminate") or c["name"] != p["name"]:
            continue
        if not (c["t0"] < ev_t and c["t1"] > p["t0"]):
            continue
        if any(q["t1"] <= c["t0"] for q in later):
            continue            # the name already denoted a newer process: this call cannot reach p
        if c["k"] == "kill":
            if dl_class(c["dl"]) in ("far", "near"):
                s.add("sig:9")
        else:
            if kind in ("held", "fork", "forkign", "exit", "selfsig"):
                s.add("sig:15")
            elif kind in ("trap", "trapsleep"):
                s.add("code:7")
                if mode != "seq":
                    s.add("sig:15")     # TERM may arrive before the handler is installed
            elif mode != "seq":
                s.add("sig:15")         # ignore kinds, before `trap ''` ran
    return s


def judge_case(lines):
    """Returns [(rule, description)] — the English property C19 stated on observed values only."""
    bad = []
    init = [l for l in lines if l.startswith("init")]
    mode = init[0].split()[1] if init and len(init[0].split()) > 1 else "seq"
    procs, events, calls, other = parse_facts(lines)
    end = next((o for o in other if o["_"] == "end"), {"aborted": "0", "leftover": "0"})
    started = [p for p in procs if p["started"] == "1"]

    # --- Kill / Terminate ------------------------------------------------------------------
    for c in calls:
        n = c["name"]
        same = [p for p in procs if p["name"] == n]
        known_before = any(p["started"] == "1" and p["t1"] <= c["t0"] for p in same)
        maybe_known = any(p["t0"] < c["t1"] for p in same)
        ret = c["ret"]
        if c["k"] == "kill":
            cls = dl_class(c["dl"])
            el = c["t1"] - c["t0"]
            if ret == "ok":
                if not maybe_known:
                    bad.append(("kill-unknown-ok", f"Kill returned success for name {n} which was never started"))
                if c["alive_at_ret"] == "1":
                    bad.append(("kill-ok-alive", f"Kill(deadline {c['dl']}) returned success for name {n} while the process was still alive (not a zombie) per /proc at the instant of the return"))
                if c["group_after"] not in ("u", "0"):
                    bad.append(("kill-ok-group-alive", f"Kill(deadline {c['dl']}) returned success for name {n} but {c['group_after']} member(s) of its process group were still alive after a generous grace (6 s; 2 s in the orphan scenarios)"))
                if cls in ("past", "zero") and c["alive_before"] == "1" and mode == "seq":
                    bad.append(("kill-past-ok", f"Kill with a deadline in the past ({c['dl']}) succeeded on the live process {n}"))
            else:
                if ret == "blocked":
                    bad.append(("kill-blocked", f"Kill(deadline {c['dl']}) for name {n} did not return within 60 s"))
                elif ret == "nosuchentity":
                    if known_before:
                        bad.append(("kill-known-nosuch", f"Kill reports 'no such entity' for name {n} whose Exec had returned successfully before"))
                elif ret in ("baddeadline", "timedout"):
                    if cls == "far" and known_before and el < FAR_US - 1_000_000:
                        bad.append(("kill-far-error", f"Kill({ret}) failed after {el} us for the started name {n} although the deadline was 25 s away"))
                    if cls == "near" and ret == "timedout" and el + NEAR_SLACK_US < dl_us(c["dl"]):
                        bad.append(("kill-early-timeout", f"Kill gave up ('timed out') after {el} us, before its deadline {c['dl']} us"))
                    if cls in ("past", "zero") and c["alive_before"] == "1" and c["alive_after"] == "0" and mode == "seq":
                        bad.append(("kill-refused-but-killed", f"Kill with a deadline in the past ({c['dl']}) returned the error '{ret}' for the live process {n}, "
                                    f"yet the process was killed (gone per /proc 15 ms later, nothing else was done to it)"))
                    exited_long = any(o["_"] == "exitwait" for o in other)
                    if c["alive_before"] == "0" and known_before and (mode == "seq" or exited_long):
                        bad.append(("kill-exited-error", f"Kill({c['dl']}) failed with '{ret}' for name {n} whose process had already terminated"
                                    + (" (gone per /proc for more than 3 s)" if exited_long else "")))
                else:
                    bad.append(("kill-error-class", f"Kill for name {n} failed with an error that is none of the documented ones: {ret}"))
        elif c["k"] == "terminate":
            if ret == "blocked" or c["t1"] - c["t0"] > TERMINATE_MAX_US:
                bad.append(("terminate-blocked", f"Terminate for name {n} took {c['t1'] - c['t0']} us / did not return: it must not wait"))
            if c.get("gone") == "0":
                bad.append(("terminate-not-delivered", f"Terminate returned {ret} for the live process {n} (which dies on / handles SIGTERM) but it was still alive 20 s later"))
            if c.get("group_after", "u") not in ("u", "0"):
                bad.append(("terminate-group", f"Terminate for name {n}: the process went away but {c['group_after']} member(s) of its group (which do not ignore SIGTERM) were still alive after 6 s"))
    # --- one truthful termination event per process ---------------------------------------
    names = sorted({p["name"] for p in started} | {e["name"] for e in events})
    for n in names:
        ps = [p for p in started if p["name"] == n]
        es = [e for e in events if e["name"] == n]
        if n == "?" or not ps:
            bad.append(("event-unknown-name", f"{len(es)} termination event(s) carry a name under which no process was started"))
            continue
        if len(es) > len(ps):
            bad.append(("event-duplicate", f"{len(es)} termination events for name {n} although only {len(ps)} process(es) were started under it "
                        f"(kinds {[p['kind'] for p in ps]}, events {[e['status'] for e in es]})"))
        elif len(es) < len(ps) and end.get("aborted") != "1" and mode != "orphan":
            dead = [p for p in ps if p["alive"] != "1"]
            if len(es) < len(dead):
                bad.append(("event-missing", f"{len(es)} termination event(s) for name {n} although {len(dead)} process(es) started under it have terminated "
                            f"(kinds {[p['kind'] for p in dead]})"))
        for e in es:
            if e["alive"] == "1":
                bad.append(("event-before-exit", f"termination event {e['status']} for name {n} arrived while the process was still running (not a zombie) per /proc"))
            if not re.fullmatch(r"(code|sig):\d+", e["status"]):
                bad.append(("event-malformed", f"termination event for name {n} carries neither/both of exit status and signal, or a wrong domain: {e['status']}"))
        # truthful: some assignment of events to processes with every status possible for its process
        k = min(len(es), len(ps))
        if k and len(es) <= len(ps):
            ok = False
            for perm in itertools.permutations(ps, k):
                if all(e["status"] in allowed_statuses(p, e["t"], calls, procs, mode) for p, e in zip(perm, es)):
                    ok = True
                    break
            if not ok:
                want = [sorted(allowed_statuses(p, es[-1]["t"], calls, procs, mode)) for p in ps]
                bad.append(("event-untruthful", f"termination event status {[e['status'] for e in es]} for name {n} differs from the ground truth: "
                            f"process kind(s) {[p['kind'] for p in ps]} could only end with {want} given what was done to them"))
        for p, e in zip(ps, es):
            if len(ps) == 1 and p["kind"] == "trap" and e["status"] == "code:7" and p["natural"] != "code:7" and p["trapmark"] == "0" \
                    and not (p["rel"] >= 0):
                bad.append(("event-untruthful", f"event says exit status 7 (the TERM handler) for name {n} but the handler's marker file is absent"))

    for o in other:
        if o["_"] == "exitwait" and o.get("event") == "0":
            bad.append(("event-withheld", f"no termination event within 3 s after the process was gone per /proc (scenario {o.get('scn')}: a background child of it is alive"
                        + (" and holds the output pipe)" if o.get("scn") != "1" else ")")))
    if mode == "orphan":
        # the scenarios "process ends, a background child of it lives on" have their own signatures, so that
        # listing them as known findings cannot hide the same symptom in the ordinary scenarios
        bad = [("orphan-" + r, d) for r, d in bad]
    # dedupe
    seen, res = set(), []
    for r, d in bad:
        if (r, d) not in seen:
            seen.add((r, d)); res.append((r, d))
    return res


# ---------------------------------------------------------------- running

def oracle(ctx, trace):
    """ctx.oracle, tolerant of the oracle binary being relinked by a concurrent lake build in the shared workspace"""
    for _ in range(60):
        try:
            return ctx.oracle("supervisor", trace)
        except (FileNotFoundError, PermissionError, OSError):
            time.sleep(2)
    return ctx.oracle("supervisor", trace)


def drv(*a):
    return [os.path.join(C.BUILD, "supdrv")] + list(a)


def case_text(cid, lines, limit=400):
    body = [f"case {cid}"] + lines
    if len(body) > limit:
        body = body[:limit] + [f"… ({len(body) - limit} more lines)"]
    return "\n".join(body)


def sig_norm(s):
    return re.sub(r"\d+", "N", s)


def handle_trace(ctx, name, trace, cmdline, model_check=True):
    """oracle + model-free judgement of one trace file"""
    cases = C.parse_trace_cases(trace)
    mism = []
    if model_check:
        summ, mism, raw = oracle(ctx, trace)
        if summ is None:
            ctx.violation("oracle-crash:supervisor", "rie-oracle supervisor produced no summary", raw[-2000:], found_input=False, tag="oracle")
        else:
            ctx.cov["correspondence"].append({"driver": name, "model": "supervisor", "cases": summ[0], "steps": summ[1], "mismatches": summ[2]})
    mism_by_case = {}
    for m in mism:
        mm = re.match(r"MISMATCH case=(\S+) step=(\d+) op=\[(.*?)\] model=\[(.*?)\] impl=\[(.*?)\]", m)
        if mm:
            mism_by_case[mm.group(1)] = mm
    n_bad = 0
    for cid, lines in cases.items():
        complaints = judge_case(lines)
        mm = mism_by_case.get(cid)
        if not complaints and not mm:
            continue
        n_bad += 1
        head = (f"correspondence: supdrv (real supervisor.LocalSupervisor, real /bin/sh children) vs Lean model Rie.Supervisor.step; theorems Rie.Props.C19.*\n"
                f"driver command: {' '.join(cmdline)}\nreplay with: ./check C19 --replay <this file>   (sequential cases; racing cases re-run from the seed)\n")
        mtxt = ""
        if mm:
            mtxt = (f"\nmodel disagreement at step {mm.group(2)}: op=[{mm.group(3)}]\n   model says [{mm.group(4)}]\n   implementation showed [{mm.group(5)}]\n")
        if complaints and any(l.startswith("init seq") for l in lines[:2]):
            # a sequential case can be replayed: what it shows must show again (twice tried) before it counts —
            # the children are real /bin/sh processes on a shared machine (a TERM that arrives in the instant
            # between a shell's pending-signal check and its blocking read is only seen when the read returns)
            pre = prefix_for_replay(lines, 10 ** 9)
            seen = []
            for att in (1, 2):
                rp = os.path.join(ctx.work, f"cf_{cid}_{att}.in"); ro = os.path.join(ctx.work, f"cf_{cid}_{att}.out")
                open(rp, "w").write(f"case {cid}\n" + "\n".join(pre) + "\n")
                C.run(drv("-replay", rp, "-out", ro, "-dir", os.path.join(ctx.work, "markers")), timeout=600)
                if os.path.exists(ro):
                    for rcid, rl in C.parse_trace_cases(ro).items():
                        seen += [r for r, _ in judge_case(rl)]
            kept = [c for c in complaints if c[0] in seen]
            if not kept:
                ctx.cov.setdefault("notes", []).append(f"unreproduced: case {cid}: {complaints[0][1]} (not seen again in two replays)")
                ctx.cov["unreproduced"] = ctx.cov.get("unreproduced", 0) + 1
                complaints = []
                if not mm:
                    n_bad -= 1
                    continue
            else:
                complaints = kept
        if complaints:
            for rule, desc in complaints[:3]:
                ctx.violation(f"C19:{rule}", f"supervisor: {desc}",
                              head + mtxt + "\nproperty-level judgement (model-free: /proc, marker files, call results):\n"
                              + "\n".join(f"  [{r}] {d}" for r, d in complaints) + "\n\n" + case_text(cid, lines), found_input=True)
        else:
            # only the model disagrees: confirm on a replay of the prefix, judge again
            pre = prefix_for_replay(lines, int(mm.group(2)))
            rp = os.path.join(ctx.work, f"mm_{cid}.in"); ro = os.path.join(ctx.work, f"mm_{cid}.out")
            open(rp, "w").write(f"case {cid}\n" + "\n".join(pre) + "\n")
            C.run(drv("-replay", rp, "-out", ro, "-dir", os.path.join(ctx.work, "markers")), timeout=600)
            rtxt, again = "", []
            if os.path.exists(ro):
                rc = C.parse_trace_cases(ro)
                _, mism2, _ = oracle(ctx, ro)
                for rcid, rl in rc.items():
                    again = judge_case(rl)
                    rtxt = "\nreplay of the prefix:\n" + case_text(rcid, rl, 200) + "\nmodel on the replay: " + ("\n".join(mism2) or "agrees") \
                           + "\nproperty-level judgement of the replay: " + ("; ".join(d for _, d in again) or "no complaint")
            sig = "C19:model:" + " ".join(mm.group(3).split()[1:2]) + ":" + sig_norm(mm.group(4)) + ":" + sig_norm(mm.group(5))
            if again:
                ctx.violation(f"C19:{again[0][0]}", "supervisor: " + again[0][1], head + mtxt + rtxt + "\n\noriginal case:\n" + case_text(cid, lines), found_input=True)
            else:
                ctx.violation(sig, f"supervisor bookkeeping differs from the model: op [{mm.group(3)}] model [{mm.group(4)}] impl [{mm.group(5)}]; "
                              "no property-level failure found", head + mtxt + rtxt + "\n\noriginal case:\n" + case_text(cid, lines), found_input=False)
    return n_bad


def prefix_for_replay(lines, step):
    out, k = [], 0
    for l in lines:
        if l.startswith("init"):
            out.append(l)
        elif l.startswith("op "):
            k += 1
            if k > step:
                break
            out.append(l)
    return out


def orphans_enabled():
    """The "process ends, a background child of it lives on" scenarios are part of every run (two of
    their three findings were repaired in /repo, the third is listed in known_findings.json)."""
    return not os.environ.get("VERIF_C19_NO_ORPHANS")


def check(ctx):
    thorough = ctx.tier == "thorough"
    ctx.trusted += ["correspondence: verifharness supdrv (real supervisor.NewLocalSupervisor(), real /bin/sh children; sequential cases replayed on the Lean model, "
                    "all cases judged model-free from /proc/<pid>/stat, pid marker files, process-group scans)",
                    "Linux process semantics as sampled: signal delivery, reaping, process groups, /proc"]
    ctx.assumptions += ["the waiter goroutine's `close(termination); events <- …` is one model step; map accesses are atomic (mutex)",
                        "exit of a process and its wait status enter the model as environment steps (OS semantics are sampled, not proved)",
                        "Stop() is outside C19 and not modelled; domains other than \"runtime\" are no-ops"]
    if not ctx.build_go("supdrv"):
        return ctx.finish()
    ok, out = ctx.lean_obligations("C19")
    if ok or ctx.oracle_available():
        markers = os.path.join(ctx.work, "markers")
        os.makedirs(markers, exist_ok=True)
        # corpus (hand-written sequential histories) first
        for f in sorted(glob.glob(os.path.join(C.VERIF, "corpus", "C19", "*.trace"))):
            o = os.path.join(ctx.work, os.path.basename(f) + ".out")
            cmd = drv("-replay", f, "-out", o, "-dir", markers)
            rc, txt = C.run(cmd, timeout=600)
            if rc != 0:
                ctx.violation("driver-crash:supdrv", f"supdrv -replay exited with status {rc}", "correspondence that no longer checks: " + " ".join(cmd) + "\n\n" + txt[-4000:], found_input=False, tag="crash")
                continue
            handle_trace(ctx, "corpus:" + os.path.basename(f), o, cmd)
            ctx.cov["evaluations"] += len(C.parse_trace_cases(o))
        workers = 8
        per = 500 if thorough else 40
        cmds, outs = [], []
        for w in range(workers):
            o = os.path.join(ctx.work, f"sup.{w}.trace"); st = os.path.join(ctx.work, f"sup.{w}.stats.json")
            cmd = drv("-seed", str(ctx.seed * 1000 + w), "-children", str(per), "-mode", "mixed", "-maxprocs", "64" if (w < 2 or thorough) else "24",
                      "-out", o, "-stats", st, "-dir", markers)
            if w < 2:
                cmd.append("-big")
            if w == 1:
                cmd[cmd.index("mixed")] = "race"
            cmds.append(cmd); outs.append((o, st))
        if orphans_enabled():
            o = os.path.join(ctx.work, "sup.orphan.trace"); st = os.path.join(ctx.work, "sup.orphan.stats.json")
            cmds.append(drv("-seed", str(ctx.seed), "-cases", "4", "-mode", "orphan", "-out", o, "-stats", st, "-dir", markers))
            outs.append((o, st))
        # slow subscriber: 20-48 processes end before anybody reads the events channel
        o = os.path.join(ctx.work, "sup.burst.trace"); st = os.path.join(ctx.work, "sup.burst.stats.json")
        cmds.append(drv("-seed", str(ctx.seed), "-cases", "6" if thorough else "2", "-mode", "burst", "-maxprocs", "64", "-out", o, "-stats", st, "-dir", markers))
        outs.append((o, st))
        res = C.parallel(cmds, timeout=1500)
        for (rc, txt), (o, st), cmd in zip(res, outs, cmds):
            if rc != 0:
                ctx.violation("driver-crash:supdrv", f"supdrv exited with status {rc} (a crash inside the real code is itself an observation)",
                              "correspondence that no longer checks: " + " ".join(cmd) + "\n\n" + txt[-4000:], found_input=False, tag="crash")
                continue
            ctx.add_stats(os.path.basename(o)[:-6], st)
            handle_trace(ctx, os.path.basename(o)[:-6], o, cmd)
    return ctx.finish(level="proof",
        rule="Lean: theorems over arbitrary op lists (induction) about the bookkeeping: events per process/name, Kill/Terminate return classes and post-states. "
             "Tie: seeded cases on the real LocalSupervisor with real /bin/sh children of 9 behaviours (exit 0/n, self-signal, held, TERM handler, TERM handler with child, "
             "TERM ignored, TERM ignored with child, forked background child), 1–64 processes per case; sequential cases (calls at determinate points incl. name reuse/overwrite, "
             "unknown names, far/near/past/zero deadlines, foreign kills, failed Execs) are compared step by step with the model; racing cases (each call in its own goroutine, "
             "children exiting on their own) and all sequential cases are judged model-free from /proc, marker files and group scans with one-sided timing only; "
             "burst cases (20-48 processes all end while the subscriber does not read the events channel, then it drains) and the four orphan scenarios are judged the same way; "
             "a case is non-trivial if a Kill/Terminate hit a live process or calls raced; distinct by hash of the canonical trace",
        explanation="level 'proof' covers the supervisor's bookkeeping (Rie.Props.C19.*). OS semantics (signal delivery, reaping, process groups, wait status) are sampled "
                    "by the harness, not proved.")


def replay(ctx, path):
    txt = open(path).read()
    m = None
    for m in re.finditer(r"^case (\S+)\n((?:(?:init|op|obs|#).*\n)+)", txt, re.M):
        pass
    if not m or not ctx.build_go("supdrv"):
        print("nothing to replay"); return 2
    ops = [l for l in m.group(2).splitlines() if l.startswith(("init", "op "))]
    if not any(l.startswith("op ") for l in ops):
        print("racing / orphan case: re-run the driver command quoted in the file (same seed)"); return 2
    p = os.path.join(ctx.work, "replay.in"); o = os.path.join(ctx.work, "replay.out")
    open(p, "w").write(f"case {m.group(1)}\n" + "\n".join(ops) + "\n")
    C.run(drv("-replay", p, "-out", o, "-dir", os.path.join(ctx.work, "markers")), timeout=600)
    bad_total = 0
    for cid, lines in C.parse_trace_cases(o).items():
        print("\n".join(lines))
        bad = judge_case(lines)
        print("\n".join(f"[{r}] {d}" for r, d in bad) or "no property-level complaint")
        bad_total += len(bad)
    _, mism, _ = oracle(ctx, o)
    print("\n".join(mism) or "model agrees")
    return 1 if (bad_total or mism) else 0
