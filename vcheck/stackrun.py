"""Shared by the checks that are tied through the full-stack harness (stackdrv) and the Lean
system model (rie-oracle sys): run scenario families on the REAL emulator stack, replay every
trace on the model, re-examine disagreements, judge with model-free monitors."""
import glob, os, re, shutil, subprocess, time
from . import common as C
from . import monitors as M


def parse_cases(path):
    """trace file -> {case id: {"init": str, "steps": [(op words, obs text, [side facts])]}}"""
    cases, cur = {}, None
    with open(path, errors="replace") as f:
        for line in f:
            line = line.rstrip("\n")
            if line.startswith("case "):
                cur = {"init": "", "steps": []}
                cases[line[5:]] = cur
            elif cur is None:
                continue
            elif line.startswith("init"):
                cur["init"] = line[4:].strip()
            elif line.startswith("op "):
                cur["steps"].append([line[3:].split(), "", []])
            elif line.startswith("obs") and cur["steps"]:
                cur["steps"][-1][1] = line[4:] if len(line) > 4 else ""
            elif line.startswith("# ") and cur["steps"]:
                cur["steps"][-1][2].append(line[2:])
    return cases


def case_ops_text(cid, case, upto=None):
    steps = case["steps"] if upto is None else case["steps"][:upto]
    return "case %s\ninit %s\n" % (cid, case["init"]) + "".join("op " + " ".join(w for w in s[0] if not w.startswith("h=")) + "\n" for s in steps)


PORTS = {"n": 0}
NOMODEL = {"slowbody"}


def port_base(ctx):
    # disjoint port ranges per process run: 20000 + (pid-derived) — each stackdrv uses up to a few hundred ports
    PORTS["n"] += 1
    return 20000 + ((os.getpid() * 7 + PORTS["n"] * 331) % 120) * 300


def run_families(ctx, plan, corpus_dirs=()):
    """plan: list of (family, cases, workers). Returns dict with traces, confirmed disagreements, crashes."""
    drv = os.path.join(C.BUILD, "stackdrv")
    jobs = []
    k = 0
    for fam, cases, workers in plan:
        for w in range(workers):
            out = os.path.join(ctx.work, f"st.{fam}.{w}.trace")
            st = os.path.join(ctx.work, f"st.{fam}.{w}.stats.json")
            seed = ctx.seed * 100003 + k * 7919 + w
            jobs.append((fam, out, st, [drv, "-family", fam, "-cases", str(cases), "-seed", str(seed), "-out", out, "-stats", st,
                                        "-port", str(20000 + (k % 130) * 300)]))
            k += 1
    for d in corpus_dirs:
        for f in sorted(glob.glob(os.path.join(C.VERIF, "corpus", d, "*.ops"))):
            out = os.path.join(ctx.work, "corpus." + os.path.basename(f) + ".trace")
            jobs.append(("corpus:" + os.path.basename(f), out, "", [drv, "-replay", f, "-out", out, "-port", str(20000 + (k % 130) * 300)]))
            k += 1
    res = C.parallel([j[3] for j in jobs], timeout=1700)
    result = {"traces": [], "disagreements": [], "crashes": [], "flaky": 0, "steps": 0, "cases": 0}
    for (fam, out, st, cmd), (rc, outp) in zip(jobs, res):
        if st:
            ctx.add_stats("stack:" + fam, st)
        if not os.path.exists(out):
            ctx.violation(f"stackdrv-failed:{fam}", f"stackdrv {fam} produced no trace (rc={rc})", outp[-3000:], found_input=False, tag="drv")
            continue
        cases = parse_cases(out)
        result["traces"].append((fam, out, cases))
        if rc != 0:
            # the emulator (or the harness) died: the last case on disk is the one that was running
            result["crashes"].append((fam, out, cases, rc, outp))
        if fam in NOMODEL:
            # behaviour the system model does not express (a request body that arrives in pieces holds the
            # server mutex): judged by the model-free monitors only
            ctx.cov["correspondence"].append({"driver": "stackdrv " + fam, "model": "(monitors only)", "cases": len(cases), "steps": sum(len(c["steps"]) for c in cases.values()), "mismatches": 0})
            continue
        summ, mism, raw = ctx.oracle("sys", out)
        if summ is None:
            ctx.violation(f"oracle-failed:{fam}", "rie-oracle sys produced no summary", raw[-2000:], found_input=False, tag="oracle")
            continue
        result["cases"] += summ[0]; result["steps"] += summ[1]
        ctx.cov["correspondence"].append({"driver": "stackdrv " + fam, "model": "sys", "cases": summ[0], "steps": summ[1], "mismatches": summ[2]})
        ctx.cov["evaluations"] += 0 if st else summ[0]
        for m in mism:
            mm = re.match(r"MISMATCH case=(\S+) step=(\d+) op=\[(.*?)\] model=\[(.*?)\] impl=\[(.*?)\]", m)
            if mm and mm.group(1) in cases:
                if any((ws[0] == "rt" and ws[1] in ("slowresponse", "slowerror", "finish")) or ws[0] == "dinvoke" for ws, _, _ in cases[mm.group(1)]["steps"]):
                    continue    # a corpus case with a body that arrives in pieces: monitors only (see NOMODEL)
                result["disagreements"].append((fam, mm.group(1), int(mm.group(2)), cases[mm.group(1)], m))
    return result


def replay_case(ctx, cid, case, tag, upto=None, careful=True):
    p = os.path.join(ctx.work, f"re.{tag}.in")
    o = os.path.join(ctx.work, f"re.{tag}.out")
    open(p, "w").write(case_ops_text(cid, case, upto))
    cmd = [os.path.join(C.BUILD, "stackdrv"), "-replay", p, "-out", o, "-port", str(port_base(ctx))]
    if careful:
        cmd.append("-careful")
    rc, outp = C.run(cmd, timeout=600)
    cases = parse_cases(o) if os.path.exists(o) else {}
    summ, mism, raw = ctx.oracle("sys", o) if os.path.exists(o) else (None, [], "")
    return rc, outp, cases.get(cid), mism


def confirm(ctx, result, prop, monitors, theorem_names):
    """Re-examine disagreements and crashes; run the model-free monitors on every trace."""
    # Re-runs of a wedged emulator take minutes each: once something is confirmed and the budget is used
    # up (or six violations are recorded) the remaining complaints are only counted.
    t_confirm = time.time()
    budget = 1500 if ctx.tier == "thorough" else 420
    def spent():
        return len(ctx.violations) >= 6 or (ctx.violations and time.time() - t_confirm > budget)
    # 1. model-free monitors on everything explored
    for fam, out, cases in result["traces"]:
        for cid, case in cases.items():
            for mon in monitors:
                for complaint in mon(case):
                    if spent():
                        ctx.cov.setdefault("unconfirmed_after_budget", 0)
                        ctx.cov["unconfirmed_after_budget"] += 1
                        break
                    sig = f"{prop}:{mon.__name__}:{M.signature(case, complaint)}"
                    mt = re.match(r"@([^@]+)@ (.*)", complaint, re.S)
                    if mt:      # a complaint of a precisely known shape carries its own signature
                        sig, complaint = mt.group(1), mt.group(2)
                    # a monitor complaint must reproduce as well (racy harness artefacts never count)
                    rc, _, case2, _ = replay_case(ctx, cid, case, "mon")
                    again = case2 is not None and any(True for _ in mon(case2))
                    if again:
                        ctx.violation(sig, f"{mon.__name__}: {complaint}",
                                      f"model-free monitor {mon.__name__} (property {prop}) fails on this history of the real stack, twice\n"
                                      f"replay with: ./check {prop} --replay <this file>\n\n" + case_ops_text(cid, case) + "\nobserved:\n" + M.render(case), found_input=True)
                    else:
                        ctx.cov.setdefault("flaky_monitor_hits", 0)
                        ctx.cov["flaky_monitor_hits"] += 1
                    break
    # 2. disagreements with the Lean model must reproduce in two careful re-runs
    seen = 0
    for fam, cid, step, case, line in result["disagreements"]:
        if seen >= 6 or spent():
            break
        r1 = replay_case(ctx, cid, case, "d1")
        r2 = replay_case(ctx, cid, case, "d2")
        if r1[3] and r2[3]:
            seen += 1
            case2 = r1[2] or case
            complaints = [f"{mon.__name__}: {c}" for mon in monitors for c in mon(case2)]
            text = (f"correspondence that no longer checks: stackdrv ({fam}) vs Lean model Rie.Sys (theorems {theorem_names})\n"
                    f"the disagreement reproduced in two careful re-runs\n{line}\n{r1[3][0]}\n\n" + case_ops_text(cid, case) + "\nobserved:\n" + M.render(case2)
                    + "\n\nmodel-free monitors: " + ("; ".join(complaints) or "none fired"))
            ctx.violation(f"{prop}:sys:{M.signature(case, line[:80])}", "real stack and Lean system model disagree (reproducibly)" + (": " + complaints[0] if complaints else ""),
                          text, found_input=bool(complaints))
        else:
            result["flaky"] += 1
    ctx.cov["flaky_disagreements"] = result["flaky"]
    # 3. crashes: re-run the case that was running, alone, twice
    for fam, out, cases, rc, outp in result["crashes"]:
        if not cases:
            continue
        cid = list(cases)[-1]
        case = cases[cid]
        a = replay_case(ctx, cid, case, "c1", careful=False)
        b = replay_case(ctx, cid, case, "c2", careful=False)
        if a[0] != 0 and b[0] != 0:
            ctx.violation(f"{prop}:crash:{M.signature(case, 'crash')}", "the emulator process died (panic outside an HTTP handler)",
                          "the hosting process of the real stack exited while running this history (reproduced twice)\n\n" + case_ops_text(cid, case) + "\n" + outp[-3000:], found_input=True, tag="crash")
        else:
            ctx.cov.setdefault("flaky_crash", 0)
            ctx.cov["flaky_crash"] += 1
            # keep the evidence of a crash that did not reproduce
            open(os.path.join(ctx.work, "flaky_crash.txt"), "a").write(case_ops_text(cid, case) + "\n" + outp[-3000:] + "\n")


def run_e2e(ctx, prop, rounds):
    """The real aws-lambda-rie binary (front end + LocalSupervisor) with a scripted runtime child:
    cold-start concurrency, sequential byte-exact round trips, extra callers, timeout + fresh runtime."""
    import json
    rie = os.path.join(ctx.work, "aws-lambda-rie")
    rc, out = C.run(["go", "build", "-o", rie, "./cmd/aws-lambda-rie"], cwd=C.REPO, env=C.GOENV, timeout=900)
    if rc != 0:
        ctx.violation("e2e-build", "cmd/aws-lambda-rie no longer builds", out[-3000:], found_input=False, tag="build")
        return
    def once(tag):
        rep = os.path.join(ctx.work, f"e2e.{tag}.json")
        rc, out = C.run([os.path.join(C.BUILD, "e2edrv"), "-rie", rie, "-rounds", str(rounds), "-seed", str(ctx.seed), "-out", rep], timeout=900)
        try:
            return json.load(open(rep))
        except Exception:
            return {"cases": 0, "violations": ["e2edrv produced no report: " + out[-500:]], "samples": []}
    r1 = once("a")
    ctx.cov["evaluations"] += r1.get("cases", 0)
    ctx.cov["correspondence"].append({"driver": "e2edrv (real binary)", "model": "model-free rules", "cases": r1.get("cases", 0), "mismatches": len(r1.get("violations") or [])})
    ctx.cov["samples"] += [f"e2e: {x}" for x in (r1.get("samples") or [])[:2]]
    if r1.get("violations"):
        r2 = once("b")
        if r2.get("violations"):
            v = r1["violations"]
            ctx.violation(f"{prop}:e2e:" + v[0][:60], "end to end (real aws-lambda-rie binary): " + v[0],
                          "the real binary built from the tree under test violates the property in the e2e scenarios (twice):\n" + "\n".join(v) +
                          f"\n\nre-run: /verif/.build/e2edrv -rie <binary> -rounds {rounds} -seed {ctx.seed}", found_input=True, tag="e2e")
        else:
            ctx.cov["flaky_e2e"] = ctx.cov.get("flaky_e2e", 0) + 1


def gen_tables(ctx):
    """(T) regenerate the state-machine tables from the built code before the Lean obligations."""
    rc, out = C.run([os.path.join(C.BUILD, "unitdrv"), "tables", "-dir", os.path.join(C.LEAN, "Rie", "Gen")], timeout=300)
    if rc != 0:
        ctx.violation("tables-gen", "unitdrv tables failed (a state object or flow interface changed shape)", out[-3000:], found_input=False, tag="gen")
        return False
    # the front end's error switch, read from the source (package main cannot be linked)
    rc, out = C.run([os.path.join(C.BUILD, "unitdrv"), "frontend", "-repo", C.REPO, "-dir", os.path.join(C.LEAN, "Rie", "Gen")], timeout=120)
    if rc != 0:
        ctx.violation("frontend-gen", "unitdrv frontend could not read InvokeHandler's error switch from cmd/aws-lambda-rie/handlers.go", out[-3000:], found_input=False, tag="gen")
        return False
    # the route table, read from lambda/rapi/router.go + server.go
    rc, out = C.run([os.path.join(C.BUILD, "unitdrv"), "routes", "-repo", C.REPO, "-dir", os.path.join(C.LEAN, "Rie", "Gen")], timeout=120)
    if rc != 0:
        ctx.violation("routes-gen", "unitdrv routes could not read the route table from lambda/rapi/router.go / server.go", out[-3000:], found_input=False, tag="gen")
        return False
    return True


def standard_check(ctx, prop, plan, monitors, theorems, corpus_dirs=(), rule="", extra_modules=("Rie.Props.Tables",), e2e=0, extra=None):
    thorough = ctx.tier == "thorough"
    ctx.trusted += ["correspondence: stackdrv (real rapidcore.SandboxBuilder stack in process, fake supervisor held to the C19 model, scripted HTTP actors, quiescent stepping) vs rie-oracle sys",
                    "regenerated state-machine tables (unitdrv tables) re-proved equal to the model programs by decide",
                    "Go sync/net/http/encoding-json semantics; quiescence detector"]
    ctx.assumptions += ["each op of the harness is followed by quiescence of the real stack (goroutine-state inspection); a disagreement counts only if it reproduces in two careful re-runs",
                        "timers may fire at any point (time-free model); wall-clock bounds are measured one-sidedly by the monitors"]
    if not ctx.build_go(*(["unitdrv", "stackdrv"] + (["e2edrv"] if e2e else []))):
        return ctx.finish()
    if not gen_tables(ctx):
        return ctx.finish()
    ok, _ = ctx.lean_obligations(prop, extra_modules=extra_modules)
    # a failed obligation is reported by finish(); the search for a concrete failing input goes on
    # whenever the executable model still builds
    if ok or ctx.oracle_available():
        if thorough:
            plan = [(f, c * 5, w) for (f, c, w) in plan]
        result = run_families(ctx, plan, corpus_dirs)
        confirm(ctx, result, prop, monitors, theorems)
        if e2e:
            run_e2e(ctx, prop, e2e * (3 if thorough else 1))
        if extra:
            extra(ctx)
        ctx.cov["stack_cases"] = result["cases"]
        ctx.cov["stack_steps"] = result["steps"]
    return ctx.finish(level="proof", rule=rule or
        "Lean: theorems over the system model for arbitrary op sequences. Tie: seeded scenario families on the real stack, one op at a time, every observation compared with the model "
        "(any timer subset may fire, six scheduler priorities); a case is non-trivial if an invocation was delivered and some call blocked or was refused; distinct by trace hash")


def standard_replay(ctx, prop, path, monitors):
    txt = open(path).read()
    m = re.search(r"^case \S+\ninit .*\n(?:op .*\n)+", txt, re.M)
    if not m or not ctx.build_go("stackdrv"):
        print("nothing to replay"); return 2
    p = os.path.join(ctx.work, "replay.in"); o = os.path.join(ctx.work, "replay.out")
    open(p, "w").write(m.group(0))
    rc, outp = C.run([os.path.join(C.BUILD, "stackdrv"), "-replay", p, "-out", o, "-port", str(port_base(ctx))], timeout=600)
    print(open(o).read() if os.path.exists(o) else outp)
    bad = rc != 0
    for cid, case in (parse_cases(o) if os.path.exists(o) else {}).items():
        for mon in monitors:
            for c in mon(case):
                print("MONITOR", mon.__name__, c); bad = True
    summ, mism, _ = ctx.oracle("sys", o) if os.path.exists(o) else (None, [], "")
    for l in mism:
        print(l); bad = True
    return 1 if bad else 0
