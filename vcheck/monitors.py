"""Model-free monitors: the English properties stated directly on the history observed from the
real stack (ops issued by the harness + canonical observations). They never consult the Lean
model. Every predicate is order-based (step indices) or uses generous one-sided time bounds, so
it cannot fire on a history in which the property holds."""
import hashlib, re


def entries(obs):
    head = obs.split(" | blocked=")[0]
    return [e for e in head.split(" ; ") if e]


def blocked(obs):
    parts = obs.split(" | blocked=")
    return [b for b in (parts[1].split(",") if len(parts) > 1 else []) if b]


def signature(case, what):
    ops = ";".join(" ".join(w for w in s[0] if not w.startswith("h=")) for s in case["steps"])
    return hashlib.sha1((case["init"] + "|" + ops + "|" + what[:60]).encode()).hexdigest()[:16]


def render(case):
    return "init " + case["init"] + "\n" + "\n".join("op " + " ".join(s[0]) + "\n   -> " + s[1] + ("".join("\n   # " + x for x in s[2])) for s in case["steps"])


def cfg(case):
    d = {}
    for w in case["init"].split():
        k, _, v = w.partition("=")
        d[k] = v
    d["exts"] = [x for x in d.get("exts", "").split(",") if x]
    d["timeout"] = int(d.get("timeout", "1000"))
    return d


def kvtok(ws, k):
    for w in ws:
        if w.startswith(k + "="):
            return w[len(k) + 1:]
    return None


class Walk:
    """Replays a case and exposes what the harness itself knows at each step."""
    def __init__(self, case):
        self.case = case
        self.cfg = cfg(case)

    def __iter__(self):
        st = {"cur": None, "gen_regs": {}, "outstanding": set(), "payload": {}, "idcaller": {}, "posted": {}, "delivered": {},
              "issued_next": {}, "gen": 0, "execd": {}, "first_delivery": False, "subs": {}}
        for i, (ws, obs, side) in enumerate(self.case["steps"]):
            es = entries(obs)
            yield i, ws, es, blocked(obs), side, st


# ---------------------------------------------------------------- C01 / C07

def mon_one_outcome(case):
    started, done = {}, {}
    for i, (ws, obs, side) in enumerate(case["steps"]):
        if ws[0] == "invoke":
            started[ws[1]] = i
        for e in entries(obs):
            m = re.match(r"caller(\d+) done ", e)
            if m:
                done[m.group(1)] = done.get(m.group(1), 0) + 1
    out = []
    for c, i in started.items():
        if done.get(c, 0) > 1:
            out.append(f"caller {c} received {done[c]} outcomes")
        if done.get(c, 0) == 0:
            out.append(f"caller {c} (step {i+1}) never received an outcome although the case was drained past timeout and reset allowance")
    return out


def mon_roundtrip(case):
    out = []
    payload, idcaller, posted, cur = {}, {}, {}, None
    slowposted = {}
    started, rt_deadline = {}, {}
    direct = set()      # callers on the direct-invoke reply path are judged by mon_direct
    for i, (ws, obs, side) in enumerate(case["steps"]):
        if ws[0] == "dinvoke":
            direct.add(ws[1])
        for x in side:
            m = re.match(r"caller(\d+) start \S+ @(\d+)", x)
            if m:
                started[m.group(1)] = int(m.group(2))
            m = re.match(r"deadline rt (id#\d+) (\d+)", x)
            if m:
                rt_deadline.setdefault(m.group(1), (i, int(m.group(2))))
        if ws[0] == "invoke":
            payload[ws[1]] = kvtok(ws, "h")
        idref = None
        if ws[0] == "rt" and ws[1] in ("response", "error"):
            idref = cur if ws[2] == "cur" else ws[2]
        if ws[0] == "rt" and ws[1] == "slowresponse":
            tgt = cur if ws[2] == "cur" else ws[2]
            slowposted.setdefault(tgt, []).append("bytes:" + (kvtok(ws, "h") or "?"))
        if ws[0] == "rt" and ws[1] == "slowerror":
            tgt = cur if ws[2] == "cur" else ws[2]
            slowposted.setdefault(tgt, []).append("errjson:" + ws[3])
        for e in entries(obs):
            m = re.match(r"rt\.next=200,(id#\d+),body=([^,]*),arn=(\w+),ctx=ctx(\d+)", e)
            if m:
                idk, h, arn, c = m.groups()
                cur = idk
                if idk in idcaller and idcaller[idk] != c:
                    out.append(f"request id {idk} delivered for caller {idcaller[idk]} and again for caller {c} (ids must be fresh)")
                idcaller[idk] = c
                if payload.get(c) is not None and h != payload[c]:
                    out.append(f"step {i+1}: runtime received body {h} for caller {c}, but the event posted was {payload[c]}")
                if arn != "ok":
                    out.append(f"step {i+1}: wrong function ARN delivered to the runtime")
            if idref and e.startswith("rt.response=202"):
                size = ws[3]
                posted[idref] = "empty" if size == "0" else "bytes:" + (kvtok(ws, "h") or "?")
            if idref and e.startswith("rt.response=413"):
                # the caller's error must state both sizes: the response's and the limit (6 MiB + 100)
                posted[idref] = "errjson:Function.ResponseSizeTooLarge:%s:%d" % (ws[3], 6 * 2 ** 20 + 100)
            if idref and e.startswith("rt.error=202"):
                posted[idref] = "errjson:" + ws[3]
            m = re.match(r"caller(\d+) done err=ok body=(\S+)", e)
            if m and m.group(1) not in direct:
                c, body = m.groups()
                ids = [k for k, v in idcaller.items() if v == c]
                want = [posted[k] for k in ids if k in posted] + [b for k in ids for b in slowposted.get(k, [])]
                if want and body not in want:
                    out.append(f"step {i+1}: caller {c} received {body} but the runtime posted {want[-1]} for its request")
                if not want and body.startswith("bytes:"):
                    out.append(f"step {i+1}: caller {c} received a payload although the runtime posted none for its request")
    # the deadline handed to the runtime is arrival time + configured timeout (one-sided slack for the time
    # between the harness's time stamp and the emulator's: 250 ms)
    for idk, (i, d) in rt_deadline.items():
        c = idcaller.get(idk)
        if c in started:
            off = d - (started[c] + cfg(case)["timeout"])
            if abs(off) > 250:
                out.append(f"step {i+1}: the deadline given to the runtime for {idk} is arrival + timeout {off:+d} ms (caller {c} arrived at {started[c]}, timeout {cfg(case)['timeout']} ms, deadline {d})")
    return out


def mon_body_set(case):
    """C07: a caller's body is the payload posted for that invocation, a platform error or empty."""
    out = []
    posted = set()
    for i, (ws, obs, side) in enumerate(case["steps"]):
        if ws[0] == "rt" and ws[1] in ("response", "slowresponse"):
            posted.add("empty" if ws[3] == "0" else "bytes:" + (kvtok(ws, "h") or "?"))
        for e in entries(obs):
            m = re.match(r"caller(\d+) done err=(\S+) body=(\S+)", e)
            if m and m.group(3).startswith("bytes:") and m.group(3) not in posted:
                out.append(f"step {i+1}: caller {m.group(1)} received bytes nobody posted: {m.group(3)}")
    return out


# ---------------------------------------------------------------- C02

def mon_accept_once(case):
    out = []
    cur, answered, done_ids = None, set(), set()
    idcaller, callerdone = {}, set()
    slow = {}        # upload number -> id it names
    nslow = 0
    for i, (ws, obs, side) in enumerate(case["steps"]):
        es = entries(obs)
        if ws[0] == "rt" and ws[1] in ("slowresponse", "slowerror"):
            nslow += 1
            slow[str(nslow)] = cur if ws[2] == "cur" else ws[2]
        for e in es:
            m = re.match(r"rt\.slow(?:response|error)#(\d+)=(\d+)", e)
            if m and m.group(1) in slow:
                target = slow.pop(m.group(1))
                if m.group(2) in ("202", "413"):
                    if target != cur:
                        out.append(f"step {i+1}: a slowly uploaded submission for {target} was accepted while the invocation in flight is {cur}")
                    elif target in answered:
                        out.append(f"step {i+1}: a second submission for {target} was accepted")
                    elif idcaller.get(target) in callerdone:
                        out.append(f"step {i+1}: a submission for {target} was accepted after its caller had already received an outcome")
                    answered.add(target)
        if ws[0] == "rt" and ws[1] in ("response", "error"):
            ref = ws[2]
            target = cur if ref == "cur" else ref
            for e in es:
                if re.match(r"rt\.(response|error)=(202|413)", e):
                    if ref not in ("cur",) and not ref.startswith("id#"):
                        out.append(f"step {i+1}: a submission for an id that names no invocation was accepted")
                    elif target is None:
                        out.append(f"step {i+1}: a submission was accepted although no invocation had been delivered")
                    elif target != cur:
                        out.append(f"step {i+1}: a submission for {target} was accepted while the invocation in flight is {cur}")
                    elif target in answered:
                        out.append(f"step {i+1}: a second submission for {target} was accepted")
                    elif idcaller.get(target) in callerdone:
                        out.append(f"step {i+1}: a submission for {target} was accepted after its caller had already received an outcome")
                    answered.add(target)
        for e in es:
            m = re.match(r"rt\.next=200,(id#\d+),.*ctx=ctx(\d+)", e)
            if m:
                cur = m.group(1); idcaller[cur] = m.group(2)
            m = re.match(r"caller(\d+) done", e)
            if m:
                callerdone.add(m.group(1))
    return out


def mon_refusal_inert(case):
    """C02/C12: a refused submission has no effect on the runtime's protocol state — repeated at once,
    with nothing else happening, it is answered the same."""
    out = []
    steps = case["steps"]
    cur = None
    def strip(ws):
        return [w for w in ws if not w.startswith("h=")]
    for i, (ws, obs, side) in enumerate(steps):
        for e in entries(obs):
            m = re.match(r"rt\.next=200,(id#\d+),", e)
            if m:
                cur = m.group(1)
        if i + 1 >= len(steps) or not (ws[0] == "rt" and ws[1] in ("response", "error")):
            continue
        ws2, obs2, _ = steps[i + 1]
        if strip(ws) != strip(ws2):
            continue
        es1, es2 = entries(obs), entries(obs2)
        if len(es1) != 1 or len(es2) != 1:
            continue
        pre = "rt." + ws[1] + "="
        if not (es1[0].startswith(pre) and es2[0].startswith(pre)):
            continue
        a1, a2 = es1[0][len(pre):], es2[0][len(pre):]
        # refusals in C02's sense: wrong / stale / unknown id (400 InvalidRequestID) and submissions outside
        # Running (403). A first submission for the current id with a bad response-mode header is answered
        # 400 InvalidFunctionResponseMode but is CONSUMED (the caller is sent Runtime.InvalidResponseModeHeader,
        # the runtime has used up its one submission), and 413 likewise: not refusals, a repetition is the
        # second submission and is rightly answered 403.
        if (a1.startswith("400,InvalidRequestID") or a1.startswith("403")) and a1 != a2:
            target = cur if ws[2] == "cur" else ws[2]
            tag = ""
            if a1.startswith("400,InvalidRequestID") and a2.startswith("403") and target == cur:
                tag = "@C02:refused-after-platform-error@ "
            out.append(tag + f"step {i+1}: the submission for {target} was refused with {a1}; repeated at once it was answered {a2}: the refusal changed the runtime's protocol state")
    return out


def mon_direct(case):
    """C02/C17 on the interop server's direct-invoke reply path: the caller's stream holds exactly what the
    runtime posted (Complete), a prefix of it (Truncated; Oversized: limit + 1 bytes), or an error document
    alone — never a mixture, and the trailer says which."""
    out = []
    limit = {}
    for i, (ws, obs, side) in enumerate(case["steps"]):
        if ws[0] == "dinvoke":
            limit[ws[1]] = int(next((w[4:] for w in ws if w.startswith("max=")), str(6 * 2 ** 20 + 100)))
        for e in entries(obs):
            m = re.match(r"caller(\d+) done err=(\S+) body=(\S+) eor=(\S+)", e)
            if not m:
                continue
            c, err, body, eor = m.groups()
            if body.startswith("mixed:"):
                out.append(f"step {i+1}: direct caller {c} received {body[6:]} bytes that are neither a payload the runtime posted, nor a prefix of one, nor an error document alone (trailer {eor}, outcome {err})")
            elif body.startswith("bytes:") and eor != "Complete":
                out.append(f"step {i+1}: direct caller {c} received a complete payload but the trailer says {eor}")
            elif body.startswith("prefix:"):
                n = int(body[7:].split("/")[0])
                if eor not in ("Truncated", "Oversized"):
                    out.append(f"step {i+1}: direct caller {c} received only the first {n} bytes of the response but the trailer says {eor}")
                if eor == "Oversized" and n != limit.get(c, -1) + 1:
                    out.append(f"step {i+1}: direct caller {c}: oversized response cut at {n} bytes, the limit of the request was {limit.get(c)}")
    return out


# ---------------------------------------------------------------- C03 / C04

def _gen_of(name):
    m = re.match(r"(?:extension-(.*)|runtime)-(\d+)$", name)
    return (m.group(1) or "runtime", int(m.group(2))) if m else (name, 0)


def mon_init_barrier(case):
    out = []
    c = cfg(case)
    gen = 0
    execd, registered, asked = {}, set(), set()
    delivered_in_gen = False
    rt_started, gen_fault, all_reg_step = False, False, None
    hold_cfg, held = set(), set()
    arrived, init_reported, stuck_reported = set(), False, False   # liveness rule, see the end of the loop
    for i, (ws, obs, side) in enumerate(case["steps"]):
        es = entries(obs)
        if ws[0] == "beh":
            (hold_cfg.add if "exec=hold" in ws else hold_cfg.discard)(ws[1])
        if ws[0] == "release":
            held.discard(ws[1])
        if ws[0] in ("reset", "shutdown", "exit", "sleep") or any(e.startswith(("sup exited:", "sup kill", "sup term")) or ".register=403" in e for e in es):
            gen_fault = True        # from here on the initialisation of this generation may legitimately fail
        actor = None
        if ws[0] in ("ext", "int") and len(ws) > 2:
            actor = ws[1]
            if ws[2] == "next":
                asked.add(actor)
        if ws[0] == "rt" and ws[1] == "next":
            asked.add("rt")
        new_execs = [e[9:] for e in es if e.startswith("sup exec:")]
        for n in new_execs:
            base, g = _gen_of(n)
            if g != gen:
                gen = g; execd = {}; registered = set(); asked = set(a for a in asked if False); delivered_in_gen = False
                rt_started, gen_fault, all_reg_step = False, False, None
                held = set()
                arrived, init_reported, stuck_reported = set(), False, False
            if base == "runtime":
                rt_started = True
            elif base in hold_cfg:
                held.add(base)
            if base != "runtime":
                execd[base] = execd.get(base, 0) + 1
                if execd[base] > 1:
                    out.append(f"step {i+1}: extension {base} launched twice in generation {g}")
                if base not in c["exts"]:
                    out.append(f"step {i+1}: {n} launched but {base} is not a regular file in the extensions directory")
        for e in es:
            m = re.match(r"(\S+?)\.register=200", e)
            if m:
                if delivered_in_gen:
                    out.append(f"step {i+1}: registration of {m.group(1)} accepted after the first invocation had been delivered")
                registered.add(m.group(1))
        for n in new_execs:
            base, g = _gen_of(n)
            if base == "runtime":
                missing = [x for x in execd if x not in registered]
                if missing:
                    out.append(f"step {i+1}: runtime started although extension(s) {missing} launched in generation {g} had not registered")
        if all_reg_step is None and not gen_fault and not held and c["exts"] and len(execd) == len(c["exts"]) and all(x in registered for x in execd):
            # the orchestrator has nothing left to wait for: by the time the stack is quiescent the runtime runs
            all_reg_step = i + 1
            if not rt_started:
                out.append(f"step {i+1}: every extension launched in generation {gen} has registered and nothing has failed, yet the runtime was not started")
        deliveries = [e for e in es if re.match(r"\S+?\.next=200,INVOKE", e) or e.startswith("rt.next=200,id#")]
        if deliveries:
            need = set(registered) | {"rt"}
            missing = [x for x in need if x not in asked]
            if missing and not delivered_in_gen:
                out.append(f"step {i+1}: an invocation was delivered ({deliveries[0][:40]}) before {missing} had asked for their next event")
            delivered_in_gen = True
        # "if all parties do arrive initialisation completes, whatever the arrival order": a first-event
        # request that was not refused is an arrival; once the runtime and every registered extension of
        # this generation have arrived and nothing has failed or been reported, the quiescent stack must
        # have finished the init (its report line is out)
        if any(e.startswith("ev initReport:") for e in es):
            init_reported = True
        if any(re.search(r"\.(initerror|exiterror|restoreerror)=2", e) for e in es):
            gen_fault = True
        if actor and ws[2] == "next" and actor in registered and not any(e.startswith(actor + ".next=4") for e in es):
            arrived.add(actor)
        if ws[0] == "rt" and ws[1] == "next" and rt_started and not any(e.startswith("rt.next=4") for e in es):
            arrived.add("rt")
        if (c.get("snapshot", "0") == "0" and rt_started and not gen_fault and not init_reported and not stuck_reported
                and "rt" in arrived and registered and all(x in registered for x in execd) and all(x in arrived for x in registered)):
            stuck_reported = True
            out.append(f"step {i+1}: the runtime and every registered extension {sorted(registered)} of generation {gen} have asked for their next event and nothing has failed, "
                       f"yet the initialisation has not completed (no init report; blocked: {obs.split('| blocked=')[-1].strip()})")
    return out


def mon_fanout(case):
    out = []
    subs, gen_agents = {}, set()
    cur, per_id, trace_of, rt_responded_step, rt_next_after, ag_next_after = None, {}, {}, {}, {}, {}
    idcaller = {}
    dl = {}
    for i, (ws, obs, side) in enumerate(case["steps"]):
        es = entries(obs)
        for x in side:
            m = re.match(r"deadline (rt|ext \S+) (id#\d+) (\d+)", x)
            if m:
                dl.setdefault(m.group(2), {})[m.group(1)] = int(m.group(3))
        if ws[0] in ("ext", "int") and len(ws) > 3 and ws[2] == "register":
            for e in es:
                if e.startswith(ws[1] + ".register=200"):
                    subs[ws[1]] = ws[3]
        for e in es:
            if e.startswith("sup exec:runtime-"):
                for a in [a for a in subs if a not in cfg(case)["exts"]]:
                    subs.pop(a, None)       # internal extensions live in the runtime process
            if re.match(r"sup exec:extension-", e):
                name = _gen_of(e[9:])[0]
                subs.pop(name, None)
            m = re.match(r"rt\.next=200,(id#\d+),.*ctx=ctx(\d+)", e)
            if m:
                cur = m.group(1); idcaller[cur] = m.group(2)
            m = re.match(r"(\S+?)\.next=200,INVOKE,(id#\d+),arn=(\w+),(\S+)", e)
            if m:
                a, idk, arn, tr = m.groups()
                per_id.setdefault(idk, {}).setdefault(a, 0)
                per_id[idk][a] += 1
                trace_of.setdefault(idk, {})[a] = tr
                if per_id[idk][a] > 1:
                    out.append(f"step {i+1}: extension {a} received the INVOKE event for {idk} twice")
                if "I" not in subs.get(a, ""):
                    out.append(f"step {i+1}: extension {a} is not subscribed to INVOKE but received the event for {idk}")
                if arn != "ok":
                    out.append(f"step {i+1}: wrong function ARN in the INVOKE event of {a}")
            m = re.match(r"caller(\d+) done err=ok", e)
            if m:
                c = m.group(1)
                ids = [k for k, v in idcaller.items() if v == c]
                for idk in ids:
                    for a, ev in subs.items():
                        if "I" in ev and per_id.get(idk, {}).get(a, 0) != 1:
                            out.append(f"step {i+1}: invocation {idk} reported complete but INVOKE-subscribed extension {a} received {per_id.get(idk, {}).get(a, 0)} events for it")
                    for a, tr in trace_of.get(idk, {}).items():
                        want = "trace" + ("" if c == "0" else c)
                        if tr != want:
                            out.append(f"step {i+1}: extension {a} got trace value {tr} for {idk}, the caller sent {want}")
    for idk, d in dl.items():
        if "rt" in d:
            for k, v in d.items():
                if k != "rt" and abs(v - d["rt"]) > 50:
                    out.append(f"deadline of {k} for {idk} differs from the runtime's by {abs(v - d['rt'])} ms")
    return out


def mon_completion_barrier(case):
    """C04: complete only after response, runtime next, and next of every INVOKE-subscribed agent; no overlap."""
    out = []
    subs = {}
    cur, idcaller = None, {}
    got = {}          # agent -> id it currently holds (delivered, has not asked next since)
    rt_holds = None   # id delivered to runtime, not yet responded+next
    rt_responded = False
    open_ids = set()
    finished = set()
    for i, (ws, obs, side) in enumerate(case["steps"]):
        es = entries(obs)
        for e in (case["steps"][i - 1][1].split(" | blocked=")[0].split(" ; ") if i > 0 else []):
            m = re.match(r"caller(\d+) done", e)
            if m:
                finished.add(m.group(1))     # outcomes of EARLIER steps only
        if ws[0] in ("ext", "int") and len(ws) > 2 and ws[2] == "next":
            got.pop(ws[1], None)
        if ws[0] == "rt" and ws[1] == "next" and rt_responded:
            rt_holds = None; rt_responded = False
        if ws[0] in ("ext", "int") and len(ws) > 3 and ws[2] == "register":
            if any(e.startswith(ws[1] + ".register=200") for e in es):
                subs[ws[1]] = ws[3]
        for e in es:
            if re.match(r"sup exec:", e):
                got = {}; rt_holds = None; rt_responded = False
                if e.startswith("sup exec:extension-"):
                    subs.pop(_gen_of(e[9:])[0], None)
                if e.startswith("sup exec:runtime-"):
                    for a in [a for a in subs if a not in cfg(case)["exts"]]:
                        subs.pop(a, None)
        # deliveries in this step
        new_deliveries = []
        for e in es:
            m = re.match(r"rt\.next=200,(id#\d+),.*ctx=ctx(\d+)", e)
            if m:
                new_deliveries.append(m.group(1)); idcaller[m.group(1)] = m.group(2)
            m = re.match(r"(\S+?)\.next=200,INVOKE,(id#\d+)", e)
            if m:
                new_deliveries.append(m.group(2))
        for e in es:
            m = re.match(r"caller(\d+) done err=ok", e)
            if m:
                c = m.group(1)
                for idk in [k for k, v in idcaller.items() if v == c]:
                    if rt_holds == idk:
                        out.append(f"step {i+1}: invocation {idk} reported complete before the runtime had posted its response and asked for next")
                    for a, held in got.items():
                        if held == idk and "I" in subs.get(a, ""):
                            out.append(f"step {i+1}: invocation {idk} reported complete before extension {a} had asked for next")
                    open_ids.discard(idk)
        for idk in new_deliveries:
            if idcaller.get(idk) in finished:
                out.append(f"step {i+1}: {idk} delivered although its caller {idcaller[idk]} had already received an outcome")
            for other in list(open_ids):
                if other != idk:
                    out.append(f"step {i+1}: {idk} delivered while {other} was still in flight")
            if idk in idcaller:
                open_ids.add(idk)
        for e in es:
            m = re.match(r"rt\.next=200,(id#\d+)", e)
            if m:
                rt_holds = m.group(1); rt_responded = False
            if re.match(r"rt\.(response|error)=(202|413)", e):
                rt_responded = True
            m = re.match(r"(\S+?)\.next=200,INVOKE,(id#\d+)", e)
            if m:
                got[m.group(1)] = m.group(2)
            m = re.match(r"caller(\d+) done", e)
            if m:
                for idk in [k for k, v in idcaller.items() if v == m.group(1)]:
                    open_ids.discard(idk)
    return out


# ---------------------------------------------------------------- C05 / C06 / C09

def mon_timeout(case):
    out = []
    c = cfg(case)
    live = {}
    pending_timeout_gen = None
    for i, (ws, obs, side) in enumerate(case["steps"]):
        es = entries(obs)
        new_here = [e[9:] for e in es if e.startswith("sup exec:")]
        for e in es:
            if e.startswith("sup exited:"):
                live.pop(e[11:].rsplit(":", 1)[0], None)
        for x in side:
            m = re.match(r"caller(\d+) done err=InvokeTimeout body=\S+ ms=(\d+)", x)
            if m:
                ms = int(m.group(2))
                bound = c["timeout"] + 2000 + 2000 + 1500
                if ms > bound:
                    out.append(f"step {i+1}: caller {m.group(1)} got the timeout outcome after {ms} ms (> timeout {c['timeout']} + reset allowance 4000 + slack 1500)")
        for e in es:
            if re.match(r"caller\d+ done err=InvokeTimeout", e):
                if live:
                    out.append(f"step {i+1}: timeout outcome given while process(es) {sorted(live)} of the environment were still running")
                pending_timeout_gen = max([_gen_of(n)[1] for n in live] + [0])
        gone_here = {e[11:].rsplit(":", 1)[0] for e in es if e.startswith("sup exited:")}
        for n in new_here:       # processes started in this step belong to what comes after the outcome
            if n not in gone_here:      # … unless they also ended in it (an init that failed at once)
                live[n] = True
    return out


def mon_shutdown(case):
    out = []
    regs = {}
    shutdown_events = {}
    termed = set()
    announced = {}     # extension -> deadline (ms) announced in its SHUTDOWN event
    reset_limit = None # explicit reset: the time it was requested + its budget (the deadline of the whole operation)
    for i, (ws, obs, side) in enumerate(case["steps"]):
        es = entries(obs)
        for x in side:
            m = re.match(r"reset start budget=(\d+) @(\d+)", x)
            if m:
                reset_limit = int(m.group(2)) + int(m.group(1))
            m = re.match(r"deadline ext (\S+) shutdown (\d+)", x)
            if m:
                announced[m.group(1)] = int(m.group(2))
                if reset_limit is not None and int(m.group(2)) > reset_limit + 250:
                    out.append(f"step {i+1}: the SHUTDOWN event of {m.group(1)} announces a deadline {int(m.group(2)) - reset_limit} ms after the deadline of the reset it belongs to")
            m = re.match(r"sup exec:extension-(.*)-\d+ @", x)
            if m:
                announced.pop(m.group(1), None)
            m = re.match(r"sup kill:extension-(.*)-\d+ @(\d+)", x)
            if m and m.group(1) in announced:
                late = int(m.group(2)) - announced.pop(m.group(1))
                if late > 450:
                    out.append(f"step {i+1}: extension {m.group(1)} was still alive at the deadline announced in its SHUTDOWN event and was killed only {late} ms after it")
        if any(e.startswith("reset done") for e in es):
            reset_limit = None
        if ws[0] in ("ext", "int") and len(ws) > 3 and ws[2] == "register":
            if any(e.startswith(ws[1] + ".register=200") for e in es):
                regs[ws[1]] = (ws[0], ws[3])
        for e in es:
            if e.startswith("sup exec:extension-"):
                base = _gen_of(e[9:])[0]
                regs.pop(base, None); shutdown_events.pop(base, None)
            if e.startswith("sup exec:runtime-"):
                for a in [a for a in regs if a not in cfg(case)["exts"]]:
                    regs.pop(a, None)
            if e.startswith("sup term:"):
                termed.add(e[9:])
            m = re.match(r"(\S+?)\.next=200,SHUTDOWN,(\S+)", e)
            if m:
                a = m.group(1)
                shutdown_events[a] = shutdown_events.get(a, 0) + 1
                if shutdown_events[a] > 1:
                    out.append(f"step {i+1}: extension {a} received the SHUTDOWN event twice")
                if "S" not in regs.get(a, ("", ""))[1]:
                    out.append(f"step {i+1}: extension {a} is not subscribed to SHUTDOWN but received the event")
        for e in es:
            if e.startswith("sup kill:runtime-"):
                name = e[9:]
                if regs and name not in termed:
                    out.append(f"step {i+1}: runtime {name} killed without SIGTERM first although extensions are registered")
    return out


def mon_concurrent(case):
    out = []
    outstanding = set()
    for i, (ws, obs, side) in enumerate(case["steps"]):
        es = entries(obs)
        for e in es:      # an outcome logged in the same step may precede the new arrival
            m = re.match(r"caller(\d+) done", e)
            if m and not (ws[0] == "invoke" and m.group(1) == ws[1]):
                outstanding.discard(m.group(1))
        if ws[0] == "invoke":
            c = ws[1]
            refused = any(e.startswith(f"caller{c} done err=AlreadyReserved") for e in es)
            if outstanding and not refused:
                out.append(f"step {i+1}: caller {c} arrived while caller(s) {sorted(outstanding)} were in flight and was not refused at once")
            if not refused:
                outstanding.add(c)
        for e in es:
            m = re.match(r"caller(\d+) done", e)
            if m:
                outstanding.discard(m.group(1))
    return out


def mon_recovery(case):
    """C07/C06: once all parties behave (a generation in which nobody exits, misbehaves or stalls), at most
    one further invocation fails — checked in the weak form: two consecutive failures need a fault in between."""
    return []


# ---------------------------------------------------------------- C15

def mon_events(case):
    out = []
    starts = reports = 0
    inv_start, inv_done_ok = {}, 0
    open_inv = None          # the invocation that has started and has had no runtime-done yet
    rt_asked = False
    responded = False
    asked_after = False
    for i, (ws, obs, side) in enumerate(case["steps"]):
        es = entries(obs)
        if ws[0] == "rt" and ws[1] == "next":
            rt_asked = True
            if responded:
                asked_after = True
        for e in es:
            if e.startswith("sup exec:runtime-"):
                rt_asked = False
            if re.match(r"rt\.(response|error)=(202|413)", e):
                responded = True; asked_after = False
            if e.startswith("rt.next=200,id#"):
                responded = False; asked_after = False
        for e in es:
            if e.startswith("ev initStart:"):
                starts += 1
            if e.startswith("ev initReport:"):
                reports += 1
            m = re.match(r"ev invokeStart:(id#\d+)", e)
            if m:
                inv_start[m.group(1)] = inv_start.get(m.group(1), 0) + 1
                if inv_start[m.group(1)] > 1:
                    out.append(f"step {i+1}: two invoke-start events for {m.group(1)}")
            m = re.match(r"ev initRuntimeDone:(\w+):success", e)
            if m and not rt_asked:
                out.append(f"step {i+1}: init-runtime-done reports success although the runtime never reached its next poll")
            if e.startswith("ev invokeRuntimeDone:success") and not (responded and asked_after):
                out.append(f"step {i+1}: invoke runtime-done reports success although the runtime had not posted its response and returned to next")
        # which invocation each runtime-done is attributed to (the current request id of the events API):
        # it must be the invocation that is open — started, no runtime-done yet. A reset "for timeout/failure"
        # of an emulator with no open invocation is the client's fiction and says nothing.
        for e in es:
            m = re.match(r"ev invokeStart:(id#\d+)", e)
            if m:
                open_inv = m.group(1)
        for x in side:
            m = re.match(r"evreq invokeRuntimeDone (\S+)", x)
            if m:
                rid = m.group(1)
                if open_inv is None:
                    if ws[0] != "reset":
                        out.append(f"step {i+1}: a runtime-done went out under request {rid} although no invocation was open (a second runtime-done, or one without a start)")
                    continue
                if rid != open_inv:
                    out.append(f"step {i+1}: a runtime-done went out under request {rid}, but the invocation it ends is {open_inv}")
                open_inv = None
        if reports > starts:
            out.append(f"step {i+1}: more init-report than init-start events")
    return out


PLATFORM_TYPES = ("Runtime.ExitError", "Extension.Crash", "Extension.ExitError", "Extension.InitError", "Extension.LaunchError",
                  "Sandbox.Failure", "Sandbox.Timeout", "Function.ResponseSizeTooLarge", "Runtime.InvalidResponseModeHeader")


def mon_fault_body(case):
    """C06: a fault that hits an environment which had completed initialisation (the invocation was
    delivered to the runtime) is answered with what the runtime had posted for that invocation, or the
    JSON error naming a platform fault — never an empty body and never an earlier generation's init error."""
    out = []
    idcaller, posted, cur = {}, {}, None
    initerr_this_gen = set()
    for i, (ws, obs, side) in enumerate(case["steps"]):
        es = entries(obs)
        idref = None
        if ws[0] == "rt" and ws[1] in ("response", "error"):
            idref = cur if ws[2] == "cur" else ws[2]
        for e in es:
            if e.startswith("sup exec:runtime-"):
                initerr_this_gen = set()
            if ws[0] == "rt" and ws[1] == "initerror" and e.startswith("rt.initerror=202"):
                initerr_this_gen.add(ws[2])
            m = re.match(r"rt\.next=200,(id#\d+),.*ctx=ctx(\d+)", e)
            if m:
                cur = m.group(1); idcaller[cur] = m.group(2)
            if idref and re.match(r"rt\.(response|error)=(202|413|400,InvalidFunctionResponseMode)", e):
                posted[idref] = True      # (an invalid response mode consumes the reply with an empty error body)
            m = re.match(r"caller(\d+) done err=InvokeDoneFailed body=(\S+)", e)
            if m:
                c, body = m.groups()
                ids = [k for k, v in idcaller.items() if v == c]
                if not ids or any(k in posted for k in ids):
                    continue            # not delivered (fault during init) or the runtime's own reply stands
                if body == "empty":
                    out.append(f"step {i+1}: caller {c}: fault after a completed initialisation answered with an empty body instead of a JSON error naming the fault")
                elif body.startswith("errjson:"):
                    t = body[8:]
                    if t not in PLATFORM_TYPES and t not in initerr_this_gen:
                        out.append(f"step {i+1}: caller {c}: fault answered with error type {t}, which is neither a platform fault type nor reported by the runtime in this generation")
    return out


def mon_restore(case):
    """C18: restore succeeds only after the parked runtime asked for next; credentials only for the token,
    reflecting the latest restore; no key material in a snapshot-mode environment."""
    out = []
    snap = cfg(case).get("snapshot") == "1"
    if not snap:
        return out
    key = "AKIDEXAMPLE"
    polled = False          # runtime is parked in (or has passed) its restore poll
    restore_pending_step = None
    next_after_restore = False
    for i, (ws, obs, side) in enumerate(case["steps"]):
        es = entries(obs)
        bl = blocked(obs)
        for x in side:
            m = re.match(r"envkeys (\S+) AKID=(\d) SECRET=(\d) SESSION=(\d) TOKEN=(\d) URI=(\d)", x)
            if m and m.group(1).startswith("runtime-"):
                if m.group(2) != "0" or m.group(3) != "0" or m.group(4) != "0":
                    out.append(f"step {i+1}: key material placed in the environment of {m.group(1)} in snapshot mode")
                if m.group(5) != "1" or m.group(6) != "1":
                    out.append(f"step {i+1}: credentials token / URI missing from the environment of {m.group(1)}")
        for e in es:
            if e.startswith("sup exec:runtime-"):
                polled = False
        if ws[0] == "rt" and ws[1] == "restorenext":
            polled = "rt.restorenext" in bl
        if ws[0] == "restore":
            restore_pending_step = i
            next_after_restore = False
            was_parked = polled
            if len(ws) > 2:
                newkey = ws[2]
            else:
                newkey = "AKIDRESTORED"
            key = newkey
        if ws[0] == "rt" and ws[1] == "next" and restore_pending_step is not None:
            next_after_restore = True
        for e in es:
            if e.startswith("restore done err=ok") and restore_pending_step is not None:
                if was_parked and not next_after_restore:
                    out.append(f"step {i+1}: restore reported success although the runtime, parked on its restore poll, had not asked for next")
                restore_pending_step = None
                polled = False      # a restore that succeeded: the runtime has left its restore poll (a later restore finds it on `next`)
            elif e.startswith("restore done"):
                restore_pending_step = None
            m = re.match(r"rt\.creds:(\S*)=(\d+)(?:,key=(\S+))?", e)
            if m:
                tok, st, k = m.groups()
                if tok != "good" and st == "200":
                    out.append(f"step {i+1}: credentials served for token '{tok}'")
                if tok == "good" and st == "200" and k != key:
                    out.append(f"step {i+1}: credentials served are {k}, the most recent restore supplied {key}")
    return out


def mon_agent_final(case):
    """C13 (model-free): an accepted init-error or exit-error report is final — in the same sandbox
    generation no later step answers that extension's next or register with 200. (A step is one
    op followed by quiescence; only answers of strictly later steps are judged, so the order inside
    one step does not matter.)"""
    out = []
    final = {}      # name -> (step, kind)
    for i, (ws, obs, side) in enumerate(case["steps"]):
        es = entries(obs)
        if any(e.startswith("ev initStart") or e.startswith("sup exec:runtime-") for e in es):
            final = {}      # new generation: every extension object is new
        for e in es:
            m = re.match(r"(\S+?)\.(next|register)=200", e)
            if m and m.group(1) in final and final[m.group(1)][0] < i:
                st, kind = final[m.group(1)]
                out.append(f"step {i+1}: {e.split(',')[0]} answered with success although the {kind} report of {m.group(1)} was accepted at step {st+1} (the report is final)")
        for e in es:
            m = re.match(r"(\S+?)\.(exiterror|initerror)=202", e)
            if m and m.group(1) not in final:
                final[m.group(1)] = (i, m.group(2))
    return out


def mon_stale_id(case):
    """C13 (model-free): every call after register must carry a KNOWN identifier — a call carrying
    the identifier issued to that name in an earlier sandbox generation (harness mode `oldid`) is
    answered 403 Extension.UnknownExtensionIdentifier, whatever else is going on."""
    out = []
    for i, (ws, obs, side) in enumerate(case["steps"]):
        if ws[0] not in ("ext", "int") or len(ws) < 3:
            continue
        what = None
        if ws[2] == "nextoldid":
            what = "next"
        elif ws[2] in ("initerror", "exiterror") and len(ws) > 4 and ws[4] == "oldid":
            what = ws[2]
        if not what:
            continue
        answered = False
        for e in entries(obs):
            if e.startswith(f"{ws[1]}.{what}="):
                answered = True
                if not e.startswith(f"{ws[1]}.{what}=403,Extension.UnknownExtensionIdentifier"):
                    out.append(f"step {i+1}: {ws[1]}'s {what} carrying the identifier of an earlier generation was answered {e.split('=',1)[1]}, want 403 Extension.UnknownExtensionIdentifier")
        if not answered:
            out.append(f"step {i+1}: {ws[1]}'s {what} carrying the identifier of an earlier generation was not refused at once (the call is left pending: {obs.split('| blocked=')[-1].strip()}), want 403 Extension.UnknownExtensionIdentifier")
    return out


def mon_accept_current(case):
    """C02 (model-free), the positive half of "accepted only for the current id and only the first time":
    the FIRST submission for the invocation the runtime holds — delivered by its latest next, nothing
    submitted for it yet, and nothing having happened since the delivery except calls that were refused
    (stale / unknown ids, wrong states, routing) — is accepted (202, or 413 for an oversized response).
    A refused submission must not have used it up: "no effect on the runtime's protocol state or on
    later invocations"."""
    out = []
    cur, fresh, deadline = None, False, None
    for i, (ws, obs, side) in enumerate(case["steps"]):
        es = entries(obs)
        now = None
        for x in side:
            m = re.search(r"@(\d+)$", x)
            if m:
                now = int(m.group(1))
        # a delivery in this step (judged from the next step on; whatever else this step shows comes after it
        # or with it and is taken as a disturbance below)
        for e in es:
            m = re.match(r"rt\.next=200,(id#\d+),", e)
            if m and m.group(1) != cur:
                cur, fresh, deadline = m.group(1), True, None
        # anything that may legitimately end or disturb the invocation in flight
        if ws[0] in ("sleep", "exit", "reset", "shutdown", "restore", "beh", "release", "invoke", "dinvoke", "ext", "int") and ws[0] not in ("invoke",):
            if ws[0] in ("ext", "int"):
                # extension calls cannot touch the runtime's submission — unless they report an error (fatal for the invocation)
                if len(ws) > 2 and ws[2] in ("initerror", "exiterror") and any(re.search(r"\.(initerror|exiterror)=2", e) for e in es):
                    fresh = False
            else:
                fresh = False
        if any(e.startswith(("sup term", "sup kill", "sup exited", "caller")) or e.startswith("ev invokeRuntimeDone") for e in es):
            fresh = False
        if ws[0] == "rt":
            call = ws[1]
            if call in ("slowresponse", "slowerror") and (ws[2] == "cur" or ws[2] == cur):
                fresh = False        # a submission for the current id is under way
            elif call in ("response", "error") and (ws[2] == "cur" or ws[2] == cur):
                ans = next((e.split("=", 1)[1] for e in es if e.startswith(f"rt.{call}=")), None)
                late = deadline is not None and now is not None and now > deadline - 150
                if fresh and ans is not None and not late and not ans.startswith(("202", "413")) and "mode=" not in " ".join(ws):
                    out.append(f"step {i+1}: the first submission for the invocation in flight ({cur}, delivered by the runtime's latest next, nothing else "
                               f"submitted for it, only refused calls since) was answered {ans} instead of being accepted")
                fresh = False        # accepted, consumed (bad mode header) or judged: one submission per invocation
            elif call in ("initerror", "restoreerror") and any(re.search(r"rt\.(initerror|restoreerror)=2", e) for e in es):
                fresh = False
        for x in side:
            m = re.match(r"deadline rt (id#\d+) (\d+)", x)
            if m and m.group(1) == cur:
                deadline = int(m.group(2))
    return out


def mon_lifecycle(case):
    """C12 / C18 (model-free): a `next` is answered 200 only with an invocation (a request id) — never with
    an empty event because something else released the parked call; and the error type a failed restore
    carries is a sanitised one (Runtime.X / Function.X)."""
    out = []
    for i, (ws, obs, side) in enumerate(case["steps"]):
        for e in entries(obs):
            if e.startswith("rt.next=200,") and not re.match(r"rt\.next=200,id#\d+,", e):
                out.append(f"step {i+1}: the runtime's next was answered 200 without an invocation ({e[:60]}): next blocks until an invocation is available")
            m = re.match(r"restore done err=userError:(.*)$", e)
            if m and not re.fullmatch(r"(Runtime|Function)\.[A-Z][a-zA-Z]+", m.group(1)):
                out.append(f"step {i+1}: the restore failed with the unsanitised error type {m.group(1)!r}")
            m = re.match(r"ev restoreRuntimeDone:error:(.*)$", e)
            if m and not re.fullmatch(r"(Runtime|Function)\.[A-Z][a-zA-Z]+", m.group(1)):
                out.append(f"step {i+1}: the restore runtime-done event carries the unsanitised error type {m.group(1)!r}")
    return out
