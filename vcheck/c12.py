"""C12 — tied through the full-stack harness and the Lean system model (see lean/Rie/Props/C12.lean)."""
from . import stackrun as S
from . import monitors as M

PLAN = [('misuse', 8, 4), ('healthy', 8, 1), ('noext', 8, 1), ('sizes', 2, 1)]
MONITORS = [M.mon_accept_once, M.mon_init_barrier, M.mon_lifecycle, M.mon_accept_current]
THEOREMS = "C12_lifecycle, C12_windows, C12_next_refused_inert, C12_next_repeats, C12_next_blocks_ready, C12_initerror_refused_inert, C12_routes, Tables.gen_rt_matches"
CORPUS = ['C12']


def check(ctx):
    return S.standard_check(ctx, "C12", PLAN, MONITORS, THEOREMS, corpus_dirs=CORPUS)


def replay(ctx, path):
    return S.standard_replay(ctx, "C12", path, MONITORS)
