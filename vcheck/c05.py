"""C05 — tied through the full-stack harness and the Lean system model (see lean/Rie/Props/C05.lean)."""
from . import stackrun as S
from . import monitors as M

PLAN = [('slowbody', 6, 2), ('timeouts', 7, 4), ('shutdown', 5, 2)]
MONITORS = [M.mon_accept_once, M.mon_roundtrip, M.mon_timeout, M.mon_one_outcome, M.mon_completion_barrier]
THEOREMS = "C05_cancel_all, C05_first_cancel_wins, C05_cancel_unblocks, C05_expiry, C05_release_point, C05_fresh_after"
CORPUS = ['C05', 'C08']


def check(ctx):
    return S.standard_check(ctx, "C05", PLAN, MONITORS, THEOREMS, corpus_dirs=CORPUS, e2e=1)


def replay(ctx, path):
    return S.standard_replay(ctx, "C05", path, MONITORS)
