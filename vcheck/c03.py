"""C03 — tied through the full-stack harness and the Lean system model (see lean/Rie/Props/C03.lean)."""
from . import stackrun as S
from . import monitors as M

PLAN = [('healthy', 14, 3), ('noext', 10, 1), ('misuse', 6, 2)]
MONITORS = [M.mon_init_barrier]
THEOREMS = "C03_runtime_after_registered_partial, C03_launch_step, C03_count_is_files, C03_single_arrival, C03_delivery_guard, C03_registration_closed"
CORPUS = ['C03']


def check(ctx):
    return S.standard_check(ctx, "C03", PLAN, MONITORS, THEOREMS, corpus_dirs=CORPUS)


def replay(ctx, path):
    return S.standard_replay(ctx, "C03", path, MONITORS)
