"""C18 — snapshot restore and credentials: tied through the full-stack harness (family `restore`) and the Lean system model."""
from . import stackrun as S
from . import monitors as M

PLAN = [('restore', 10, 5), ('misuse', 5, 1)]
MONITORS = [M.mon_restore, M.mon_one_outcome, M.mon_lifecycle]
THEOREMS = "C18_restore_immediate, C18_restore_waits, C18_success_needs_next, C18_restore_success_iff, C18_timeout, C18_user_error, C18_user_error_result, C18_first_fatal_overrides, C18_credentials, C18_creds_latest"
CORPUS = ['C18']


def check(ctx):
    return S.standard_check(ctx, "C18", PLAN, MONITORS, THEOREMS, corpus_dirs=CORPUS)


def replay(ctx, path):
    return S.standard_replay(ctx, "C18", path, MONITORS)
