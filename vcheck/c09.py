"""C09 — tied through the full-stack harness and the Lean system model (see lean/Rie/Props/C09.lean)."""
from . import stackrun as S
from . import monitors as M

PLAN = [('shutdown', 6, 4), ('timeouts', 5, 2)]
MONITORS = [M.mon_shutdown, M.mon_timeout]
THEOREMS = "C09_no_agents_kill_now, C09_term_first, C09_runtime_kill_needs_deadline, C09_agents_split, C09_not_launched_skipped, C09_returns_after_reaped"
CORPUS = ['C09']


def check(ctx):
    return S.standard_check(ctx, "C09", PLAN, MONITORS, THEOREMS, corpus_dirs=CORPUS)


def replay(ctx, path):
    return S.standard_replay(ctx, "C09", path, MONITORS)
