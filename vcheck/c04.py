"""C04 — tied through the full-stack harness and the Lean system model (see lean/Rie/Props/C04.lean)."""
from . import stackrun as S
from . import monitors as M

PLAN = [('healthy', 16, 4), ('faults', 8, 2)]
MONITORS = [M.mon_fanout, M.mon_completion_barrier]
THEOREMS = "C04_fanout_exact, C04_same_id, C04_unsubscribed_stay_parked, C04_completion_barrier, C04_no_overlap, C04_arrivals"
CORPUS = ['C04']


def check(ctx):
    return S.standard_check(ctx, "C04", PLAN, MONITORS, THEOREMS, corpus_dirs=CORPUS)


def replay(ctx, path):
    return S.standard_replay(ctx, "C04", path, MONITORS)
