"""Shared by C11 (and reused by C03/C04/C05 ties): differential runs of the L0 objects
(gate, flows, managed thread) + an independent property-level oracle for gate traces."""
import os, re, subprocess
from . import common as C


def gate_shadow(lines, init):
    """Independent (model-free) judgement of a gate trace produced by the implementation.
    Returns a list of property-level complaints."""
    count, nw = int(init[0]), int(init[1])
    arrived, canceled, err = 0, False, None
    prev = ["idle"] * nw
    bad = []
    op = None
    for ln in lines:
        if ln.startswith("op "):
            op = ln[3:].split()
        elif ln.startswith("obs ") and op:
            m = re.match(r"ret=(\S+) ws=(.*)$", ln[4:])
            if not m:
                continue
            ret, ws = m.group(1), (m.group(2).split(",") if m.group(2) else [])
            k = op[0]
            was_open_val = (arrived == count and not canceled)
            if k == "setcount":
                n = int(op[1])
                if ret == "ok":
                    if n < arrived: bad.append(f"setcount {n} accepted although {arrived} arrivals were already made")
                    count = n
                elif ret == "integrity":
                    if n >= arrived: bad.append(f"setcount {n} refused although arrived={arrived}")
            elif k == "walk":
                if ret == "ok":
                    if arrived == count: bad.append("arrival beyond the expected count accepted")
                    arrived += 1
                elif ret == "integrity":
                    if arrived != count: bad.append(f"arrival refused although arrived={arrived} != count={count}")
            elif k == "reset":
                if not canceled: arrived = 0
            elif k == "cancel":
                canceled, err = True, (None if op[1] == "nil" else int(op[1]))
            elif k == "clear":
                canceled, err, arrived = False, None, 0
            elif k == "register":
                count = (count + int(op[1])) % 65536
            isopen = (arrived == count) or canceled
            want = ("done:" + ("canceled" if err is None else f"err{err}")) if canceled else "done:ok"
            for i, w in enumerate(ws):
                p = prev[i] if i < len(prev) else "idle"
                if w == "parked" and isopen:
                    bad.append(f"waiter {i} stays blocked although its condition holds (arrived={arrived} count={count} canceled={canceled}) after '{' '.join(op)}'")
                if w.startswith("done:") and not p.startswith("done:"):
                    if not isopen:
                        bad.append(f"waiter {i} returned {w} before its condition held after '{' '.join(op)}'")
                    elif w != want:
                        bad.append(f"waiter {i} returned {w}, expected {want} after '{' '.join(op)}'")
            prev = ws
            op = None
    return bad


def run_driver(ctx, name, args, model, workers, cases_each, extra=None):
    """Run `unitdrv <args>` in `workers` processes with derived seeds; feed traces to the oracle.
    Returns list of (trace_path, mismatch_lines)."""
    cmds, outs = [], []
    for w in range(workers):
        out = os.path.join(ctx.work, f"{name}.{w}.trace")
        st = os.path.join(ctx.work, f"{name}.{w}.stats.json")
        seed = ctx.seed * 1000 + w
        cmds.append([os.path.join(C.BUILD, "unitdrv")] + args + ["-seed", str(seed), "-cases", str(cases_each), "-out", out, "-stats", st]
                    + (extra(w) if extra else []))
        outs.append((out, st))
    res = C.parallel(cmds, timeout=1500)
    results = []
    for (rc, o), (out, st) in zip(res, outs):
        if rc != 0:
            ctx.violation(f"driver-crash:{name}", f"unitdrv {name} exited with status {rc} (a crash inside the real code is itself an observation)",
                          f"correspondence that no longer checks: unitdrv {' '.join(args)}\n\n{o[-4000:]}", found_input=False, tag="crash")
            continue
        summ, mism, raw = ctx.oracle(model, out)
        ctx.add_stats(name, st)
        if summ is None:
            ctx.violation(f"oracle-crash:{model}", f"rie-oracle {model} produced no summary", raw[-2000:], found_input=False, tag="oracle")
            continue
        ctx.cov["correspondence"].append({"driver": name, "model": model, "cases": summ[0], "steps": summ[1], "mismatches": summ[2]})
        results.append((out, mism))
    return results


def shrink_case(ctx, drv_args, model, init, ops, still_bad):
    """delete-one-op shrinking: both sides are re-run on every candidate."""
    def runs(cand):
        p = os.path.join(ctx.work, "shrink.in")
        o = os.path.join(ctx.work, "shrink.out")
        with open(p, "w") as f:
            f.write("case s\ninit " + " ".join(init) + "\n" + "".join("op " + " ".join(x) + "\n" for x in cand))
        rc, _ = C.run([os.path.join(C.BUILD, "unitdrv")] + drv_args + ["-replay", p, "-out", o], timeout=120)
        if rc != 0:
            return False
        summ, mism, _ = ctx.oracle(model, o)
        return still_bad(o, mism)
    cur = list(ops)
    changed = True
    budget = 200
    while changed and budget > 0:
        changed = False
        for i in range(len(cur)):
            budget -= 1
            cand = cur[:i] + cur[i + 1:]
            if cand and runs(cand):
                cur = cand; changed = True
                break
    return cur


def case_of(trace, cid):
    cases = C.parse_trace_cases(trace)
    lines = cases.get(cid, [])
    init = [l for l in lines if l.startswith("init")]
    init = init[0].split()[1:] if init else []
    ops = [l[3:].split() for l in lines if l.startswith("op ")]
    return lines, init, ops
