"""C15 — tied through the full-stack harness and the Lean system model (see lean/Rie/Props/C15.lean)."""
from . import stackrun as S
from . import monitors as M

PLAN = [('healthy', 8, 2), ('faults', 6, 2), ('timeouts', 5, 2), ('shutdown', 4, 1)]
MONITORS = [M.mon_events]
THEOREMS = "C15_init_tail, C15_init_start, C15_success_needs_runtime_next, C15_runtime_done_success"
CORPUS = ['C15']


def check(ctx):
    return S.standard_check(ctx, "C15", PLAN, MONITORS, THEOREMS, corpus_dirs=CORPUS)


def replay(ctx, path):
    return S.standard_replay(ctx, "C15", path, MONITORS)
