"""C07 — tied through the full-stack harness and the Lean system model (see lean/Rie/Props/C07.lean)."""
from . import stackrun as S
from . import monitors as M

PLAN = [('chaos', 7, 5), ('misuse', 6, 1)]
MONITORS = [M.mon_fault_body, M.mon_one_outcome, M.mon_body_set, M.mon_completion_barrier, M.mon_timeout]
THEOREMS = "C07_refusals_do_not_crash, C07_reset_always_possible, C07_reset_cancels_first, C07_platform_bodies, C07_every_schedule_covered"
CORPUS = ['C05', 'C08', 'C07']


def check(ctx):
    return S.standard_check(ctx, "C07", PLAN, MONITORS, THEOREMS, corpus_dirs=CORPUS, e2e=1)


def replay(ctx, path):
    return S.standard_replay(ctx, "C07", path, MONITORS)
