"""C14 — tied through the full-stack harness and the Lean system model (see lean/Rie/Props/C14.lean)."""
from . import stackrun as S
from . import monitors as M

PLAN = [('sizes', 6, 5)]
MONITORS = [M.mon_roundtrip, M.mon_one_outcome, M.mon_body_set]
THEOREMS = "C14_limit, C14_exact, C14_outcomes"
CORPUS = ['C14']


def check(ctx):
    return S.standard_check(ctx, "C14", PLAN, MONITORS, THEOREMS, corpus_dirs=CORPUS, e2e=1)


def replay(ctx, path):
    return S.standard_replay(ctx, "C14", path, MONITORS)
