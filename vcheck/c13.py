"""C13 — tied through the full-stack harness and the Lean system model (see lean/Rie/Props/C13.lean)."""
from . import stackrun as S
from . import monitors as M

PLAN = [('misuse', 8, 3), ('limit', 6, 2), ('healthy', 8, 1)]
MONITORS = [M.mon_init_barrier, M.mon_fanout, M.mon_shutdown, M.mon_agent_final, M.mon_stale_id]
THEOREMS = "C13_events, C13_bad_event_inert, C13_lifecycle_ext, C13_lifecycle_int, C13_reports_final, C13_identifier, C13_refusal_inert, C13_limit_and_closed, Tables.gen_ext_matches, Tables.gen_int_matches"
CORPUS = ['C13']


def regrace(ctx):
    """Concurrent registrations against the real registration service: the limit of ten and the
    uniqueness of names under interleavings finer than the sequential model's moves (sampling)."""
    import os
    from . import common as C
    rounds = 300000 if ctx.tier == "thorough" else 30000
    rep = os.path.join(ctx.work, "regrace.txt")
    rc, out = C.run([os.path.join(C.BUILD, "unitdrv"), "regrace", "-rounds", str(rounds), "-out", rep], timeout=900)
    try:
        lines = open(rep).read().splitlines()
    except OSError:
        lines = []
    summ = next((l for l in lines if l.startswith("summary ")), None)
    if rc != 0 or not summ:
        ctx.violation("C13:regrace-crash", "unitdrv regrace did not finish (a crash inside the registration service is itself an observation)",
                      (out or "")[-2000:], found_input=False, tag="crash")
        return
    wrong = int(summ.split("wrong=")[1])
    ctx.cov["evaluations"] += rounds
    ctx.cov["correspondence"].append({"driver": "unitdrv regrace (real registration service, 8 concurrent registrations at 8/9 agents)", "model": "model-free rule: <= 10 agents, free places not exceeded, one admission per name", "cases": rounds, "mismatches": wrong})
    if wrong:
        ctx.violation("C13:regrace", "concurrent registrations: " + lines[0],
                      "the real registration service admits more extensions than the limit allows under concurrent registrations\n" + "\n".join(lines) +
                      f"\n\nre-run: /verif/.build/unitdrv regrace -rounds {rounds}", found_input=True, tag="race")


def check(ctx):
    return S.standard_check(ctx, "C13", PLAN, MONITORS, THEOREMS, corpus_dirs=CORPUS, extra=regrace)


def replay(ctx, path):
    return S.standard_replay(ctx, "C13", path, MONITORS)
