"""C13 — tied through the full-stack harness and the Lean system model (see lean/Rie/Props/C13.lean)."""
from . import stackrun as S
from . import monitors as M

PLAN = [('misuse', 8, 3), ('limit', 6, 2), ('healthy', 8, 1)]
MONITORS = [M.mon_init_barrier, M.mon_fanout, M.mon_shutdown, M.mon_agent_final, M.mon_stale_id]
THEOREMS = "C13_events, C13_bad_event_inert, C13_lifecycle_ext, C13_lifecycle_int, C13_reports_final, C13_identifier, C13_refusal_inert, C13_limit_and_closed, Tables.gen_ext_matches, Tables.gen_int_matches"
CORPUS = ['C13']


def check(ctx):
    return S.standard_check(ctx, "C13", PLAN, MONITORS, THEOREMS, corpus_dirs=CORPUS)


def replay(ctx, path):
    return S.standard_replay(ctx, "C13", path, MONITORS)
