"""C11 — the barrier primitive behaves as an atomic counting latch."""
import glob, os, re
from . import common as C
from . import l0


def judge_gate_mismatches(ctx, results, drv_args, model, theorem):
    for trace, mism in results:
        for m in mism[:5]:
            mm = re.match(r"MISMATCH case=(\S+) step=(\d+) op=\[(.*?)\] model=\[(.*?)\] impl=\[(.*?)\]", m)
            cid = mm.group(1)
            lines, init, ops = l0.case_of(trace, cid)
            step = int(mm.group(2))
            ops = ops[:step]
            if model == "gate":
                def still_bad(o, mism2):
                    return bool(mism2)
                small = l0.shrink_case(ctx, drv_args, model, init, ops, still_bad)
                # re-run the shrunk case to get its implementation trace and judge it model-free
                p = os.path.join(ctx.work, "final.in"); o = os.path.join(ctx.work, "final.out")
                open(p, "w").write("case s\ninit " + " ".join(init) + "\n" + "".join("op " + " ".join(x) + "\n" for x in small))
                C.run([os.path.join(C.BUILD, "unitdrv")] + drv_args + ["-replay", p, "-out", o])
                flines, _, _ = l0.case_of(o, "s")
                complaints = l0.gate_shadow(flines, init)
                _, mism2, _ = ctx.oracle(model, o)
                sig = "gate:" + " ".join(init) + ":" + ";".join(" ".join(x) for x in small)
                text = (f"correspondence: unitdrv gate vs Lean model Rie.Gate.step (theorems {theorem})\n"
                        f"replay with: ./check C11 --replay <this file>\n\ncase s\ninit {' '.join(init)}\n"
                        + "".join("op " + " ".join(x) + "\n" for x in small)
                        + "\nimplementation trace:\n" + "\n".join(flines) + "\n\nmodel disagreement:\n" + "\n".join(mism2)
                        + "\n\nproperty-level judgement (model-free shadow counters):\n" + ("\n".join(complaints) or "(no property-level complaint: behaviour differs from the model only)"))
                if complaints:
                    ctx.violation(sig, "gate: " + complaints[0], text, found_input=True)
                else:
                    ctx.violation(sig, "gate model and implementation disagree; no property-level failure found on the shrunk sequence", text, found_input=False)
            else:
                sig = f"{model}:{cid}:{mm.group(3)}"
                text = (f"correspondence: unitdrv {' '.join(drv_args)} vs Lean model ({model}); theorems {theorem}\n{m}\n\ncase {cid}\n" + "\n".join(lines))
                # flows/threads: a parked waiter in the impl where the model says done (or vice versa) is the property failing
                mt, it = re.split(r"[ ,]", mm.group(4)), re.split(r"[ ,]", mm.group(5))
                concrete = len(mt) == len(it) and any((a.startswith("done") and b == "parked") or (a == "parked" and b.startswith("done")) or
                                                      (a.startswith("done") and b.startswith("done") and a != b) for a, b in zip(mt, it))
                ctx.violation(sig, f"{model}: waiter outcome differs from the latch semantics (model {mm.group(4)} vs impl {mm.group(5)})", text, found_input=concrete)


def check(ctx):
    thorough = ctx.tier == "thorough"
    ctx.trusted += ["correspondence: verifharness unitdrv gate/flow/thread (quiescent-step differential run on core.NewGate, New*FlowSynchronization, NewManagedThread)",
                    "quiescence detector (runtime.Stack goroutine states)", "Go sync.Mutex/sync.Cond semantics (each gate method = one atomic step)"]
    ctx.assumptions += ["each gateImpl method holds the mutex from entry to exit (atomic step)", "scheduler fairness for 'eventually returns'",
                        "Register never wraps uint16 (hypothesis NoWrap; Register is unused outside tests)"]
    if not ctx.build_go("unitdrv"):
        return ctx.finish()
    ok, out = ctx.lean_obligations("C11")
    if ok or ctx.oracle_available():
        # corpus first
        for f in sorted(glob.glob(os.path.join(C.VERIF, "corpus", "C11", "*.trace"))):
            model = "gate" if "gate" in os.path.basename(f) else ("initflow" if "initflow" in f else "invokeflow")
            args = {"gate": ["gate"], "initflow": ["flow", "-which", "init"], "invokeflow": ["flow", "-which", "invoke"]}[model]
            o = os.path.join(ctx.work, os.path.basename(f) + ".out")
            rc, _ = C.run([os.path.join(C.BUILD, "unitdrv")] + args + ["-replay", f, "-out", o], timeout=300)
            summ, mism, _ = ctx.oracle(model, o)
            if summ:
                ctx.cov["correspondence"].append({"driver": "corpus:" + os.path.basename(f), "model": model, "cases": summ[0], "steps": summ[1], "mismatches": summ[2]})
                ctx.cov["evaluations"] += summ[0]
            judge_gate_mismatches(ctx, [(o, mism)], args, model, "C11_*")
        w = 8
        n = 2500 if thorough else 400
        ex = ["-exhaustive", "5" if thorough else "3"]
        r = l0.run_driver(ctx, "gate", ["gate"], "gate", w, n, extra=lambda k: ex if k == 0 else [])
        judge_gate_mismatches(ctx, r, ["gate"], "gate", "C11_no_lost_wakeup, C11_no_premature, C11_refusals_inert, C11_cancel_sticky")
        r = l0.run_driver(ctx, "initflow", ["flow", "-which", "init"], "initflow", w, n // 2)
        judge_gate_mismatches(ctx, r, ["flow", "-which", "init"], "initflow", "C11_flow_gates_independent, C11_flow_cancel_fanout")
        r = l0.run_driver(ctx, "invokeflow", ["flow", "-which", "invoke"], "invokeflow", w, n // 2)
        judge_gate_mismatches(ctx, r, ["flow", "-which", "invoke"], "invokeflow", "C11_flow_gates_independent, C11_flow_cancel_fanout")
        r = l0.run_driver(ctx, "thread", ["thread"], "thread", 4, n // 2)
        judge_gate_mismatches(ctx, r, ["thread"], "thread", "C11_thread_one_shot")
    return ctx.finish(level="proof",
        rule="Lean: theorems over arbitrary op lists / waiter counts (induction). Tie: seeded op sequences (len<=40, <=4 waiters, all op kinds incl. cancel nil, register) "
             "+ every sequence of a 9-op alphabet up to the exhaustive depth on the real objects, observed at quiescent points and compared step by step with the model; "
             "a case is non-trivial if some waiter was parked or some op was refused; distinct by hash of the canonical trace")


def replay(ctx, path):
    txt = open(path).read()
    m = re.search(r"^case s\ninit .*\n(?:op .*\n)+", txt, re.M)
    if not m or not ctx.build_go("unitdrv"):
        print("nothing to replay"); return 2
    p = os.path.join(ctx.work, "replay.in"); o = os.path.join(ctx.work, "replay.out")
    open(p, "w").write(m.group(0))
    C.run([os.path.join(C.BUILD, "unitdrv"), "gate", "-replay", p, "-out", o])
    lines, init, _ = l0.case_of(o, "s")
    print("\n".join(lines))
    bad = l0.gate_shadow(lines, init)
    print("\n".join(bad) or "no property-level complaint")
    return 1 if bad else 0
