"""C17 — direct-invoke streaming path: stateless parsing, faithful copy, rate bound.

Lean: Rie.Props.C17 (receive / send / bucket models, constants regenerated from the built code).
Tie: harness/cmd/directdrv drives the REAL ReceiveDirectInvoke, SendDirectInvokeResponse, Bucket and
BandwidthLimitingWriter; every trace is replayed on the model by rie-oracle AND judged by the
model-free oracles below (plain statements of the English property on the observed values)."""
import os, re, shutil
from . import common as C

DRV = "directdrv"
TOOLARGE = re.compile(r"toolarge:(\d+):(-?\d+)")


def kv(words, key, default=None):
    for w in words:
        if w.startswith(key + "="):
            return w[len(key) + 1:]
    return default


def gen_consts():
    """constants as regenerated from the built code (Rie/Gen/DirectConsts.lean)"""
    out = {}
    try:
        for m in re.finditer(r"def (\w+) : (?:Int|Nat) := (-?\d+)", open(os.path.join(C.LEAN, "Rie", "Gen", "DirectConsts.lean")).read()):
            out[m.group(1)] = int(m.group(2))
    except OSError:
        pass
    return out


def unhex(s):
    return b"" if s in ("-", "", None) else bytes.fromhex(s)


# ---------------------------------------------------------------- model-free oracles

def judge_recv(lines, consts, table):
    """history independence + defaults + token validation, from the observations alone"""
    bad = []
    op = None
    fresh = last = None
    for ln in lines:
        if ln.startswith("op "):
            op = ln[3:]
        elif ln.startswith("obs ") and op and op.startswith("recv"):
            obs = re.sub(r" g=\S+$", "", ln[4:])
            ws, ow = op.split(), obs.split()
            prev = table.get(op)
            if prev is not None and prev != obs:
                bad.append(f"the same request was answered differently after different histories: [{prev}] vs [{obs}]")
            table.setdefault(op, obs)
            if obs.startswith("ok"):
                for extra in ("accepted-with-token-mismatch", "record-mode-differs-from-variable", "response-headers-differ", "interval="):
                    if extra in obs:
                        bad.append(f"accepted request: {extra}")
                if kv(ws, "id") != kv(ws, "tid") or kv(ws, "tok") != kv(ws, "ttok") or kv(ws, "ver") != kv(ws, "tver"):
                    bad.append("request accepted although invoke id / reservation token / version differ from the reservation")
                if kv(ws, "dl") == "past":
                    bad.append("request accepted after the reservation deadline")
                limit, mode = int(kv(ow, "limit")), kv(ow, "mode")
                if kv(ws, "max") == "-" and "maxPayloadSize" in consts and limit != consts["maxPayloadSize"]:
                    bad.append(f"MaxPayloadSize header absent but limit={limit}, default {consts['maxPayloadSize']}")
                if kv(ws, "mode") == "-" and limit != -1 and mode != "B":
                    bad.append(f"InvokeResponseMode header absent (limit {limit}) but mode={mode}, default Buffered")
                if mode == "S":
                    if kv(ws, "rate") == "-" and "responseBandwidthRate" in consts and kv(ow, "rate") != str(consts["responseBandwidthRate"]):
                        bad.append(f"ResponseBandwidthRate header absent but rate={kv(ow, 'rate')}")
                    if kv(ws, "burst") == "-" and "responseBandwidthBurstSize" in consts and kv(ow, "burst") != str(consts["responseBandwidthBurstSize"]):
                        bad.append(f"ResponseBandwidthBurstSize header absent but burst={kv(ow, 'burst')}")
                    if kv(ow, "cap") != kv(ow, "burst"):
                        bad.append(f"bucket capacity {kv(ow, 'cap')} is not the burst size {kv(ow, 'burst')}")
                    try:
                        if int(kv(ow, "refill")) * 1000 > int(kv(ow, "rate")) * consts.get("defaultRefillIntervalMs", 125) or int(kv(ow, "refill")) <= 0:
                            bad.append(f"refill {kv(ow, 'refill')} per tick exceeds rate {kv(ow, 'rate')} x interval (or is not positive)")
                    except (TypeError, ValueError):
                        bad.append("bucket for an accepted streaming invoke could not be built: " + obs)
            else:
                if "invoke-not-nil" in obs or "error-type-header" in obs or kv(ow, "st") != "400":
                    bad.append("refused request: " + obs)
                e = kv(ow, "err")
                hdr_err = e in ("ErrMalformedCustomerHeaders", "ErrInvalidMaxPayloadSize", "ErrInvalidInvokeResponseMode",
                                "ErrInvalidResponseBandwidthRate", "ErrInvalidResponseBandwidthBurstSize")
                for name, key in (("ErrInvalidMaxPayloadSize", "max"), ("ErrInvalidInvokeResponseMode", "mode"),
                                  ("ErrInvalidResponseBandwidthRate", "rate"), ("ErrInvalidResponseBandwidthBurstSize", "burst")):
                    if e == name and kv(ws, key) == "-":
                        bad.append(f"{e} although the header is absent (the default must apply)")
                if e == "ErrMalformedCustomerHeaders" and kv(ws, "cust") != "bad":
                    bad.append("ErrMalformedCustomerHeaders for absent / well-formed customer headers")
                if not hdr_err:
                    want = ("ErrInvalidInvokeID" if kv(ws, "id") != kv(ws, "tid") else
                            "ErrInvalidReservationToken" if kv(ws, "tok") != kv(ws, "ttok") else
                            "ErrInvalidFunctionVersion" if kv(ws, "ver") != kv(ws, "tver") else
                            "ErrReservationExpired" if kv(ws, "dl") == "past" else None)
                    if e != want:
                        bad.append(f"token validation answered {e}, expected {want or 'acceptance'}")
            op = None
        elif ln.startswith("# fresh "):
            fresh = ln[8:]
        elif ln.startswith("# last "):
            last = ln[7:]
    if fresh is not None and last is not None and fresh != last:
        bad.insert(0, f"parsed record differs between two histories ending in the same request: after the history [{last}], on a fresh state [{fresh}]")
    return bad


def judge_send(lines, init):
    bad = []
    limit, mode = int(kv(init, "limit")), kv(init, "mode")
    restricted = mode == "B" or limit != -1
    cap = kv(init, "cap")
    op = obs = None
    for ln in lines:
        if ln.startswith("op "):
            op = ln[3:].split()
        elif ln.startswith("obs "):
            obs = ln[4:].split()
            if obs == ["hang"]:
                bad.append("the copy did not terminate (SendDirectInvokeResponse did not return)")
        elif ln.startswith("# check ") and op and obs and obs != ["hang"]:
            ck = ln[8:].split()
            paylen, n, eor, rc = int(kv(ck, "paylen")), int(kv(obs, "n")), kv(obs, "eor"), kv(obs, "rc")
            fail = kv(op, "fail") == "1"
            reset = kv(op, "reset") != "-" and mode == "S"
            budget = kv(op, "budget") != "-"
            quiet = not reset and not budget
            what = " ".join(op)
            if kv(ck, "prefix") != "1":
                bad.append(f"forwarded bytes are not a prefix of the payload ({what})")
            if kv(ck, "stalltimeout") == "1":
                bad.append(f"a reset arrived while the runtime's body was stalled, yet the copy stayed parked in Read for 20 s: the reset did not close the runtime's connection, the response was ended only by the harness's watchdog ({what})")
            if restricted and n > limit + 1:
                bad.append(f"{n} bytes forwarded, more than limit+1 = {limit + 1} ({what})")
            if eor not in ("Complete", "Oversized", "Truncated"):
                bad.append(f"End-Of-Response trailer is '{eor}' ({what})")
            if eor == "Complete" and (n != paylen or (restricted and paylen > limit)):
                bad.append(f"trailer Complete but {n} of {paylen} bytes forwarded, limit {limit} ({what})")
            if eor == "Oversized" and not (restricted and paylen > limit and n == limit + 1):
                bad.append(f"trailer Oversized but payload {paylen}, limit {limit}, forwarded {n} ({what})")
            if eor == "Truncated" and not (fail or reset or budget):
                bad.append(f"trailer Truncated without copy error or reset ({what})")
            if quiet:
                if restricted and paylen > limit and eor != "Oversized":
                    bad.append(f"payload {paylen} longer than the limit {limit} but trailer {eor} ({what})")
                if (not restricted or paylen <= limit) and fail and eor != "Truncated":
                    bad.append(f"copy error within the limit but trailer {eor} ({what})")
                if (not restricted or paylen <= limit) and not fail and (eor != "Complete" or n != paylen):
                    bad.append(f"payload {paylen} within the limit {limit}, no error, but trailer {eor} with {n} bytes ({what})")
            if budget and int(kv(op, "budget")) < min(paylen, limit + 1 if restricted else paylen) and not reset and eor == "Complete":
                bad.append(f"connection broke before the payload was through but trailer Complete ({what})")
            m = TOOLARGE.match(rc or "")
            if (eor == "Oversized") != bool(m) or (eor == "Truncated") != (rc == "truncated") or (eor == "Complete") != (rc == "none"):
                bad.append(f"returned error {rc} does not match trailer {eor} ({what})")
            if mode == "S" and cap not in ("-", "err", None) and int(kv(ck, "maxwrite")) > int(cap):
                bad.append(f"a write of {kv(ck, 'maxwrite')} bytes exceeds the bucket capacity {cap} ({what})")
            op = obs = None
    return bad


def judge_bucket(lines, init):
    """every window of the schedule: bytes admitted <= capacity + ticks*refill; refills and
    admissions happen when they must (progress)"""
    bad = []
    cap, tokens, refill = (int(x) for x in init[:3])
    f = fmin = 0            # f = consumed - ticks*refill, fmin = its minimum so far
    op = None
    for ln in lines:
        if ln.startswith("op "):
            op = ln[3:].split()
        elif ln.startswith("obs ") and op:
            ow = ln[4:].split()
            t2 = int(kv(ow, "tokens"))
            if op[0] == "tick":
                f -= refill
                if t2 < min(tokens + refill, cap) and tokens <= cap:
                    bad.append(f"tick: tokens {tokens} -> {t2}, expected at least min({tokens}+{refill}, {cap})")
            else:
                n = int(op[1])
                ok = kv(ow, "ok") == "1"
                if ok:
                    f += n
                    if t2 != tokens - n:
                        bad.append(f"consume {n} admitted but tokens {tokens} -> {t2}")
                elif n <= tokens:
                    bad.append(f"consume {n} refused although {tokens} tokens were available")
            if t2 > cap:
                bad.append(f"{t2} tokens in the bucket after '{' '.join(op)}': a burst above the burst size {cap} would be admitted at once")
            fmin = min(fmin, f)
            if f - fmin > cap:
                bad.append(f"a window of the schedule admitted {f - fmin} bytes more than ticks*refill, above the capacity {cap} (after '{' '.join(op)}')")
            tokens = t2
            op = None
    return bad


def judge_shape(lines, init):
    bad = []
    rate, burst = int(init[0]), int(init[1])
    cap = refill = None
    t = 0                   # absolute tick index
    events = []             # (tick index, size) of every write that reached the sink
    op = None
    pending = None
    for ln in lines:
        if ln.startswith("op "):
            op = ln[3:].split()
        elif ln.startswith("obs ") and op:
            ow = ln[4:].split()
            if ow == ["hang"]:
                bad.append(f"copy not finished: the writer neither returned nor waited for a tick ({' '.join(op)})")
            elif op[0] == "params":
                cap, refill = int(kv(ow, "cap")), int(kv(ow, "refill"))
                if cap != burst:
                    bad.append(f"bucket capacity {cap} != burst {burst}")
                if refill * 1000 > rate * 125 or refill <= 0:
                    bad.append(f"refill {refill} per 125 ms tick exceeds rate {rate}")
            elif op[0] == "idle":
                t += int(op[1])
            elif op[0] == "write":
                n = int(op[1])
                sizes = [int(x) for x in kv(ow, "sizes", "").split(",") if x]
                waits = [int(x) for x in kv(ow, "waits", "").split(",") if x]
                if kv(ow, "ret") != str(n) or sum(sizes) != n:
                    bad.append(f"write {n}: returned {kv(ow, 'ret')}, {sum(sizes)} bytes reached the connection")
                if cap is not None and any(s > cap for s in sizes):
                    bad.append(f"write {n}: a piece larger than the capacity {cap}")
                pending = (n, sizes, waits)
                for s, w in zip(sizes, waits):
                    t += w
                    events.append((t, s))
            op = None
        elif ln.startswith("# shape ") and pending and refill:
            ws = ln[8:].split()
            before = int(kv(ws, "tokens_before"))
            after = [int(x) for x in kv(ws, "after_each", "").split(",") if x]
            n, sizes, waits = pending
            for i, (s, w) in enumerate(zip(sizes, waits)):
                bound = -(-max(0, s - before) // refill)
                if w > bound:
                    bad.append(f"copy not finished within the tick bound: piece of {s} bytes with {before} tokens waited {w} ticks, bound {bound}")
                if i < len(after):
                    before = after[i]
            pending = None
    if cap is not None and refill:
        # every window [i, j] of writes: bytes <= capacity + (ticks elapsed)*refill
        best = None         # max over i<=j of (prefix bytes before i) - t_i*refill
        pre = 0
        for (ti, s) in events:
            cand = -pre + ti * refill          # minimise (pre_i - t_i*refill) => track max of negative
            best = cand if best is None else max(best, cand)
            pre += s
            if pre - ti * refill + best > cap:
                bad.append(f"cumulative bytes exceed burst + ticks*refill in some window ending at tick {ti}: excess {pre - ti * refill + best - cap}")
                break
    return bad


def judge_wall(lines):
    bad = []
    for ln in lines:
        if ln.startswith("# wall "):
            ws = ln[7:].split()
            rate = int(kv(ws, "rate"))
            ex = int(kv(ws, "worst_excess"))
            if ex > rate // 200:      # 5 ms of clock slack
                bad.append(f"bytes written by some time t exceed burst + rate*t by {ex} ({ln[2:]})")
            if kv(ws, "n") != kv(ws, "paylen") or kv(ws, "eor") != "Complete":
                bad.append(f"streamed response incomplete ({ln[2:]})")
            if int(kv(ws, "dur_ms")) > (int(kv(ws, "tick_budget")) + 2) * 125 * 3 + 3000:
                bad.append(f"copy not finished within the tick bound ({ln[2:]})")
    return bad


def judge_http(lines):
    """What the CALLER of a direct invoke received over a real HTTP round trip: the bytes are a
    prefix of the response, cut one byte past the limit exactly when it is longer than the limit,
    and the End-Of-Response trailer (as delivered by net/http, i.e. announced AND written) says
    Complete / Oversized / Truncated accordingly."""
    bad = []
    for ln in lines:
        if not ln.startswith("# http "):
            continue
        ws = ln[7:].split()
        res = ws[ws.index("->") + 1:]
        if res and res[0].startswith("clienterr="):
            bad.append(f"the HTTP round trip failed ({ln[2:]})"); continue
        mx = bytes.fromhex(kv(ws, "max")).decode() if kv(ws, "max") != "-" else ""
        limit = int(kv(ws, "defaultlimit")) if mx == "" else int(mx)
        paylen, fail = int(kv(ws, "paylen")), kv(ws, "fail") == "1"
        n, eor = int(kv(res, "n")), kv(res, "eor")
        if kv(res, "st") != "200" or kv(res, "prefix") != "1":
            bad.append(f"caller did not receive a prefix of the response bytes with status 200 ({ln[2:]})"); continue
        if limit >= 0 and paylen > limit:
            want, wn = "Oversized", limit + 1
        elif fail:
            want, wn = "Truncated", paylen
        else:
            want, wn = "Complete", paylen
        if eor != want:
            bad.append(f"response of {paylen} bytes (limit {limit if limit >= 0 else 'none'}, copy error: {fail}) must be classified {want} in the End-Of-Response trailer, the caller received trailer {eor!r} ({ln[2:]})")
        elif n != wn:
            bad.append(f"caller received {n} bytes, want {wn} ({ln[2:]})")
    return bad


# ---------------------------------------------------------------- running

FAMILIES = {
    # name: (driver sub-command, oracle model or None, theorem names)
    "recv": ("recv", "direcv", "C17_stateless, C17_stateless_history, C17_token_checks, C17_defaults, C17_ranges"),
    "send": ("send", "disend", "C17_forward_exact, C17_forward_prefix, C17_classify, C17_chunks"),
    "sendbig": ("send", None, "C17_forward_exact, C17_classify (default limit; model-free only)"),
    "bucket": ("bucket", "bucket", "C17_rate_bound, C17_rate_window, C17_progress"),
    "shape": ("shape", "dishape", "C17_rate_window, C17_progress, C17_copy_terminates, C17_chunks"),
    "wall": ("wall", None, "C17_rate_time (one-sided, wall clock)"),
    "http": ("http", None, "C17_classify (as received by a real HTTP client; model-free)"),
}


def judge_case(fam, lines, consts, table):
    init = next((l for l in lines if l.startswith("init")), "init").split()[1:]
    if fam == "recv":
        return judge_recv(lines, consts, table)
    if fam in ("send", "sendbig"):
        return judge_send(lines, init)
    if fam == "bucket":
        return judge_bucket(lines, init)
    if fam == "shape":
        return judge_shape(lines, init)
    if fam == "http":
        return judge_http(lines)
    return judge_wall(lines)


def replay_text(fam, cid, lines, complaints, mism=None, note=""):
    sub, model, thms = FAMILIES[fam]
    body = "\n".join(l for l in lines if l.startswith(("init", "op ")))
    return (f"family={fam}\ncorrespondence: directdrv {sub} (real go.amzn.com code) vs Lean model {model or '-'}; theorems {thms}\n"
            f"replay with: ./check C17 --replay <this file>\n{note}\n"
            f"case {cid}\n{body}\n\nimplementation trace:\n" + "\n".join(lines) +
            ("\n\nmodel disagreement:\n" + mism if mism else "") +
            "\n\nproperty-level judgement (model-free):\n" + ("\n".join(complaints) or "(no property-level complaint: behaviour differs from the model only)"))


def rerun(ctx, fam, init_line, ops, tag):
    """run one case through the driver again; return its trace lines"""
    sub = FAMILIES[fam][0]
    p = os.path.join(ctx.work, f"{tag}.in")
    o = os.path.join(ctx.work, f"{tag}.out")
    with open(p, "w") as f:
        f.write("case s\n" + init_line + "\n" + "".join("op " + x + "\n" for x in ops))
    rc, _ = C.run([os.path.join(C.BUILD, DRV), sub, "-replay", p, "-out", o], timeout=300)
    if rc != 0:
        return None, o
    return C.parse_trace_cases(o).get("s", []), o


def shrink(ctx, fam, init_line, ops, consts, need_complaint):
    """delete-one-op shrinking on the real code; a candidate is kept while it is still judged bad
    (model-free) or — when the original had no property-level complaint — still disagrees with the model"""
    model = FAMILIES[fam][1]
    def still_bad(cand):
        lines, o = rerun(ctx, fam, init_line, cand, "shrink")
        if lines is None:
            return False
        if judge_case(fam, lines, consts, {}):
            return True
        if need_complaint:
            return False
        if model:
            _, mism, _ = ctx.oracle(model, o)
            return bool(mism)
        return False
    cur = list(ops)
    budget = 60
    changed = True
    while changed and budget > 0 and len(cur) > 1:
        changed = False
        for i in range(len(cur)):
            budget -= 1
            cand = cur[:i] + cur[i + 1:]
            if cand and still_bad(cand):
                cur, changed = cand, True
                break
            if budget <= 0:
                break
    return cur


def report(ctx, fam, cid, lines, consts, mism_line=None):
    init_line = next((l for l in lines if l.startswith("init")), "init")
    ops = [l[3:] for l in lines if l.startswith("op ")]
    orig_bad = bool(judge_case(fam, lines, consts, {}))
    if mism_line and not orig_bad:
        m = re.search(r"step=(\d+)", mism_line)
        if m and int(m.group(1)) > 0:
            ops = ops[:int(m.group(1))]
    if fam in ("recv", "bucket", "shape", "send") and len(ops) > 1:
        ops = shrink(ctx, fam, init_line, ops, consts, orig_bad)
    flines, o = rerun(ctx, fam, init_line, ops, "final") if fam not in ("wall", "http") else (lines, None)
    if flines is None:
        flines = lines
    complaints = judge_case(fam, flines, consts, {})
    mm = ""
    model = FAMILIES[fam][1]
    if model and o:
        _, mism2, _ = ctx.oracle(model, o)
        mm = "\n".join(mism2)
    if not complaints and not mm:
        # not reproducible on the shrunk case: fall back to the original lines
        flines = lines
        complaints = judge_case(fam, flines, consts, {})
        mm = mism_line or ""
        ops = [l[3:] for l in lines if l.startswith("op ")]
    sig = f"{fam}:{init_line[5:]}:" + ";".join(ops)
    if fam == "wall":
        wl = next((l for l in flines if l.startswith("# wall ")), "").split()
        sig = f"wall:rate={kv(wl, 'rate')} burst={kv(wl, 'burst')} paylen={kv(wl, 'paylen')}"
    if fam == "http":
        wl = next((l for l in flines if l.startswith("# http ")), "").split()
        sig = f"http:mode={kv(wl, 'mode')} max={kv(wl, 'max')} paylen={kv(wl, 'paylen')} fail={kv(wl, 'fail')} frm={kv(wl, 'frm')}"
    if len(sig) > 400:
        import hashlib
        sig = sig[:360] + "#" + hashlib.sha1(sig.encode()).hexdigest()[:12]
    text = replay_text(fam, "s", flines, complaints, mm)
    if complaints:
        ctx.violation(sig, f"{fam}: {complaints[0]}", text, found_input=True)
    else:
        ctx.violation(sig, f"{fam}: model and implementation disagree; no property-level failure on this input", text, found_input=False)


def plan(tier, seed):
    """(family, workers, cases each, extra args)"""
    if tier == "thorough":
        return [("recv", 8, 30000, []), ("send", 16, 1100, []), ("sendbig", 2, 12, ["-big"]), ("bucket", 4, 30000, []),
                ("shape", 16, 500, []), ("wall", 8, 5, []), ("http", 4, 400, [])]
    return [("recv", 4, 4000, []), ("send", 8, 180, []), ("sendbig", 1, 5, ["-big"]), ("bucket", 2, 4000, []),
            ("shape", 8, 60, []), ("wall", 3, 2, []), ("http", 2, 60, [])]


def check(ctx):
    ctx.trusted += ["correspondence: verifharness directdrv (real ReceiveDirectInvoke / SendDirectInvokeResponse / Bucket / BandwidthLimitingWriter, differential vs rie-oracle + model-free oracles)",
                    "Go: net/http header access, strconv.ParseInt, strings.EqualFold, io.Copy / io.LimitReader (buffer 32 KiB), encoding/json + base64 for Customer-Headers",
                    "lambda/core/bandwidthlimiter/verif_export.go (build tag verif): accessors + manual tick source repeating the 3-line body of the ticker goroutine",
                    "goroutine-state detector (runtime.Stack) for 'writer parked on the tick channel' / 'sender waiting for the copy'"]
    ctx.assumptions += ["requests are handled one after the other (the package variables are not synchronised; overlapping direct invokes are outside the property)",
                        "time = number of ticker events (one produceTokens per 125 ms tick); real-time jitter of time.Ticker is observed one-sidedly only",
                        "a reader returns a read error from a Read of its own (not together with data)",
                        "the reservation deadline is compared with a clock reading taken by the code; the boundary now == deadline is not driven"]
    if not ctx.build_go(DRV):
        return ctx.finish()
    # (T) constants regenerated from the built code, then the Lean obligations
    rc, out = C.run([os.path.join(C.BUILD, DRV), "consts", "-dir", os.path.join(C.LEAN, "Rie", "Gen")], timeout=60)
    if rc != 0:
        ctx.violation("consts", "directdrv consts failed (constants of the direct-invoke path could not be regenerated)", out[-2000:], found_input=False, tag="build")
        return ctx.finish()
    consts = gen_consts()
    ok, out = ctx.lean_obligations("C17")
    if not ok and not ctx.oracle_available():
        return ctx.finish(level="proof", rule="obligations failed and the executable model does not build; no correspondence run")
    # corpus
    cmds, meta = [], []
    for fam, workers, n, extra in plan(ctx.tier, ctx.seed):
        sub = FAMILIES[fam][0]
        for w in range(workers):
            out_p = os.path.join(ctx.work, f"{fam}.{w}.trace")
            st_p = os.path.join(ctx.work, f"{fam}.{w}.stats.json")
            cmds.append([os.path.join(C.BUILD, DRV), sub, "-seed", str(ctx.seed * 1000 + w), "-cases", str(n), "-out", out_p, "-stats", st_p, "-tier", ctx.tier] + extra)
            meta.append((fam, out_p, st_p))
    import glob
    for f in sorted(glob.glob(os.path.join(C.VERIF, "corpus", "C17", "*.trace"))):
        fam = os.path.basename(f).split(".")[0].split("-")[0]
        if fam in FAMILIES:
            out_p = os.path.join(ctx.work, "corpus." + os.path.basename(f))
            cmds.append([os.path.join(C.BUILD, DRV), FAMILIES[fam][0], "-replay", f, "-out", out_p, "-stats", out_p + ".json"])
            meta.append((fam, out_p, out_p + ".json"))
    res = C.parallel(cmds, timeout=1500)
    # oracle runs in parallel as well
    ocmds, ometa = [], []
    for (rc, o), (fam, out_p, st_p) in zip(res, meta):
        if rc != 0:
            ctx.violation(f"driver-crash:{fam}", f"directdrv {fam} exited with status {rc} (a crash inside the real code is itself an observation)",
                          f"correspondence that no longer checks: directdrv {FAMILIES[fam][0]}\n\n{o[-4000:]}", found_input=False, tag="crash")
            continue
        ctx.add_stats(fam, st_p)
        model = FAMILIES[fam][1]
        if model:
            # output goes to a file: C.parallel reads the pipe only after exit, and a broken build produces many MISMATCH lines
            ocmds.append(["sh", "-c", f"'{C.ORACLE}' {model} < '{out_p}' > '{out_p}.oracle' 2>&1"])
            ometa.append((fam, out_p, model))
    ores = C.parallel(ocmds, timeout=1500)
    mism_by_trace = {}
    for (rc, o), (fam, out_p, model) in zip(ores, ometa):
        try:
            o = open(out_p + ".oracle", errors="replace").read()
        except OSError:
            o = ""
        m = re.search(r"SUMMARY cases=(\d+) steps=(\d+) mismatches=(\d+)", o or "")
        if not m:
            ctx.violation(f"oracle-crash:{model}", f"rie-oracle {model} produced no summary", (o or "")[-2000:], found_input=False, tag="oracle")
            continue
        ctx.cov["correspondence"].append({"driver": fam, "model": model, "cases": int(m.group(1)), "steps": int(m.group(2)), "mismatches": int(m.group(3))})
        mism_by_trace[out_p] = [l for l in o.splitlines() if l.startswith("MISMATCH")]
    # judge everything model-free; report mismatches
    table = {}
    with_complaint, only_mismatch = [], []
    for (rc, o), (fam, out_p, st_p) in zip(res, meta):
        if rc != 0:
            continue
        cases = C.parse_trace_cases(out_p)
        mism = {}
        for l in mism_by_trace.get(out_p, []):
            mm = re.match(r"MISMATCH case=(\S+)", l)
            if mm:
                mism.setdefault(mm.group(1), l)
        per_fam = 0
        for cid, lines in cases.items():
            complaints = judge_case(fam, lines, consts, table if fam == "recv" else {})
            if complaints and per_fam < 2:
                per_fam += 1
                with_complaint.append((fam, cid, lines, mism.get(cid)))
            elif cid in mism and len(only_mismatch) < 40:
                only_mismatch.append((fam, cid, lines, mism.get(cid)))
    # property-level failures first (shortest histories first), then pure model disagreements
    with_complaint.sort(key=lambda x: len(x[2]))
    seen_fam = {}
    for fam, cid, lines, ml in with_complaint:
        if seen_fam.get(fam, 0) < 2 and len(ctx.violations) < 6:
            seen_fam[fam] = seen_fam.get(fam, 0) + 1
            report(ctx, fam, cid, lines, consts, ml)
    seen_fam = {}
    for fam, cid, lines, ml in only_mismatch:
        if seen_fam.get(fam, 0) < 1 and len(ctx.violations) < 6:
            seen_fam[fam] = seen_fam.get(fam, 0) + 1
            report(ctx, fam, cid, lines, consts, ml)
    return ctx.finish(level="proof",
        rule="Lean: theorems over all globals/requests/tokens, all payloads, chunkings, reset points and connection budgets, all bucket parameters and schedules (induction). "
             "Tie: seeded request SEQUENCES (1-6 requests, junk written into the package variables in between, each optional header absent / valid / boundary / malformed, "
             "token fields matching or not) with the last request replayed on fresh state; payload sizes limit-2..limit+3, 0, random, 2*limit for limits 0..100000 and -1 "
             "with reader chunkings 1..70000, read errors, broken connection after any byte count, resets at every read boundary, both streaming paths; the real bucket under "
             "random tick/consume schedules (allowed ranges and tiny parameters); the real BandwidthLimitingWriter under a virtual tick source; a few wall-clock runs. "
             "A case is non-trivial if it has >1 request / a non-Complete trailer / a refused consume / a waiting write; distinct by hash of the canonical trace",
        explanation="constants (defaults, ranges, refill interval, mode strings, initial values of the package variables) are regenerated from the built code into Rie/Gen/DirectConsts.lean before the obligations are built")


def replay(ctx, path):
    txt = open(path).read()
    m = re.search(r"^family=(\w+)", txt, re.M)
    c = re.search(r"^case s\n(init.*)\n((?:op .*\n)+)", txt, re.M)
    if not m or not c or m.group(1) not in FAMILIES or not ctx.build_go(DRV):
        print("nothing to replay"); return 2
    fam = m.group(1)
    ops = [l[3:] for l in c.group(2).splitlines()]
    lines, o = rerun(ctx, fam, c.group(1), ops, "replay")
    if lines is None:
        print("driver failed"); return 2
    print("\n".join(lines))
    bad = judge_case(fam, lines, gen_consts(), {})
    model = FAMILIES[fam][1]
    if model:
        _, mism, _ = ctx.oracle(model, o)
        print("\n".join(mism) or "model agrees")
    print("\n".join(bad) or "no property-level complaint")
    return 1 if bad else 0
