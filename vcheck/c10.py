"""C10 — tied through the full-stack harness and the Lean system model (see lean/Rie/Props/C10.lean)."""
from . import stackrun as S
from . import monitors as M

PLAN = [('concurrent', 12, 4), ('chaos', 5, 2)]
MONITORS = [M.mon_concurrent, M.mon_one_outcome]
THEOREMS = "C10_second_refused_inert, C10_second_refused_core, C10_admitted_only_when_free, C10_refusal_no_crash, C10_one_in_flight_run"
CORPUS = ['C10']


def check(ctx):
    return S.standard_check(ctx, "C10", PLAN, MONITORS, THEOREMS, corpus_dirs=CORPUS, e2e=2)


def replay(ctx, path):
    return S.standard_replay(ctx, "C10", path, MONITORS)
