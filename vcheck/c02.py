"""C02 — tied through the full-stack harness and the Lean system model (see lean/Rie/Props/C02.lean)."""
from . import stackrun as S
from . import monitors as M

PLAN = [('slowbody', 6, 2), ('misuse', 8, 3), ('faults', 10, 2), ('healthy', 8, 1)]
MONITORS = [M.mon_accept_once, M.mon_roundtrip, M.mon_refusal_inert, M.mon_direct, M.mon_one_outcome, M.mon_accept_current]
THEOREMS = "C02_wrong_id_inert, C02_second_submission_inert, C02_accept_only_current, C02_refusal_inert_counterexample, C02_unissued_id_refused_run, C02_older_ids_refused_run"
CORPUS = ['C02']


def check(ctx):
    return S.standard_check(ctx, "C02", PLAN, MONITORS, THEOREMS, corpus_dirs=CORPUS)


def replay(ctx, path):
    return S.standard_replay(ctx, "C02", path, MONITORS)
