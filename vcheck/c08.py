"""C08 — tied through the full-stack harness and the Lean system model (see lean/Rie/Props/C08.lean)."""
from . import stackrun as S
from . import monitors as M

PLAN = [('faults', 8, 3), ('timeouts', 6, 2), ('shutdown', 5, 1)]
MONITORS = [M.mon_fault_body, M.mon_init_barrier, M.mon_fanout, M.mon_completion_barrier, M.mon_one_outcome, M.mon_stale_id]
THEOREMS = "C08_reset_fresh, C08_early_arrival_counted, C08_no_pending_init_failure"
CORPUS = ['C05', 'C08', 'C13', 'C15']


def check(ctx):
    return S.standard_check(ctx, "C08", PLAN, MONITORS, THEOREMS, corpus_dirs=CORPUS)


def replay(ctx, path):
    return S.standard_replay(ctx, "C08", path, MONITORS)
