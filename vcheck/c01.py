"""C01 — tied through the full-stack harness and the Lean system model (see lean/Rie/Props/C01.lean)."""
from . import stackrun as S
from . import monitors as M

PLAN = [('healthy', 14, 3), ('noext', 16, 1), ('sizes', 5, 2)]
MONITORS = [M.mon_one_outcome, M.mon_roundtrip, M.mon_body_set]
THEOREMS = "C01_request_exact, C01_fresh_id, C01_reply_targets_reservation, C01_reply_once, C01_renderer_is_current, C01_fresh_id_run, C01_ids_increase_run"
CORPUS = ['C01']


def check(ctx):
    return S.standard_check(ctx, "C01", PLAN, MONITORS, THEOREMS, corpus_dirs=CORPUS, e2e=2)


def replay(ctx, path):
    return S.standard_replay(ctx, "C01", path, MONITORS)
