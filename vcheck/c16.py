"""C16 — process environment: reserved values win, extensions get a filtered view."""
import concurrent.futures, glob, os, re
from . import common as C

DRV = "envdrv"

# ---------------------------------------------------------------------------------------------
# Property-level oracle. It does NOT use the Lean model and does not read the key sets of the
# code: the names below are the documented reserved names (Lambda developer guide, "Defined
# runtime environment variables") and the property's own words.
# ---------------------------------------------------------------------------------------------
CRED = [b"AWS_ACCESS_KEY_ID", b"AWS_SECRET_ACCESS_KEY", b"AWS_SESSION_TOKEN"]
CACHING_URI, CACHING_TOKEN = b"AWS_CONTAINER_CREDENTIALS_FULL_URI", b"AWS_CONTAINER_AUTHORIZATION_TOKEN"
HANDLER, FN, FV, API = b"_HANDLER", b"AWS_LAMBDA_FUNCTION_NAME", b"AWS_LAMBDA_FUNCTION_VERSION", b"AWS_LAMBDA_RUNTIME_API"
PLATFORM_DOC = {b"AWS_REGION", b"AWS_DEFAULT_REGION", FN, FV, b"AWS_LAMBDA_FUNCTION_MEMORY_SIZE", API, b"TZ"}
RUNTIME_DOC = {HANDLER, b"AWS_EXECUTION_ENV", b"AWS_LAMBDA_LOG_GROUP_NAME", b"AWS_LAMBDA_LOG_STREAM_NAME",
               b"LAMBDA_TASK_ROOT", b"LAMBDA_RUNTIME_DIR"}
UNRESERVED_DOC = {b"AWS_XRAY_DAEMON_ADDRESS"}
RESERVED_DOC = PLATFORM_DOC | RUNTIME_DOC | UNRESERVED_DOC | set(CRED) | {CACHING_URI, CACHING_TOKEN}
XRAY_EXCLUSIONS = {b"AWS_XRAY_CONTEXT_MISSING", b"_AWS_XRAY_DAEMON_ADDRESS", b"_AWS_XRAY_DAEMON_PORT", b"_LAMBDA_TELEMETRY_LOG_FD"}


def unhx(tok):
    return bytes.fromhex(tok[1:])


def parse_pairs(txt):
    m = {}
    if txt in ("", "-"):
        return m
    for e in txt.split(","):
        k, v = e.split(":")
        m[bytes.fromhex(k)] = bytes.fromhex(v)
    return m


def q(b):
    return repr(b)[1:]


def judge_env_case(lines):
    """lines of one `envdrv run` case (implementation trace). Returns [(kind, key, text)]."""
    bad = []
    cust, creds = {}, {}
    api = handler = fn = fv = None
    op = None
    proc = {}
    for ln in lines:
        if ln.startswith("init "):
            proc = parse_pairs(ln[5:].strip()[1:])
        elif ln.startswith("obs cust=") and op == ["custenv"]:
            got = parse_pairs(ln[9:])
            for k, v in proc.items():
                if k not in RESERVED_DOC and not k.startswith(b"_") and got.get(k) != v:
                    bad.append(("unshadowed-altered", k, f"variable {q(k)}={q(v)} of the process environment is read back as {q(got[k]) if k in got else '<unset>'} by CustomerEnvironmentVariables"))
            for k, v in got.items():
                if proc.get(k) != v:
                    bad.append(("unshadowed-altered", k, f"CustomerEnvironmentVariables returns {q(k)}={q(v)}, which is not a variable of the process environment"))
        elif ln.startswith("op "):
            op = ln[3:].split()
            k = op[0]
            if k == "api":
                api = unhx(op[1])
            elif k == "sethandler":
                handler = unhx(op[1])
            elif k == "cli":
                cust.update(parse_pairs(op[1][1:]))
            elif k == "init":
                cust.update(parse_pairs(op[1][1:]))
                h, ak, sk, st, n, v = [unhx(x) for x in op[2:8]]
                creds.update({CRED[0]: ak, CRED[1]: sk, CRED[2]: st})
                if h: handler = h
                if n: fn = n
                if v: fv = v
            elif k == "initcaching":
                host, port = unhx(op[1]), op[2].encode()
                cust.update(parse_pairs(op[3][1:]))
                h, n, v, tok = [unhx(x) for x in op[4:8]]
                creds.update({CACHING_URI: b"http://" + host + b":" + port + b"/2021-04-23/credentials", CACHING_TOKEN: tok})
                if h: handler = h
                if n: fn = n
                if v: fv = v
        elif ln.startswith("obs ") and op:
            m = re.match(r"ready=(\d) .* rt=(\S*) ag=(\S*)$", ln[4:])
            if not m or m.group(1) != "1":
                continue
            rt, ag = parse_pairs(m.group(2)), parse_pairs(m.group(3))
            after = " ".join(op)[:60]
            def want(kind, key, val, view, vname):
                if view.get(key) != val:
                    bad.append((kind, key, f"{vname} gets {q(key)}={q(view[key]) if key in view else '<unset>'} but the platform value is {q(val)} (after '{after}…')"))
            for k, v in creds.items():
                want("reserved-overridden", k, v, rt, "runtime")
            if handler is not None: want("reserved-overridden", HANDLER, handler, rt, "runtime")
            if fn is not None: want("reserved-overridden", FN, fn, rt, "runtime")
            if fv is not None: want("reserved-overridden", FV, fv, rt, "runtime")
            if api is not None:
                want("api-address", API, api, rt, "runtime")
                want("api-address", API, api, ag, "extension")
            if rt.get(API) != ag.get(API):
                bad.append(("api-address", API, f"runtime and extension get different Runtime API addresses: {q(rt.get(API, b''))} vs {q(ag.get(API, b''))}"))
            for k, v in cust.items():
                if k in RESERVED_DOC:
                    continue
                if rt.get(k) != v:
                    bad.append(("unshadowed-altered", k, f"customer variable {q(k)}={q(v)} is not shadowed by any reserved name but the runtime gets {q(rt[k]) if k in rt else '<unset>'}"))
                if not k.startswith(b"_") and k not in XRAY_EXCLUSIONS and ag.get(k) != v:
                    bad.append(("unshadowed-altered", k, f"customer variable {q(k)}={q(v)} should reach extensions unchanged but they get {q(ag[k]) if k in ag else '<unset>'}"))
            for k in ag:
                if k.startswith(b"_") or k in XRAY_EXCLUSIONS:
                    bad.append(("extension-sees-internal", k, f"extension environment contains {q(k)}"))
                elif k not in cust and k not in creds and k not in PLATFORM_DOC:
                    bad.append(("extension-sees-other", k, f"extension environment contains {q(k)}, which is neither a customer, credential nor platform variable"))
                elif k in creds and ag[k] != creds[k]:
                    bad.append(("reserved-overridden", k, f"extension gets {q(k)}={q(ag[k])} but the platform value is {q(creds[k])}"))
    return bad


def judge_split_case(lines):
    bad = []
    op = None
    for ln in lines:
        if ln.startswith("op "):
            op = ln[3:].split()
        elif ln.startswith("obs ") and op:
            fields = dict(f.split("=", 1) for f in ln[4:].split(" "))
            if op[0] == "split":
                s = unhx(op[1])
                exp = None if b"=" not in s else (s[:s.index(b"=")], s[s.index(b"=") + 1:])
            else:
                k, v = unhx(op[1]), unhx(op[2])
                s = k + b"=" + v
                exp = (k, v) if b"=" not in k else (s[:s.index(b"=")], s[s.index(b"=") + 1:])
                if fields.get("kv") != s.hex():
                    bad.append(("render", s, f"rendering of ({q(k)}, {q(v)}) is {fields.get('kv')}"))
            es = "none" if exp is None else f"ok:{exp[0].hex()}:{exp[1].hex()}"
            for f in ("sev", "front"):
                if f in fields and fields[f] != es:
                    bad.append(("split", s, f"{q(s)} is cut by {f} into {fields[f]} instead of at its first '=' ({es})"))
    return bad


def judge_e2e_case(lines):
    """lines of one `envdrv e2e` case: model-free reading of what the child processes saw."""
    bad = []
    init = [l for l in lines if l.startswith("init ")]
    if not init:
        return bad
    w = init[0].split()[1:]
    environ = parse_pairs(w[0][1:])
    harg, addr = unhx(w[1]), unhx(w[2])
    views = {}
    op = None
    for ln in lines:
        if ln.startswith("op "):
            op = ln[3:].split()
        elif ln.startswith("obs") and op:
            txt = ln[4:] if len(ln) > 4 else ""
            if txt == "-":
                continue
            if txt == "missing":
                bad.append(("child-not-started", API, f"the {op[0]} process was never started by the emulator or did not report"))
                continue
            vs = {}
            for e in (txt.split(",") if txt else []):
                s = bytes.fromhex(e)
                if b"=" not in s:
                    bad.append(("wire", s, f"{op[0]} process got the environment string {q(s)} without '='"))
                    continue
                vs[s[:s.index(b"=")]] = s[s.index(b"=") + 1:]
            views[op[0]] = vs
        elif ln.startswith("# listen "):
            f = ln.split()
            if f[3:6] == ["fail", "no", "report"]:
                bad.append(("child-not-started", API, f"the {f[2]} process was never started by the emulator or did not report"))
            elif f[3] != "ok":
                bad.append(("api-address", API, f"the {f[2]} process could not use the Runtime API at the address it was given (the server was told to listen on {q(addr)}): {' '.join(f[3:])}"))
    rt, ag = views.get("runtime"), views.get("agent")
    for name, view in (("runtime", rt), ("extension", ag)):
        if view is None:
            continue
        if view.get(API) != addr:
            bad.append(("api-address", API, f"{name} gets {q(API)}={q(view.get(API, b'<unset>'))}; the API server was told to listen on {q(addr)}"))
    if rt is not None:
        for k, v in environ.items():
            if k not in RESERVED_DOC and rt.get(k) != v:
                bad.append(("unshadowed-altered", k, f"variable {q(k)}={q(v)} of the emulator's environment reaches the runtime as {q(rt[k]) if k in rt else '<unset>'}"))
        if harg and not environ.get(b"AWS_LAMBDA_FUNCTION_HANDLER") and not environ.get(HANDLER) and rt.get(HANDLER) != harg:
            bad.append(("reserved-overridden", HANDLER, f"the handler {q(harg)} given on the command line reaches the runtime as {q(HANDLER)}={q(rt[HANDLER]) if HANDLER in rt else '<unset>'}"))
        if w[3] == "1":
            uri = b"http://" + unhx(w[4]) + b":" + w[5].encode() + b"/2021-04-23/credentials"
            if rt.get(CACHING_URI) != uri:
                bad.append(("reserved-overridden", CACHING_URI, f"runtime gets {q(CACHING_URI)}={q(rt.get(CACHING_URI, b'<unset>'))}, the credentials endpoint is {q(uri)}"))
        for k in CRED:
            if rt.get(k, b"") != environ.get(k, b"") and w[3] == "0":
                bad.append(("reserved-overridden", k, f"runtime gets {q(k)}={q(rt.get(k, b''))}, the emulator was given {q(environ.get(k, b''))}"))
    if ag is not None:
        for k in ag:
            if k.startswith(b"_") or k in XRAY_EXCLUSIONS:
                bad.append(("extension-sees-internal", k, f"extension environment contains {q(k)}"))
        for k, v in environ.items():
            if k not in RESERVED_DOC and not k.startswith(b"_") and k not in XRAY_EXCLUSIONS and ag.get(k) != v:
                bad.append(("unshadowed-altered", k, f"variable {q(k)}={q(v)} reaches the extension as {q(ag[k]) if k in ag else '<unset>'}"))
    return bad


JUDGES = {"env": judge_env_case, "envsplit": judge_split_case, "enve2e": judge_e2e_case}


def judge_trace(args):
    """(model, trace path) -> [(case id, complaints)] for every case with a complaint."""
    model, path = args
    out = []
    for cid, lines in C.parse_trace_cases(path).items():
        try:
            bad = JUDGES[model](lines)
        except Exception as e:  # a trace the judge cannot read is itself worth a look
            bad = [("judge-error", b"", f"property oracle could not read the trace: {e!r}")]
        if bad:
            out.append((cid, bad))
    return out


# ---------------------------------------------------------------------------------------------
# drivers
# ---------------------------------------------------------------------------------------------
SUB = {"env": "run", "envsplit": "split", "enve2e": "e2e"}


def run_driver(ctx, model, workers, cases_each, extra=()):
    cmds, outs = [], []
    for w in range(workers):
        out = os.path.join(ctx.work, f"{model}.{w}.trace")
        st = os.path.join(ctx.work, f"{model}.{w}.stats.json")
        cmds.append([os.path.join(C.BUILD, DRV), SUB[model], "-seed", str(ctx.seed * 1000 + w), "-cases", str(cases_each),
                     "-out", out, "-stats", st, "-tier", ctx.tier] + list(extra))
        outs.append((out, st))
    res = C.parallel(cmds, timeout=1500, env=drv_env())
    results = []
    for (rc, o), (out, st) in zip(res, outs):
        if rc != 0:
            ctx.violation(f"driver-crash:{model}", f"envdrv {SUB[model]} exited with status {rc} (a crash inside the real code is itself an observation)",
                          f"correspondence that no longer checks: envdrv {SUB[model]}\n\n{o[-4000:]}", found_input=False, tag="crash")
            continue
        summ, mism, raw = ctx.oracle(model, out)
        ctx.add_stats(model, st)
        if summ is None:
            ctx.violation(f"oracle-crash:{model}", f"rie-oracle {model} produced no summary", raw[-2000:], found_input=False, tag="oracle")
            continue
        ctx.cov["correspondence"].append({"driver": f"envdrv {SUB[model]}", "model": model, "cases": summ[0], "steps": summ[1], "mismatches": summ[2]})
        results.append((out, mism))
    return results


def drv_env():
    e = dict(os.environ)
    e["VERIF_REPO"] = C.REPO
    e["VERIF_BUILD"] = C.BUILD
    return e


def replay_case(ctx, model, init, ops, tag="r"):
    """re-run one case on the real code and on the model; returns (impl lines, mismatches)."""
    p = os.path.join(ctx.work, f"{tag}.in")
    o = os.path.join(ctx.work, f"{tag}.out")
    with open(p, "w") as f:
        f.write("case s\ninit " + " ".join(init) + "\n" + "".join("op " + " ".join(x) + "\n" for x in ops))
    rc, _ = C.run([os.path.join(C.BUILD, DRV), SUB[model], "-replay", p, "-out", o], timeout=300, env=drv_env())
    if rc != 0:
        return [], ["driver failed"]
    _, mism, _ = ctx.oracle(model, o)
    return C.parse_trace_cases(o).get("s", []), mism


def shrink_maps(words, still_bad, budget):
    """ddmin-light over the entries of every map word (m<hex>:<hex>,…)."""
    words = list(words)
    for i, w in enumerate(words):
        if not re.fullmatch(r"m[0-9a-f:,]+", w):
            continue
        ents = w[1:].split(",")
        chunk = max(1, len(ents) // 2)
        while budget[0] > 0:
            j = 0
            while j < len(ents) and budget[0] > 0:
                cand = ents[:j] + ents[j + chunk:]
                budget[0] -= 1
                if still_bad(words[:i] + ["m" + ",".join(cand)] + words[i + 1:]):
                    ents = cand
                else:
                    j += chunk
            if chunk == 1:
                break
            chunk = max(1, chunk // 2)
        words[i] = "m" + ",".join(ents)
    return words


def shrink(ctx, model, init, ops, kinds):
    """delete ops, then map entries, while the same kind of complaint / a model mismatch remains."""
    budget = [120]

    def bad_of(i, o):
        lines, mism = replay_case(ctx, model, i, o, tag="shrink")
        got = {c[0] for c in JUDGES[model](lines)} if lines else set()
        return bool(got & kinds) if kinds else bool(mism)

    changed = True
    while changed and budget[0] > 0:
        changed = False
        for k in range(len(ops)):
            cand = ops[:k] + ops[k + 1:]
            budget[0] -= 1
            if cand and bad_of(init, cand):
                ops, changed = cand, True
                break
    if model == "env":
        init = shrink_maps(init, lambda w: bad_of(w, ops), budget)
        for k in range(len(ops)):
            ops[k] = shrink_maps(ops[k], lambda w, k=k: bad_of(init, ops[:k] + [w] + ops[k + 1:]), budget)
    return init, ops


def case_of(trace, cid):
    lines = C.parse_trace_cases(trace).get(cid, [])
    init = [l for l in lines if l.startswith("init")]
    init = init[0].split()[1:] if init else []
    ops = [l[3:].split() for l in lines if l.startswith("op ")]
    return lines, init, ops


THEOREMS = {"env": "C16_precedence, C16_reserved_win, C16_reserved_values(_caching), C16_unshadowed_unchanged, C16_agent_view, C16_same_api_addr",
            "envsplit": "C16_split_eq, C16_split_sound, C16_split_none, C16_wire_roundtrip",
            "enve2e": "C16_precedence, C16_agent_view, C16_same_api_addr, C16_wire_roundtrip (through Rie.Env.frontOps)"}


def first_difference(mism_line):
    """(field, key, text) of the first entry on which model and implementation differ."""
    mm = re.search(r"model=\[(.*?)\] impl=\[(.*?)\]$", mism_line or "")
    if not mm:
        return ("", "", "")
    def entries(txt):
        out = {}
        for f in txt.split(" "):
            name, _, val = f.rpartition("=") if "=" in f else ("", "", f)
            for e in (val.split(",") if val else []):
                try:
                    if ":" in e:
                        k, v = e.split(":", 1)
                        out[(name, bytes.fromhex(k))] = bytes.fromhex(v)
                    else:
                        raw = bytes.fromhex(e)
                        k, _, v = raw.partition(b"=")
                        out[(name, k)] = v
                except ValueError:
                    out[(name, e.encode())] = b""
        return out
    a, b = entries(mm.group(1)), entries(mm.group(2))
    for key in sorted(set(a) | set(b)):
        if a.get(key) != b.get(key):
            sh = lambda d: q(d[key]) if key in d else "<absent>"
            return (key[0], key[1].decode(errors="replace"), f"first difference: {key[0] or 'environment'} entry {q(key[1])}: model {sh(a)}, implementation {sh(b)}")
    return ("", "", "model and implementation print different observations")


def sig_key(key):
    """reserved names identify a finding; arbitrary customer names are folded into a class"""
    if key in RESERVED_DOC or key in XRAY_EXCLUSIONS:
        return key.decode()
    return "_*" if key.startswith(b"_") else "<customer variable>"


def report(ctx, model, trace, cid, mism_line, complaints):
    lines, init, ops = case_of(trace, cid)
    kinds = {c[0] for c in complaints}
    if model != "enve2e":   # an e2e case is one process run; it is reported as it is
        if mism_line:
            mm = re.match(r"MISMATCH case=\S+ step=(\d+)", mism_line)
            if mm and int(mm.group(1)) > 0:
                ops = ops[:int(mm.group(1))]
        init, ops = shrink(ctx, model, init, ops, kinds)
        lines, mism2 = replay_case(ctx, model, init, ops, tag="final")
        complaints = JUDGES[model](lines)
    else:
        mism2 = [mism_line] if mism_line else []
        # an e2e case is one run of real processes on a shared machine: what it shows must show again
        # (a child that did not report within its time limit is the typical one-off)
        for t in ("e1", "e2"):
            l2, m2 = replay_case(ctx, model, init, ops, tag=t)
            seen = {(c[0], c[1]) for c in JUDGES[model](l2)}
            complaints = [c for c in complaints if (c[0], c[1]) in seen]
            if not m2:
                mism2 = []
        if not complaints and not mism2:
            ctx.cov.setdefault("unreproduced", 0)
            ctx.cov["unreproduced"] += 1
            return
    text = (f"correspondence: envdrv {SUB[model]} vs Lean model Rie.Env ({model}); theorems {THEOREMS[model]}\n"
            f"replay with: ./check C16 --replay <this file>\nmodel={model}\n\ncase s\ninit {' '.join(init)}\n"
            + "".join("op " + " ".join(x) + "\n" for x in ops)
            + "\nimplementation trace:\n" + "\n".join(lines) + "\n\nmodel disagreement:\n" + ("\n".join(mism2) or "(none)")
            + "\n\nproperty-level judgement (model-free):\n"
            + ("\n".join(sorted({c[2] for c in complaints})) or "(no property-level complaint: behaviour differs from the model only)"))
    if complaints:
        c0 = sorted(complaints, key=lambda c: (c[0], c[1], c[2]))[0]
        ctx.violation(f"{model}:{c0[0]}:{sig_key(c0[1])}", f"{model}: {c0[2]}", text, found_input=True)
    else:
        fd = first_difference((mism2 or [mism_line or ""])[0])
        ctx.violation(f"{model}:model-mismatch:{fd[0]}:{fd[1]}",
                      f"{model}: model and implementation disagree ({fd[2]}); no property-level failure on this input", text + "\n" + fd[2], found_input=False)


def judge_all(ctx, model, results):
    """model mismatches + the property oracle over EVERY case of every trace."""
    with concurrent.futures.ProcessPoolExecutor(max_workers=8) as ex:
        judged = list(ex.map(judge_trace, [(model, t) for t, _ in results]))
    reported = 0
    for (trace, mism), bad_cases in zip(results, judged):
        done = set()
        for m in mism:
            if reported >= 4:
                break
            mm = re.match(r"MISMATCH case=(\S+)", m)
            cid = mm.group(1)
            done.add(cid)
            complaints = dict(bad_cases).get(cid, [])
            report(ctx, model, trace, cid, m, complaints)
            reported += 1
        for cid, complaints in bad_cases:
            if cid in done or reported >= 4:
                continue
            report(ctx, model, trace, cid, None, complaints)
            reported += 1
        if not mism and not bad_cases and trace.startswith(ctx.work):
            try:
                os.remove(trace)   # clean traces are large (hundreds of MB per thorough run)
            except OSError:
                pass


def build_rie(ctx):
    """the real emulator binary of the end-to-end tie, built from the repository's own module"""
    out = os.path.join(C.BUILD, "aws-lambda-rie-c16")
    env = dict(C.GOENV, GOFLAGS="-mod=readonly")
    with C.Lock("go"):
        rc, o = C.run(["go", "build", "-o", out, "./cmd/aws-lambda-rie"], cwd=C.REPO, env=env, timeout=900)
    if rc != 0:
        ctx.violation("harness-build:aws-lambda-rie", f"cmd/aws-lambda-rie of {C.REPO} does not build",
                      "correspondence that no longer checks: go build ./cmd/aws-lambda-rie (end-to-end tie of C16)\n\n" + o[-4000:], found_input=False, tag="build")
        return False
    return True


def regen_keys(ctx):
    """regenerate lean/Rie/Gen/EnvKeys.lean from the built code (BEFORE the Lean obligations)."""
    rc, out = C.run([os.path.join(C.BUILD, DRV), "keys", "-dir", os.path.join(C.LEAN, "Rie", "Gen")], timeout=120, env=drv_env())
    if rc != 0:
        ctx.violation("keys-regeneration", "envdrv keys could not regenerate Rie/Gen/EnvKeys.lean from the built code",
                      "correspondence that no longer checks: envdrv keys\n\n" + out[-3000:], found_input=False, tag="build")
        return False
    return True


def check(ctx):
    thorough = ctx.tier == "thorough"
    ctx.trusted += ["correspondence: verifharness envdrv run/split (real env.Environment methods, env.SplitEnvironmentVariable, env.CustomerEnvironmentVariables; all six layers + both exec maps compared after every call)",
                    "regenerated key sets: lean/Rie/Gen/EnvKeys.lean written by `envdrv keys` from lambda/rapidcore/env through verif_export.go (go:build verif)",
                    "byte strings are embedded in Lean `String` as one character per byte",
                    "Go map semantics (assignment overwrites; iteration order irrelevant because results are compared as sorted maps)"]
    ctx.assumptions += ["keys of the emulator's process environment contain no '=' and no NUL (os.Setenv / execve)",
                        "RuntimeExecEnv/AgentExecEnv are only called when both flags are set (they exit the process otherwise; observed through VerifReady)"]
    if not ctx.build_go(DRV):
        return ctx.finish()
    if not regen_keys(ctx):
        return ctx.finish()
    ok, out = ctx.lean_obligations("C16")
    if not ok:
        # the theorems no longer check (reported by finish()); the executable model may still
        # build on the regenerated keys: keep looking for a concrete failing input
        ok, _ = ctx.lake_build(["rie-oracle"])
    if ok:
        for f in sorted(glob.glob(os.path.join(C.VERIF, "corpus", "C16", "*.trace"))):
            model = os.path.basename(f).split(".")[0]
            if model not in SUB or model == "enve2e":
                continue
            o = os.path.join(ctx.work, os.path.basename(f) + ".out")
            C.run([os.path.join(C.BUILD, DRV), SUB[model], "-replay", f, "-out", o], timeout=300, env=drv_env())
            summ, mism, _ = ctx.oracle(model, o)
            if summ:
                ctx.cov["correspondence"].append({"driver": "corpus:" + os.path.basename(f), "model": model, "cases": summ[0], "steps": summ[1], "mismatches": summ[2]})
                ctx.cov["evaluations"] += summ[0]
            judge_all(ctx, model, [(o, mism)])
        r = run_driver(ctx, "env", 8, 6000 if thorough else 1500)
        judge_all(ctx, "env", r)
        r = run_driver(ctx, "envsplit", 2, 20000 if thorough else 3000)
        judge_all(ctx, "envsplit", r)
        if os.environ.get("VERIF_C16_E2E", "1") != "0" and build_rie(ctx):
            r = run_driver(ctx, "enve2e", 4, 150 if thorough else 25)
            judge_all(ctx, "enve2e", r)
    return ctx.finish(level="proof",
        rule="Lean: theorems over arbitrary process environments, arbitrary sequences of the exported Environment mutators, arbitrary maps/keys/values; key sets regenerated from the built code and side conditions decided by the kernel. "
             "Tie: seeded cases (process env over every predefined key; customer maps colliding with every reserved key of every class incl. init-caching keys, '_' keys, the exclusions, empty/'='/newline/non-UTF-8 values; "
             "canonical emulator order and random op orders; both credential modes) executed on the real package and compared layer by layer with the model after every call; "
             "split/render on byte strings over {=,\\n,…}; end-to-end: the real aws-lambda-rie binary with real runtime and extension child processes that dump os.Environ() and connect to the advertised address. "
             "A case is non-trivial if a customer key was shadowed by a reserved layer with a different value (run), the string holds '=' (split); distinct by hash of the canonical trace. "
             "The model-free property oracle judges every case, not only mismatches.")


def replay(ctx, path):
    txt = open(path).read()
    m = re.search(r"^case s\ninit.*\n(?:op .*\n)+", txt, re.M)
    mm = re.search(r"^model=(\S+)", txt, re.M)
    if not m or not mm or not ctx.build_go(DRV):
        print("nothing to replay"); return 2
    model = mm.group(1)
    p = os.path.join(ctx.work, "replay.in"); o = os.path.join(ctx.work, "replay.out")
    open(p, "w").write(m.group(0))
    C.run([os.path.join(C.BUILD, DRV), SUB[model], "-replay", p, "-out", o], env=drv_env())
    lines = C.parse_trace_cases(o).get("s", [])
    print("\n".join(lines))
    bad = JUDGES[model](lines)
    print("\n".join(sorted({c[2] for c in bad})) or "no property-level complaint")
    return 1 if bad else 0
