"""C20 — client-supplied error metadata is sanitised and bounded.

Three real functions are driven by `sanitizedrv` (error type, X-Ray error cause, runtime release),
plus the real HTTP error handlers; every trace is (a) replayed on the Lean models by rie-oracle
and (b) judged case by case by the property-level oracles below, which state the English
property on the observed values and do not use the Lean model."""
import json, os, re
from . import common as C

DRV = lambda: os.path.join(C.BUILD, "sanitizedrv")
MAX_CAUSE = 64 * 1024
MAX_RELEASE = 128
ORACLE_BIN = C.ORACLE


def unhex(s):
    return b"" if s in ("-", "") else bytes.fromhex(s)


# ---------------------------------------------------------------- property-level oracles

def is_form(b):
    """Runtime.X / Function.X, X = capitalised word of (at least two) ASCII letters."""
    for p in (b"Runtime.", b"Function."):
        if b.startswith(p):
            x = b[len(p):]
            return len(x) >= 2 and 65 <= x[0] <= 90 and all(65 <= c <= 90 or 97 <= c <= 122 for c in x)
    return False


def judge_errtype(inp, out):
    bad = []
    if not is_form(out):
        bad.append(f"error type passed on is not of the form Runtime.X / Function.X: {out[:80]!r}")
    if is_form(inp):
        if out != inp:
            bad.append(f"well-formed error type {inp[:80]!r} was not passed on unchanged (got {out[:80]!r})")
    else:
        want = b"Function.Unknown" if inp.startswith(b"Function.") else b"Runtime.Unknown"
        if out != want:
            bad.append(f"malformed error type {inp[:80]!r} ({len(inp)} bytes) became {out[:80]!r}, expected {want.decode()}")
    return bad


def judge_release_case(lines):
    """lines of one release case; returns complaints. Stated on stored values only:
    a value that ends in ')' never changes; a value only changes by ' (features)' being appended
    (or from empty); any value that contains a feature list is at most 128 bytes."""
    bad, op, stored = [], None, b""
    for ln in lines:
        if ln.startswith("op "):
            op = ln[3:].split()
        elif ln.startswith("obs ") and op:
            if op[0] == "upd":
                m = re.match(r"ret=([tf]) rr=(\S+)$", ln[4:])
                if not m:
                    bad.append("unreadable observation " + ln[:80]); op = None; continue
                now = unhex(m.group(2))
                if stored.endswith(b")") and now != stored:
                    bad.append(f"runtime release changed after it ended in ')': {stored[:140]!r} -> {now[:140]!r}")
                if now != stored and stored:
                    if not (now.startswith(stored + b" (") and now.endswith(b")")):
                        bad.append(f"stored runtime release {stored[:140]!r} was replaced by {now[:140]!r} (not an appended feature list)")
                if now != stored and b" " in now and len(now) > MAX_RELEASE:
                    bad.append(f"runtime release grew to {len(now)} bytes (> {MAX_RELEASE}) through features: {now[:160]!r}")
                if (m.group(1) == "t") != (now != stored):
                    bad.append(f"update reported {m.group(1)} but stored value {'changed' if now != stored else 'did not change'}")
                stored = now
            elif op[0] == "create":
                rr, out = unhex(op[1]), unhex(ln[4:].split("=", 1)[1])
                if out != rr:
                    base = rr if rr else b"Unknown"
                    if not (out.startswith(base + b" (") and out.endswith(b")")):
                        bad.append(f"created runtime release {out[:140]!r} is not {base[:60]!r} + ' (features)'")
                    if len(out) > MAX_RELEASE:
                        bad.append(f"runtime release grew to {len(out)} bytes (> {MAX_RELEASE}) through features: {out[:160]!r}")
            op = None
    return bad


def kv(s):
    return dict(x.split("=", 1) for x in s.split() if "=" in x)


def judge_cause_case(lines):
    bad = []
    for ln in lines:
        if not ln.startswith("# chk "):
            continue
        d = kv(ln[6:])
        k = d.get("kind")
        if k == "bad":
            if d["docvalid"] == "0" and d["dropped"] != "1":
                bad.append("an error cause that is not valid JSON was passed on")
            elif d["dropped"] != "1":
                bad.append("an error cause that does not parse as an error cause object was passed on")
        elif k == "kept":
            if d.get("docvalid", "1") != "1":
                bad.append("an error cause that is not valid JSON (json.Valid of the bytes the runtime sent) was passed on")
            if d["outvalid"] != "1":
                bad.append("the error cause passed on is not valid JSON")
            if int(d["size"]) > MAX_CAUSE:
                bad.append(f"the error cause passed on has {d['size']} bytes (> {MAX_CAUSE})")
            if d["fields"] != "1":
                bad.append(f"a field of the error cause passed on is not the original or a shortened original: {d.get('why')}")
            if d["inex"] == d["inpa"] == d["inwd"] == d["inmsg"] == "0":
                bad.append("an error cause without any recognised field was passed on")
        elif k == "handler":
            if d.get("noresponse") == "1":
                bad.append(f"handler {d['which']} sent no error response (status {d['status']})")
                continue
            if d["status"] != "202":
                bad.append(f"handler {d['which']} answered {d['status']}")
            if d["body"] != "1":
                bad.append(f"handler {d['which']}: the error body did not pass through byte for byte")
            if d["causeok"] != "1":
                bad.append(f"handler {d['which']}: stored X-Ray cause is not valid JSON of at most {MAX_CAUSE} bytes ({d['causelen']} bytes)")
            if d.get("srcvalid", "1") != "1" and int(d["causelen"]) > 0:
                bad.append(f"handler {d['which']}: the X-Ray cause header was not valid JSON, yet a cause of {d['causelen']} bytes was stored as trace data")
            if d["causesame"] != "1":
                bad.append(f"handler {d['which']}: stored X-Ray cause differs from the validated cause")
    return bad


def judge_errtype_case(lines):
    bad, op = [], None
    for ln in lines:
        if ln.startswith("op errtype "):
            op = ln.split()[2]
        elif ln.startswith("obs ") and op is not None:
            bad += judge_errtype(unhex(op), unhex(ln[4:].strip()))
            op = None
    return bad


# ---------------------------------------------------------------- running

SPEC = {
    # name: (driver sub-command, oracle model, per-case judge)
    "errtype": ("errtype", "errtype", judge_errtype_case),
    "cause": ("cause", "errcause", judge_cause_case),
    "release": ("release", "release", judge_release_case),
    "handler": ("handler", "errtype", lambda ls: judge_errtype_case(ls) + judge_cause_case(ls)),
}
THEOREMS = {
    "errtype": "C20_errtype_closed, C20_errtype_identity, C20_errtype_fallback",
    "cause": "C20_cause_bound, C20_cause_fields, C20_cause_dropped",
    "release": "C20_release_bound, C20_release_fixed, C20_release_history",
    "handler": "C20_errtype_* (type as seen by the platform side); body / stored cause judged model-free",
}


def non_ascii_case(lines):
    for ln in lines:
        if ln.startswith("op "):
            for w in ln.split()[2:]:
                try:
                    if any(c >= 0x80 for c in unhex(w)):
                        return True
                except ValueError:
                    pass
    return False


def replay_text(name, cid, lines, complaints, mismatch=None, extra=""):
    sub = SPEC[name][0]
    ops = "".join(l + "\n" for l in lines if l.startswith(("init", "op ")))
    t = (f"driver={sub}\ncorrespondence: sanitizedrv {sub} (REAL go.amzn.com functions) vs Lean model `{SPEC[name][1]}`; theorems {THEOREMS[name]}\n"
         f"replay with: ./check C20 --replay <this file>\n{extra}\ncase {cid}\n{ops}\n"
         "implementation trace:\n" + "\n".join(l[:2000] for l in lines) + "\n")
    if mismatch:
        t += "\nmodel disagreement:\n" + mismatch[:3000] + "\n"
    t += "\nproperty-level judgement (model-free):\n" + ("\n".join(complaints) or "(no property-level complaint: behaviour differs from the model only)") + "\n"
    return t


def shrink_errtype(ctx, inp):
    """delete chunks of the input while the REAL function still violates the property."""
    def bad(b):
        p = os.path.join(ctx.work, "shr.in"); o = os.path.join(ctx.work, "shr.out")
        open(p, "w").write(f"case s\ninit\nop errtype {b.hex() or '-'}\n")
        rc, _ = C.run([DRV(), "errtype", "-replay", p, "-out", o], timeout=60)
        if rc != 0:
            return False
        return bool(judge_errtype_case(C.parse_trace_cases(o).get("s", [])))
    cur, budget = inp, 80
    n = max(1, len(cur) // 2)
    while budget > 0:
        i, changed = 0, False
        while i < len(cur) and budget > 0:
            cand = cur[:i] + cur[i + n:]
            budget -= 1
            if bad(cand):
                cur, changed = cand, True
            else:
                i += n
        if n == 1 and not changed:
            break
        n = max(1, n // 2)
    return cur


def run_stream(ctx, name, workers, cases_each, extra=(), use_oracle=True):
    sub, model, judge = SPEC[name]
    cmds, outs = [], []
    for w in range(workers):
        out = os.path.join(ctx.work, f"{name}.{w}.trace")
        st = os.path.join(ctx.work, f"{name}.{w}.stats.json")
        cmds.append([DRV(), sub, "-seed", str(ctx.seed * 1000 + w), "-cases", str(cases_each), "-out", out, "-stats", st, "-tier", ctx.tier] + list(extra))
        outs.append((out, st))
    res = C.parallel(cmds, timeout=1500)
    good = []
    for (rc, o), (out, st) in zip(res, outs):
        if rc != 0:
            ctx.violation(f"driver-crash:{name}", f"sanitizedrv {sub} exited with status {rc} (a crash inside the real code is itself an observation)",
                          f"correspondence that no longer checks: sanitizedrv {sub}\n\n{o[-4000:]}", found_input=False, tag="crash")
            continue
        good.append((out, st))
    # oracle runs in parallel too
    mism_by_trace = {}
    if use_oracle and good:
        # (output goes to a file: C.parallel reads the pipe only after exit, and the MISMATCH
        # lines of a broken tree exceed the pipe buffer)
        C.parallel([["sh", "-c", f'exec "{ORACLE_BIN}" {model} < "{out}" > "{out}.oracle" 2>&1'] for out, _ in good], timeout=1500)
        for out, _ in good:
            try:
                text = open(out + ".oracle", errors="replace").read()
            except OSError:
                text = ""
            m = re.search(r"SUMMARY cases=(\d+) steps=(\d+) mismatches=(\d+)", text or "")
            if not m:
                ctx.violation(f"oracle-crash:{model}", f"rie-oracle {model} produced no summary", (text or "")[-2000:], found_input=False, tag="oracle")
                continue
            ctx.cov["correspondence"].append({"driver": "sanitizedrv " + sub, "model": model, "cases": int(m.group(1)), "steps": int(m.group(2)), "mismatches": int(m.group(3))})
            mism_by_trace[out] = [l for l in text.splitlines() if l.startswith("MISMATCH")]
    # stats
    agg = {}
    for out, st in good:
        ctx.add_stats(name, st)
        try:
            s = json.load(open(st))
        except Exception:
            continue
        for k, v in s.get("distribution", {}).items():
            agg[k] = max(agg.get(k, 0), v) if k == "esc:max-ratio-x1000" else agg.get(k, 0) + v
    ctx.cov["distribution"][name] = agg
    # judge every case model-free; then the model disagreements. At most 2 reports per
    # complaint class and stream (a broken sanitiser fails on thousands of cases; shrinking and
    # reporting each would only crowd out the other findings).
    seen = ctx.__dict__.setdefault("c20_classes", {})
    def budget(cls):
        seen[cls] = seen.get(cls, 0) + 1
        return seen[cls] <= 2
    for out, _ in good:
        cases = C.parse_trace_cases(out)
        complained = set()
        for cid, lines in cases.items():
            bad = judge(lines)
            if bad:
                complained.add(cid)
                cls = name + ":" + re.sub(r"b'.*|\d+", "", bad[0])[:50]
                ctx.cov.setdefault("complaints", {})
                ctx.cov["complaints"][cls] = ctx.cov["complaints"].get(cls, 0) + 1
                if budget(cls):
                    report(ctx, name, cid, lines, bad, None)
        for m in mism_by_trace.get(out, []):
            mm = re.match(r"MISMATCH case=(\S+) step=(\d+)", m)
            cid = mm.group(1)
            if cid in complained:
                continue
            lines = cases.get(cid, [])
            if name == "release" and non_ascii_case(lines):
                # Unicode-space splitting of strings.Fields is not modelled (and not claimed)
                continue
            if budget(name + ":model-disagreement"):
                report(ctx, name, cid, lines, [], m)
    return agg


def report(ctx, name, cid, lines, bad, mismatch):
    extra = ""
    sig = f"{name}:{cid}"
    if name == "errtype" and bad:
        ops = [l for l in lines if l.startswith("op errtype ")]
        if ops:
            inp = unhex(ops[0].split()[2])
            small = shrink_errtype(ctx, inp) if len(inp) <= 4096 else inp
            sig = "errtype:" + (small.hex() if len(small) <= 64 else C.hashlib.sha1(small).hexdigest())
            lines = ["init", f"op errtype {small.hex() or '-'}"] + [f"# shrunk from {len(inp)} bytes; input as text: {small[:200]!r}"]
            p = os.path.join(ctx.work, "fin.in"); o = os.path.join(ctx.work, "fin.out")
            open(p, "w").write("case s\ninit\n" + lines[1] + "\n")
            C.run([DRV(), "errtype", "-replay", p, "-out", o], timeout=60)
            lines = C.parse_trace_cases(o).get("s", lines) + lines[2:]
            bad = judge_errtype_case(lines) or bad
            cid = "s"
    if name == "release" and bad:
        ops = [l for l in lines if l.startswith("op ")]
        def rerun(cand):
            p = os.path.join(ctx.work, "shr.in"); o = os.path.join(ctx.work, "shr.out")
            open(p, "w").write("case s\ninit\n" + "".join(x + "\n" for x in cand))
            rc, _ = C.run([DRV(), "release", "-replay", p, "-out", o], timeout=60)
            return C.parse_trace_cases(o).get("s", []) if rc == 0 else []
        changed, budget = True, 40
        while changed and budget > 0:
            changed = False
            for i in range(len(ops)):
                budget -= 1
                cand = ops[:i] + ops[i + 1:]
                if cand and judge_release_case(rerun(cand)):
                    ops, changed = cand, True
                    break
        final = rerun(ops)
        if judge_release_case(final):
            lines, bad, cid = final, judge_release_case(final), "s"
            sig = "release:" + C.hashlib.sha1("\n".join(ops).encode()).hexdigest()[:16]
    if name in ("cause", "handler"):
        extra = (f"the document is regenerated from the case identifier; dump it with:\n"
                 f"  {DRV()} {SPEC[name][0]} -replay <this file> -out /tmp/c20.trace -dump /tmp/c20dump\n")
        sig = f"{name}:{cid}:" + ";".join(sorted(set(re.sub(r"\d+", "N", b)[:60] for b in bad))) if bad else f"{name}:{cid}"
    text = replay_text(name, cid, lines, bad, mismatch, extra)
    if bad:
        ctx.violation(sig, f"{name}: {bad[0]}", text, found_input=True)
    else:
        ctx.violation(sig, f"{name}: Lean model and implementation disagree; no property-level failure found on this input", text, found_input=False)


def check(ctx):
    thorough = ctx.tier == "thorough"
    ctx.trusted += [
        "correspondence: verifharness sanitizedrv errtype/cause/release/handler (differential run on fatalerror.GetValidRuntimeOrFunctionErrorType, model.ValidatedErrorCauseJSON, "
        "appctx.CreateRuntimeReleaseFromRequest/UpdateAppCtxWithRuntimeRelease, handler.NewInvocationErrorHandler/NewInitErrorHandler)",
        "Go regexp implements the (regenerated, anchored) pattern; byte-level matcher written from it",
        "encoding/json: parsing (incl. rejecting invalid JSON), object layout of ErrorCause, and string escaping expanding a byte to at most 6 bytes "
        "(hypothesis hesc of C20_cause_bound; checked on every generated string, max ratio reported in the distribution)",
        "regenerated constants Rie/Gen/SanitizeConsts.lean (sanitizedrv consts: compiled constants; crop factors and regexp literal parsed from the source file the binary was built from)",
        "rational model len*num/den of int(float64(len)*factor), compared with Go's float computation on 0..300000 and 200000 random lengths < 2^40 every run",
    ]
    ctx.assumptions += ["strings.Fields splits ASCII input at \\t\\n\\v\\f\\r and space (Unicode-space splitting of non-ASCII headers is not claimed; the bound and fixedness theorems do not depend on the splitting)",
                        "HTTP layer delivers header bytes as given (harness sets headers directly on the request)"]
    if not ctx.build_go("sanitizedrv"):
        return ctx.finish()
    # (T) regenerate the constants from the built code before the Lean obligations
    rc, out = C.run([DRV(), "consts", "-dir", os.path.join(C.LEAN, "Rie", "Gen"), "-json"], timeout=120)
    notes = [l for l in out.splitlines() if l.startswith("consts: ")]
    if rc != 0:
        ctx.violation("consts", "sanitizedrv consts failed", out[-3000:], found_input=False, tag="build")
        return ctx.finish()
    ctx.obligations.append(("regenerate Rie/Gen/SanitizeConsts.lean from the built code", not notes, "\n".join(notes)))
    ok, lout = ctx.lean_obligations("C20")
    # private copy of the oracle binary, taken under the lake lock: other work packages relink
    # rie-oracle concurrently and the file is briefly absent while they do
    global ORACLE_BIN
    ORACLE_BIN = os.path.join(ctx.work, "rie-oracle")
    use_oracle = False
    if ok:
        with C.Lock("lake"):
            try:
                C.shutil.copy2(C.ORACLE, ORACLE_BIN)
                use_oracle = True
            except OSError as e:
                ctx.violation("oracle-missing", "rie-oracle binary missing after a successful build", str(e), found_input=False, tag="oracle")

    n_err, n_cause, n_rel, n_h = (40000, 1400, 20000, 1000) if thorough else (5000, 250, 1500, 150)
    w = 8
    run_stream(ctx, "errtype", 4 if not thorough else w, n_err, use_oracle=use_oracle)
    agg = run_stream(ctx, "cause", w if not thorough else 16, n_cause, extra=["-mb", "25" if not thorough else "15"], use_oracle=use_oracle)
    run_stream(ctx, "release", 4 if not thorough else w, n_rel, use_oracle=use_oracle)
    run_stream(ctx, "handler", 4 if not thorough else w, n_h, use_oracle=use_oracle)

    if agg.get("esc:hypothesis-violations", 0) > 0:
        ctx.violation("escape-hypothesis", "hypothesis of C20_cause_bound fails: a string was expanded more than 6-fold by encoding/json",
                      "theorem / obligation that no longer checks: hypothesis hesc of C20_cause_bound\n" + json.dumps(ctx.cov.get("notes", [])), found_input=False, tag="hyp")
    if agg.get("float:rational-mismatches", 0) > 0:
        ctx.violation("float-rational", "the rational crop arithmetic of the Lean model differs from Go's float computation for some length",
                      "correspondence that no longer checks: scale (len*num/den) vs int(float64(len)*factor)\n" + json.dumps(ctx.cov.get("notes", [])), found_input=False, tag="hyp")
    ctx.cov.setdefault("notes", []).append(f"max JSON escape expansion observed: {agg.get('esc:max-ratio-x1000', 0) / 1000:.3f} over {agg.get('esc:strings-checked', 0)} strings")
    return ctx.finish(level="proof",
        rule="Lean: theorems over all byte strings / all parsed causes and encoders within the escape hypothesis / all request sequences. Tie: seeded generators on the real functions — "
             "error types (valid forms, 16 near-miss classes, random bytes, 200 kB strings), cause documents (field presence, counts aimed at every crop stage, sizes at every boundary, "
             "11 escape classes, multi-MB, unparsable and field-less documents) with measured sizes fed to the model, release sequences (boundary-filling features, parens, blanks, "
             "non-ASCII one-sided), and the HTTP error handlers; every case is also judged model-free; distinct by hash of input/trace; non-trivial = changed / rejected / boundary")


def replay(ctx, path):
    txt = open(path).read()
    m = re.search(r"^driver=(\w+)$", txt, re.M)
    body = re.search(r"^case \S+\n(?:init.*\n)?(?:op .*\n)*", txt, re.M)
    if not m or not body or not ctx.build_go("sanitizedrv"):
        print("nothing to replay"); return 2
    sub = m.group(1)
    name = {"errtype": "errtype", "cause": "cause", "release": "release", "handler": "handler"}[sub]
    p = os.path.join(ctx.work, "replay.in"); o = os.path.join(ctx.work, "replay.out")
    open(p, "w").write(body.group(0))
    rc, out = C.run([DRV(), sub, "-replay", p, "-out", o] + (["-dump", os.path.join(ctx.work, "dump")] if sub in ("cause",) else []))
    if rc != 0:
        print(out[-3000:]); print("driver crashed"); return 1
    bad = []
    for cid, lines in C.parse_trace_cases(o).items():
        print("case", cid); print("\n".join(l[:400] for l in lines))
        bad += SPEC[name][2](lines)
    if os.path.exists(C.ORACLE):
        _, mism, _ = ctx.oracle(SPEC[name][1], o)
        if mism:
            print("\n".join(x[:600] for x in mism))
    print("\n".join(bad) or "no property-level complaint")
    return 1 if bad else 0
