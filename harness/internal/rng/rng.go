// Package rng is the single source of randomness of the harness (splitmix64), so that a
// disagreement replays exactly from VERIF_SEED.
package rng

import "os"

type R struct{ s uint64 }

// New hashes the seed (splitmix64 finaliser) so that neighbouring seeds give unrelated streams.
func New(seed uint64) *R {
	if os.Getenv("VERIF_OLDRNG") != "" { // reproduce runs made before seeds were hashed
		return &R{s: seed*0x9E3779B97F4A7C15 + 0x1234567}
	}
	z := seed + 0x9E3779B97F4A7C15
	z = (z ^ (z >> 30)) * 0xBF58476D1CE4E5B9
	z = (z ^ (z >> 27)) * 0x94D049BB133111EB
	return &R{s: z ^ (z >> 31)}
}

func (r *R) U64() uint64 {
	r.s += 0x9E3779B97F4A7C15
	z := r.s
	z = (z ^ (z >> 30)) * 0xBF58476D1CE4E5B9
	z = (z ^ (z >> 27)) * 0x94D049BB133111EB
	return z ^ (z >> 31)
}

// Intn returns a value in [0,n).
func (r *R) Intn(n int) int {
	if n <= 0 {
		return 0
	}
	return int(r.U64() % uint64(n))
}

func (r *R) Bool() bool { return r.U64()&1 == 1 }

// Chance returns true with probability num/den.
func (r *R) Chance(num, den int) bool { return r.Intn(den) < num }

// Pick chooses an index according to integer weights.
func (r *R) Pick(weights []int) int {
	t := 0
	for _, w := range weights {
		t += w
	}
	x := r.Intn(t)
	for i, w := range weights {
		if x < w {
			return i
		}
		x -= w
	}
	return len(weights) - 1
}

// Fork derives an independent stream.
func (r *R) Fork() *R { return New(r.U64()) }
