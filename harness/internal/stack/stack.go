package stack

import (
	"bytes"
	"context"
	"crypto/sha256"
	"encoding/hex"
	"encoding/json"
	"fmt"
	"io"
	"net"
	"net/http"
	"net/http/httptrace"
	"os"
	"path/filepath"
	"runtime"
	"sort"
	"strings"
	"sync"
	"sync/atomic"
	"time"

	"go.amzn.com/lambda/core/directinvoke"
	"go.amzn.com/lambda/fatalerror"
	"go.amzn.com/lambda/interop"
	"go.amzn.com/lambda/metering"
	"go.amzn.com/lambda/rapidcore"
	"go.amzn.com/lambda/rapidcore/env"
)

type Config struct {
	Port      int
	ExtFiles  []string // regular files created under <root>/opt/extensions
	ExtDirs   []string // directories created there (must not be launched)
	TimeoutMs int64
	Snapshot  bool
	Handler   string
	Customer  map[string]string
}

// bootstrap is the interop.Bootstrap handed to Init.
type bootstrap struct{ cmdErr error }

func (b *bootstrap) Cmd() ([]string, error) {
	if b.cmdErr != nil {
		return nil, b.cmdErr
	}
	return []string{"/var/runtime/bootstrap"}, nil
}
func (b *bootstrap) Env(e *env.Environment) map[string]string { return e.RuntimeExecEnv() }
func (b *bootstrap) Cwd() (string, error)                     { return "/", nil }
func (b *bootstrap) ExtraFiles() []*os.File                   { return nil }
func (b *bootstrap) CachedFatalError(error) (fatalerror.ErrorType, string, bool) {
	return "", "", false
}

type Stack struct {
	Cfg    Config
	L      *Log
	Sup    *FakeSup
	B      *rapidcore.SandboxBuilder
	Srv    *rapidcore.Server
	Addr   string
	Root   string
	inited bool

	mu        sync.Mutex
	posted    [][]byte
	pending   map[int]*Call // outstanding HTTP calls of actors
	nextCall  int
	callers   int32 // outstanding Invoke callers
	idAlias   map[string]string
	AgentIDs  map[string]string // actor name -> Lambda-Extension-Identifier
	PrevIDs   map[string]string // actor name -> the identifier it was issued before the current one (an earlier sandbox generation)
	LastRtID  string            // request id most recently delivered to the runtime
	client    *http.Client
	transport *http.Transport
}

type Call struct {
	N      int
	Actor  string
	What   string
	wrote  atomic.Bool
	done   atomic.Bool
	cancel context.CancelFunc
}

var extensionsOnce sync.Once

func New(cfg Config) (*Stack, error) {
	root, err := os.MkdirTemp("", "verifstack")
	if err != nil {
		return nil, err
	}
	extdir := filepath.Join(root, "opt", "extensions")
	if err := os.MkdirAll(extdir, 0o755); err != nil {
		return nil, err
	}
	for _, f := range cfg.ExtFiles {
		if err := os.WriteFile(filepath.Join(extdir, f), []byte("#!/bin/sh\n"), 0o755); err != nil {
			return nil, err
		}
	}
	for _, d := range cfg.ExtDirs {
		_ = os.MkdirAll(filepath.Join(extdir, d), 0o755)
	}
	l := &Log{}
	s := &Stack{Cfg: cfg, L: l, Sup: NewFakeSup(l), Root: root, pending: map[int]*Call{}, idAlias: map[string]string{}, AgentIDs: map[string]string{}, PrevIDs: map[string]string{}}
	s.Addr = fmt.Sprintf("127.0.0.1:%d", cfg.Port)
	b := rapidcore.NewSandboxBuilder().
		SetSupervisor(s.Sup).
		SetRuntimeFsRootPath(root).
		SetRuntimeAPIAddress(s.Addr).
		SetEventsAPI(&RecEvents{L: l, Alias: s.Alias}).
		SetExtensionsFlag(true).
		SetInitCachingFlag(cfg.Snapshot)
	if cfg.Handler != "" {
		b.SetHandler(cfg.Handler)
	}
	sbCtx, isf := b.Create()
	s.B = b
	s.Srv = b.DefaultInteropServer()
	s.Srv.SetSandboxContext(sbCtx)
	s.Srv.SetInternalStateGetter(isf)
	s.transport = &http.Transport{MaxIdleConnsPerHost: 64, DisableCompression: true}
	s.client = &http.Client{Transport: s.transport}
	// wait until the Runtime API server accepts connections
	deadline := time.Now().Add(5 * time.Second)
	for {
		c, err := net.DialTimeout("tcp", s.Addr, 200*time.Millisecond)
		if err == nil {
			c.Close()
			break
		}
		if time.Now().After(deadline) {
			return nil, fmt.Errorf("runtime API server did not come up on %s: %v", s.Addr, err)
		}
		time.Sleep(2 * time.Millisecond)
	}
	return s, nil
}

func (s *Stack) Close() {
	s.transport.CloseIdleConnections()
	_ = os.RemoveAll(s.Root)
}

// ---------- canonical ids ----------

// Alias replaces a request id by id#n in order of first appearance.
func (s *Stack) Alias(id string) string {
	s.mu.Lock()
	defer s.mu.Unlock()
	if id == "" {
		return "none"
	}
	if a, ok := s.idAlias[id]; ok {
		return a
	}
	a := fmt.Sprintf("id#%d", len(s.idAlias)+1)
	s.idAlias[id] = a
	return a
}

// Unalias maps id#n (or "cur", "bogus") back to a concrete id for requests.
func (s *Stack) Unalias(ref string) string {
	s.mu.Lock()
	defer s.mu.Unlock()
	switch ref {
	case "cur":
		return s.LastRtID
	case "curup": // the current id spelled with upper-case hex digits: NOT the current id
		return strings.ToUpper(s.LastRtID)
	case "bogus":
		return "00000000-dead-beef-0000-000000000000"
	case "empty":
		return ""
	}
	for id, a := range s.idAlias {
		if a == ref {
			return id
		}
	}
	if strings.HasPrefix(ref, "id#") { // an invocation number that has not appeared (yet): some other well-formed id
		return "00000000-0000-4000-8000-" + fmt.Sprintf("%012d", len(ref))
	}
	return ref
}

func hash(b []byte) string {
	h := sha256.Sum256(b)
	return fmt.Sprintf("%d:%s", len(b), hex.EncodeToString(h[:6]))
}

// Payload builds a deterministic payload of the given size and fill kind.
func Payload(size int, fill string, salt int) []byte {
	b := make([]byte, size)
	switch fill {
	case "zero":
	case "ff":
		for i := range b {
			b[i] = 0xff
		}
	case "crlf":
		p := []byte("\r\n\r\n")
		for i := range b {
			b[i] = p[i%4]
		}
	case "utf8bad":
		p := []byte{0xc3, 0x28, 0xa0, 0xa1, 0xe2, 0x28, 0xa1}
		for i := range b {
			b[i] = p[(i+salt)%len(p)]
		}
	default: // pseudo-random
		x := uint64(salt)*0x9E3779B97F4A7C15 + 12345
		for i := range b {
			x ^= x << 13
			x ^= x >> 7
			x ^= x << 17
			b[i] = byte(x)
		}
	}
	return b
}

// ---------- invocations (the caller side of the emulator) ----------

type proxyWriter struct {
	mu     sync.Mutex
	hdr    http.Header
	body   bytes.Buffer
	status int
}

func (w *proxyWriter) Header() http.Header {
	if w.hdr == nil {
		w.hdr = http.Header{}
	}
	return w.hdr
}
func (w *proxyWriter) Write(b []byte) (int, error) {
	w.mu.Lock()
	defer w.mu.Unlock()
	return w.body.Write(b)
}
func (w *proxyWriter) WriteHeader(c int) { w.status = c }

func errName(err error) string {
	if err == nil {
		return "ok"
	}
	return strings.ReplaceAll(err.Error(), " ", "_")
}

// Invoke starts an invocation by caller c (asynchronously; the outcome is logged).
// Init performs the platform's Init (once); Invoke does it implicitly like the RIE front end.
func (s *Stack) Init() {
	if !s.inited {
		s.inited = true
		cust := map[string]string{}
		for k, v := range s.Cfg.Customer {
			cust[k] = v
		}
		s.B.LambdaInvokeAPI().Init(&interop.Init{
			AccountID:                    "123456789012",
			Handler:                      "index.handler",
			AwsKey:                       "AKIDEXAMPLE",
			AwsSecret:                    "SECRETEXAMPLE",
			AwsSession:                   "SESSIONEXAMPLE",
			XRayDaemonAddress:            "0.0.0.0:0",
			FunctionName:                 "test_function",
			FunctionVersion:              "$LATEST",
			RuntimeInfo:                  interop.RuntimeInfo{ImageJSON: "{}"},
			CustomerEnvironmentVariables: cust,
			SandboxType:                  interop.SandboxClassic,
			Bootstrap:                    &bootstrap{},
			EnvironmentVariables:         env.NewEnvironment(),
		}, s.Cfg.TimeoutMs)
	}
}

func (s *Stack) Invoke(c int, payload []byte, trace string) {
	s.Init()
	atomic.AddInt32(&s.callers, 1)
	s.L.Add("caller%d start %s", c, hash(payload))
	go s.invokeCaller(c, payload, trace)
}

//go:noinline
func (s *Stack) invokeCaller(c int, payload []byte, trace string) {
	w := &proxyWriter{}
	inv := &interop.Invoke{
		ID:                 fmt.Sprintf("front-%d", c),
		InvokedFunctionArn: "arn:aws:lambda:us-east-1:012345678912:function:test_function",
		TraceID:            trace,
		Payload:            bytes.NewReader(payload),
		ClientContext:      "ctx" + fmt.Sprint(c),
	}
	t0 := time.Now()
	err := s.B.LambdaInvokeAPI().Invoke(w, inv)
	w.mu.Lock()
	body := append([]byte{}, w.body.Bytes()...)
	w.mu.Unlock()
	s.L.Add("caller%d done err=%s body=%s ms=%d", c, errName(err), s.bodyClass(body), time.Since(t0).Milliseconds())
	atomic.AddInt32(&s.callers, -1)
}

// DirectInvoke runs one invocation through the interop server's direct-invoke reply path — what the
// standalone direct-invoke handler does (Reserve, FastInvoke(direct), AwaitRelease, then Release or
// Reset), with the timeout and failure handling of Server.Invoke. The RIE front end never uses this
// path; it exists in rapidcore.Server and is part of C02/C17.
func (s *Stack) DirectInvoke(c int, payload []byte, trace string, maxResp int64) {
	s.Init()
	atomic.AddInt32(&s.callers, 1)
	s.L.Add("caller%d start %s", c, hash(payload))
	go s.directCaller(c, payload, trace, maxResp)
}

//go:noinline
func (s *Stack) directCaller(c int, payload []byte, trace string, maxResp int64) {
	w := &proxyWriter{}
	t0 := time.Now()
	done := func(err string) {
		w.mu.Lock()
		body := append([]byte{}, w.body.Bytes()...)
		eor := w.Header().Get(directinvoke.EndOfResponseTrailer)
		w.mu.Unlock()
		if eor == "" {
			eor = "-"
		}
		s.L.Add("caller%d done err=%s body=%s eor=%s ms=%d", c, err, s.directBodyClass(body), eor, time.Since(t0).Milliseconds())
		atomic.AddInt32(&s.callers, -1)
	}
	timeout := time.After(time.Duration(s.Cfg.TimeoutMs) * time.Millisecond)
	resv, err := s.Srv.Reserve("", trace, "")
	if resv == nil {
		done(errName(err))
		return
	}
	directinvoke.MaxDirectResponseSize = maxResp
	directinvoke.InvokeResponseMode = interop.InvokeResponseModeBuffered
	inv := &interop.Invoke{
		ID:                 resv.Token.InvokeID,
		ReservationToken:   resv.Token.ReservationToken,
		InvokedFunctionArn: "arn:aws:lambda:us-east-1:012345678912:function:test_function",
		TraceID:            trace,
		Payload:            bytes.NewReader(payload),
		ClientContext:      "ctx" + fmt.Sprint(c),
		DeadlineNs:         fmt.Sprintf("%d", metering.Monotime()+resv.Token.FunctionTimeout.Nanoseconds()),
	}
	rel := make(chan error, 1)
	go func() {
		_ = s.Srv.AwaitInitialized()
		_ = s.Srv.FastInvoke(w, inv, true)
	}()
	go func() {
		_, err := s.Srv.AwaitRelease()
		rel <- err
	}()
	select {
	case <-timeout:
		_, _ = s.Srv.Reset("Timeout", 2000)
		<-rel
		done("InvokeTimeout")
	case err := <-rel:
		switch err {
		case nil:
			_ = s.Srv.Release()
			done("ok")
		case rapidcore.ErrInitDoneFailed, rapidcore.ErrInvokeDoneFailed:
			_, _ = s.Srv.Reset("ReleaseFail", 2000)
			done(errName(err))
		default:
			done(errName(err))
		}
	}
}

// NotePosted remembers the bytes the runtime posted (or began to post) so that a direct-invoke caller's
// stream can be classified as exactly those bytes, a prefix of them, or something else.
func (s *Stack) NotePosted(b []byte) {
	s.mu.Lock()
	s.posted = append(s.posted, append([]byte{}, b...))
	s.mu.Unlock()
}

// directBodyClass: `bytes:<hash>` = exactly one posted payload; `prefix:<n>/<hash>` = the first n bytes of
// one; `errjson:<type>` = a platform or runtime error document alone; `mixed:<n>` = anything else (for
// instance a prefix of a payload followed by an error document).
func (s *Stack) directBodyClass(b []byte) string {
	if len(b) == 0 {
		return "empty"
	}
	s.mu.Lock()
	posted := s.posted
	s.mu.Unlock()
	for _, p := range posted {
		if bytes.Equal(b, p) {
			return "bytes:" + hash(b)
		}
	}
	var m map[string]any
	if b[0] == '{' && json.Unmarshal(b, &m) == nil {
		if t, ok := m["errorType"].(string); ok {
			return "errjson:" + t
		}
	}
	for _, p := range posted {
		if len(b) < len(p) && bytes.Equal(b, p[:len(b)]) {
			return fmt.Sprintf("prefix:%d/%s", len(b), hash(p))
		}
	}
	return fmt.Sprintf("mixed:%d", len(b))
}

// bodyClass canonicalises a body a caller received.
func (s *Stack) bodyClass(b []byte) string {
	if len(b) == 0 {
		return "empty"
	}
	var m map[string]any
	if b[0] == '{' && json.Unmarshal(b, &m) == nil {
		if t, ok := m["errorType"].(string); ok {
			msg, _ := m["errorMessage"].(string)
			s.L.Add("#errmsg %s %q", t, s.scrubIDs(msg))
			if t == "Function.ResponseSizeTooLarge" {
				// the message must state both sizes
				var a, b int
				if n, _ := fmt.Sscanf(msg, "Response payload size (%d bytes) exceeded maximum allowed payload size (%d bytes).", &a, &b); n == 2 {
					return fmt.Sprintf("errjson:%s:%d:%d", t, a, b)
				}
				return "errjson:" + t + ":unparsable"
			}
			return "errjson:" + t
		}
	}
	return "bytes:" + hash(b)
}

func (s *Stack) scrubIDs(msg string) string {
	s.mu.Lock()
	defer s.mu.Unlock()
	for id, a := range s.idAlias {
		msg = strings.ReplaceAll(msg, id, a)
	}
	return msg
}

// ---------- actor calls ----------

type CallSpec struct {
	Actor      string // "rt" or extension name
	What       string // canonical call name used in the log
	Method     string
	Path       string
	Headers    map[string]string
	Body       []byte
	BodyReader io.Reader // if set, used instead of Body (streamed, chunked)
	Chunked    bool      // send Body with Transfer-Encoding: chunked (length unknown to the server in advance)
	Proc       *Proc     // process on whose behalf the call is made (cancelled when it exits)
	// Render turns the response into the canonical result text
	Render func(status int, hdr http.Header, body []byte) string
}

func (s *Stack) Do(cs CallSpec) {
	ctx := context.Background()
	if cs.Proc != nil {
		ctx = cs.Proc.ctx
	}
	ctx, cancel := context.WithCancel(ctx)
	s.mu.Lock()
	s.nextCall++
	call := &Call{N: s.nextCall, Actor: cs.Actor, What: cs.What, cancel: cancel}
	s.pending[call.N] = call
	s.mu.Unlock()
	go s.doCall(ctx, call, cs)
}

//go:noinline
func (s *Stack) doCall(ctx context.Context, call *Call, cs CallSpec) {
	defer func() {
		call.done.Store(true)
		s.mu.Lock()
		delete(s.pending, call.N)
		s.mu.Unlock()
		call.cancel()
	}()
	tr := &httptrace.ClientTrace{WroteRequest: func(httptrace.WroteRequestInfo) { call.wrote.Store(true) }}
	var rd io.Reader = bytes.NewReader(cs.Body)
	if cs.BodyReader != nil {
		rd = cs.BodyReader
		call.wrote.Store(true) // the upload is deliberately incomplete: do not wait for it
	} else if cs.Chunked && cs.Body != nil {
		rd = struct{ io.Reader }{bytes.NewReader(cs.Body)}
	}
	req, err := http.NewRequestWithContext(httptrace.WithClientTrace(ctx, tr), cs.Method, "http://"+s.Addr+cs.Path, rd)
	if err != nil {
		s.L.Add("%s.%s=badrequest", cs.Actor, cs.What)
		return
	}
	for k, v := range cs.Headers {
		req.Header.Set(k, v)
	}
	resp, err := s.client.Do(req)
	if err != nil {
		call.wrote.Store(true)
		if ctx.Err() != nil {
			s.L.Add("%s.%s=aborted", cs.Actor, cs.What)
		} else {
			s.L.Add("%s.%s=neterr", cs.Actor, cs.What)
		}
		return
	}
	body, _ := io.ReadAll(resp.Body)
	resp.Body.Close()
	res := ""
	if cs.Render != nil {
		res = cs.Render(resp.StatusCode, resp.Header, body)
	} else {
		res = s.DefaultRender(resp.StatusCode, resp.Header, body)
	}
	s.L.Add("%s.%s=%s", cs.Actor, cs.What, res)
}

// DefaultRender: status plus, for error documents, the errorType.
func (s *Stack) DefaultRender(status int, _ http.Header, body []byte) string {
	var m map[string]any
	if len(body) > 0 && body[0] == '{' && json.Unmarshal(body, &m) == nil {
		if t, ok := m["errorType"].(string); ok {
			return fmt.Sprintf("%d,%s", status, t)
		}
	}
	return fmt.Sprintf("%d", status)
}

// Blocked lists outstanding actor calls (canonical names, sorted).
func (s *Stack) Blocked() []string {
	s.mu.Lock()
	defer s.mu.Unlock()
	var r []string
	for _, c := range s.pending {
		if !c.done.Load() {
			r = append(r, c.Actor+"."+c.What)
		}
	}
	sort.Strings(r)
	return r
}

func (s *Stack) allWritten() bool {
	s.mu.Lock()
	defer s.mu.Unlock()
	for _, c := range s.pending {
		if !c.done.Load() && !c.wrote.Load() {
			return false
		}
	}
	return true
}

// ---------- quiescence ----------

var busyStates = []string{"running", "runnable", "syscall"}

// busy reports whether any goroutine that executes emulator code, an HTTP server connection or a
// harness call is currently running/runnable (the sampling goroutine itself is excluded).
func busy() bool {
	buf := make([]byte, 1<<20)
	for {
		n := runtime.Stack(buf, true)
		if n < len(buf) {
			buf = buf[:n]
			break
		}
		buf = make([]byte, 2*len(buf))
	}
	for _, blk := range strings.Split(string(buf), "\n\n") {
		nl := strings.IndexByte(blk, '\n')
		if nl < 0 {
			continue
		}
		hdr := blk[:nl]
		lb := strings.IndexByte(hdr, '[')
		if lb < 0 {
			continue
		}
		st := hdr[lb+1:]
		isBusy := false
		for _, b := range busyStates {
			if strings.HasPrefix(st, b) {
				isBusy = true
			}
		}
		if !isBusy {
			continue
		}
		if strings.Contains(blk, "stack.busy(") {
			continue // ourselves
		}
		if strings.Contains(blk, "go.amzn.com/") || strings.Contains(blk, "net/http.(*conn).serve") ||
			strings.Contains(blk, "stack.(*Stack).doCall") || strings.Contains(blk, "stack.(*Stack).invokeCaller") ||
			strings.Contains(blk, "net/http.(*persistConn)") || strings.Contains(blk, "net/http.(*Transport)") {
			return true
		}
	}
	return false
}

// Settle waits until the stack is quiescent: log stable, all actor requests written, no relevant
// goroutine busy — for `stable` consecutive samples `gap` apart. Returns false on timeout.
func (s *Stack) Settle(stable int, gap time.Duration, max time.Duration) bool {
	deadline := time.Now().Add(max)
	good := 0
	last := -1
	for {
		n := s.L.Len()
		if n == last && s.allWritten() && !busy() && s.L.Len() == n {
			good++
			if good >= stable {
				return true
			}
		} else {
			good = 0
		}
		last = n
		if time.Now().After(deadline) {
			return false
		}
		time.Sleep(gap)
	}
}

func (s *Stack) Callers() int { return int(atomic.LoadInt32(&s.callers)) }

// HashBytes is the canonical "<len>:<sha256 prefix>" text.
func HashBytes(b []byte) string { return hash(b) }

func (s *Stack) SetAgentID(name, id string) {
	s.mu.Lock()
	defer s.mu.Unlock()
	if old := s.AgentIDs[name]; old != "" && old != id {
		s.PrevIDs[name] = old
	}
	s.AgentIDs[name] = id
}

// PrevAgentID is the identifier `name` held before its current one ("" if none).
func (s *Stack) PrevAgentID(name string) string {
	s.mu.Lock()
	defer s.mu.Unlock()
	return s.PrevIDs[name]
}

func (s *Stack) AgentID(name string) string {
	s.mu.Lock()
	defer s.mu.Unlock()
	return s.AgentIDs[name]
}

func (s *Stack) SetLastRtID(id string) {
	s.mu.Lock()
	defer s.mu.Unlock()
	s.LastRtID = id
}
