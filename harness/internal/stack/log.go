// Package stack runs the REAL emulator stack in process (rapidcore.SandboxBuilder: interop
// server + orchestrator + Runtime API server on loopback) against a fake process supervisor
// and scripted HTTP actors, and records everything observable in one sequence-numbered log.
package stack

import (
	"fmt"
	"sync"
	"time"
)

type Entry struct {
	Seq  int
	At   time.Time
	Text string
}

type Log struct {
	mu      sync.Mutex
	entries []Entry
}

func (l *Log) Add(format string, a ...any) {
	l.mu.Lock()
	defer l.mu.Unlock()
	l.entries = append(l.entries, Entry{Seq: len(l.entries), At: time.Now(), Text: fmt.Sprintf(format, a...)})
}

func (l *Log) Len() int {
	l.mu.Lock()
	defer l.mu.Unlock()
	return len(l.entries)
}

// Since returns the entries with Seq >= from.
func (l *Log) Since(from int) []Entry {
	l.mu.Lock()
	defer l.mu.Unlock()
	if from > len(l.entries) {
		from = len(l.entries)
	}
	out := make([]Entry, len(l.entries)-from)
	copy(out, l.entries[from:])
	return out
}
