package stack

import (
	"context"
	"fmt"
	"strings"
	"sync"
	"time"

	supvmodel "go.amzn.com/lambda/supervisor/model"
)

// Behaviour of a fake process, selected by the base name of the executable / the runtime.
type Behaviour struct {
	ExecFails bool   // Exec returns an error
	ExecHold  bool   // Exec starts the process but returns only when released (ReleaseExec)
	OnTerm    string // "exit:<code>" | "ignore" (default: ignore)
}

type Proc struct {
	Name   string // supervisor name, e.g. extension-a-1, runtime-1
	Base   string // script key: extension base name or "runtime"
	Path   string
	Env    map[string]string
	exited bool
	ctx    context.Context
	cancel context.CancelFunc
}

// FakeSup implements supvmodel.ProcessSupervisor. It is held to the same contract as the
// Lean Supervisor model (C19): exactly one termination event per exec'd name; Kill returns nil
// only after the process has terminated (and for an already exited one); unknown name → error.
type FakeSup struct {
	L      *Log
	mu     sync.Mutex
	procs  map[string]*Proc
	events chan supvmodel.Event
	Beh    map[string]Behaviour
	nEvent map[string]int
	holds  map[string]chan struct{} // base name -> an Exec call that has not returned yet
}

func NewFakeSup(l *Log) *FakeSup {
	return &FakeSup{L: l, procs: map[string]*Proc{}, events: make(chan supvmodel.Event, 4096), Beh: map[string]Behaviour{}, nEvent: map[string]int{}, holds: map[string]chan struct{}{}}
}

func baseOf(name string) string {
	// extension-<base>-<gen> | runtime-<gen>
	i := strings.LastIndexByte(name, '-')
	if i < 0 {
		return name
	}
	s := name[:i]
	return strings.TrimPrefix(s, "extension-")
}

func (f *FakeSup) Exec(_ context.Context, r *supvmodel.ExecRequest) error {
	f.mu.Lock()
	defer f.mu.Unlock()
	base := baseOf(r.Name)
	if f.Beh[base].ExecFails {
		f.L.Add("sup execfail:%s", r.Name)
		return fmt.Errorf("fakesup: cannot exec %s", r.Path)
	}
	if _, dup := f.procs[r.Name]; dup {
		f.L.Add("sup execdup:%s", r.Name)
		return fmt.Errorf("fakesup: duplicate name %s", r.Name)
	}
	ctx, cancel := context.WithCancel(context.Background())
	p := &Proc{Name: r.Name, Base: base, Path: r.Path, ctx: ctx, cancel: cancel}
	if r.Env != nil {
		p.Env = map[string]string{}
		for k, v := range *r.Env {
			p.Env[k] = v
		}
	}
	f.procs[r.Name] = p
	f.L.Add("sup exec:%s", r.Name)
	has := func(k string) int {
		if v, ok := p.Env[k]; ok && v != "" {
			return 1
		}
		return 0
	}
	f.L.Add("#envkeys %s AKID=%d SECRET=%d SESSION=%d TOKEN=%d URI=%d API=%s", r.Name, has("AWS_ACCESS_KEY_ID"), has("AWS_SECRET_ACCESS_KEY"),
		has("AWS_SESSION_TOKEN"), has("AWS_CONTAINER_AUTHORIZATION_TOKEN"), has("AWS_CONTAINER_CREDENTIALS_FULL_URI"), p.Env["AWS_LAMBDA_RUNTIME_API"])
	if f.Beh[base].ExecHold {
		// the process runs, the call has not returned to the platform yet (a slow fork/exec)
		ch := make(chan struct{})
		f.holds[base] = ch
		f.mu.Unlock()
		<-ch
		f.mu.Lock()
	}
	return nil
}

// ReleaseExec lets a held Exec call of that base name return.
func (f *FakeSup) ReleaseExec(base string) bool {
	f.mu.Lock()
	defer f.mu.Unlock()
	ch, ok := f.holds[base]
	if ok {
		delete(f.holds, base)
		close(ch)
	}
	return ok
}

func (f *FakeSup) exitLocked(p *Proc, code *int32, sig *int32) {
	if p.exited {
		return
	}
	p.exited = true
	p.cancel()
	dom := "runtime"
	name := p.Name
	f.nEvent[name]++
	st := ""
	if code != nil {
		st = fmt.Sprintf("code%d", *code)
	} else {
		st = fmt.Sprintf("sig%d", *sig)
	}
	f.L.Add("sup exited:%s:%s", name, st)
	f.events <- supvmodel.Event{Time: uint64(time.Now().UnixMilli()), Event: supvmodel.EventData{Domain: &dom, Name: &name, Signo: sig, ExitStatus: code}}
}

func (f *FakeSup) Terminate(_ context.Context, r *supvmodel.TerminateRequest) error {
	f.mu.Lock()
	defer f.mu.Unlock()
	p, ok := f.procs[r.Name]
	if !ok {
		f.L.Add("sup term-unknown:%s", r.Name)
		return &supvmodel.SupervisorError{Kind: supvmodel.NoSuchEntity}
	}
	f.L.Add("sup term:%s", r.Name)
	if !p.exited {
		if b := f.Beh[p.Base].OnTerm; strings.HasPrefix(b, "exit:") {
			var c int32
			fmt.Sscanf(b[5:], "%d", &c)
			f.exitLocked(p, &c, nil)
		}
	}
	return nil
}

func (f *FakeSup) Kill(_ context.Context, r *supvmodel.KillRequest) error {
	f.mu.Lock()
	defer f.mu.Unlock()
	p, ok := f.procs[r.Name]
	if !ok {
		f.L.Add("sup kill-unknown:%s", r.Name)
		return &supvmodel.SupervisorError{Kind: supvmodel.NoSuchEntity}
	}
	if !p.exited && !r.Deadline.After(time.Now()) {
		// as the local supervisor (C19): a deadline that is already over is refused, nothing is signalled
		f.L.Add("sup kill-baddeadline:%s", r.Name)
		return fmt.Errorf("invalid timeout while killing %s", r.Name)
	}
	f.L.Add("sup kill:%s", r.Name)
	if !p.exited {
		s := int32(9)
		f.exitLocked(p, nil, &s)
	}
	return nil
}

func (f *FakeSup) Events(context.Context, *supvmodel.EventsRequest) (<-chan supvmodel.Event, error) {
	return f.events, nil
}

// NaturalExit makes the named process exit by itself (code >= 0) or die by signal (-code).
func (f *FakeSup) NaturalExit(name string, code int) bool {
	f.mu.Lock()
	defer f.mu.Unlock()
	p, ok := f.procs[name]
	if !ok || p.exited {
		return false
	}
	if code >= 0 {
		c := int32(code)
		f.exitLocked(p, &c, nil)
	} else {
		s := int32(-code)
		f.exitLocked(p, nil, &s)
	}
	return true
}

// Live returns the newest live process with the given base name.
func (f *FakeSup) Live(base string) *Proc {
	f.mu.Lock()
	defer f.mu.Unlock()
	var best *Proc
	for _, p := range f.procs {
		if p.Base == base && !p.exited {
			if best == nil || len(p.Name) > len(best.Name) || (len(p.Name) == len(best.Name) && p.Name > best.Name) {
				best = p
			}
		}
	}
	return best
}

func (f *FakeSup) Get(name string) *Proc {
	f.mu.Lock()
	defer f.mu.Unlock()
	return f.procs[name]
}

func (f *FakeSup) LiveNames() []string {
	f.mu.Lock()
	defer f.mu.Unlock()
	var r []string
	for n, p := range f.procs {
		if !p.exited {
			r = append(r, n)
		}
	}
	return r
}
