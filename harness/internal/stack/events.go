package stack

import (
	"fmt"
	"sort"
	"strings"
	"sync/atomic"

	"go.amzn.com/lambda/interop"
)

// RecEvents is a recording interop.EventsAPI.
type RecEvents struct {
	L     *Log
	Alias func(string) string
	cur   atomic.Value // string: the request id events are attributed to (SetCurrentRequestID)
}

func strp(p *string) string {
	if p == nil {
		return "-"
	}
	return *p
}

func (r *RecEvents) SetCurrentRequestID(id interop.RequestID) { r.cur.Store(string(id)) }
func (r *RecEvents) current() string {
	if v, ok := r.cur.Load().(string); ok && v != "" {
		return r.Alias(v)
	}
	return "none"
}
func (r *RecEvents) SendInitStart(d interop.InitStartData) error {
	r.L.Add("ev initStart:%s", d.Phase)
	return nil
}
func (r *RecEvents) SendInitRuntimeDone(d interop.InitRuntimeDoneData) error {
	r.L.Add("ev initRuntimeDone:%s:%s:%s", d.Phase, d.Status, strp(d.ErrorType))
	return nil
}
func (r *RecEvents) SendInitReport(d interop.InitReportData) error {
	r.L.Add("ev initReport:%s", d.Phase)
	return nil
}
func (r *RecEvents) SendRestoreRuntimeDone(d interop.RestoreRuntimeDoneData) error {
	r.L.Add("ev restoreRuntimeDone:%s:%s", d.Status, strp(d.ErrorType))
	return nil
}
func (r *RecEvents) SendInvokeStart(d interop.InvokeStartData) error {
	r.L.Add("ev invokeStart:%s", r.Alias(d.RequestID))
	return nil
}
func (r *RecEvents) SendInvokeRuntimeDone(d interop.InvokeRuntimeDoneData) error {
	// as the telemetry API does, the event goes out under the current request id (a side line: not compared with the model)
	r.L.Add("#evreq invokeRuntimeDone %s", r.current())
	r.L.Add("ev invokeRuntimeDone:%s:%s", d.Status, strp(d.ErrorType))
	return nil
}
func (r *RecEvents) SendExtensionInit(d interop.ExtensionInitData) error {
	subs := append([]string{}, d.Subscriptions...)
	sort.Strings(subs)
	r.L.Add("ev extensionInit:%s:%s:%s:%s", d.AgentName, d.State, strings.Join(subs, "+"), orDash(d.ErrorType))
	return nil
}
func (r *RecEvents) SendReportSpan(interop.Span) error   { return nil }
func (r *RecEvents) SendReport(interop.ReportData) error { return nil }
func (r *RecEvents) SendEnd(interop.EndData) error       { return nil }
func (r *RecEvents) SendFault(d interop.FaultData) error {
	r.L.Add("ev fault:%s", fmt.Sprint(d.ErrorType))
	return nil
}
func (r *RecEvents) SendImageErrorLog(interop.ImageErrorLogData) {}
func (r *RecEvents) FetchTailLogs(string) (string, error)        { return "", nil }
func (r *RecEvents) GetRuntimeDoneSpans(int64, *interop.InvokeResponseMetrics, int64, int64) []interop.Span {
	return nil
}

func orDash(s string) string {
	if s == "" {
		return "-"
	}
	return s
}
