// Package drv holds what every harness command shares: flags, stats/evidence counters,
// trace-file reading for replays.
package drv

import (
	"bufio"
	"encoding/json"
	"flag"
	"os"
	"strconv"
	"strings"
)

type Stats struct {
	Cases    int            `json:"cases"`
	Steps    int            `json:"steps"`
	Distinct int            `json:"distinct_nontrivial"`
	Dist     map[string]int `json:"distribution"`
	Samples  []string       `json:"samples"`
	Notes    []string       `json:"notes,omitempty"`
	seen     map[uint64]bool
}

func NewStats() *Stats { return &Stats{Dist: map[string]int{}, seen: map[uint64]bool{}} }

func (s *Stats) Inc(k string) { s.Dist[k]++ }

// Mark records a case by the hash of its canonical trace; nontrivial says whether it counts.
func (s *Stats) Mark(h uint64, nontrivial bool) {
	if nontrivial && !s.seen[h] {
		s.seen[h] = true
		s.Distinct++
	}
}

func (s *Stats) Sample(x string) {
	if len(s.Samples) < 4 {
		s.Samples = append(s.Samples, x)
	}
}

func (s *Stats) Note(x string) {
	if len(s.Notes) < 20 {
		s.Notes = append(s.Notes, x)
	}
}

// Fnv folds s into the running hash h (start with 0).
func Fnv(h uint64, s string) uint64 {
	if h == 0 {
		h = 14695981039346656037
	}
	for i := 0; i < len(s); i++ {
		h ^= uint64(s[i])
		h *= 1099511628211
	}
	return h
}

func (s *Stats) Write(path string) {
	if path == "" {
		return
	}
	b, _ := json.MarshalIndent(s, "", " ")
	_ = os.WriteFile(path, b, 0o644)
}

type Common struct {
	Seed   uint64
	Cases  int
	Out    string
	Stats  string
	Tier   string
	Replay string
}

func CommonFlags(fs *flag.FlagSet) *Common {
	c := &Common{}
	fs.Uint64Var(&c.Seed, "seed", 1, "seed")
	fs.IntVar(&c.Cases, "cases", 100, "number of cases")
	fs.StringVar(&c.Out, "out", "trace.txt", "trace output")
	fs.StringVar(&c.Stats, "stats", "", "stats json output")
	fs.StringVar(&c.Tier, "tier", "quick", "quick|thorough")
	fs.StringVar(&c.Replay, "replay", "", "replay the ops of this trace file instead of generating")
	return c
}

// ReplayCase is one case read back from a trace / corpus file (obs lines are ignored).
type ReplayCase struct {
	ID   string
	Init []string
	Ops  [][]string
	// OpLines holds the raw text after "op " (for ops whose arguments contain spaces)
	OpLines []string
}

func ReadCases(path string) []ReplayCase {
	f, err := os.Open(path)
	if err != nil {
		return nil
	}
	defer f.Close()
	var res []ReplayCase
	sc := bufio.NewScanner(f)
	sc.Buffer(make([]byte, 1<<20), 1<<28)
	for sc.Scan() {
		line := sc.Text()
		switch {
		case strings.HasPrefix(line, "case "):
			res = append(res, ReplayCase{ID: line[5:]})
		case strings.HasPrefix(line, "init") && len(res) > 0:
			res[len(res)-1].Init = strings.Fields(line)[1:]
		case strings.HasPrefix(line, "op ") && len(res) > 0:
			res[len(res)-1].Ops = append(res[len(res)-1].Ops, strings.Fields(line)[1:])
			res[len(res)-1].OpLines = append(res[len(res)-1].OpLines, line[3:])
		}
	}
	return res
}

func Atoi(s string) int {
	n, _ := strconv.Atoi(s)
	return n
}

func AtoiDef(ws []string, i, def int) int {
	if i < len(ws) {
		if n, err := strconv.Atoi(ws[i]); err == nil {
			return n
		}
	}
	return def
}
