// Package trace writes the line protocol consumed by rie-oracle.
package trace

import (
	"bufio"
	"fmt"
	"os"
)

type W struct {
	f *os.File
	b *bufio.Writer
}

func Create(path string) (*W, error) {
	f, err := os.Create(path)
	if err != nil {
		return nil, err
	}
	return &W{f: f, b: bufio.NewWriterSize(f, 1<<20)}, nil
}

func (w *W) Case(id string)                  { fmt.Fprintf(w.b, "case %s\n", id) }
func (w *W) Init(format string, a ...any)    { fmt.Fprintf(w.b, "init "+format+"\n", a...) }
func (w *W) Op(format string, a ...any)      { fmt.Fprintf(w.b, "op "+format+"\n", a...) }
func (w *W) Obs(format string, a ...any)     { fmt.Fprintf(w.b, "obs "+format+"\n", a...) }
func (w *W) Comment(format string, a ...any) { fmt.Fprintf(w.b, "# "+format+"\n", a...) }
func (w *W) Close() error                    { w.b.Flush(); return w.f.Close() }
func (w *W) Flush()                          { w.b.Flush() }
