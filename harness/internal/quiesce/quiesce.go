// Package quiesce decides when goroutines started by the harness for a blocking call have
// either returned or are parked in a known wait. It parses runtime.Stack(all): a goroutine
// that has been signalled is shown as runnable/running, never as "sync.Cond.Wait", so
// "number of not-yet-returned callers == number of marker goroutines in state W" is exact and
// independent of timing.
package quiesce

import (
	"runtime"
	"strings"
	"time"
)

// CountParked returns how many goroutines whose stack contains marker are in one of the
// given wait states (prefix match on the bracketed status).
func CountParked(marker string, states ...string) int {
	buf := make([]byte, 1<<20)
	for {
		n := runtime.Stack(buf, true)
		if n < len(buf) {
			buf = buf[:n]
			break
		}
		buf = make([]byte, 2*len(buf))
	}
	cnt := 0
	for _, blk := range strings.Split(string(buf), "\n\n") {
		if !strings.Contains(blk, marker) {
			continue
		}
		nl := strings.IndexByte(blk, '\n')
		if nl < 0 {
			continue
		}
		hdr := blk[:nl]
		lb := strings.IndexByte(hdr, '[')
		if lb < 0 {
			continue
		}
		st := hdr[lb+1:]
		for _, s := range states {
			if strings.HasPrefix(st, s) {
				cnt++
				break
			}
		}
	}
	return cnt
}

// Wait polls until pending() == CountParked(marker, states...) or the grace period expires.
// It returns true when quiescent.
func Wait(pending func() int, grace time.Duration, marker string, states ...string) bool {
	deadline := time.Now().Add(grace)
	spins := 0
	for {
		p := pending()
		if p == 0 {
			return true
		}
		if CountParked(marker, states...) == p && pending() == p {
			return true
		}
		if time.Now().After(deadline) {
			return false
		}
		spins++
		if spins < 50 {
			runtime.Gosched()
		} else {
			time.Sleep(50 * time.Microsecond)
		}
	}
}
