package main

import (
	"fmt"
	"strings"
	"sync/atomic"
	"time"

	"verifharness/internal/quiesce"
)

// waiter is one goroutine slot that may be inside a blocking call of the real code.
type waiter struct {
	state atomic.Int32 // 0 idle, 1 inside the call, 2 returned
	res   string
}

type pool struct {
	ws []*waiter
}

func newPool(n int) *pool {
	p := &pool{}
	for i := 0; i < n; i++ {
		p.ws = append(p.ws, &waiter{})
	}
	return p
}

//go:noinline
func verifBlockedCall(w *waiter, call func() string) {
	w.res = call()
	w.state.Store(2)
}

func (p *pool) enter(i int, call func() string) {
	w := p.ws[i]
	w.state.Store(1)
	go verifBlockedCall(w, call)
}

func (p *pool) collect(i int) { p.ws[i].state.Store(0) }

func (p *pool) pending() int {
	n := 0
	for _, w := range p.ws {
		if w.state.Load() == 1 {
			n++
		}
	}
	return n
}

func (p *pool) idle() []int {
	var r []int
	for i, w := range p.ws {
		if w.state.Load() == 0 {
			r = append(r, i)
		}
	}
	return r
}

func (p *pool) returned() []int {
	var r []int
	for i, w := range p.ws {
		if w.state.Load() == 2 {
			r = append(r, i)
		}
	}
	return r
}

// settle waits until every goroutine inside a call has returned or is parked in Cond.Wait.
func (p *pool) settle() bool {
	return quiesce.Wait(p.pending, 5*time.Second, "verifBlockedCall", "sync.Cond.Wait")
}

func (p *pool) show() string {
	var sb strings.Builder
	for i, w := range p.ws {
		if i > 0 {
			sb.WriteByte(',')
		}
		switch w.state.Load() {
		case 0:
			sb.WriteString("idle")
		case 1:
			sb.WriteString("parked")
		case 2:
			fmt.Fprintf(&sb, "done:%s", w.res)
		}
	}
	return sb.String()
}

func (p *pool) counts() (idle, parked, done int) {
	for _, w := range p.ws {
		switch w.state.Load() {
		case 0:
			idle++
		case 1:
			parked++
		case 2:
			done++
		}
	}
	return
}

// settleAll is settle for several pools sharing the marker frame.
func settleAll(ps []*pool) bool {
	return quiesce.Wait(func() int {
		n := 0
		for _, p := range ps {
			n += p.pending()
		}
		return n
	}, 5*time.Second, "verifBlockedCall", "sync.Cond.Wait")
}
