package main

// unitdrv regrace: concurrent registrations against the real registration service (C13: "at most ten
// extensions exist", names unique) — the one clause of C13 whose failure needs interleavings finer
// than the sequential system model has: a limit that is checked and applied in two steps admits two
// registrations at nine. Sampling, not proof: R rounds, K goroutines released together at 9 (and at 8)
// registered agents; a round is wrong if more than ten agents exist afterwards, if more registrations
// were admitted than places were free, or if one name was admitted twice.

import (
	"flag"
	"fmt"
	"os"
	"sync"

	"go.amzn.com/lambda/core"
)

func init() { commands["regrace"] = regraceCmd }

func regraceCmd(args []string) int {
	fs := flag.NewFlagSet("regrace", flag.ExitOnError)
	rounds := fs.Int("rounds", 4000, "rounds")
	k := fs.Int("k", 8, "concurrent registrations per round")
	out := fs.String("out", "", "report file (one line per wrong round, then a summary line)")
	_ = fs.Parse(args)
	var lines []string
	bad := 0
	for r := 0; r < *rounds; r++ {
		pre := 9 - r%2 // nine or eight agents before the burst: one or two free places
		rs := core.NewRegistrationService(core.NewInitFlowSynchronization(), core.NewInvokeFlowSynchronization())
		for i := 0; i < pre; i++ {
			var err error
			if i%2 == 0 {
				_, err = rs.CreateExternalAgent(fmt.Sprintf("e%d", i))
			} else {
				_, err = rs.CreateInternalAgent(fmt.Sprintf("i%d", i))
			}
			if err != nil {
				fmt.Fprintln(os.Stderr, "setup:", err)
				return 2
			}
		}
		start := make(chan struct{})
		var wg sync.WaitGroup
		okc := make([]bool, *k)
		for g := 0; g < *k; g++ {
			wg.Add(1)
			go func(g int) {
				defer wg.Done()
				<-start
				// half of the goroutines compete for one name, the others use names of their own
				name := fmt.Sprintf("late-%d", g)
				if g%2 == 1 {
					name = "late-same"
				}
				_, err := rs.CreateInternalAgent(name)
				okc[g] = err == nil
			}(g)
		}
		close(start)
		wg.Wait()
		admitted, same := 0, 0
		for g, ok := range okc {
			if ok {
				admitted++
				if g%2 == 1 {
					same++
				}
			}
		}
		n := int(rs.CountAgents())
		if n > core.MaxAgentsAllowed || admitted > core.MaxAgentsAllowed-pre || same > 1 {
			bad++
			if len(lines) < 5 {
				lines = append(lines, fmt.Sprintf("round %d: %d agents registered, then %d concurrent internal registrations: %d admitted (%d of them under one name), %d agents exist (limit %d)",
					r, pre, *k, admitted, same, n, core.MaxAgentsAllowed))
			}
		}
	}
	lines = append(lines, fmt.Sprintf("summary rounds=%d k=%d wrong=%d", *rounds, *k, bad))
	text := ""
	for _, l := range lines {
		text += l + "\n"
	}
	if *out == "" {
		fmt.Print(text)
	} else if err := os.WriteFile(*out, []byte(text), 0o644); err != nil {
		fmt.Fprintln(os.Stderr, err)
		return 2
	}
	return 0
}
