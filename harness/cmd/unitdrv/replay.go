package main

import (
	"bufio"
	"os"
	"strconv"
	"strings"
)

// replayCase is one case read back from a trace / corpus file (obs lines are ignored).
type replayCase struct {
	id   string
	init []string
	ops  [][]string
}

func readCases(path string) []replayCase {
	f, err := os.Open(path)
	if err != nil {
		return nil
	}
	defer f.Close()
	var res []replayCase
	sc := bufio.NewScanner(f)
	sc.Buffer(make([]byte, 1<<20), 1<<28)
	for sc.Scan() {
		line := sc.Text()
		switch {
		case strings.HasPrefix(line, "case "):
			res = append(res, replayCase{id: line[5:]})
		case strings.HasPrefix(line, "init") && len(res) > 0:
			res[len(res)-1].init = strings.Fields(line)[1:]
		case strings.HasPrefix(line, "op ") && len(res) > 0:
			res[len(res)-1].ops = append(res[len(res)-1].ops, strings.Fields(line)[1:])
		}
	}
	return res
}

func atoi(s string) int {
	n, _ := strconv.Atoi(s)
	return n
}

func atoiDef(ws []string, i, def int) int {
	if i < len(ws) {
		if n, err := strconv.Atoi(ws[i]); err == nil {
			return n
		}
	}
	return def
}
