// unitdrv drives real objects and functions of go.amzn.com packages op by op and writes
// the line protocol that rie-oracle replays on the Lean models.
package main

import (
	"encoding/json"
	"flag"
	"fmt"
	"os"
	"sort"
)

type stats struct {
	Cases    int            `json:"cases"`
	Steps    int            `json:"steps"`
	Distinct int            `json:"distinct_nontrivial"`
	Dist     map[string]int `json:"distribution"`
	Samples  []string       `json:"samples"`
	Notes    []string       `json:"notes,omitempty"`
	seen     map[uint64]bool
}

func newStats() *stats { return &stats{Dist: map[string]int{}, seen: map[uint64]bool{}} }

func (s *stats) inc(k string) { s.Dist[k]++ }

// mark records a case by the hash of its canonical trace; nontrivial says whether it counts.
func (s *stats) mark(h uint64, nontrivial bool) {
	if nontrivial && !s.seen[h] {
		s.seen[h] = true
		s.Distinct++
	}
}

func fnv(h uint64, s string) uint64 {
	if h == 0 {
		h = 14695981039346656037
	}
	for i := 0; i < len(s); i++ {
		h ^= uint64(s[i])
		h *= 1099511628211
	}
	return h
}

func (s *stats) write(path string) {
	if path == "" {
		return
	}
	b, _ := json.MarshalIndent(s, "", " ")
	_ = os.WriteFile(path, b, 0o644)
}

type common struct {
	seed  uint64
	cases int
	out   string
	stats string
	tier  string
}

func commonFlags(fs *flag.FlagSet) *common {
	c := &common{}
	fs.Uint64Var(&c.seed, "seed", 1, "seed")
	fs.IntVar(&c.cases, "cases", 100, "number of cases")
	fs.StringVar(&c.out, "out", "trace.txt", "trace output")
	fs.StringVar(&c.stats, "stats", "", "stats json output")
	fs.StringVar(&c.tier, "tier", "quick", "quick|thorough")
	return c
}

var commands = map[string]func(args []string) int{}

func main() {
	if len(os.Args) < 2 {
		var names []string
		for k := range commands {
			names = append(names, k)
		}
		sort.Strings(names)
		fmt.Fprintln(os.Stderr, "usage: unitdrv <cmd> [flags]; cmds:", names)
		os.Exit(2)
	}
	f, ok := commands[os.Args[1]]
	if !ok {
		fmt.Fprintln(os.Stderr, "unknown command", os.Args[1])
		os.Exit(2)
	}
	os.Exit(f(os.Args[2:]))
}

func os_stderr() *os.File { return os.Stderr }
