// unitdrv drives real objects and functions of go.amzn.com packages op by op and writes
// the line protocol that rie-oracle replays on the Lean models.
package main

import (
	"flag"
	"fmt"
	"os"
	"sort"

	"verifharness/internal/drv"
)

type stats = drv.Stats
type common = drv.Common
type replayCase = drv.ReplayCase

func newStats() *stats                     { return drv.NewStats() }
func fnv(h uint64, s string) uint64        { return drv.Fnv(h, s) }
func commonFlags(fs *flag.FlagSet) *common { return drv.CommonFlags(fs) }
func readCases(path string) []replayCase   { return drv.ReadCases(path) }
func atoi(s string) int                    { return drv.Atoi(s) }
func atoiDef(ws []string, i, def int) int  { return drv.AtoiDef(ws, i, def) }

var commands = map[string]func(args []string) int{}

func main() {
	if len(os.Args) < 2 {
		var names []string
		for k := range commands {
			names = append(names, k)
		}
		sort.Strings(names)
		fmt.Fprintln(os.Stderr, "usage: unitdrv <cmd> [flags]; cmds:", names)
		os.Exit(2)
	}
	f, ok := commands[os.Args[1]]
	if !ok {
		fmt.Fprintln(os.Stderr, "unknown command", os.Args[1])
		os.Exit(2)
	}
	os.Exit(f(os.Args[2:]))
}

func os_stderr() *os.File { return os.Stderr }
