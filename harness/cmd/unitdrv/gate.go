package main

import (
	"context"
	"errors"
	"flag"
	"fmt"

	"go.amzn.com/lambda/core"
	"go.amzn.com/lambda/interop"
	"verifharness/internal/rng"
	"verifharness/internal/trace"
)

func init() {
	commands["gate"] = gateCmd
	commands["flow"] = flowCmd
	commands["thread"] = threadCmd
}

// errors handed to CancelWithError are identified by a small number
var cancelErrs = []error{errors.New("e0"), errors.New("e1"), errors.New("e2"), interop.ErrRestoreHookTimeout}

func errName(err error) string {
	if err == nil {
		return "ok"
	}
	if err == core.ErrGateCanceled {
		return "canceled"
	}
	if err == core.ErrGateIntegrity {
		return "integrity"
	}
	for i, e := range cancelErrs {
		if err == e {
			return fmt.Sprintf("err%d", i)
		}
	}
	return "other:" + err.Error()
}

func retName(err error) string {
	if err == nil {
		return "ok"
	}
	return errName(err)
}

type gateOp struct {
	kind string
	a    int
}

func (o gateOp) String() string {
	switch o.kind {
	case "reset", "walk", "clear":
		return o.kind
	case "cancel":
		if o.a < 0 {
			return "cancel nil"
		}
		return fmt.Sprintf("cancel %d", o.a)
	default:
		return fmt.Sprintf("%s %d", o.kind, o.a)
	}
}

// applyGateOp runs one op on the real gate; returns the ret field.
func applyGateOp(g core.Gate, p *pool, o gateOp) string {
	switch o.kind {
	case "setcount":
		return retName(g.SetCount(uint16(o.a)))
	case "reset":
		g.Reset()
	case "walk":
		return retName(g.WalkThrough())
	case "cancel":
		if o.a < 0 {
			g.CancelWithError(nil)
		} else {
			g.CancelWithError(cancelErrs[o.a])
		}
	case "clear":
		g.Clear()
	case "register":
		g.Register(uint16(o.a))
	case "enter":
		p.enter(o.a, func() string { return errName(g.AwaitGateCondition()) })
	case "collect":
		p.collect(o.a)
	}
	return "-"
}

func genGateOp(r *rng.R, p *pool, count int) gateOp {
	for {
		switch r.Pick([]int{10, 6, 30, 6, 5, 2, 25, 10}) {
		case 0:
			return gateOp{"setcount", r.Intn(5)}
		case 1:
			return gateOp{"reset", 0}
		case 2:
			return gateOp{"walk", 0}
		case 3:
			return gateOp{"cancel", r.Intn(4) - 1}
		case 4:
			return gateOp{"clear", 0}
		case 5:
			return gateOp{"register", r.Intn(3)}
		case 6:
			if id := p.idle(); len(id) > 0 {
				return gateOp{"enter", id[r.Intn(len(id))]}
			}
		case 7:
			if d := p.returned(); len(d) > 0 {
				return gateOp{"collect", d[r.Intn(len(d))]}
			}
		}
	}
}

func runGateCase(tw *trace.W, st *stats, id string, count, nw int, ops []gateOp, gen func(p *pool) (gateOp, bool)) bool {
	g := core.NewGate(uint16(count))
	p := newPool(nw)
	tw.Case(id)
	tw.Init("%d %d", count, nw)
	h := fnv(0, fmt.Sprintf("%d/%d", count, nw))
	nontrivial := false
	i := 0
	for {
		var o gateOp
		if gen != nil {
			var ok bool
			o, ok = gen(p)
			if !ok {
				break
			}
		} else {
			if i >= len(ops) {
				break
			}
			o = ops[i]
			// skip waiter ops that are not applicable (exhaustive mode)
			if o.kind == "enter" && (o.a >= nw || p.ws[o.a].state.Load() != 0) {
				i++
				continue
			}
			if o.kind == "collect" && (o.a >= nw || p.ws[o.a].state.Load() != 2) {
				i++
				continue
			}
		}
		i++
		ret := applyGateOp(g, p, o)
		if !p.settle() {
			st.Notes = append(st.Notes, "not quiescent after grace in case "+id)
		}
		obs := fmt.Sprintf("ret=%s ws=%s", ret, p.show())
		tw.Op("%s", o.String())
		tw.Obs("%s", obs)
		st.Steps++
		st.Inc("op:" + o.kind)
		if ret == "integrity" {
			st.Inc("ret:integrity")
			nontrivial = true
		}
		_, parked, done := p.counts()
		if parked > 0 {
			st.Inc("obs:some-parked")
			nontrivial = true
		}
		if done > 0 {
			st.Inc("obs:some-done")
		}
		h = fnv(h, o.String()+"|"+obs)
	}
	// release everything so goroutines do not accumulate
	g.CancelWithError(nil)
	p.settle()
	st.Cases++
	st.Mark(h, nontrivial)
	return true
}

func gateCmd(args []string) int {
	fs := flag.NewFlagSet("gate", flag.ExitOnError)
	c := commonFlags(fs)
	maxlen := fs.Int("maxlen", 40, "max ops per case")
	exhaustive := fs.Int("exhaustive", 0, "if >0: enumerate all sequences of this length over a fixed alphabet")
	_ = fs.Parse(args)
	tw, err := trace.Create(c.Out)
	if err != nil {
		fmt.Fprintln(os_stderr(), err)
		return 2
	}
	defer tw.Close()
	st := newStats()
	if c.Replay != "" {
		for _, rc := range readCases(c.Replay) {
			var ops []gateOp
			for _, ws := range rc.Ops {
				o := gateOp{kind: ws[0]}
				if len(ws) > 1 {
					if ws[1] == "nil" {
						o.a = -1
					} else {
						o.a = atoi(ws[1])
					}
				}
				ops = append(ops, o)
			}
			runGateCase(tw, st, rc.ID, atoiDef(rc.Init, 0, 1), atoiDef(rc.Init, 1, 0), ops, nil)
		}
		st.Write(c.Stats)
		return 0
	}
	r := rng.New(c.Seed)
	for k := 0; k < c.Cases; k++ {
		cr := r.Fork()
		count := []int{0, 1, 1, 2, 2, 3, 4, 65535}[cr.Intn(8)]
		nw := cr.Intn(5)
		n := 1 + cr.Intn(*maxlen)
		left := n
		if k < 3 {
			st.Samples = append(st.Samples, fmt.Sprintf("gate count=%d waiters=%d len=%d seed-derived", count, nw, n))
		}
		runGateCase(tw, st, fmt.Sprintf("g%d", k), count, nw, nil, func(p *pool) (gateOp, bool) {
			if left == 0 {
				return gateOp{}, false
			}
			left--
			return genGateOp(cr, p, count), true
		})
	}
	if *exhaustive > 0 {
		alpha := []gateOp{{"walk", 0}, {"enter", 0}, {"enter", 1}, {"setcount", 1}, {"reset", 0}, {"cancel", 1}, {"clear", 0}, {"cancel", -1}, {"setcount", 2}}
		idx := make([]int, *exhaustive)
		n := 0
		for {
			ops := make([]gateOp, len(idx))
			for i, a := range idx {
				ops[i] = alpha[a]
			}
			for _, count := range []int{1, 2} {
				runGateCase(tw, st, fmt.Sprintf("x%d_%d", count, n), count, 2, ops, nil)
			}
			n++
			j := len(idx) - 1
			for j >= 0 {
				idx[j]++
				if idx[j] < len(alpha) {
					break
				}
				idx[j] = 0
				j--
			}
			if j < 0 {
				break
			}
		}
		st.Notes = append(st.Notes, fmt.Sprintf("exhaustive: all %d sequences of length %d over a %d-op alphabet, counts 1 and 2, 2 waiters", n, *exhaustive, len(alpha)))
	}
	st.Write(c.Stats)
	return 0
}

// ---- flows ----

// flowAPI is the real flow object behind name-dispatched calls, so generated and replayed
// op lines go through the same code.
type flowAPI struct {
	ngates  int
	awaits  []func() error
	call    func(name string, arg int) (string, bool) // returns ret, known
	gen     func(r *rng.R) (string, int)
	release func()
}

func parseCancel(arg int) error {
	if arg < 0 {
		return nil
	}
	return cancelErrs[arg]
}

func newInitFlowAPI() *flowAPI {
	f := core.NewInitFlowSynchronization()
	afterClear := true // a new flow is as good as a cleared one
	return &flowAPI{
		ngates: 4,
		awaits: []func() error{f.AwaitExternalAgentsRegistered, f.AwaitRuntimeReady, f.AwaitAgentsReady, f.AwaitRuntimeRestoreReady},
		call: func(name string, a int) (string, bool) {
			switch name {
			case "setExternalAgentsRegisterCount":
				return retName(f.SetExternalAgentsRegisterCount(uint16(a))), true
			case "setAgentsReadyCount":
				return retName(f.SetAgentsReadyCount(uint16(a))), true
			case "externalAgentRegistered":
				return retName(f.ExternalAgentRegistered()), true
			case "runtimeReady":
				return retName(f.RuntimeReady()), true
			case "agentReady":
				return retName(f.AgentReady()), true
			case "runtimeRestoreReady":
				return retName(f.RuntimeRestoreReady()), true
			case "cancelWithError":
				f.CancelWithError(parseCancel(a))
				return "-", true
			case "clear":
				f.Clear()
				return "-", true
			case "awaitRuntimeReadyExpired":
				// the restore hook's deadline passes while the runtime-ready gate is closed (the op is only issued
				// right after a clear, so the wait cannot have ended by itself): the whole flow is cancelled
				ctx, cancel := context.WithCancel(context.Background())
				cancel()
				return retName(f.AwaitRuntimeReadyWithDeadline(ctx)), true
			}
			return "", false
		},
		gen: func(r *rng.R) (string, int) {
			if afterClear {
				afterClear = false
				if r.Intn(2) == 0 {
					return "awaitRuntimeReadyExpired", 0
				}
			}
			switch r.Pick([]int{8, 8, 14, 10, 12, 8, 5, 4}) {
			case 0:
				return "setExternalAgentsRegisterCount", r.Intn(4)
			case 1:
				return "setAgentsReadyCount", r.Intn(4)
			case 2:
				return "externalAgentRegistered", 0
			case 3:
				return "runtimeReady", 0
			case 4:
				return "agentReady", 0
			case 5:
				return "runtimeRestoreReady", 0
			case 6:
				return "cancelWithError", r.Intn(4) - 1
			}
			afterClear = true
			return "clear", 0
		},
		release: func() { f.CancelWithError(nil) },
	}
}

func newInvokeFlowAPI() *flowAPI {
	f := core.NewInvokeFlowSynchronization()
	return &flowAPI{
		ngates: 3,
		awaits: []func() error{f.AwaitRuntimeReady, f.AwaitRuntimeResponse, f.AwaitAgentsReady},
		call: func(name string, a int) (string, bool) {
			switch name {
			case "initializeBarriers":
				_ = f.InitializeBarriers()
				return "-", true
			case "setAgentsReadyCount":
				return retName(f.SetAgentsReadyCount(uint16(a))), true
			case "runtimeResponse":
				return retName(f.RuntimeResponse(nil)), true
			case "runtimeReady":
				return retName(f.RuntimeReady(nil)), true
			case "agentReady":
				return retName(f.AgentReady()), true
			case "cancelWithError":
				f.CancelWithError(parseCancel(a))
				return "-", true
			case "clear":
				f.Clear()
				return "-", true
			}
			return "", false
		},
		gen: func(r *rng.R) (string, int) {
			switch r.Pick([]int{8, 8, 12, 12, 12, 5, 4}) {
			case 0:
				return "initializeBarriers", 0
			case 1:
				return "setAgentsReadyCount", r.Intn(4)
			case 2:
				return "runtimeResponse", 0
			case 3:
				return "runtimeReady", 0
			case 4:
				return "agentReady", 0
			case 5:
				return "cancelWithError", r.Intn(4) - 1
			}
			return "clear", 0
		},
		release: func() { f.CancelWithError(nil) },
	}
}

func flowOpString(name string, a int) string {
	switch name {
	case "setExternalAgentsRegisterCount", "setAgentsReadyCount":
		return fmt.Sprintf("%s %d", name, a)
	case "cancelWithError":
		if a < 0 {
			return name + " nil"
		}
		return fmt.Sprintf("%s %d", name, a)
	}
	return name
}

func flowCmd(args []string) int {
	fs := flag.NewFlagSet("flow", flag.ExitOnError)
	c := commonFlags(fs)
	maxlen := fs.Int("maxlen", 40, "max ops per case")
	which := fs.String("which", "init", "init|invoke")
	_ = fs.Parse(args)
	tw, err := trace.Create(c.Out)
	if err != nil {
		fmt.Fprintln(os_stderr(), err)
		return 2
	}
	defer tw.Close()
	st := newStats()
	mk := newInitFlowAPI
	pre := "if"
	if *which != "init" {
		mk = newInvokeFlowAPI
		pre = "vf"
	}
	if c.Replay != "" {
		for _, rc := range readCases(c.Replay) {
			nw := atoiDef(rc.Init, 0, 1)
			if !runFlowCase(tw, st, nil, rc.ID, nw, 0, mk(), rc.Ops) {
				break
			}
		}
		st.Write(c.Stats)
		return 0
	}
	r := rng.New(c.Seed ^ 0xf10f)
	for k := 0; k < c.Cases; k++ {
		cr := r.Fork()
		nw := 1 + cr.Intn(3)
		n := 1 + cr.Intn(*maxlen)
		if !runFlowCase(tw, st, cr, fmt.Sprintf("%s%d", pre, k), nw, n, mk(), nil) {
			break
		}
	}
	st.Write(c.Stats)
	return 0
}

// runFlowCase returns false if waiters were still parked after the flow had been cancelled at the end
// of the case: they will never return (lost wake-up), and being parked in the marker frame they would
// make every later quiescence wait run into its grace period.
func runFlowCase(tw *trace.W, st *stats, r *rng.R, id string, nw, n int, api *flowAPI, replayOps [][]string) bool {
	pools := make([]*pool, api.ngates)
	for i := range pools {
		pools[i] = newPool(nw)
	}
	tw.Case(id)
	tw.Init("%d", nw)
	h := fnv(0, fmt.Sprintf("%d", api.ngates))
	nontrivial := false
	show := func() string {
		s := ""
		for i, p := range pools {
			if i > 0 {
				s += " "
			}
			s += p.show()
		}
		return s
	}
	settle := func() {
		if !settleAll(pools) {
			st.Notes = append(st.Notes, "not quiescent after grace in case "+id)
		}
	}
	doEnter := func(k, w int) {
		aw := api.awaits[k]
		pools[k].enter(w, func() string { return errName(aw()) })
	}
	steps := n
	if replayOps != nil {
		steps = len(replayOps)
	}
	for i := 0; i < steps; i++ {
		var op, ret string
		if replayOps != nil {
			ws := replayOps[i]
			switch {
			case ws[0] == "enter" && len(ws) == 3:
				k, w := atoi(ws[1]), atoi(ws[2])
				if k >= len(pools) || w >= nw || pools[k].ws[w].state.Load() != 0 {
					continue
				}
				doEnter(k, w)
				op, ret = fmt.Sprintf("enter %d %d", k, w), "-"
			case ws[0] == "collect" && len(ws) == 3:
				k, w := atoi(ws[1]), atoi(ws[2])
				if k >= len(pools) || w >= nw || pools[k].ws[w].state.Load() != 2 {
					continue
				}
				pools[k].collect(w)
				op, ret = fmt.Sprintf("collect %d %d", k, w), "-"
			default:
				a := 0
				if len(ws) > 1 {
					if ws[1] == "nil" {
						a = -1
					} else {
						a = atoi(ws[1])
					}
				}
				rr, ok := api.call(ws[0], a)
				if !ok {
					continue
				}
				op, ret = flowOpString(ws[0], a), rr
			}
		} else {
			choice := r.Pick([]int{60, 28, 12})
			if choice == 1 {
				k := r.Intn(len(pools))
				if idl := pools[k].idle(); len(idl) > 0 {
					w := idl[r.Intn(len(idl))]
					doEnter(k, w)
					op, ret = fmt.Sprintf("enter %d %d", k, w), "-"
				}
			} else if choice == 2 {
				k := r.Intn(len(pools))
				if d := pools[k].returned(); len(d) > 0 {
					w := d[r.Intn(len(d))]
					pools[k].collect(w)
					op, ret = fmt.Sprintf("collect %d %d", k, w), "-"
				}
			}
			if op == "" {
				name, a := api.gen(r)
				rr, _ := api.call(name, a)
				op, ret = flowOpString(name, a), rr
			}
		}
		settle()
		obs := fmt.Sprintf("ret=%s ws=%s", ret, show())
		tw.Op("%s", op)
		tw.Obs("%s", obs)
		st.Steps++
		st.Inc("op:" + firstWord(op))
		if ret == "integrity" {
			st.Inc("ret:integrity")
			nontrivial = true
		}
		for _, p := range pools {
			if _, parked, _ := p.counts(); parked > 0 {
				nontrivial = true
				st.Inc("obs:some-parked")
				break
			}
		}
		h = fnv(h, op+"|"+obs)
	}
	api.release()
	settle()
	st.Cases++
	st.Mark(h, nontrivial)
	if st.Cases <= 2 {
		st.Samples = append(st.Samples, fmt.Sprintf("%s waiters/gate=%d len=%d", id, nw, steps))
	}
	leaked := 0
	for _, p := range pools {
		_, parked, _ := p.counts()
		leaked += parked
	}
	if leaked > 0 {
		// one more observation for the model: everything cancelled, nobody may still be parked
		tw.Op("%s", "cancelWithError nil")
		tw.Obs("ret=- ws=%s", show())
		tw.Comment("leak case=%s: %d waiter(s) still parked after the whole flow was cancelled; run stopped", id, leaked)
		st.Notes = append(st.Notes, fmt.Sprintf("case %s: %d waiter(s) still parked after the whole flow was cancelled; no further cases generated", id, leaked))
		return false
	}
	return true
}

func firstWord(s string) string {
	for i := 0; i < len(s); i++ {
		if s[i] == ' ' {
			return s[:i]
		}
	}
	return s
}

// ---- managed thread ----

func threadCmd(args []string) int {
	fs := flag.NewFlagSet("thread", flag.ExitOnError)
	c := commonFlags(fs)
	maxlen := fs.Int("maxlen", 30, "max ops per case")
	_ = fs.Parse(args)
	tw, err := trace.Create(c.Out)
	if err != nil {
		fmt.Fprintln(os_stderr(), err)
		return 2
	}
	defer tw.Close()
	st := newStats()
	r := rng.New(c.Seed ^ 0x7ead)
	for k := 0; k < c.Cases; k++ {
		cr := r.Fork()
		nw := 1 + cr.Intn(3)
		n := 1 + cr.Intn(*maxlen)
		t := core.NewManagedThread()
		p := newPool(nw)
		id := fmt.Sprintf("t%d", k)
		tw.Case(id)
		tw.Init("%d", nw)
		h := fnv(0, "t")
		nontrivial := false
		for i := 0; i < n; i++ {
			op := ""
			switch cr.Pick([]int{40, 40, 20}) {
			case 0:
				t.Release()
				op = "release"
			case 1:
				idl := p.idle()
				if len(idl) == 0 {
					t.Release()
					op = "release"
					break
				}
				w := idl[cr.Intn(len(idl))]
				p.enter(w, func() string { t.Lock(); t.SuspendUnsafe(); t.Unlock(); return "" })
				op = fmt.Sprintf("enter %d", w)
			case 2:
				d := p.returned()
				if len(d) == 0 {
					t.Release()
					op = "release"
					break
				}
				w := d[cr.Intn(len(d))]
				p.collect(w)
				op = fmt.Sprintf("collect %d", w)
			}
			if !p.settle() {
				st.Notes = append(st.Notes, "not quiescent after grace in case "+id)
			}
			idle, parked, done := p.counts()
			obs := fmt.Sprintf("idle=%d parked=%d done=%d", idle, parked, done)
			tw.Op("%s", op)
			tw.Obs("%s", obs)
			st.Steps++
			st.Inc("op:" + firstWord(op))
			if parked > 0 {
				nontrivial = true
				st.Inc("obs:some-parked")
			}
			h = fnv(h, op+"|"+obs)
		}
		for p.pending() > 0 {
			t.Release()
			p.settle()
		}
		st.Cases++
		st.Mark(h, nontrivial)
		if k < 2 {
			st.Samples = append(st.Samples, fmt.Sprintf("%s waiters=%d len=%d", id, nw, n))
		}
	}
	st.Write(c.Stats)
	return 0
}
