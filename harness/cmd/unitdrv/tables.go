package main

import (
	"context"
	"errors"
	"flag"
	"fmt"
	"os"
	"path/filepath"
	"sort"
	"strings"

	"go.amzn.com/lambda/core"
	"go.amzn.com/lambda/interop"
)

// (T) — regenerate the finite tables of the state machines by EXECUTING the real code:
// every state object × every transition method, with recording flow objects and a
// recording, non-blocking Suspendable; variants: the state found on wake-up, and the k-th
// checked flow call failing.

func init() { commands["tables"] = tablesCmd }

var errInjected = errors.New("injected-flow-error")

type rec struct {
	calls  []string
	failAt int // index (among flow calls, 0-based) that returns errInjected; -1 none
	n      int
}

func (r *rec) call(name string) error {
	r.calls = append(r.calls, name)
	i := r.n
	r.n++
	if i == r.failAt {
		return errInjected
	}
	return nil
}

type recInit struct{ r *rec }

func (f recInit) SetExternalAgentsRegisterCount(uint16) error {
	return f.r.call("initSetExternalAgentsRegisterCount")
}
func (f recInit) SetAgentsReadyCount(uint16) error { return f.r.call("initSetAgentsReadyCount") }
func (f recInit) ExternalAgentRegistered() error   { return f.r.call("initExternalAgentRegistered") }
func (f recInit) AwaitExternalAgentsRegistered() error {
	return f.r.call("initAwaitExternalAgentsRegistered")
}
func (f recInit) RuntimeReady() error      { return f.r.call("initRuntimeReady") }
func (f recInit) AwaitRuntimeReady() error { return f.r.call("initAwaitRuntimeReady") }
func (f recInit) AwaitRuntimeReadyWithDeadline(context.Context) error {
	return f.r.call("initAwaitRuntimeReadyWithDeadline")
}
func (f recInit) AgentReady() error               { return f.r.call("initAgentReady") }
func (f recInit) AwaitAgentsReady() error         { return f.r.call("initAwaitAgentsReady") }
func (f recInit) CancelWithError(error)           { _ = f.r.call("initCancel") }
func (f recInit) RuntimeRestoreReady() error      { return f.r.call("initRuntimeRestoreReady") }
func (f recInit) AwaitRuntimeRestoreReady() error { return f.r.call("initAwaitRuntimeRestoreReady") }
func (f recInit) Clear()                          { _ = f.r.call("initClear") }

type recInvoke struct{ r *rec }

func (f recInvoke) InitializeBarriers() error           { return f.r.call("invokeInitializeBarriers") }
func (f recInvoke) AwaitRuntimeResponse() error         { return f.r.call("invokeAwaitRuntimeResponse") }
func (f recInvoke) AwaitRuntimeReady() error            { return f.r.call("invokeAwaitRuntimeReady") }
func (f recInvoke) RuntimeResponse(*core.Runtime) error { return f.r.call("invokeRuntimeResponse") }
func (f recInvoke) RuntimeReady(*core.Runtime) error    { return f.r.call("invokeRuntimeReady") }
func (f recInvoke) SetAgentsReadyCount(uint16) error    { return f.r.call("invokeSetAgentsReadyCount") }
func (f recInvoke) AgentReady() error                   { return f.r.call("invokeAgentReady") }
func (f recInvoke) AwaitAgentsReady() error             { return f.r.call("invokeAwaitAgentsReady") }
func (f recInvoke) CancelWithError(error)               { _ = f.r.call("invokeCancel") }
func (f recInvoke) Clear()                              { _ = f.r.call("invokeClear") }

// recThread records SuspendUnsafe and, at that point, lets the harness change the state
// (what a concurrent platform thread would do while the caller is parked).
type recThread struct {
	r        *rec
	onSusp   func()
	suspends int
}

func (t *recThread) SuspendUnsafe() {
	t.r.calls = append(t.r.calls, "suspend")
	t.suspends++
	if t.onSusp != nil {
		t.onSusp()
	}
}
func (t *recThread) Release() {}
func (t *recThread) Lock()    {}
func (t *recThread) Unlock()  {}

func errClass(err error) string {
	switch {
	case err == nil:
		return "ok"
	case err == core.ErrNotAllowed:
		return "notAllowed"
	case err == core.ErrConcurrentStateModification:
		return "concurrent"
	case err == errInjected:
		return "flowErr"
	case err.Error() == "ErrorInvalidEventType":
		return "invalidEvent"
	case err.Error() == "ShutdownEventNotSupportedForInternalExtension":
		return "shutdownNotSupported"
	}
	return "other"
}

func leanList(xs []string, pre string) string {
	ys := make([]string, len(xs))
	for i, x := range xs {
		ys[i] = pre + x
	}
	return "[" + strings.Join(ys, ", ") + "]"
}

func optS(pre, s string) string {
	if s == "" {
		return "none"
	}
	return "(some " + pre + s + ")"
}

func optN(n int) string {
	if n < 0 {
		return "none"
	}
	return fmt.Sprintf("(some %d)", n)
}

// ---------- runtime ----------

var rtStateNames = []string{"started", "initError", "ready", "running", "restoreReady", "restoring",
	"invocationResponse", "invocationErrorResponse", "responseSent", "restoreError"}

func rtStates(r *core.Runtime) []core.RuntimeState {
	return []core.RuntimeState{r.RuntimeStartedState, r.RuntimeInitErrorState, r.RuntimeReadyState, r.RuntimeRunningState,
		r.RuntimeRestoreReadyState, r.RuntimeRestoringState, r.RuntimeInvocationResponseState,
		r.RuntimeInvocationErrorResponseState, r.RuntimeResponseSentState, r.RuntimeRestoreErrorState}
}

func rtIndex(r *core.Runtime) string {
	cur := r.GetState()
	for i, s := range rtStates(r) {
		if s == cur {
			return rtStateNames[i]
		}
	}
	return "unknown"
}

var rtCalls = []string{"initError", "ready", "restoreReady", "invocationResponse", "invocationErrorResponse", "responseSent", "restoreError"}

func rtDo(r *core.Runtime, c string) error {
	switch c {
	case "initError":
		return r.InitError()
	case "ready":
		return r.Ready()
	case "restoreReady":
		return r.RestoreReady()
	case "invocationResponse":
		return r.InvocationResponse()
	case "invocationErrorResponse":
		return r.InvocationErrorResponse()
	case "responseSent":
		return r.ResponseSent()
	case "restoreError":
		return r.RestoreError(interop.FunctionError{})
	}
	panic(c)
}

type row struct{ lean, human string }

func rtRow(si int, call string, wake int, failAt int) (row, int, int) {
	rc := &rec{failAt: failAt}
	r := core.NewRuntime(recInit{rc}, recInvoke{rc})
	th := &recThread{r: rc}
	r.ManagedThread = th
	r.SetState(rtStates(r)[si])
	if wake >= 0 {
		th.onSusp = func() { r.SetState(rtStates(r)[wake]) }
	}
	err := rtDo(r, call)
	wk := ""
	if wake >= 0 {
		wk = rtStateNames[wake]
	}
	l := fmt.Sprintf("⟨.%s, .%s, %s, %s, ⟨.%s, .%s, %s, [], false⟩⟩", rtStateNames[si], call, optS(".", wk), optN(failAt),
		errClass(err), rtIndex(r), leanList(rc.calls, "."))
	h := fmt.Sprintf("runtime state=%s call=%s wake=%s failAt=%d -> err=%s final=%s calls=%v", rtStateNames[si], call, wk, failAt, errClass(err), rtIndex(r), rc.calls)
	return row{l, h}, th.suspends, rc.n
}

// ---------- external agents ----------

var extStateNames = []string{"started", "registered", "ready", "running", "initError", "exitError", "shutdownFailed", "exited", "launchError"}

func extStates(a *core.ExternalAgent) []core.ExternalAgentState {
	return []core.ExternalAgentState{a.StartedState, a.RegisteredState, a.ReadyState, a.RunningState, a.InitErrorState,
		a.ExitErrorState, a.ShutdownFailedState, a.ExitedState, a.LaunchErrorState}
}

var evVariants = [][]core.Event{{}, {core.InvokeEvent}, {core.ShutdownEvent}, {core.InvokeEvent, core.ShutdownEvent},
	{"BOGUS"}, {core.InvokeEvent, "BOGUS"}, {"BOGUS", core.InvokeEvent}, {core.InvokeEvent, core.InvokeEvent}}

func evLean(evs []core.Event) string {
	var xs []string
	for _, e := range evs {
		switch e {
		case core.InvokeEvent:
			xs = append(xs, ".invoke")
		case core.ShutdownEvent:
			xs = append(xs, ".shutdown")
		default:
			xs = append(xs, ".bogus")
		}
	}
	return "[" + strings.Join(xs, ", ") + "]"
}

func subsLean(isSub func(core.Event) bool) string {
	var xs []string
	if isSub(core.InvokeEvent) {
		xs = append(xs, ".invoke")
	}
	if isSub(core.ShutdownEvent) {
		xs = append(xs, ".shutdown")
	}
	if isSub("BOGUS") {
		xs = append(xs, ".bogus")
	}
	return "[" + strings.Join(xs, ", ") + "]"
}

type agCall struct {
	name string
	evs  int // index in evVariants for register, else -1
}

func agCalls(external bool) []agCall {
	var cs []agCall
	for i := range evVariants {
		cs = append(cs, agCall{"register", i})
	}
	cs = append(cs, agCall{"ready", -1}, agCall{"initError", -1}, agCall{"exitError", -1})
	if external {
		cs = append(cs, agCall{"shutdownFailed", -1}, agCall{"exited", -1}, agCall{"launchError", -1})
	}
	return cs
}

func callLean(c agCall) string {
	if c.name == "register" {
		return "(.register " + evLean(evVariants[c.evs]) + ")"
	}
	return "." + c.name
}

func extRow(si int, c agCall, wake int) (row, int) {
	rc := &rec{failAt: -1}
	a := core.NewExternalAgent("x", recInit{rc}, recInvoke{rc})
	th := &recThread{r: rc}
	a.ManagedThread = th
	a.SetState(extStates(a)[si])
	if wake >= 0 {
		th.onSusp = func() { a.SetState(extStates(a)[wake]) }
	}
	var err error
	switch c.name {
	case "register":
		err = a.Register(evVariants[c.evs])
	case "ready":
		err = a.Ready()
	case "initError":
		err = a.InitError("T.x")
	case "exitError":
		err = a.ExitError("T.x")
	case "shutdownFailed":
		err = a.ShutdownFailed()
	case "exited":
		err = a.Exited()
	case "launchError":
		err = a.LaunchError(errors.New("boom"))
	}
	final := "unknown"
	for i, s := range extStates(a) {
		if s == a.GetState() {
			final = extStateNames[i]
		}
	}
	wk := ""
	if wake >= 0 {
		wk = extStateNames[wake]
	}
	et := "false"
	if a.ErrorType() != "" {
		et = "true"
	}
	l := fmt.Sprintf("⟨.%s, %s, %s, ⟨.%s, .%s, %s, %s, %s⟩⟩", extStateNames[si], callLean(c), optS(".", wk), errClass(err), final,
		leanList(rc.calls, "."), subsLean(a.IsSubscribed), et)
	h := fmt.Sprintf("external agent state=%s call=%s wake=%s -> err=%s final=%s calls=%v subs=%s errorTypeSet=%s", extStateNames[si], callLean(c), wk, errClass(err), final, rc.calls, subsLean(a.IsSubscribed), et)
	return row{l, h}, th.suspends
}

var intStateNames = []string{"started", "registered", "ready", "running", "initError", "exitError"}

func intStates(a *core.InternalAgent) []core.InternalAgentState {
	return []core.InternalAgentState{a.StartedState, a.RegisteredState, a.ReadyState, a.RunningState, a.InitErrorState, a.ExitErrorState}
}

func intRow(si int, c agCall, wake int) (row, int) {
	rc := &rec{failAt: -1}
	a := core.NewInternalAgent("x", recInit{rc}, recInvoke{rc})
	th := &recThread{r: rc}
	a.ManagedThread = th
	a.SetState(intStates(a)[si])
	if wake >= 0 {
		th.onSusp = func() { a.SetState(intStates(a)[wake]) }
	}
	var err error
	switch c.name {
	case "register":
		err = a.Register(evVariants[c.evs])
	case "ready":
		err = a.Ready()
	case "initError":
		err = a.InitError("T.x")
	case "exitError":
		err = a.ExitError("T.x")
	}
	final := "unknown"
	for i, s := range intStates(a) {
		if s == a.GetState() {
			final = intStateNames[i]
		}
	}
	wk := ""
	if wake >= 0 {
		wk = intStateNames[wake]
	}
	et := "false"
	if a.ErrorType() != "" {
		et = "true"
	}
	l := fmt.Sprintf("⟨.%s, %s, %s, ⟨.%s, .%s, %s, %s, %s⟩⟩", intStateNames[si], callLean(c), optS(".", wk), errClass(err), final,
		leanList(rc.calls, "."), subsLean(a.IsSubscribed), et)
	h := fmt.Sprintf("internal agent state=%s call=%s wake=%s -> err=%s final=%s calls=%v subs=%s errorTypeSet=%s", intStateNames[si], callLean(c), wk, errClass(err), final, rc.calls, subsLean(a.IsSubscribed), et)
	return row{l, h}, th.suspends
}

func writeRows(path, header, name, typ string, rows []row) error {
	var sb strings.Builder
	sb.WriteString(header)
	// chunks of 40 rows keep each `decide` small
	const chunk = 40
	n := 0
	for i := 0; i < len(rows); i += chunk {
		j := i + chunk
		if j > len(rows) {
			j = len(rows)
		}
		fmt.Fprintf(&sb, "def %s%d : List %s := [\n", name, n, typ)
		for k := i; k < j; k++ {
			sep := ","
			if k == j-1 {
				sep = ""
			}
			fmt.Fprintf(&sb, "  %s%s\n", rows[k].lean, sep)
		}
		sb.WriteString("]\n\n")
		n++
	}
	fmt.Fprintf(&sb, "def %sChunks : List (List %s) := [", name, typ)
	for i := 0; i < n; i++ {
		if i > 0 {
			sb.WriteString(", ")
		}
		fmt.Fprintf(&sb, "%s%d", name, i)
	}
	sb.WriteString("]\n\nend Rie.Gen\n")
	if old, err := os.ReadFile(path); err == nil && string(old) == sb.String() {
		return nil
	}
	return os.WriteFile(path, []byte(sb.String()), 0o644)
}

func tablesCmd(args []string) int {
	fs := flag.NewFlagSet("tables", flag.ExitOnError)
	dir := fs.String("dir", ".", "output directory for Rie/Gen/*.lean")
	human := fs.String("human", "", "also write a human-readable listing here")
	_ = fs.Parse(args)
	var hs []string

	// runtime
	var rows []row
	for si := range rtStateNames {
		for _, c := range rtCalls {
			r, susp, nflow := rtRow(si, c, -1, -1)
			rows = append(rows, r)
			if susp > 0 {
				for w := range rtStateNames {
					rw, _, _ := rtRow(si, c, w, -1)
					rows = append(rows, rw)
				}
			}
			for k := 0; k < nflow; k++ {
				rf, _, _ := rtRow(si, c, -1, k)
				rows = append(rows, rf)
			}
		}
	}
	for _, r := range rows {
		hs = append(hs, r.human)
	}
	hdr := "-- GENERATED by `unitdrv tables` from the built /repo on every check run. Do not edit.\nimport Rie.Model.StateMachines\nnamespace Rie.Gen\nopen Rie.SM\n\n"
	if err := writeRows(filepath.Join(*dir, "RuntimeTable.lean"), hdr, "rtRows", "RtRow", rows); err != nil {
		fmt.Fprintln(os.Stderr, err)
		return 2
	}

	// agents
	var erows, irows []row
	for si := range extStateNames {
		for _, c := range agCalls(true) {
			r, susp := extRow(si, c, -1)
			erows = append(erows, r)
			if susp > 0 {
				for w := range extStateNames {
					rw, _ := extRow(si, c, w)
					erows = append(erows, rw)
				}
			}
		}
	}
	for si := range intStateNames {
		for _, c := range agCalls(false) {
			r, susp := intRow(si, c, -1)
			irows = append(irows, r)
			if susp > 0 {
				for w := range intStateNames {
					rw, _ := intRow(si, c, w)
					irows = append(irows, rw)
				}
			}
		}
	}
	for _, r := range append(append([]row{}, erows...), irows...) {
		hs = append(hs, r.human)
	}
	if err := writeRows(filepath.Join(*dir, "ExtAgentTable.lean"), hdr, "extRows", "ExtRow", erows); err != nil {
		return 2
	}
	if err := writeRows(filepath.Join(*dir, "IntAgentTable.lean"), hdr, "intRows", "IntRow", irows); err != nil {
		return 2
	}

	// constants the system model depends on
	consts := fmt.Sprintf("-- GENERATED by `unitdrv tables` from the built /repo on every check run. Do not edit.\nnamespace Rie.Gen\n\ndef maxPayloadSize : Nat := %d\ndef maxAgentsAllowed : Nat := %d\n\nend Rie.Gen\n", interop.MaxPayloadSize, core.MaxAgentsAllowed)
	if old, err := os.ReadFile(filepath.Join(*dir, "Consts.lean")); err != nil || string(old) != consts {
		_ = os.WriteFile(filepath.Join(*dir, "Consts.lean"), []byte(consts), 0o644)
	}

	if *human != "" {
		sort.Strings(hs)
		_ = os.WriteFile(*human, []byte(strings.Join(hs, "\n")+"\n"), 0o644)
	}
	fmt.Printf("tables: runtime=%d ext=%d int=%d rows\n", len(rows), len(erows), len(irows))
	return 0
}
