package main

import (
	"flag"
	"fmt"
	"go/ast"
	"go/parser"
	"go/token"
	"os"
	"path/filepath"
	"strconv"
	"strings"
)

// (T) — the route table of the Runtime API server, read from the source on every run:
// lambda/rapi/router.go (one function per API: which method + path is registered, under which
// condition, wrapped in which validating middleware) composed with the mounts of
// lambda/rapi/server.go (version prefix, condition). Output: Rie/Gen/Routes.lean, a list of
// (method, full path, condition, guard) in source order. Anything not recognised becomes an
// `unknown:` entry so that the Lean obligation (generated table = model table) fails.

func init() { commands["routes"] = routesCmd }

type route struct{ method, path, cond, guard string }

func condName(fset *token.FileSet, e ast.Expr, negated bool) string {
	t := src(fset, e)
	n := ""
	switch t {
	case "appctx.LoadInitType(appCtx) == appctx.InitCaching":
		n = "snapshot"
	case "telemetryAPIEnabled":
		n = "telemetry"
		if negated {
			return "stub" // the stub routers stand in when the telemetry API is disabled
		}
	default:
		n = "unknown-cond:" + t
	}
	if negated {
		return "!" + n
	}
	return n
}

func andCond(a, b string) string {
	switch {
	case a == "":
		return b
	case b == "" || a == b:
		return a
	}
	return a + "&" + b
}

// walk calls f for every expression statement of the block, with the condition it is under
func walk(fset *token.FileSet, stmts []ast.Stmt, cond string, f func(call *ast.CallExpr, cond string), unknown func(string)) {
	for _, st := range stmts {
		switch s := st.(type) {
		case *ast.ExprStmt:
			if c, ok := s.X.(*ast.CallExpr); ok {
				f(c, cond)
			}
		case *ast.IfStmt:
			if s.Init != nil {
				unknown("if-with-init:" + src(fset, s.Init))
			}
			walk(fset, s.Body.List, andCond(cond, condName(fset, s.Cond, false)), f, unknown)
			switch e := s.Else.(type) {
			case nil:
			case *ast.BlockStmt:
				walk(fset, e.List, andCond(cond, condName(fset, s.Cond, true)), f, unknown)
			default:
				unknown("else-if:" + src(fset, s.Else))
			}
		case *ast.AssignStmt, *ast.ReturnStmt, *ast.DeclStmt:
		default:
			unknown(src(fset, st))
		}
	}
}

var httpMethods = map[string]string{"Get": "GET", "Post": "POST", "Put": "PUT", "Delete": "DELETE", "Patch": "PATCH", "Head": "HEAD", "Options": "OPTIONS"}

func routesCmd(args []string) int {
	fs := flag.NewFlagSet("routes", flag.ExitOnError)
	dir := fs.String("dir", "", "directory for Rie/Gen/Routes.lean")
	repo := fs.String("repo", "/repo", "repository root")
	_ = fs.Parse(args)
	if v := os.Getenv("VERIF_REPO"); v != "" {
		*repo = v
	}
	fset := token.NewFileSet()
	parse := func(name string) *ast.File {
		f, err := parser.ParseFile(fset, filepath.Join(*repo, "lambda", "rapi", name), nil, 0)
		if err != nil {
			fmt.Fprintln(os.Stderr, err)
			os.Exit(1)
		}
		return f
	}
	rf, sf := parse("router.go"), parse("server.go")

	// router.go: per function, its routes
	perRouter := map[string][]route{}
	for _, d := range rf.Decls {
		fd, ok := d.(*ast.FuncDecl)
		if !ok || fd.Body == nil {
			continue
		}
		name := fd.Name.Name
		var rs []route
		// local handler variables: `registerHandler := handler.NewAgentRegisterHandler(…)`
		locals := map[string]string{}
		for _, st := range fd.Body.List {
			if as, ok := st.(*ast.AssignStmt); ok && len(as.Lhs) == 1 && len(as.Rhs) == 1 {
				locals[src(fset, as.Lhs[0])] = src(fset, as.Rhs[0])
			}
		}
		guardOf := func(e ast.Expr) string {
			t := src(fset, e)
			if base := strings.TrimSuffix(t, ".ServeHTTP"); base != t {
				if v, ok := locals[base]; ok {
					t = v + ".ServeHTTP"
				}
			}
			switch {
			case strings.HasPrefix(t, "middleware.AwsRequestIDValidator( handler.New") || strings.HasPrefix(t, "middleware.AwsRequestIDValidator(handler.New"):
				return "reqid"
			case strings.HasPrefix(t, "middleware.AgentUniqueIdentifierHeaderValidator( handler.New") || strings.HasPrefix(t, "middleware.AgentUniqueIdentifierHeaderValidator(handler.New"):
				return "agentid"
			case strings.HasPrefix(t, "handler.New") && strings.HasSuffix(t, ".ServeHTTP"):
				return ""
			}
			return "unknown:" + t
		}
		walk(fset, fd.Body.List, "", func(c *ast.CallExpr, cond string) {
			sel, ok := c.Fun.(*ast.SelectorExpr)
			if !ok || src(fset, sel.X) != "router" {
				return
			}
			if sel.Sel.Name == "Use" {
				return // middlewares applying to the whole router: access log, app context, release string
			}
			m, ok := httpMethods[sel.Sel.Name]
			if !ok || len(c.Args) != 2 {
				rs = append(rs, route{"?", "unknown:" + src(fset, c), cond, ""})
				return
			}
			p, err := strconv.Unquote(src(fset, c.Args[0]))
			if err != nil {
				p = "unknown:" + src(fset, c.Args[0])
			}
			rs = append(rs, route{m, p, cond, guardOf(c.Args[1])})
		}, func(u string) { rs = append(rs, route{"?", "unknown:" + u, "", ""}) })
		if len(rs) > 0 {
			perRouter[name] = rs
		}
	}

	// server.go: version constants and mounts
	consts := map[string]string{}
	for _, d := range sf.Decls {
		gd, ok := d.(*ast.GenDecl)
		if !ok || gd.Tok != token.CONST {
			continue
		}
		for _, sp := range gd.Specs {
			vs := sp.(*ast.ValueSpec)
			for i, n := range vs.Names {
				if i < len(vs.Values) {
					if v, err := strconv.Unquote(src(fset, vs.Values[i])); err == nil {
						consts[n.Name] = v
					}
				}
			}
		}
	}
	var all []route
	mounted := map[string]bool{}
	for _, d := range sf.Decls {
		fd, ok := d.(*ast.FuncDecl)
		if !ok || fd.Name.Name != "NewServer" {
			continue
		}
		walk(fset, fd.Body.List, "", func(c *ast.CallExpr, cond string) {
			if src(fset, c.Fun) != "router.Mount" || len(c.Args) != 2 {
				return
			}
			prefix, ok := consts[src(fset, c.Args[0])]
			if !ok {
				prefix = "unknown:" + src(fset, c.Args[0])
			}
			inner, ok := c.Args[1].(*ast.CallExpr)
			if !ok {
				all = append(all, route{"?", "unknown:" + src(fset, c), cond, ""})
				return
			}
			fn := src(fset, inner.Fun)
			rs, ok := perRouter[fn]
			if !ok {
				all = append(all, route{"?", "unknown-router:" + fn, cond, ""})
				return
			}
			mounted[fn] = true
			for _, r := range rs {
				all = append(all, route{r.method, prefix + r.path, andCond(cond, r.cond), r.guard})
			}
		}, func(u string) { all = append(all, route{"?", "unknown:" + u, "", ""}) })
	}
	for fn := range perRouter {
		if !mounted[fn] {
			all = append(all, route{"?", "unmounted-router:" + fn, "", ""})
		}
	}
	if len(all) == 0 {
		fmt.Fprintln(os.Stderr, "no routes found")
		return 1
	}
	var sb strings.Builder
	sb.WriteString("-- GENERATED by `unitdrv routes` from lambda/rapi/router.go and lambda/rapi/server.go; do not edit\n")
	sb.WriteString("namespace Rie.Gen\n\n")
	sb.WriteString("/-- (method, path, condition, guard) of every route of the Runtime API server, in source order -/\n")
	sb.WriteString("def routes : List (String × String × String × String) := [\n")
	for i, r := range all {
		sep := ","
		if i == len(all)-1 {
			sep = ""
		}
		sb.WriteString(fmt.Sprintf("  (%q, %q, %q, %q)%s\n", r.method, r.path, r.cond, r.guard, sep))
	}
	sb.WriteString("]\n\nend Rie.Gen\n")
	if *dir == "" {
		fmt.Print(sb.String())
		return 0
	}
	if err := os.WriteFile(filepath.Join(*dir, "Routes.lean"), []byte(sb.String()), 0o644); err != nil {
		fmt.Fprintln(os.Stderr, err)
		return 1
	}
	return 0
}
