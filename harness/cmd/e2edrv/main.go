// e2edrv drives the REAL aws-lambda-rie binary (front end included: InvokeHandler, InitHandler,
// ResponseWriterProxy, the real LocalSupervisor) with a scripted runtime child process, and judges
// what callers and the runtime see with model-free rules (C01 round trip through the front end,
// C10 concurrent callers, C05 timeout outcome text, C07 "the emulator process keeps running").
//
// The runtime child is this binary under the name `e2eruntime`; it is steered through files in a
// control directory: it polls /next only when gate.<n> exists, records every event it receives in
// event.<n> (sha256, length, request id), and answers with the event's own bytes (echo) unless
// hold.<n> exists, in which case it first waits for release.<n>.
package main

import (
	"bytes"
	"crypto/sha256"
	"encoding/hex"
	"encoding/json"
	"flag"
	"fmt"
	"go.amzn.com/lambda/interop"
	"io"
	"net"
	"net/http"
	"os"
	"os/exec"
	"path/filepath"
	"strings"
	"sync"
	"time"

	"verifharness/internal/rng"
)

func sha(b []byte) string {
	h := sha256.Sum256(b)
	return fmt.Sprintf("%d:%s", len(b), hex.EncodeToString(h[:8]))
}

func waitFile(p string, d time.Duration) bool {
	dl := time.Now().Add(d)
	for time.Now().Before(dl) {
		if _, err := os.Stat(p); err == nil {
			return true
		}
		time.Sleep(5 * time.Millisecond)
	}
	return false
}

func touch(p string) { _ = os.WriteFile(p, []byte("x"), 0o644) }

// ---------------- runtime child ----------------

func childMain() int {
	ctl := os.Getenv("E2E_CTL")
	api := os.Getenv("AWS_LAMBDA_RUNTIME_API")
	_ = os.WriteFile(filepath.Join(ctl, fmt.Sprintf("pid.%d", os.Getpid())), []byte("x"), 0o644)
	for {
		// the sequence number of a poll = number of events received so far by any runtime process
		seq := nextSeq(ctl)
		// polls are gated only while the harness asks for it (cold-start scenario)
		if _, err := os.Stat(filepath.Join(ctl, "gateon")); err == nil {
			if !waitFile(filepath.Join(ctl, fmt.Sprintf("gate.%d", seq)), 120*time.Second) {
				return 3
			}
		}
		resp, err := http.Get("http://" + api + "/2018-06-01/runtime/invocation/next")
		if err != nil {
			return 4
		}
		body, _ := io.ReadAll(resp.Body)
		resp.Body.Close()
		id := resp.Header.Get("Lambda-Runtime-Aws-Request-Id")
		rec := map[string]string{"sha": sha(body), "id": id, "ctx": resp.Header.Get("Lambda-Runtime-Client-Context"),
			"deadline": resp.Header.Get("Lambda-Runtime-Deadline-Ms"), "pid": fmt.Sprint(os.Getpid())}
		b, _ := json.Marshal(rec)
		_ = os.WriteFile(filepath.Join(ctl, fmt.Sprintf("event.%d", seq)), b, 0o644)
		if _, err := os.Stat(filepath.Join(ctl, fmt.Sprintf("helperexit.%d", seq))); err == nil {
			// S6: leave a helper behind that shares this process's stdout/stderr, then die without answering
			h := exec.Command("sleep", "12")
			h.Stdout, h.Stderr = os.Stdout, os.Stderr
			if h.Start() == nil {
				_ = os.WriteFile(filepath.Join(ctl, fmt.Sprintf("pid.%d", h.Process.Pid)), []byte("x"), 0o644)
			}
			return 1
		}
		if _, err := os.Stat(filepath.Join(ctl, fmt.Sprintf("hold.%d", seq))); err == nil {
			waitFile(filepath.Join(ctl, fmt.Sprintf("release.%d", seq)), 120*time.Second)
		}
		r2, err := http.Post("http://"+api+"/2018-06-01/runtime/invocation/"+id+"/response", "application/octet-stream", bytes.NewReader(body))
		st := "neterr"
		if err == nil {
			st = fmt.Sprint(r2.StatusCode)
			io.Copy(io.Discard, r2.Body)
			r2.Body.Close()
		}
		_ = os.WriteFile(filepath.Join(ctl, fmt.Sprintf("posted.%d", seq)), []byte(st), 0o644)
		// the runtime has answered but does not come back for the next event (S5)
		if _, err := os.Stat(filepath.Join(ctl, fmt.Sprintf("stall.%d", seq))); err == nil {
			waitFile(filepath.Join(ctl, fmt.Sprintf("resume.%d", seq)), 120*time.Second)
		}
	}
}

var seqMu sync.Mutex

func nextSeq(ctl string) int {
	ents, _ := os.ReadDir(ctl)
	n := 0
	for _, e := range ents {
		if strings.HasPrefix(e.Name(), "event.") {
			n++
		}
	}
	return n
}

// ---------------- harness ----------------

type rie struct {
	cmd     *exec.Cmd
	addr    string
	ctl     string
	exited  chan struct{}
	exitErr error
	log     *bytes.Buffer
}

func freePort() int {
	l, _ := net.Listen("tcp", "127.0.0.1:0")
	defer l.Close()
	return l.Addr().(*net.TCPAddr).Port
}

func startRIE(bin, child string, timeoutSec int) (*rie, error) {
	ctl, _ := os.MkdirTemp("", "e2ectl")
	p1, p2 := freePort(), freePort()
	r := &rie{addr: fmt.Sprintf("127.0.0.1:%d", p2), ctl: ctl, exited: make(chan struct{}), log: &bytes.Buffer{}}
	r.cmd = exec.Command(bin, "--runtime-api-address", fmt.Sprintf("127.0.0.1:%d", p1), "--runtime-interface-emulator-address", r.addr, child)
	r.cmd.Env = append(os.Environ(), "E2E_CTL="+ctl, fmt.Sprintf("AWS_LAMBDA_FUNCTION_TIMEOUT=%d", timeoutSec), "E2E_ROLE=runtime")
	r.cmd.Stdout, r.cmd.Stderr = r.log, r.log
	r.cmd.Dir = ctl
	if err := r.cmd.Start(); err != nil {
		return nil, err
	}
	go func() { r.exitErr = r.cmd.Wait(); close(r.exited) }()
	touch(filepath.Join(ctl, "gateon"))
	for i := 0; i < 400; i++ {
		c, err := net.DialTimeout("tcp", r.addr, 100*time.Millisecond)
		if err == nil {
			c.Close()
			return r, nil
		}
		time.Sleep(10 * time.Millisecond)
	}
	return nil, fmt.Errorf("rie did not start: %s", r.log.String())
}

func (r *rie) alive() bool {
	select {
	case <-r.exited:
		return false
	default:
		return true
	}
}

func (r *rie) stop() {
	if r.alive() {
		_ = r.cmd.Process.Kill()
		<-r.exited
	}
	// kill leftover runtime children
	ents, _ := os.ReadDir(r.ctl)
	for _, e := range ents {
		var pid int
		if n, _ := fmt.Sscanf(e.Name(), "pid.%d", &pid); n == 1 {
			if p, err := os.FindProcess(pid); err == nil {
				_ = p.Kill()
			}
		}
	}
	_ = os.RemoveAll(r.ctl)
}

type outcome struct {
	status int
	body   []byte
	err    error
	ms     int64
}

func (r *rie) invoke(payload []byte) outcome { return r.invokeAs(payload, false) }

// invokeAs posts the event with a Content-Length (chunked = false) or with Transfer-Encoding: chunked,
// as a streaming client (`curl -T -`, a pipe) does
func (r *rie) invokeAs(payload []byte, chunked bool) outcome {
	t0 := time.Now()
	c := &http.Client{Timeout: 60 * time.Second}
	var body io.Reader = bytes.NewReader(payload)
	if chunked {
		body = struct{ io.Reader }{bytes.NewReader(payload)} // length unknown to net/http
	}
	req, _ := http.NewRequest("POST", "http://"+r.addr+"/2015-03-31/functions/function/invocations", body)
	req.Header.Set("Content-Type", "application/octet-stream")
	resp, err := c.Do(req)
	if err != nil {
		return outcome{err: err, ms: time.Since(t0).Milliseconds()}
	}
	b, _ := io.ReadAll(resp.Body)
	resp.Body.Close()
	return outcome{status: resp.StatusCode, body: b, ms: time.Since(t0).Milliseconds()}
}

func (r *rie) setSeq(n int)                {}
func (r *rie) file(f string, n int) string { return filepath.Join(r.ctl, fmt.Sprintf("%s.%d", f, n)) }

func (r *rie) event(n int, d time.Duration) map[string]string {
	if !waitFile(r.file("event", n), d) {
		return nil
	}
	time.Sleep(5 * time.Millisecond)
	b, _ := os.ReadFile(r.file("event", n))
	m := map[string]string{}
	_ = json.Unmarshal(b, &m)
	return m
}

func payload(r *rng.R, size int) []byte {
	b := make([]byte, size)
	for i := range b {
		b[i] = byte(r.U64())
	}
	return b
}

type report struct {
	Cases      int      `json:"cases"`
	Violations []string `json:"violations"`
	Samples    []string `json:"samples"`
	Notes      []string `json:"notes"`
}

func main() {
	if os.Getenv("E2E_ROLE") == "runtime" && filepath.Base(os.Args[0]) == "e2eruntime" {
		os.Exit(childMain())
	}
	bin := flag.String("rie", "", "path to the aws-lambda-rie binary built from the tree under test")
	seed := flag.Uint64("seed", 1, "seed")
	rounds := flag.Int("rounds", 2, "rounds per scenario")
	out := flag.String("out", "e2e.json", "report")
	flag.Parse()
	self, _ := os.Executable()
	dir, _ := os.MkdirTemp("", "e2ebin")
	defer os.RemoveAll(dir)
	child := filepath.Join(dir, "e2eruntime")
	data, _ := os.ReadFile(self)
	_ = os.WriteFile(child, data, 0o755)
	rg := rng.New(*seed)
	rep := &report{}
	bad := func(f string, a ...any) { rep.Violations = append(rep.Violations, fmt.Sprintf(f, a...)) }

	for round := 0; round < *rounds; round++ {
		// ---- S1/S2: cold start with a concurrent caller, then sequential round trips
		r, err := startRIE(*bin, child, 30)
		if err != nil {
			rep.Notes = append(rep.Notes, "start failed: "+err.Error())
			break
		}
		sizes := []int{64 << 10, 0, 1, 17, 1 << 20, 4096, interop.MaxPayloadSize + 1 + round*4096, 33}
		a := payload(rg, 32<<10+rg.Intn(64<<10))
		b := []byte(fmt.Sprintf(`{"who":"B%d"}`, round))
		r.setSeq(0)
		resA := make(chan outcome, 1)
		go func() { resA <- r.invoke(a) }()
		// wait until the runtime process of the cold start exists (it is gated, it has not polled)
		ok := false
		for i := 0; i < 600 && !ok; i++ {
			ents, _ := os.ReadDir(r.ctl)
			for _, e := range ents {
				if strings.HasPrefix(e.Name(), "pid.") {
					ok = true
				}
			}
			time.Sleep(10 * time.Millisecond)
		}
		oB := r.invoke(b)
		if oB.status != 400 {
			bad("S2 round %d: a second caller during a cold-start invocation got status %d (want 400 at once), body %q", round, oB.status, string(oB.body[:min(len(oB.body), 80)]))
		}
		if oB.ms > 3000 {
			bad("S2 round %d: the refusal of the second caller took %d ms", round, oB.ms)
		}
		_ = os.Remove(filepath.Join(r.ctl, "gateon"))
		touch(r.file("gate", 0))
		ev := r.event(0, 20*time.Second)
		oA := <-resA
		if ev == nil {
			bad("S2 round %d: the runtime never received the first caller's event", round)
		} else if ev["sha"] != sha(a) {
			bad("S2 round %d: the runtime received %s but the first caller posted %s (a concurrent, refused request was of %d bytes)", round, ev["sha"], sha(a), len(b))
		}
		if oA.status != 200 || sha(oA.body) != sha(a) {
			bad("S2 round %d: first caller got status %d body %s, the runtime echoed %s", round, oA.status, sha(oA.body), sha(a))
		}
		rep.Samples = append(rep.Samples, fmt.Sprintf("cold start A=%s with refused B=%s -> runtime saw %v", sha(a), sha(b), ev["sha"]))
		rep.Cases++
		// sequential round trips
		ids := map[string]bool{}
		for i, sz := range sizes {
			n := i + 1
			p := payload(rg, sz)
			r.setSeq(n)
			touch(r.file("gate", n))
			chunked := (i+round)%2 == 1
			o := r.invokeAs(p, chunked)
			if len(p) > interop.MaxPayloadSize {
				p = p[:interop.MaxPayloadSize] // an oversized event is cut at the limit before delivery (C14)
			}
			ev := r.event(n, 10*time.Second)
			if ev == nil || ev["sha"] != sha(p) {
				bad("S1 round %d inv %d: runtime received %v, caller posted %s (%d bytes%s; chunked transfer: %v)", round, n, ev, sha(p), sz,
					map[bool]string{true: ", cut at the event size limit", false: ""}[sz > interop.MaxPayloadSize], chunked)
			} else {
				if ids[ev["id"]] {
					bad("S1 round %d inv %d: request id %s reused", round, n, ev["id"])
				}
				ids[ev["id"]] = true
			}
			if o.status != 200 || sha(o.body) != sha(p) {
				bad("S1 round %d inv %d: caller got status %d body %s, runtime posted %s", round, n, o.status, sha(o.body), sha(p))
			}
			rep.Cases++
		}
		// ---- S3: second caller while the runtime holds the invocation
		n := len(sizes) + 1
		p := payload(rg, 2048)
		r.setSeq(n)
		touch(r.file("hold", n))
		touch(r.file("gate", n))
		res := make(chan outcome, 1)
		go func() { res <- r.invoke(p) }()
		if r.event(n, 10*time.Second) == nil {
			bad("S3 round %d: runtime did not receive the invocation", round)
		}
		o2 := r.invoke([]byte("second"))
		o3 := r.invoke([]byte("third"))
		if o2.status != 400 || o3.status != 400 {
			bad("S3 round %d: extra callers during an invocation got %d and %d (want 400, 400)", round, o2.status, o3.status)
		}
		touch(r.file("release", n))
		o := <-res
		if o.status != 200 || sha(o.body) != sha(p) {
			bad("S3 round %d: the in-flight caller got status %d body %s after extra callers were refused (posted %s)", round, o.status, sha(o.body), sha(p))
		}
		rep.Cases++
		// ---- S3b: extra callers after the runtime has posted its response but before it asks for the next
		// event (the invocation is still in flight): refused, and the in-flight caller still gets its response
		n++
		p = payload(rg, 3000+round)
		touch(r.file("stall", n))
		touch(r.file("gate", n))
		go func() { res <- r.invoke(p) }()
		if !waitFile(r.file("posted", n), 10*time.Second) {
			bad("S3b round %d: the runtime did not post its response", round)
		}
		o2 = r.invoke([]byte("late-second"))
		o3 = r.invoke(payload(rg, 70000))
		if o2.status != 400 || o3.status != 400 {
			bad("S3b round %d: extra callers after the response was posted, before the runtime's next poll, got %d and %d (want 400, 400)", round, o2.status, o3.status)
		}
		touch(r.file("resume", n))
		o = <-res
		if o.status != 200 || sha(o.body) != sha(p) {
			bad("S3b round %d: the in-flight caller got status %d and %d bytes (%s) after extra callers were refused between the runtime's response and its next poll (the runtime posted %d bytes, %s)",
				round, o.status, len(o.body), sha(o.body), len(p), sha(p))
		}
		rep.Cases++
		if !r.alive() {
			bad("round %d: the emulator process exited: %v\n%s", round, r.exitErr, tailStr(r.log.String()))
		}
		r.stop()

		// ---- S4: timeout, then a fresh runtime serves the next invocation
		r, err = startRIE(*bin, child, 1)
		if err != nil {
			break
		}
		_ = os.Remove(filepath.Join(r.ctl, "gateon"))
		touch(r.file("hold", 0))
		p = payload(rg, 100)
		o = r.invoke(p)
		ev0 := r.event(0, 5*time.Second)
		if !strings.Contains(string(o.body), "Task timed out after 1.00 seconds") {
			bad("S4 round %d: timed-out invocation answered with status %d body %q", round, o.status, string(o.body[:min(len(o.body), 100)]))
		}
		if o.ms > 1000+2000+2000+1500 {
			bad("S4 round %d: timeout outcome after %d ms", round, o.ms)
		}
		r.setSeq(1)
		touch(r.file("gate", 1))
		p2 := payload(rg, 333)
		o = r.invoke(p2)
		ev1 := r.event(1, 10*time.Second)
		if o.status != 200 || sha(o.body) != sha(p2) {
			bad("S4 round %d: invocation after a timeout got status %d body %s (posted %s)", round, o.status, sha(o.body), sha(p2))
		}
		if ev0 != nil && ev1 != nil && ev0["pid"] == ev1["pid"] {
			bad("S4 round %d: the invocation after a timeout was served by the same runtime process %s", round, ev1["pid"])
		}
		if !r.alive() {
			bad("S4 round %d: the emulator process exited: %v", round, r.exitErr)
		}
		rep.Cases++
		r.stop()

		// ---- S5: the runtime posts its response but does not ask for the next event before the timeout:
		// the caller gets exactly one outcome (the timeout), then a fresh runtime serves the next invocation
		r, err = startRIE(*bin, child, 1)
		if err != nil {
			break
		}
		_ = os.Remove(filepath.Join(r.ctl, "gateon"))
		touch(r.file("stall", 0))
		p = payload(rg, 64)
		o = r.invoke(p)
		ev0 = r.event(0, 5*time.Second)
		if got := strings.TrimSpace(string(o.body)); got != "Task timed out after 1.00 seconds" {
			bad("S5 round %d: the runtime answered and then stalled past the timeout; the caller got status %d and %d bytes %q (want exactly the timeout message: one outcome)",
				round, o.status, len(o.body), string(o.body[:min(len(o.body), 120)]))
		}
		p2 = payload(rg, 222)
		o = r.invoke(p2)
		ev1 = r.event(1, 10*time.Second)
		if o.status != 200 || sha(o.body) != sha(p2) {
			bad("S5 round %d: invocation after that timeout got status %d body %s (posted %s)", round, o.status, sha(o.body), sha(p2))
		}
		if ev0 != nil && ev1 != nil && ev0["pid"] == ev1["pid"] {
			bad("S5 round %d: the invocation after the timeout was served by the same runtime process %s", round, ev1["pid"])
		}
		if !r.alive() {
			bad("S5 round %d: the emulator process exited: %v", round, r.exitErr)
		}
		rep.Cases++
		r.stop()

		// ---- S6: the runtime dies (status 1) while holding the invocation and leaves a helper process behind
		// that shares its stdout/stderr: the caller gets the failure at once (not at the function timeout),
		// and a fresh runtime serves the next invocation
		r, err = startRIE(*bin, child, 15)
		if err != nil {
			break
		}
		_ = os.Remove(filepath.Join(r.ctl, "gateon"))
		touch(r.file("helperexit", 0))
		p = payload(rg, 50)
		o = r.invoke(p)
		if o.ms > 6000 || strings.Contains(string(o.body), "Task timed out") || !strings.Contains(string(o.body), "Runtime.ExitError") {
			bad("S6 round %d: the runtime exited while the invocation was pending (a helper it started lives on with its stdout): the caller got status %d after %d ms, body %q (want the failure naming Runtime.ExitError at once)",
				round, o.status, o.ms, string(o.body[:min(len(o.body), 120)]))
		}
		p2 = payload(rg, 111)
		o = r.invoke(p2)
		if o.status != 200 || sha(o.body) != sha(p2) {
			bad("S6 round %d: invocation after the runtime's exit got status %d body %s (posted %s)", round, o.status, sha(o.body), sha(p2))
		}
		if !r.alive() {
			bad("S6 round %d: the emulator process exited: %v", round, r.exitErr)
		}
		rep.Cases++
		r.stop()
	}
	b, _ := json.MarshalIndent(rep, "", " ")
	_ = os.WriteFile(*out, b, 0o644)
	if len(rep.Violations) > 0 {
		os.Exit(1)
	}
}

func tailStr(s string) string {
	if len(s) > 1500 {
		return s[len(s)-1500:]
	}
	return s
}
