package main

import (
	"bytes"
	"context"
	"encoding/json"
	"flag"
	"fmt"
	"io"
	"net/http"
	"net/http/httptest"
	"os"
	"strings"

	"github.com/go-chi/chi"
	log "github.com/sirupsen/logrus"

	"go.amzn.com/lambda/appctx"
	"go.amzn.com/lambda/interop"
	"go.amzn.com/lambda/rapi/handler"
	"go.amzn.com/lambda/rapi/model"
	"go.amzn.com/lambda/testdata"
	"verifharness/internal/drv"
	"verifharness/internal/rng"
	"verifharness/internal/trace"
)

// handler: the same inputs through the real HTTP handlers of /runtime/invocation/{id}/error and
// /runtime/init/error (with the repository's own FlowTest fixture and its recording interop
// server): what reaches the platform side is the sanitised type, the validated cause and the
// error body byte for byte. The `errtype` ops of this trace are replayed on the Lean model too.

func init() { commands["handler"] = handlerCmd }

const causeContentType = "application/vnd.aws.lambda.error.cause+json"

func genBody(r *rng.R) []byte {
	n := []int{0, 1, 20, 300, 5000, 70000}[r.Intn(6)]
	if n > 1 {
		n = r.Intn(n)
	}
	b := make([]byte, n)
	switch r.Intn(3) {
	case 0:
		for i := range b {
			b[i] = byte(r.Intn(256))
		}
	case 1:
		copy(b, bytes.Repeat([]byte(`{"errorMessage":"boom","errorType":"Oops","stackTrace":["a","b"]} `), n/60+1))
	default:
		for i := range b {
			b[i] = byte(32 + r.Intn(95))
		}
	}
	return b
}

func handlerCase(tw *trace.W, st *drv.Stats, id string, r *rng.R, consts *builtConsts) {
	et, _ := genErrType(r)
	which := []string{"invoke", "invoke", "invoke-cause", "init"}[r.Intn(4)]
	ft := testdata.NewFlowTest()
	ft.ConfigureForInit()
	var doc []byte
	hasCause := r.Chance(3, 4)
	if hasCause {
		doc = genPlan(r, consts, 3).doc
	}
	body := genBody(r)
	var req *http.Request
	rec := httptest.NewRecorder()
	var wantCause []byte // what must be stored as X-Ray cause (nil = none)
	checkBody := true
	switch which {
	case "invoke", "invoke-cause":
		ft.Runtime.Ready()
		inv := &interop.Invoke{ID: "InvocationID1", Payload: strings.NewReader("{}")}
		ft.ConfigureForInvoke(context.Background(), inv)
		if which == "invoke-cause" {
			checkBody = false // this MIME type is re-marshalled without the cause by design
			var b bytes.Buffer
			b.WriteString(`{"errorMessage":"m","errorType":"t","stackTrace":["s"]`)
			if hasCause {
				b.WriteString(`,"errorCause":`)
				b.Write(doc)
			}
			b.WriteString(`}`)
			body = b.Bytes()
			var probe struct {
				ErrorCause json.RawMessage `json:"errorCause"`
			}
			if json.Unmarshal(body, &probe) == nil && len(probe.ErrorCause) > 0 {
				if v, err := model.ValidatedErrorCauseJSON(probe.ErrorCause); err == nil {
					wantCause = v
				}
			}
		} else if hasCause && len(doc) > 0 {
			if v, err := model.ValidatedErrorCauseJSON(doc); err == nil {
				wantCause = v
			}
		}
		req = httptest.NewRequest("POST", "/", bytes.NewReader(body))
		rctx := chi.NewRouteContext()
		rctx.URLParams.Add("awsrequestid", inv.ID)
		req = req.WithContext(context.WithValue(req.Context(), chi.RouteCtxKey, rctx))
		req = appctx.RequestWithAppCtx(req, ft.AppCtx)
		if which == "invoke-cause" {
			req.Header.Set("Content-Type", causeContentType)
		} else {
			if r.Bool() {
				req.Header.Set("Content-Type", []string{"application/json", "application/MyBinaryType", "text/plain", ""}[r.Intn(4)])
			}
			if hasCause {
				req.Header.Set("Lambda-Runtime-Function-XRay-Error-Cause", string(doc))
			}
		}
		req.Header.Set("Lambda-Runtime-Function-Error-Type", string(et))
		handler.NewInvocationErrorHandler(ft.RegistrationService).ServeHTTP(rec, req)
	default:
		req = appctx.RequestWithAppCtx(httptest.NewRequest("POST", "/", bytes.NewReader(body)), ft.AppCtx)
		req.Header.Set("Lambda-Runtime-Function-Error-Type", string(et))
		handler.NewInitErrorHandler(ft.RegistrationService).ServeHTTP(rec, req)
	}
	resp := ft.InteropServer.ErrorResponse
	tw.Case(id)
	tw.Init("")
	st.Cases++
	st.Steps++
	st.Inc("handler:" + which)
	if resp == nil {
		tw.Comment("chk kind=handler which=%s status=%d noresponse=1", which, rec.Code)
		st.Inc("handler:no-response")
		return
	}
	tw.Op("errtype %s", hx(et))
	tw.Obs("%s", hx([]byte(resp.FunctionError.Type)))
	bodyOK := !checkBody || bytes.Equal(resp.Payload, body)
	var stored []byte
	if td := appctx.LoadInvokeErrorTraceData(ft.AppCtx); td != nil {
		stored = td.ErrorCause
	}
	causeSame := bytes.Equal(stored, wantCause) && (stored == nil) == (wantCause == nil)
	causeOK := stored == nil || (json.Valid(stored) && len(stored) <= 64<<10)
	// the cause as the runtime sent it (header path): valid JSON at all?
	srcValid := !(which == "invoke" && hasCause && len(doc) > 0) || json.Valid(doc)
	tw.Comment("chk kind=handler which=%s status=%d body=%d causesame=%d causeok=%d causelen=%d srcvalid=%d", which, rec.Code, b2i(bodyOK), b2i(causeSame), b2i(causeOK), len(stored), b2i(srcValid))
	if stored != nil {
		st.Inc("handler:cause-stored")
	} else if hasCause {
		st.Inc("handler:cause-dropped")
	}
	st.Mark(drv.Fnv(drv.Fnv(0, which), string(et)+fmt.Sprint(len(body), len(stored))), true)
	if len(et) < 40 {
		st.Sample(fmt.Sprintf("handler %s: type %q -> %q, body %d bytes, cause doc %d bytes -> stored %d bytes", which, et, resp.FunctionError.Type, len(body), len(doc), len(stored)))
	}
}

func handlerCmd(args []string) int {
	fs := flag.NewFlagSet("handler", flag.ExitOnError)
	c := drv.CommonFlags(fs)
	_ = fs.Parse(args)
	log.SetOutput(io.Discard)
	tw, err := trace.Create(c.Out)
	if err != nil {
		fmt.Fprintln(os.Stderr, err)
		return 2
	}
	defer tw.Close()
	st := drv.NewStats()
	consts := readBuiltConsts()
	caseRng := func(seed uint64, k int) *rng.R { return rng.New(mix64(mix64(seed) + uint64(k) + 0x4a9d1e)) }
	if c.Replay != "" {
		for _, rc := range drv.ReadCases(c.Replay) {
			var seed uint64
			var k int
			if n, _ := fmt.Sscanf(rc.ID, "h%d_%d", &seed, &k); n == 2 {
				handlerCase(tw, st, rc.ID, caseRng(seed, k), consts)
			}
		}
		st.Write(c.Stats)
		return 0
	}
	for k := 0; k < c.Cases; k++ {
		handlerCase(tw, st, fmt.Sprintf("h%d_%d", c.Seed, k), caseRng(c.Seed, k), consts)
	}
	st.Write(c.Stats)
	return 0
}
