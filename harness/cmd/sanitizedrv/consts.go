package main

import (
	"encoding/json"
	"flag"
	"fmt"
	"go/ast"
	"go/parser"
	"go/token"
	"os"
	"path/filepath"
	"reflect"
	"runtime"
	"strconv"
	"strings"

	"go.amzn.com/lambda/appctx"
	"go.amzn.com/lambda/fatalerror"
	"go.amzn.com/lambda/rapi/model"
)

func init() { commands["consts"] = constsCmd }

// builtConsts is everything the Lean side takes from the built code.
type builtConsts struct {
	MaxSize, Padding, Expansion int
	FieldOverhead, MsgOverhead  int
	MaxRelease                  int
	Factors                     [][2]int  // exact fractions of the source literals
	FloatFactors                []float64 // the float64 values Go computes with
	Pattern                     string    // the regexp source in GetValidRuntimeOrFunctionErrorType
	Notes                       []string
}

// srcOf returns the source file the compiled function fn was built from (from the binary's
// line table), so the literals that are local to a function are read from the very tree
// this harness was compiled against.
func srcOf(fn any) string {
	f := runtime.FuncForPC(reflect.ValueOf(fn).Pointer())
	if f == nil {
		return ""
	}
	file, _ := f.FileLine(f.Entry())
	return file
}

func findFunc(file *ast.File, name string) *ast.FuncDecl {
	for _, d := range file.Decls {
		if fd, ok := d.(*ast.FuncDecl); ok && fd.Name.Name == name {
			return fd
		}
	}
	return nil
}

// decimalFraction turns a decimal literal like "0.8" into (8, 10); ok=false otherwise.
func decimalFraction(lit string) (num, den int, ok bool) {
	if strings.ContainsAny(lit, "eExXpP_-") {
		return 0, 0, false
	}
	ip, fp := lit, ""
	if i := strings.IndexByte(lit, '.'); i >= 0 {
		ip, fp = lit[:i], lit[i+1:]
	}
	if len(fp) > 9 || len(ip) > 9 {
		return 0, 0, false
	}
	den = 1
	for range fp {
		den *= 10
	}
	n, err := strconv.Atoi(ip + fp)
	if err != nil {
		if ip+fp == "" {
			return 0, 0, false
		}
		return 0, 0, false
	}
	return n, den, true
}

func readBuiltConsts() *builtConsts {
	c := &builtConsts{
		MaxSize:    model.MaxErrorCauseSizeBytes,
		Padding:    model.VerifPaddingForFieldNames,
		Expansion:  model.VerifMaxJSONEscapeExpansion,
		MaxRelease: appctx.MaxRuntimeReleaseLength,
	}
	// field-name overheads, measured on the real encoder of the real type
	empty, _ := json.Marshal(model.ErrorCause{})
	withMsg, _ := json.Marshal(model.ErrorCause{Message: "x"})
	// {"exceptions":null,"working_directory":"","paths":null}  →  minus null, "", null
	c.FieldOverhead = len(empty) - 4 - 2 - 4
	c.MsgOverhead = len(withMsg) - len(empty) - 3
	if string(empty) != `{"exceptions":null,"working_directory":"","paths":null}` {
		c.Notes = append(c.Notes, "unexpected layout of empty ErrorCause: "+string(empty))
		c.FieldOverhead = -1
	}
	if string(withMsg) != `{"exceptions":null,"working_directory":"","paths":null,"message":"x"}` {
		c.Notes = append(c.Notes, "unexpected layout of ErrorCause with message: "+string(withMsg))
		c.MsgOverhead = -1
	}

	fset := token.NewFileSet()
	// crop factors: local slice literal in (*ErrorCause).croppedJSON
	if src := srcOf(model.ValidatedErrorCauseJSON); src != "" {
		if f, err := parser.ParseFile(fset, src, nil, 0); err == nil {
			if fd := findFunc(f, "croppedJSON"); fd != nil {
				ast.Inspect(fd, func(n ast.Node) bool {
					as, ok := n.(*ast.AssignStmt)
					if !ok || len(as.Lhs) != 1 || len(as.Rhs) != 1 {
						return true
					}
					id, ok := as.Lhs[0].(*ast.Ident)
					if !ok || id.Name != "truncationFactors" {
						return true
					}
					cl, ok := as.Rhs[0].(*ast.CompositeLit)
					if !ok {
						return true
					}
					for _, e := range cl.Elts {
						bl, ok := e.(*ast.BasicLit)
						if !ok {
							c.Notes = append(c.Notes, "truncation factor is not a literal")
							c.Factors = append(c.Factors, [2]int{-1, 1})
							continue
						}
						num, den, ok := decimalFraction(bl.Value)
						fl, err := strconv.ParseFloat(bl.Value, 64)
						if !ok || err != nil {
							c.Notes = append(c.Notes, "truncation factor literal not understood: "+bl.Value)
							num, den = -1, 1
						}
						c.Factors = append(c.Factors, [2]int{num, den})
						c.FloatFactors = append(c.FloatFactors, fl)
					}
					return false
				})
			} else {
				c.Notes = append(c.Notes, "croppedJSON not found in "+src)
			}
		} else {
			c.Notes = append(c.Notes, "cannot parse "+src+": "+err.Error())
		}
	}
	if c.Factors == nil {
		c.Notes = append(c.Notes, "truncationFactors not found")
	}
	// the regexp source: first argument of regexp.MatchString in GetValidRuntimeOrFunctionErrorType
	if src := srcOf(fatalerror.GetValidRuntimeOrFunctionErrorType); src != "" {
		if f, err := parser.ParseFile(fset, src, nil, 0); err == nil {
			if fd := findFunc(f, "GetValidRuntimeOrFunctionErrorType"); fd != nil {
				ast.Inspect(fd, func(n ast.Node) bool {
					ce, ok := n.(*ast.CallExpr)
					if !ok || len(ce.Args) < 1 {
						return true
					}
					se, ok := ce.Fun.(*ast.SelectorExpr)
					if !ok || !strings.HasPrefix(se.Sel.Name, "Match") && se.Sel.Name != "MustCompile" && se.Sel.Name != "Compile" {
						return true
					}
					if bl, ok := ce.Args[0].(*ast.BasicLit); ok && bl.Kind == token.STRING {
						if s, err := strconv.Unquote(bl.Value); err == nil && c.Pattern == "" {
							c.Pattern = s
						}
					}
					return true
				})
			}
		}
	}
	if c.Pattern == "" {
		c.Notes = append(c.Notes, "regexp literal of GetValidRuntimeOrFunctionErrorType not found")
	}
	return c
}

func natOrBad(n int) string {
	if n < 0 {
		// not a Nat: the generated file does not compile and the obligation is reported
		return fmt.Sprintf("(UNREADABLE_CONSTANT %d)", n)
	}
	return strconv.Itoa(n)
}

func (c *builtConsts) lean() string {
	var b strings.Builder
	b.WriteString("-- GENERATED by `sanitizedrv consts` from the built /repo on every C20 check run. Do not edit.\n")
	b.WriteString("namespace Rie.Gen.Sanitize\n\n")
	fmt.Fprintf(&b, "/-- model.MaxErrorCauseSizeBytes -/\ndef maxErrorCauseSizeBytes : Nat := %s\n", natOrBad(c.MaxSize))
	fmt.Fprintf(&b, "/-- model.paddingForFieldNames -/\ndef paddingForFieldNames : Nat := %s\n", natOrBad(c.Padding))
	fmt.Fprintf(&b, "/-- model.maxJSONEscapeExpansion -/\ndef maxJSONEscapeExpansion : Nat := %s\n", natOrBad(c.Expansion))
	b.WriteString("/-- truncationFactors of (*ErrorCause).croppedJSON as exact fractions of the source literals -/\n")
	b.WriteString("def truncationFactors : List (Nat × Nat) := [")
	for i, f := range c.Factors {
		if i > 0 {
			b.WriteString(", ")
		}
		fmt.Fprintf(&b, "(%s, %s)", natOrBad(f[0]), natOrBad(f[1]))
	}
	b.WriteString("]\n")
	fmt.Fprintf(&b, "/-- measured: len of `{\"exceptions\":` `,\"working_directory\":` `,\"paths\":` `}` -/\ndef fieldOverhead : Nat := %s\n", natOrBad(c.FieldOverhead))
	fmt.Fprintf(&b, "/-- measured: len of `,\"message\":` -/\ndef messageOverhead : Nat := %s\n", natOrBad(c.MsgOverhead))
	fmt.Fprintf(&b, "/-- appctx.MaxRuntimeReleaseLength -/\ndef maxRuntimeReleaseLength : Nat := %s\n", natOrBad(c.MaxRelease))
	b.WriteString("/-- bytes of the regexp source in fatalerror.GetValidRuntimeOrFunctionErrorType -/\n")
	b.WriteString("def errTypePattern : List Nat := [")
	for i := 0; i < len(c.Pattern); i++ {
		if i > 0 {
			b.WriteString(", ")
		}
		b.WriteString(strconv.Itoa(int(c.Pattern[i])))
	}
	b.WriteString("]\n\nend Rie.Gen.Sanitize\n")
	return b.String()
}

func constsCmd(args []string) int {
	fs := flag.NewFlagSet("consts", flag.ExitOnError)
	dir := fs.String("dir", ".", "output directory for Rie/Gen/SanitizeConsts.lean")
	show := fs.Bool("json", false, "also print the constants as JSON on stdout")
	_ = fs.Parse(args)
	c := readBuiltConsts()
	text := c.lean()
	path := filepath.Join(*dir, "SanitizeConsts.lean")
	// rewrite only on change (keeps lake from rebuilding dependants on every run)
	if old, err := os.ReadFile(path); err != nil || string(old) != text {
		tmp := path + ".tmp"
		if err := os.WriteFile(tmp, []byte(text), 0o644); err != nil {
			fmt.Fprintln(os.Stderr, err)
			return 2
		}
		if err := os.Rename(tmp, path); err != nil {
			fmt.Fprintln(os.Stderr, err)
			return 2
		}
	}
	if *show {
		j, _ := json.Marshal(c)
		fmt.Println(string(j))
	}
	for _, n := range c.Notes {
		fmt.Fprintln(os.Stderr, "consts: "+n)
	}
	return 0
}
