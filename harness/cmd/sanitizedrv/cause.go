package main

import (
	"bytes"
	"encoding/json"
	"flag"
	"fmt"
	"math"
	"os"
	"path/filepath"
	"strconv"
	"strings"
	"unicode/utf8"

	"go.amzn.com/lambda/rapi/model"
	"verifharness/internal/drv"
	"verifharness/internal/rng"
	"verifharness/internal/trace"
)

func init() { commands["cause"] = causeCmd }

// ---------- string contents ----------

var contentKinds = []string{"plain", "quotes", "backslash", "ctrl", "html", "linesep", "utf8", "invalid", "mixed", "ctrl-short", "esc-max"}

// genContent returns n bytes (about) of the given kind: the DECODED value of a JSON string
// (before the document is parsed; may contain invalid UTF-8).
func genContent(r *rng.R, n int, kind string) []byte {
	b := make([]byte, 0, n+4)
	plain := "abcdefghijklmnopqrstuvwxyz /ABCDEFGHIJKLMNOPQRSTUVWXYZ0123456789.:_-"
	utf := []string{"\u00e9", "\u00df", "\u03bb", "\u4e2d", "\ud55c", "\U0001F600", "\U00010348", "\ufffd", "\u00a0"}
	for len(b) < n {
		k := kind
		if kind == "mixed" {
			k = contentKinds[r.Intn(len(contentKinds))]
			if k == "mixed" {
				k = "plain"
			}
		}
		switch k {
		case "plain":
			b = append(b, plain[r.Intn(len(plain))])
		case "quotes":
			b = append(b, '"')
		case "backslash":
			b = append(b, '\\')
		case "ctrl":
			b = append(b, byte(1+r.Intn(31)))
		case "ctrl-short":
			b = append(b, "\n\r\t\b\f"[r.Intn(5)])
		case "html":
			b = append(b, "<>&"[r.Intn(3)])
		case "linesep":
			b = append(b, []string{"\u2028", "\u2029"}[r.Intn(2)]...)
		case "utf8":
			b = append(b, utf[r.Intn(len(utf))]...)
		case "invalid":
			b = append(b, byte(0x80+r.Intn(0x80)))
		case "esc-max": // every byte becomes 6 bytes: \u0001, <, invalid byte
			switch r.Intn(3) {
			case 0:
				b = append(b, 1)
			case 1:
				b = append(b, '<')
			default:
				b = append(b, 0xff)
			}
		}
	}
	if kind == "mixed" && r.Chance(1, 2) {
		// long runs make cropping land inside a run
		return b
	}
	return b
}

// jsonLit writes content as a JSON string literal. style 0: only what JSON requires is escaped
// (quote, backslash, controls) and every other byte — including invalid UTF-8 — is raw;
// style 1: all controls and non-ASCII valid runes as \uXXXX (surrogate pairs), invalid raw;
// style 2: Go's own encoder (content is coerced to valid UTF-8 first).
func jsonLit(content []byte, style int) []byte {
	if style == 2 {
		b, _ := json.Marshal(string(content))
		return b
	}
	out := make([]byte, 0, len(content)+2)
	out = append(out, '"')
	s := string(content)
	for i := 0; i < len(s); {
		c := s[i]
		switch {
		case c == '"' || c == '\\':
			out = append(out, '\\', c)
			i++
		case c < 0x20:
			out = append(out, fmt.Sprintf("\\u%04x", c)...)
			i++
		case c < 0x80 || style == 0:
			out = append(out, c)
			i++
		default:
			rn, size := decodeRune(s[i:])
			if rn == 0xFFFD && size == 1 {
				out = append(out, c)
			} else if rn >= 0x10000 {
				v := rn - 0x10000
				out = append(out, fmt.Sprintf("\\u%04x\\u%04x", 0xd800+(v>>10), 0xdc00+(v&0x3ff))...)
			} else {
				out = append(out, fmt.Sprintf("\\u%04x", rn)...)
			}
			i += size
		}
	}
	return append(out, '"')
}

func decodeRune(s string) (rune, int) { return utf8.DecodeRuneInString(s) }

// ---------- documents ----------

type plan struct {
	class string
	doc   []byte
	note  string
}

type docBuilder struct {
	r     *rng.R
	style int
	buf   bytes.Buffer
	first bool
}

func (d *docBuilder) key(k string) {
	if !d.first {
		d.buf.WriteByte(',')
	}
	d.first = false
	d.buf.Write(jsonLit([]byte(k), 0))
	d.buf.WriteByte(':')
}

func sizeClass(r *rng.R, consts *builtConsts) int {
	half := (consts.MaxSize - consts.Padding) / 2
	e := half
	if consts.Expansion > 0 {
		e = half / consts.Expansion
	}
	switch r.Pick([]int{30, 25, 15, 15, 15}) {
	case 0:
		return r.Intn(40)
	case 1:
		return r.Intn(2000)
	case 2:
		return []int{e, half, consts.MaxSize, e / 2, half / 2}[r.Intn(5)] - 4 + r.Intn(9)
	case 3:
		return 2000 + r.Intn(80000)
	default:
		return 60000 + r.Intn(300000)
	}
}

func (d *docBuilder) exception(msgLen int, kind string, frames int) {
	r := d.r
	d.buf.WriteByte('{')
	first := true
	put := func(k string, v []byte) {
		if !first {
			d.buf.WriteByte(',')
		}
		first = false
		d.buf.Write(jsonLit([]byte(k), 0))
		d.buf.WriteByte(':')
		d.buf.Write(v)
	}
	if r.Chance(9, 10) {
		put("message", jsonLit(genContent(r, msgLen, kind), d.style))
	}
	if r.Chance(8, 10) {
		put("type", jsonLit(genContent(r, 3+r.Intn(20), "plain"), d.style))
	}
	if frames > 0 || r.Chance(1, 5) {
		var fb bytes.Buffer
		fb.WriteByte('[')
		for i := 0; i < frames; i++ {
			if i > 0 {
				fb.WriteByte(',')
			}
			fmt.Fprintf(&fb, `{"path":%s,"line":%d,"label":%s}`, jsonLit(genContent(r, 5+r.Intn(40), "plain"), d.style), r.Intn(5000), jsonLit(genContent(r, r.Intn(20), kind), d.style))
		}
		fb.WriteByte(']')
		put("stack", fb.Bytes())
	}
	if r.Chance(1, 10) {
		put("unknown_field", []byte(`{"a":[1,2,3]}`))
	}
	d.buf.WriteByte('}')
}

// buildDoc assembles an error-cause document. nExc/nPaths < 0: field absent.
func buildDoc(r *rng.R, style int, nExc, excMsgLen int, excKind string, nPaths, pathLen int, pathKind string,
	wd []byte, wdPresent bool, msg []byte, msgPresent bool) []byte {
	d := &docBuilder{r: r, style: style, first: true}
	d.buf.WriteByte('{')
	order := []int{0, 1, 2, 3}
	if r.Chance(1, 2) {
		for i := 3; i > 0; i-- {
			j := r.Intn(i + 1)
			order[i], order[j] = order[j], order[i]
		}
	}
	for _, f := range order {
		switch f {
		case 0:
			if nExc >= 0 {
				d.key("exceptions")
				if nExc == 0 && r.Chance(1, 3) {
					d.buf.WriteString("null")
					break
				}
				d.buf.WriteByte('[')
				for i := 0; i < nExc; i++ {
					if i > 0 {
						d.buf.WriteByte(',')
					}
					l := excMsgLen
					if l > 8 {
						l = l/2 + r.Intn(l)
					}
					d.exception(l, excKind, r.Intn(3))
				}
				d.buf.WriteByte(']')
			}
		case 1:
			if wdPresent {
				d.key("working_directory")
				d.buf.Write(jsonLit(wd, style))
			}
		case 2:
			if nPaths >= 0 {
				d.key("paths")
				if nPaths == 0 && r.Chance(1, 3) {
					d.buf.WriteString("null")
					break
				}
				d.buf.WriteByte('[')
				for i := 0; i < nPaths; i++ {
					if i > 0 {
						d.buf.WriteByte(',')
					}
					l := pathLen
					if l > 8 {
						l = l/2 + r.Intn(l)
					}
					d.buf.Write(jsonLit(genContent(r, l, pathKind), style))
				}
				d.buf.WriteByte(']')
			}
		case 3:
			if msgPresent {
				if r.Chance(1, 20) {
					d.key("Message") // encoding/json matches keys case-insensitively
				} else {
					d.key("message")
				}
				d.buf.Write(jsonLit(msg, style))
			}
		}
	}
	if r.Chance(1, 8) {
		d.key("unrecognised")
		d.buf.WriteString(`{"nested":["x",1,null,true]}`)
	}
	d.buf.WriteByte('}')
	return d.buf.Bytes()
}

func pickKind(r *rng.R, escapeHeavy bool) string {
	if escapeHeavy {
		return []string{"quotes", "backslash", "ctrl", "html", "linesep", "invalid", "esc-max", "esc-max", "mixed", "ctrl-short", "utf8"}[r.Intn(11)]
	}
	return contentKinds[r.Intn(len(contentKinds))]
}

var badDocs = []string{
	``, ` `, `{`, `}`, `{"message":"x"`, `{"message":"x"}}`, `{"message":"x"} trailing`, `{"message":x}`, `{'message':'x'}`,
	`{"message":"x",}`, `{"message":"a` + "\n" + `b"}`, `{"message":"\x"}`, `{"message":"\u12"}`, `not json at all`, `<xml/>`,
	`{"paths":5}`, `{"paths":"str"}`, `{"paths":[1,2]}`, `{"exceptions":{}}`, `{"exceptions":[1]}`, `{"exceptions":["a"]}`,
	`{"working_directory":[]}`, `{"working_directory":5}`, `{"message":{}}`, `{"message":["a"]}`, `[]`, `[{"message":"x"}]`, `"str"`, `5`, `true`,
	`{"exceptions":[{"message":5}]}`, `{"exceptions":[{"stack":[{"line":"12"}]}]}`, `{"exceptions":[{"stack":{}}]}`,
	`{"message":"x"}{"message":"y"}`, "\xef\xbb\xbf" + `{"message":"x"}`, `{"message":"x"` + "\x00" + `}`, `NaN`, `{"message":NaN}`,
}

var emptyDocs = []string{
	`{}`, `null`, `{"foo":"bar"}`, `{"message":"","paths":[],"exceptions":[],"working_directory":""}`, `{"paths":null,"exceptions":null}`,
	`{"message":null}`, `{"errorMessage":"x","errorType":"y"}`, `{"Exceptions":[],"PATHS":[]}`, ` { } `, `{"messages":"x","path":["a"],"exception":[{}]}`,
	`{"message":"x","message":""}`, `{"cause":{"message":"nested only"}}`,
}

// genPlan builds the document of case k.
func genPlan(r *rng.R, consts *builtConsts, mbPerMille int) plan {
	half := (consts.MaxSize - consts.Padding) / 2
	e := half
	if consts.Expansion > 0 {
		e = half / consts.Expansion
	}
	style := r.Pick([]int{5, 3, 2})
	if r.Intn(1000) < mbPerMille {
		// multi-megabyte strings
		kind := pickKind(r, r.Bool())
		n := 1<<20 + r.Intn(3<<20)
		msg := genContent(r, n, kind)
		var wd []byte
		wdP := r.Bool()
		if wdP {
			wd = genContent(r, r.Intn(2<<20), pickKind(r, r.Bool()))
		}
		nExc, nPaths := -1, -1
		if r.Chance(1, 3) {
			nExc = r.Intn(2000)
		}
		if r.Chance(1, 3) {
			nPaths = r.Intn(20000)
		}
		return plan{class: "multi-MB", doc: buildDoc(r, style, nExc, 30, "plain", nPaths, 40, "plain", wd, wdP, msg, true),
			note: fmt.Sprintf("message %d bytes of %s, working_directory %d bytes", len(msg), kind, len(wd))}
	}
	switch r.Pick([]int{22, 8, 7, 22, 10, 20, 6, 5}) {
	case 0: // small valid document, random field presence
		nExc, nPaths := -1, -1
		if r.Bool() {
			nExc = r.Intn(6)
		}
		if r.Bool() {
			nPaths = r.Intn(8)
		}
		wdP, msgP := r.Bool(), r.Bool()
		return plan{class: "small", doc: buildDoc(r, style, nExc, r.Intn(200), pickKind(r, false), nPaths, r.Intn(80), pickKind(r, false),
			genContent(r, r.Intn(120), pickKind(r, false)), wdP, genContent(r, r.Intn(300), pickKind(r, false)), msgP)}
	case 1:
		d := badDocs[r.Intn(len(badDocs))]
		if r.Chance(1, 4) { // a valid document cut short / with a raw control byte inside
			full := buildDoc(r, 0, r.Intn(3), 20, "plain", r.Intn(3), 10, "plain", []byte("/var/task"), true, []byte("boom"), true)
			if r.Bool() {
				d = string(full[:1+r.Intn(len(full)-1)])
			} else {
				i := r.Intn(len(full))
				d = string(full[:i]) + "\x01" + string(full[i:])
			}
		}
		return plan{class: "unparsable", doc: []byte(d)}
	case 2:
		return plan{class: "no-recognised-field", doc: []byte(emptyDocs[r.Intn(len(emptyDocs))])}
	case 3: // many exceptions / paths: aims at every stage of the crop loop
		target := []int{50000, 66000, 75000, 90000, 105000, 120000, 150000, 170000, 250000, 320000, 400000, 900000}[r.Intn(12)]
		per := 20 + r.Intn(400)
		kind := pickKind(r, r.Chance(1, 3))
		nExc, nPaths := -1, -1
		switch r.Intn(3) {
		case 0:
			nExc = target / (per + 60)
		case 1:
			nPaths = target / (per + 3)
		default:
			nExc = target / 2 / (per + 60)
			nPaths = target / 2 / (per + 3)
		}
		wdP, msgP := r.Bool(), r.Bool()
		return plan{class: "many-traces", doc: buildDoc(r, style, nExc, per, kind, nPaths, per, kind,
			genContent(r, sizeClass(r, consts)%3000, pickKind(r, false)), wdP, genContent(r, sizeClass(r, consts)%3000, pickKind(r, false)), msgP),
			note: fmt.Sprintf("target %d bytes in traces, ~%d bytes of %s per element", target, per, kind)}
	case 4: // big strings, mostly not escaped
		kind := []string{"plain", "utf8", "plain", "mixed"}[r.Intn(4)]
		wdP := r.Bool()
		return plan{class: "big-strings", doc: buildDoc(r, style, r.Intn(4)-1, 50, "plain", r.Intn(4)-1, 30, "plain",
			genContent(r, sizeClass(r, consts), kind), wdP, genContent(r, 30000+sizeClass(r, consts), kind), true)}
	case 5: // escape-heavy strings: the case the final crop exists for
		kind := pickKind(r, true)
		wdP := r.Chance(2, 3)
		msgP := !wdP || r.Chance(4, 5)
		nm, nw := sizeClass(r, consts), sizeClass(r, consts)
		if r.Bool() {
			nm, nw = half+r.Intn(3*half), half+r.Intn(3*half)
		}
		return plan{class: "escape-heavy", doc: buildDoc(r, style, r.Intn(4)-1, 50, kind, r.Intn(4)-1, 30, kind,
			genContent(r, nw, kind), wdP, genContent(r, nm, pickKind(r, true)), msgP),
			note: fmt.Sprintf("message %d bytes, working_directory %d bytes of %s", nm, nw, kind)}
	case 6: // total size at the limit: plain message padded so that the re-marshalled size is max-2..max+2
		base := buildDoc(r, 0, r.Intn(3), 40, "plain", r.Intn(4), 30, "plain", []byte("/var/task"), true, []byte("M"), true)
		ec, err := model.VerifNewErrorCause(base)
		if err != nil {
			return plan{class: "small", doc: base}
		}
		b, _ := json.Marshal(ec)
		want := consts.MaxSize - 2 + r.Intn(5)
		pad := want - len(b)
		if pad < 0 {
			pad = 0
		}
		ec.Message = "M" + strings.Repeat("m", pad)
		doc, _ := json.Marshal(ec)
		return plan{class: "size-at-limit", doc: doc, note: fmt.Sprintf("re-marshalled size %d", len(doc))}
	default: // string lengths at the crop boundaries
		n := []int{e, half}[r.Intn(2)] - 4 + r.Intn(9)
		kind := pickKind(r, r.Bool())
		other := genContent(r, []int{0, 10, half * 3, consts.MaxSize}[r.Intn(4)], pickKind(r, r.Bool()))
		if r.Bool() {
			return plan{class: "length-at-boundary", doc: buildDoc(r, style, -1, 0, "plain", -1, 0, "plain", other, true, genContent(r, n, kind), true),
				note: fmt.Sprintf("message %d bytes of %s", n, kind)}
		}
		return plan{class: "length-at-boundary", doc: buildDoc(r, style, -1, 0, "plain", -1, 0, "plain", genContent(r, n, kind), true, other, len(other) > 0),
			note: fmt.Sprintf("working_directory %d bytes of %s", n, kind)}
	}
}

// ---------- measuring and model-free checking ----------

type escStats struct {
	maxRatioMilli int
	violations    int
	checked       int
	example       string
}

func (e *escStats) observe(s string, expansion int) int {
	b, _ := json.Marshal(s)
	n := len(b)
	e.checked++
	if n > expansion*len(s)+2 {
		e.violations++
		if e.example == "" {
			e.example = fmt.Sprintf("len=%d escaped=%d first bytes %q", len(s), n, s[:min(len(s), 24)])
		}
	}
	if len(s) > 0 {
		if m := (n - 2) * 1000 / len(s); m > e.maxRatioMilli {
			e.maxRatioMilli = m
		}
	}
	return n
}

// decodeGoLit inverts Go's JSON string encoder on one literal: the bytes of the Go string that
// was marshalled, where wild[i] marks a byte that was not valid UTF-8 (written as �; a
// genuine U+FFFD is written raw by the encoder).
func decodeGoLit(lit []byte) (out []byte, wild []bool, ok bool) {
	if len(lit) < 2 || lit[0] != '"' || lit[len(lit)-1] != '"' {
		return nil, nil, false
	}
	s := lit[1 : len(lit)-1]
	out = make([]byte, 0, len(s))
	wild = make([]bool, 0, len(s))
	put := func(b byte, w bool) { out = append(out, b); wild = append(wild, w) }
	for i := 0; i < len(s); {
		if s[i] != '\\' {
			put(s[i], false)
			i++
			continue
		}
		if i+1 >= len(s) {
			return nil, nil, false
		}
		switch s[i+1] {
		case '"', '\\', '/':
			put(s[i+1], false)
			i += 2
		case 'b':
			put('\b', false)
			i += 2
		case 'f':
			put('\f', false)
			i += 2
		case 'n':
			put('\n', false)
			i += 2
		case 'r':
			put('\r', false)
			i += 2
		case 't':
			put('\t', false)
			i += 2
		case 'u':
			if i+6 > len(s) {
				return nil, nil, false
			}
			v, err := strconv.ParseUint(string(s[i+2:i+6]), 16, 32)
			if err != nil {
				return nil, nil, false
			}
			switch {
			case v == 0xfffd:
				put(0, true)
			case v < 0x80:
				put(byte(v), false)
			default:
				for _, c := range []byte(string(rune(v))) {
					put(c, false)
				}
			}
			i += 6
		default:
			return nil, nil, false
		}
	}
	return out, wild, true
}

// cropRelation judges one output string against the input string (the parsed original):
// same → (len, false, true); a `...`-marked byte prefix → (len, true, true); else ok=false.
func cropRelation(outLit []byte, in string) (n int, cropped bool, ok bool) {
	d, wild, good := decodeGoLit(outLit)
	if !good {
		return 0, false, false
	}
	match := func(k int) bool {
		if k > len(in) {
			return false
		}
		for i := 0; i < k; i++ {
			if wild[i] {
				if in[i] < 0x80 {
					return false
				}
			} else if d[i] != in[i] {
				return false
			}
		}
		return true
	}
	if len(d) == len(in) && match(len(d)) {
		return len(d), false, true
	}
	if len(d) < 3 || string(d[len(d)-3:]) != "..." || wild[len(d)-1] || wild[len(d)-2] || wild[len(d)-3] {
		return len(d), true, false
	}
	if len(d)-3 < len(in) && match(len(d)-3) {
		return len(d), true, true
	}
	return len(d), true, false
}

type causeRun struct {
	consts *builtConsts
	esc    escStats
	floatMismatch int
	floatChecked  int
	floatExample  string
	dump   string
}

func joinInts(xs []int) string {
	if len(xs) == 0 {
		return "-"
	}
	var b strings.Builder
	for i, x := range xs {
		if i > 0 {
			b.WriteByte(',')
		}
		b.WriteString(strconv.Itoa(x))
	}
	return b.String()
}

func (cr *causeRun) checkFloat(n int) {
	for i, f := range cr.consts.FloatFactors {
		fr := cr.consts.Factors[i]
		if fr[0] <= 0 || fr[1] <= 0 {
			continue
		}
		goVal := int(float64(n) * math.Min(f, 1))
		rat := n
		if fr[0] < fr[1] {
			rat = n * fr[0] / fr[1]
		}
		cr.floatChecked++
		if goVal != rat {
			cr.floatMismatch++
			if cr.floatExample == "" {
				cr.floatExample = fmt.Sprintf("int(float64(%d)*%v)=%d but %d*%d/%d=%d", n, f, goVal, n, fr[0], fr[1], rat)
			}
		}
	}
}

func (cr *causeRun) runCase(tw *trace.W, st *drv.Stats, id string, p plan) {
	k := cr.consts
	half := (k.MaxSize - k.Padding) / 2
	e := half
	if k.Expansion > 0 {
		e = half / k.Expansion
	}
	doc := p.doc
	tw.Case(id)
	tw.Init("")
	tw.Comment("plan class=%s doc=%d bytes %s", p.class, len(doc), p.note)
	st.Cases++
	st.Steps++
	st.Inc("gen:" + p.class)
	docValid := json.Valid(doc)

	ec, perr := model.VerifNewErrorCause(doc)
	out, verr := model.ValidatedErrorCauseJSON(append([]byte(nil), doc...))
	if cr.dump != "" {
		_ = os.WriteFile(filepath.Join(cr.dump, id+".in.json"), doc, 0o644)
		_ = os.WriteFile(filepath.Join(cr.dump, id+".out.json"), out, 0o644)
	}
	h := drv.Fnv(0, p.class)
	if perr != nil {
		tw.Op("causebad")
		obs := "dropped"
		if verr == nil {
			obs = fmt.Sprintf("kept total=%d", len(out))
		}
		tw.Obs("%s", obs)
		tw.Comment("chk kind=bad docvalid=%d dropped=%d doclen=%d", b2i(docValid), b2i(verr != nil), len(doc))
		st.Inc("out:dropped-unparsable")
		st.Mark(drv.Fnv(h, string(doc[:min(len(doc), 200)])), true)
		return
	}
	// sizes the model needs (values of the abstract esc / excSize / pathSize at the points it queries)
	exSizes := make([]int, len(ec.Exceptions))
	exRaw := make([][]byte, len(ec.Exceptions))
	for i := range ec.Exceptions {
		b, _ := json.Marshal(ec.Exceptions[i])
		exSizes[i], exRaw[i] = len(b), b
	}
	paSizes := make([]int, len(ec.Paths))
	for i, s := range ec.Paths {
		paSizes[i] = cr.esc.observe(s, k.Expansion)
	}
	measure := func(s string) (int, int, int) {
		c1 := model.VerifCropString(s, half)
		c2 := model.VerifCropString(c1, e)
		return cr.esc.observe(s, k.Expansion), cr.esc.observe(c1, k.Expansion), cr.esc.observe(c2, k.Expansion)
	}
	w0, w1, w2 := measure(ec.WorkingDir)
	m0, m1, m2 := measure(ec.Message)
	cr.checkFloat(len(ec.Exceptions))
	cr.checkFloat(len(ec.Paths))
	tw.Op("cause en=%d pn=%d ex=%s pa=%s wd=%d,%d,%d,%d msg=%d,%d,%d,%d", b2i(ec.Exceptions == nil), b2i(ec.Paths == nil),
		joinInts(exSizes), joinInts(paSizes), len(ec.WorkingDir), w0, w1, w2, len(ec.Message), m0, m1, m2)

	if verr != nil {
		tw.Obs("dropped")
		anyField := len(ec.Exceptions) > 0 || len(ec.Paths) > 0 || len(ec.WorkingDir) > 0 || len(ec.Message) > 0
		tw.Comment("chk kind=dropped docvalid=%d anyfield=%d", b2i(docValid), b2i(anyField))
		st.Inc("out:dropped-no-field")
		st.Mark(drv.Fnv(h, string(doc[:min(len(doc), 200)])), true)
		return
	}
	// model-free judgement of the output
	outValid := json.Valid(out)
	var top map[string]json.RawMessage
	fieldsOK := true
	why := ""
	fail := func(s string) {
		fieldsOK = false
		if why == "" {
			why = s
		}
	}
	keptEx, keptPa, wdLen, msgLen := 0, 0, 0, 0
	wdCrop, msgCrop := false, false
	if err := json.Unmarshal(out, &top); err != nil {
		fail("output-not-an-object")
	} else {
		for key := range top {
			switch key {
			case "exceptions", "working_directory", "paths", "message":
			default:
				fail("extra-field-" + key)
			}
		}
		var exOut, paOut []json.RawMessage
		if raw, ok := top["exceptions"]; ok {
			if err := json.Unmarshal(raw, &exOut); err != nil {
				fail("exceptions-not-array")
			}
		}
		if raw, ok := top["paths"]; ok {
			if err := json.Unmarshal(raw, &paOut); err != nil {
				fail("paths-not-array")
			}
		}
		keptEx, keptPa = len(exOut), len(paOut)
		if keptEx > len(exRaw) {
			fail("more-exceptions-than-input")
		} else {
			for i := range exOut {
				if !bytes.Equal(exOut[i], exRaw[i]) {
					fail(fmt.Sprintf("exception-%d-differs", i))
					break
				}
			}
		}
		if keptPa > len(ec.Paths) {
			fail("more-paths-than-input")
		} else {
			for i := range paOut {
				want, _ := json.Marshal(ec.Paths[i])
				if !bytes.Equal(paOut[i], want) {
					fail(fmt.Sprintf("path-%d-differs", i))
					break
				}
			}
		}
		var ok bool
		if raw, has := top["working_directory"]; has {
			if wdLen, wdCrop, ok = cropRelation(raw, ec.WorkingDir); !ok {
				fail("working_directory-not-a-crop-of-input")
			}
		} else if ec.WorkingDir != "" {
			fail("working_directory-missing")
		}
		if raw, has := top["message"]; has {
			if msgLen, msgCrop, ok = cropRelation(raw, ec.Message); !ok {
				fail("message-not-a-crop-of-input")
			}
		} else if ec.Message != "" {
			fail("message-missing")
		}
	}
	obs := fmt.Sprintf("kept total=%d ex=%d pa=%d wd=%d,%d msg=%d,%d", len(out), keptEx, keptPa, wdLen, b2i(wdCrop), msgLen, b2i(msgCrop))
	tw.Obs("%s", obs)
	tw.Comment("chk kind=kept docvalid=%d outvalid=%d size=%d fields=%d why=%s inex=%d inpa=%d inwd=%d inmsg=%d",
		b2i(docValid), b2i(outValid), len(out), b2i(fieldsOK), orDash(why), len(ec.Exceptions), len(ec.Paths), len(ec.WorkingDir), len(ec.Message))

	// outcome class (for the distribution only)
	same, _ := json.Marshal(ec)
	class := "other"
	switch {
	case bytes.Equal(same, out):
		class = "unchanged"
	case (msgCrop && msgLen == e) || (wdCrop && wdLen == e):
		class = "cropEscaped"
	case msgCrop || wdCrop || (keptEx == 0 && keptPa == 0 && string(top["exceptions"]) == "null" && string(top["paths"]) == "null"):
		class = "crop0"
	default:
		for i, f := range k.FloatFactors {
			if keptEx == int(float64(len(ec.Exceptions))*math.Min(f, 1)) && keptPa == int(float64(len(ec.Paths))*math.Min(f, 1)) {
				class = fmt.Sprintf("factor%d", i)
				break
			}
		}
	}
	st.Inc("out:" + class)
	if len(out) > k.MaxSize-64 && len(out) <= k.MaxSize {
		st.Inc("out:within-64-bytes-of-limit")
	}
	st.Mark(drv.Fnv(h, obs+fmt.Sprint(len(doc))), class != "unchanged" || len(doc) > 200)
	if p.note != "" {
		st.Sample(fmt.Sprintf("cause %s (%s): %d bytes in -> %s", p.class, p.note, len(doc), obs))
	}
}

func orDash(s string) string {
	if s == "" {
		return "-"
	}
	return s
}

func causeCmd(args []string) int {
	fs := flag.NewFlagSet("cause", flag.ExitOnError)
	c := drv.CommonFlags(fs)
	mb := fs.Int("mb", 10, "per-mille of cases with multi-megabyte strings")
	dump := fs.String("dump", "", "directory to dump the input/output documents of every case (replays)")
	_ = fs.Parse(args)
	tw, err := trace.Create(c.Out)
	if err != nil {
		fmt.Fprintln(os.Stderr, err)
		return 2
	}
	defer tw.Close()
	st := drv.NewStats()
	cr := &causeRun{consts: readBuiltConsts(), dump: *dump}
	if *dump != "" {
		_ = os.MkdirAll(*dump, 0o755)
	}
	caseRng := func(seed uint64, k int) *rng.R { return rng.New(mix64(mix64(seed) + uint64(k) + 0xca05e)) }
	if c.Replay != "" {
		// cases are regenerated from their identifier c<seed>_<k>_<mb>
		for _, rc := range drv.ReadCases(c.Replay) {
			var seed uint64
			var k, mbp int
			if n, _ := fmt.Sscanf(rc.ID, "c%d_%d_%d", &seed, &k, &mbp); n != 3 {
				continue
			}
			cr.runCase(tw, st, rc.ID, genPlan(caseRng(seed, k), cr.consts, mbp))
		}
	} else {
		for k := 0; k < c.Cases; k++ {
			cr.runCase(tw, st, fmt.Sprintf("c%d_%d_%d", c.Seed, k, *mb), genPlan(caseRng(c.Seed, k), cr.consts, *mb))
		}
		// rational vs float crop arithmetic on a dense range and on large values
		for n := 0; n <= 300000; n++ {
			cr.checkFloat(n)
		}
		r := rng.New(mix64(c.Seed ^ 0xf10a7))
		for i := 0; i < 200000; i++ {
			cr.checkFloat(r.Intn(1 << 40))
		}
	}
	st.Dist["esc:strings-checked"] = cr.esc.checked
	st.Dist["esc:max-ratio-x1000"] = cr.esc.maxRatioMilli
	st.Dist["esc:hypothesis-violations"] = cr.esc.violations
	st.Dist["float:lengths-checked"] = cr.floatChecked
	st.Dist["float:rational-mismatches"] = cr.floatMismatch
	if cr.esc.example != "" {
		st.Note("escape hypothesis violated: " + cr.esc.example)
	}
	if cr.floatExample != "" {
		st.Note("rational crop arithmetic differs from Go's float computation: " + cr.floatExample)
	}
	st.Write(c.Stats)
	return 0
}
