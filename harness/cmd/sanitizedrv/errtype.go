package main

import (
	"flag"
	"fmt"
	"os"

	"go.amzn.com/lambda/fatalerror"
	"verifharness/internal/drv"
	"verifharness/internal/rng"
	"verifharness/internal/trace"
)

func init() { commands["errtype"] = errtypeCmd }

const upperAZ = "ABCDEFGHIJKLMNOPQRSTUVWXYZ"
const lowerAZ = "abcdefghijklmnopqrstuvwxyz"

func letters(r *rng.R, n int) []byte {
	b := make([]byte, n)
	for i := range b {
		if r.Bool() {
			b[i] = upperAZ[r.Intn(26)]
		} else {
			b[i] = lowerAZ[r.Intn(26)]
		}
	}
	return b
}

func validErrType(r *rng.R) []byte {
	p := "Runtime."
	if r.Bool() {
		p = "Function."
	}
	n := 1 + r.Intn(20)
	if r.Chance(1, 10) {
		n = 1
	}
	return append(append([]byte(p), upperAZ[r.Intn(26)]), letters(r, n)...)
}

var knownTypes = []string{
	string(fatalerror.AgentInitError), string(fatalerror.AgentExitError), string(fatalerror.AgentCrash),
	string(fatalerror.AgentLaunchError), string(fatalerror.RuntimeExit), string(fatalerror.InvalidEntrypoint),
	string(fatalerror.InvalidWorkingDir), string(fatalerror.InvalidTaskConfig), string(fatalerror.TruncatedResponse),
	string(fatalerror.RuntimeInvalidResponseModeHeader), string(fatalerror.RuntimeUnknown),
	string(fatalerror.FunctionOversizedResponse), string(fatalerror.FunctionUnknown),
	string(fatalerror.SandboxFailure), string(fatalerror.SandboxTimeout),
}

var garbage = []string{"$$$ <b>", "\n", "\nInjected", " ", "\x00", "\r\n", "xx", "<script>", "\t", ".", "..", "1", "_", "-", "\u00c9", "\u00e9", "\u212a", "\u017f", "\xff", "\xc3", "Runtime.Foo", "Function.Bar", "|", "$", "^"}

// genErrType returns an input and the generator class it came from.
func genErrType(r *rng.R) ([]byte, string) {
	switch r.Pick([]int{22, 6, 40, 10, 4, 2, 8, 8}) {
	case 0:
		return validErrType(r), "valid"
	case 1:
		return []byte(knownTypes[r.Intn(len(knownTypes))]), "known-constant"
	case 2: // near misses derived from a valid form
		v := validErrType(r)
		dot := 0
		for v[dot] != '.' {
			dot++
		}
		g := garbage[r.Intn(len(garbage))]
		switch r.Intn(16) {
		case 0: // lower-case first letter
			v[dot+1] = lowerAZ[r.Intn(26)]
			return v, "near:lower-first"
		case 1: // digit somewhere in X
			v[dot+1+r.Intn(len(v)-dot-1)] = byte('0' + r.Intn(10))
			return v, "near:digit"
		case 2: // single letter X
			return v[:dot+2], "near:one-letter"
		case 3: // empty X
			return v[:dot+1], "near:empty-name"
		case 4: // embedded match: garbage before
			return append([]byte(g), v...), "near:prefix-garbage"
		case 5: // garbage after
			return append(v, g...), "near:suffix-garbage"
		case 6: // both
			return append(append([]byte(g), v...), garbage[r.Intn(len(garbage))]...), "near:embedded"
		case 7: // trailing newline
			return append(v, '\n'), "near:trailing-newline"
		case 8: // the dot replaced by another byte (an unescaped '.' would accept it)
			v[dot] = "xX:/ -_\x00,"[r.Intn(9)]
			return v, "near:no-dot"
		case 9: // wrong case / spelling of the prefix
			v[r.Intn(dot)] ^= 0x20
			return v, "near:prefix-case"
		case 10: // letter-class boundary bytes @ [ ` {
			v[dot+1+r.Intn(len(v)-dot-1)] = "@[`{"[r.Intn(4)]
			return v, "near:class-boundary"
		case 11: // non-ASCII letter inside X
			i := dot + 1 + r.Intn(len(v)-dot-1)
			return append(append(append([]byte{}, v[:i]...), []string{"\u00c9", "\u00e9", "\u212a", "\u017f", "\u00df", "\xc9"}[r.Intn(6)]...), v[i:]...), "near:non-ascii-letter"
		case 12: // two dots / second segment
			return append(append(v, '.'), letters(r, 3)...), "near:second-dot"
		case 13: // other namespaces
			return append([]byte([]string{"Sandbox.", "Extension.", "Runtime", "Function", "RuntimeFunction.", "Runtime|Function."}[r.Intn(6)]), v[dot+1:]...), "near:other-prefix"
		case 14: // leading space / NUL inside
			i := r.Intn(len(v) + 1)
			return append(append(append([]byte{}, v[:i]...), " \x00\t"[r.Intn(3)]), v[i:]...), "near:inserted-blank"
		default: // an upper-case letter replaced by the byte just outside the class
			v[dot+1] = "@["[r.Intn(2)]
			return v, "near:first-boundary"
		}
	case 3: // random bytes
		n := r.Intn(40)
		b := make([]byte, n)
		for i := range b {
			b[i] = byte(r.Intn(256))
		}
		return b, "random-bytes"
	case 4:
		return nil, "empty"
	case 5: // very long
		n := 1000 + r.Intn(200000)
		v := append([]byte("Runtime.A"), letters(r, n)...)
		if r.Bool() {
			v[9+r.Intn(n)] = byte(r.Intn(256))
			return v, "long:one-odd-byte"
		}
		return v, "long:valid"
	case 6: // Function.-prefixed invalid
		n := r.Intn(12)
		b := make([]byte, n)
		for i := range b {
			b[i] = byte(32 + r.Intn(95))
		}
		return append([]byte("Function."), b...), "function-prefix-invalid"
	default: // printable ASCII soup around the keywords
		parts := []string{"Runtime", "Function", ".", "Unknown", "A", "b", "9", " ", "\n", "Foo", "$", "^"}
		var b []byte
		for i, n := 0, 1+r.Intn(5); i < n; i++ {
			b = append(b, parts[r.Intn(len(parts))]...)
		}
		return b, "keyword-soup"
	}
}

func runErrType(tw *trace.W, st *drv.Stats, id string, in []byte, class string) {
	out := []byte(fatalerror.GetValidRuntimeOrFunctionErrorType(string(in)))
	tw.Case(id)
	tw.Init("")
	tw.Op("errtype %s", hx(in))
	tw.Obs("%s", hx(out))
	st.Cases++
	st.Steps++
	st.Inc("gen:" + class)
	oc := "fallback-runtime"
	switch {
	case string(out) == string(in):
		oc = "passed"
	case string(out) == string(fatalerror.FunctionUnknown):
		oc = "fallback-function"
	}
	st.Inc("out:" + oc)
	st.Mark(drv.Fnv(0, string(in)), true)
	if len(in) < 60 {
		st.Sample(fmt.Sprintf("errtype %q -> %q", in, out))
	}
}

func errtypeCmd(args []string) int {
	fs := flag.NewFlagSet("errtype", flag.ExitOnError)
	c := drv.CommonFlags(fs)
	_ = fs.Parse(args)
	tw, err := trace.Create(c.Out)
	if err != nil {
		fmt.Fprintln(os.Stderr, err)
		return 2
	}
	defer tw.Close()
	st := drv.NewStats()
	if c.Replay != "" {
		for _, rc := range drv.ReadCases(c.Replay) {
			for _, op := range rc.Ops {
				if len(op) == 2 && op[0] == "errtype" {
					runErrType(tw, st, rc.ID, unhx(op[1]), "replay")
				}
			}
		}
		st.Write(c.Stats)
		return 0
	}
	r := rng.New(mix64(c.Seed ^ 0xe77))
	for k := 0; k < c.Cases; k++ {
		in, class := genErrType(r)
		runErrType(tw, st, fmt.Sprintf("e%d_%d", c.Seed, k), in, class)
	}
	st.Write(c.Stats)
	return 0
}
