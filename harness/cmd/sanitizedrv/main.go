// sanitizedrv drives the REAL sanitising functions of go.amzn.com (error type, X-Ray error
// cause, runtime release) on generated inputs and writes the line protocol that rie-oracle
// replays on the Lean models of property C20, plus model-free `chk` lines judged by vcheck/c20.py.
//
//	sanitizedrv consts  -dir <lean/Rie/Gen>      regenerate SanitizeConsts.lean from the built code
//	sanitizedrv errtype [common flags]           fatalerror.GetValidRuntimeOrFunctionErrorType
//	sanitizedrv cause   [common flags]           model.ValidatedErrorCauseJSON
//	sanitizedrv release [common flags]           appctx.CreateRuntimeReleaseFromRequest / UpdateAppCtxWithRuntimeRelease
//	sanitizedrv handler [common flags]           the same through the /invocation/{id}/error and /init/error handlers
package main

import (
	"encoding/hex"
	"fmt"
	"os"
	"sort"
)

var commands = map[string]func(args []string) int{}

func main() {
	if len(os.Args) < 2 {
		var names []string
		for k := range commands {
			names = append(names, k)
		}
		sort.Strings(names)
		fmt.Fprintln(os.Stderr, "usage: sanitizedrv <cmd> [flags]; cmds:", names)
		os.Exit(2)
	}
	f, ok := commands[os.Args[1]]
	if !ok {
		fmt.Fprintln(os.Stderr, "unknown command", os.Args[1])
		os.Exit(2)
	}
	os.Exit(f(os.Args[2:]))
}

// hx encodes a byte string for the protocol ("-" for the empty string).
func hx(b []byte) string {
	if len(b) == 0 {
		return "-"
	}
	return hex.EncodeToString(b)
}

func unhx(s string) []byte {
	if s == "-" || s == "" {
		return nil
	}
	b, err := hex.DecodeString(s)
	if err != nil {
		return nil
	}
	return b
}

func b2i(b bool) int {
	if b {
		return 1
	}
	return 0
}

// mix64 decorrelates seeds: rng.New(n) and rng.New(n+1) produce the same stream shifted by one
// draw (splitmix64 walks a single orbit), so consecutive worker seeds / case numbers would
// yield near-duplicate cases. Hashing the seed first puts the streams far apart on the orbit.
func mix64(x uint64) uint64 {
	x += 0x632be59bd9b4e019
	x ^= x >> 30
	x *= 0xBF58476D1CE4E5B9
	x ^= x >> 27
	x *= 0x94D049BB133111EB
	x ^= x >> 31
	return x
}
