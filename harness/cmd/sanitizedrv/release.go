package main

import (
	"flag"
	"fmt"
	"net/http"
	"net/http/httptest"
	"os"
	"strings"

	"go.amzn.com/lambda/appctx"
	"verifharness/internal/drv"
	"verifharness/internal/rng"
	"verifharness/internal/trace"
)

func init() { commands["release"] = releaseCmd }

const tokenChars = "abcdefghijklmnopqrstuvwxyzABCDEFGHIJKLMNOPQRSTUVWXYZ0123456789/._-+;:,=*#"

var asciiSpaces = []byte{' ', ' ', ' ', '\t', '\n', '\v', '\f', '\r'}

func tok(r *rng.R, n int, nonASCII bool) []byte {
	b := make([]byte, n)
	for i := range b {
		b[i] = tokenChars[r.Intn(len(tokenChars))]
		if nonASCII && r.Chance(1, 4) {
			b[i] = byte(0x80 + r.Intn(0x80))
		}
	}
	if nonASCII && n >= 3 && r.Chance(1, 3) {
		// a Unicode space in the middle: NBSP, NEL, EM SPACE, IDEOGRAPHIC SPACE
		sp := []string{"\u00a0", "\u0085", "\u2003", "\u3000", "\u2028"}[r.Intn(5)]
		i := r.Intn(n - 1)
		b = append(append(append([]byte{}, b[:i]...), sp...), b[i:]...)
	}
	return b
}

func sep(r *rng.R) []byte {
	n := 1
	if r.Chance(1, 4) {
		n = 1 + r.Intn(3)
	}
	b := make([]byte, n)
	for i := range b {
		b[i] = asciiSpaces[r.Intn(len(asciiSpaces))]
	}
	return b
}

func genUA(r *rng.R, nonASCII bool) ([]byte, string) {
	switch r.Pick([]int{10, 30, 15, 8, 15, 10, 6}) {
	case 0:
		return nil, "ua:empty"
	case 1:
		return tok(r, 1+r.Intn(30), nonASCII), "ua:token"
	case 2: // several tokens, browser style
		b := tok(r, 1+r.Intn(20), nonASCII)
		for i, n := 0, 1+r.Intn(4); i < n; i++ {
			b = append(append(b, sep(r)...), tok(r, 1+r.Intn(12), nonASCII)...)
			if r.Chance(1, 3) {
				b = append(b, " (X11; Linux)"...)
			}
		}
		return b, "ua:multi"
	case 3: // leading / trailing blanks
		return append(append(sep(r), tok(r, 1+r.Intn(20), nonASCII)...), sep(r)...), "ua:blank-padded"
	case 4: // around the limits 118..140
		return tok(r, 112+r.Intn(30), nonASCII), "ua:near-limit"
	case 5: // token that already ends in ')'
		return append(tok(r, 1+r.Intn(20), nonASCII), ')'), "ua:ends-paren"
	default: // only blanks
		return sep(r), "ua:only-blanks"
	}
}

// genFeatures builds a Lambda-Runtime-Features header value; l is the length the release
// string has so far (to aim at the boundary).
func genFeatures(r *rng.R, l int, nonASCII bool) ([]byte, string) {
	if l == 0 {
		l = 7
	}
	avail := 128 - l - 3
	switch r.Pick([]int{12, 25, 25, 10, 10, 8, 5, 5}) {
	case 0:
		return nil, "ft:empty"
	case 1: // a few short features
		var b []byte
		for i, n := 0, 1+r.Intn(5); i < n; i++ {
			if i > 0 {
				b = append(b, sep(r)...)
			}
			b = append(b, tok(r, 1+r.Intn(10), nonASCII)...)
		}
		return b, "ft:few"
	case 2: // fill to the boundary: total length (with delimiters) avail-2 .. avail+2
		target := avail - 2 + r.Intn(5)
		if target < 1 {
			target = 1 + r.Intn(3)
		}
		var b []byte
		used := 0
		for used < target {
			n := 1 + r.Intn(12)
			if used+n > target {
				n = target - used
			}
			if len(b) > 0 {
				b = append(b, ' ')
				used++
				if used >= target {
					break
				}
				if used+n > target {
					n = target - used
				}
			}
			b = append(b, tok(r, n, false)...)
			used += n
		}
		return b, "ft:boundary"
	case 3: // an oversized feature followed by fitting ones (the loop must go on)
		var b []byte
		if avail < 0 {
			b = tok(r, 1+r.Intn(5), nonASCII)
		} else {
			b = tok(r, avail+1+r.Intn(10), nonASCII)
		}
		for i, n := 0, 1+r.Intn(3); i < n; i++ {
			b = append(append(b, sep(r)...), tok(r, 1+r.Intn(6), nonASCII)...)
		}
		return b, "ft:oversized-first"
	case 4: // many tiny features
		var b []byte
		for i, n := 0, 20+r.Intn(60); i < n; i++ {
			if i > 0 {
				b = append(b, sep(r)...)
			}
			b = append(b, tok(r, 1+r.Intn(3), nonASCII)...)
		}
		return b, "ft:many"
	case 5: // parentheses inside and around
		var b []byte
		for i, n := 0, 1+r.Intn(4); i < n; i++ {
			if i > 0 {
				b = append(b, sep(r)...)
			}
			t := tok(r, 1+r.Intn(8), nonASCII)
			t[r.Intn(len(t))] = "()"[r.Intn(2)]
			if r.Bool() {
				t = append([]byte{'('}, append(t, ')')...)
			}
			b = append(b, t...)
		}
		return b, "ft:parens"
	case 6: // nothing left after removing parentheses
		return []byte([]string{"()", "(", ")", " ( ) ", "(()) )("}[r.Intn(5)]), "ft:only-parens"
	default: // blank padded
		return append(append(sep(r), tok(r, 1+r.Intn(10), nonASCII)...), sep(r)...), "ft:blank-padded"
	}
}

type relOp struct {
	kind   string // upd | create
	a, hdr []byte // upd: a = User-Agent; create: a = runtimeRelease argument
}

func newReleaseRequest(ua, hdr []byte, setUA bool) *http.Request {
	q := httptest.NewRequest("GET", "/2018-06-01/runtime/invocation/next", nil)
	q.Header.Del("User-Agent")
	if setUA {
		q.Header.Set("User-Agent", string(ua))
	}
	if hdr != nil {
		q.Header.Set("Lambda-Runtime-Features", string(hdr))
	}
	return q
}

func runReleaseCase(tw *trace.W, st *drv.Stats, id string, ops []relOp) {
	ctx := appctx.NewApplicationContext()
	tw.Case(id)
	tw.Init("")
	h := drv.Fnv(0, "rel")
	nontrivial := false
	for _, o := range ops {
		switch o.kind {
		case "upd":
			prev := appctx.GetRuntimeRelease(ctx)
			ret := appctx.UpdateAppCtxWithRuntimeRelease(newReleaseRequest(o.a, o.hdr, len(o.a) > 0), ctx)
			now := appctx.GetRuntimeRelease(ctx)
			tw.Op("upd %s %s", hx(o.a), hx(o.hdr))
			obs := fmt.Sprintf("ret=%s rr=%s", map[bool]string{true: "t", false: "f"}[ret], hx([]byte(now)))
			tw.Obs("%s", obs)
			h = drv.Fnv(h, "u|"+string(o.a)+"|"+string(o.hdr)+"|"+obs)
			switch {
			case now == prev && strings.HasSuffix(prev, ")"):
				st.Inc("upd:fixed-after-paren")
				nontrivial = true
			case now == prev:
				st.Inc("upd:unchanged")
			case strings.Contains(now, " ("):
				st.Inc("upd:features-appended")
				nontrivial = true
				if len(now) == appctx.MaxRuntimeReleaseLength {
					st.Inc("upd:exactly-at-limit")
				}
			default:
				st.Inc("upd:user-agent-stored")
				if len(now) > appctx.MaxRuntimeReleaseLength {
					st.Inc("upd:user-agent-longer-than-limit")
				}
			}
		case "create":
			out := appctx.CreateRuntimeReleaseFromRequest(newReleaseRequest(nil, o.hdr, false), string(o.a))
			tw.Op("create %s %s", hx(o.a), hx(o.hdr))
			obs := "rr=" + hx([]byte(out))
			tw.Obs("%s", obs)
			h = drv.Fnv(h, "c|"+string(o.a)+"|"+string(o.hdr)+"|"+obs)
			if out != string(o.a) {
				st.Inc("create:appended")
				nontrivial = true
				if len(out) == appctx.MaxRuntimeReleaseLength {
					st.Inc("create:exactly-at-limit")
				}
			} else {
				st.Inc("create:unchanged")
			}
		}
		st.Steps++
	}
	st.Cases++
	st.Mark(h, nontrivial)
}

func releaseCmd(args []string) int {
	fs := flag.NewFlagSet("release", flag.ExitOnError)
	c := drv.CommonFlags(fs)
	_ = fs.Parse(args)
	tw, err := trace.Create(c.Out)
	if err != nil {
		fmt.Fprintln(os.Stderr, err)
		return 2
	}
	defer tw.Close()
	st := drv.NewStats()
	if c.Replay != "" {
		for _, rc := range drv.ReadCases(c.Replay) {
			var ops []relOp
			for _, w := range rc.Ops {
				if len(w) == 3 && (w[0] == "upd" || w[0] == "create") {
					ops = append(ops, relOp{w[0], unhx(w[1]), unhx(w[2])})
				}
			}
			runReleaseCase(tw, st, rc.ID, ops)
		}
		st.Write(c.Stats)
		return 0
	}
	r := rng.New(mix64(c.Seed ^ 0x4e1ea5e))
	for k := 0; k < c.Cases; k++ {
		cr := rng.New(mix64(r.U64()))
		nonASCII := cr.Chance(1, 12)
		var ops []relOp
		cur := 0 // estimate of the stored length, to aim feature sizes at the boundary
		for i, n := 0, 1+cr.Intn(5); i < n; i++ {
			if cr.Chance(1, 4) {
				rr, _ := genUA(cr, nonASCII)
				if cr.Chance(1, 3) {
					rr = append(rr, " (a b)"...)
				}
				hdr, cl := genFeatures(cr, len(rr), nonASCII)
				st.Inc("gen:create/" + cl)
				ops = append(ops, relOp{"create", rr, hdr})
				continue
			}
			ua, ucl := genUA(cr, nonASCII)
			l := cur
			if l == 0 {
				if f := strings.Fields(string(ua)); len(f) > 0 {
					l = len(f[0])
				}
			}
			hdr, fcl := genFeatures(cr, l, nonASCII)
			if cur == 0 {
				cur = l
			}
			st.Inc("gen:" + ucl)
			st.Inc("gen:" + fcl)
			ops = append(ops, relOp{"upd", ua, hdr})
		}
		if nonASCII {
			st.Inc("gen:non-ascii-case")
		}
		if k < 3 {
			st.Sample(fmt.Sprintf("release case %d: %d ops, first ua=%q features=%q", k, len(ops), ops[0].a, ops[0].hdr))
		}
		runReleaseCase(tw, st, fmt.Sprintf("r%d_%d", c.Seed, k), ops)
	}
	st.Write(c.Stats)
	return 0
}
