package main

import (
	"context"
	"fmt"
	"os"
	"sort"
	"strconv"
	"strings"
	"time"

	"go.amzn.com/lambda/supervisor/model"
	"verifharness/internal/rng"
)

// Sequential ("quiescent step") cases: many processes alive at once, one call at a time, every
// call issued when the processes it concerns are in a determinate state (alive and staying alive,
// or exited with the event already received). These cases feed the Lean model op by op.

type cmd struct {
	op   string // exec exit terminate kill foreign snap
	name int
	// exec
	fail  string
	kind  string
	code  int
	sig   int
	delay int
	out   string
	// exit
	pid int
	how string // self release ext:<sig> term late unexpected
	// kill
	dl string // far | near:<us> | past:<us> | zero
	// foreign
	call string
}

func (x cmd) explicit() bool {
	return x.op != "exit" || x.how == "release" || strings.HasPrefix(x.how, "ext:")
}

func parseCmd(ws []string) (cmd, bool) {
	at := func(i int) string {
		if i < len(ws) {
			return ws[i]
		}
		return ""
	}
	n, _ := strconv.Atoi(at(1))
	switch at(0) {
	case "exec":
		if at(2) == "fail" {
			p := at(3)
			if p == "" {
				p = "/nonexistent/verif-c19"
			}
			return cmd{op: "exec", name: n, fail: p}, true
		}
		x := cmd{op: "exec", name: n, kind: at(3), out: at(7)}
		x.code, _ = strconv.Atoi(at(4))
		x.sig, _ = strconv.Atoi(at(5))
		x.delay, _ = strconv.Atoi(at(6))
		if x.kind == "" {
			x.kind = "held"
		}
		return x, true
	case "exit":
		how := at(3)
		if how == "" {
			how = "ext:9"
		}
		return cmd{op: "exit", pid: n, how: how}, true
	case "terminate":
		return cmd{op: "terminate", name: n}, true
	case "kill":
		dl := at(4)
		if dl == "" {
			dl = map[string]string{"past": "past:1000"}[at(2)]
			if dl == "" {
				dl = "far"
			}
		}
		return cmd{op: "kill", name: n, dl: dl}, true
	case "foreign":
		n, _ = strconv.Atoi(at(2))
		return cmd{op: "foreign", call: at(1), name: n}, true
	case "snap":
		return cmd{op: "snap"}, true
	}
	return cmd{}, false
}

func (c *caseRun) line(op, obs string) {
	c.tw.Op("%s", op)
	c.tw.Obs("%s", obs)
	c.st.Steps++
	c.hash = fnvs(c.hash, op+"|"+obs)
}

func deadlineOf(dl string) time.Time {
	switch {
	case dl == "zero":
		return time.Time{}
	case dl == "far":
		return time.Now().Add(farDeadline)
	case strings.HasPrefix(dl, "near:"):
		n, _ := strconv.Atoi(dl[5:])
		return time.Now().Add(time.Duration(n) * time.Microsecond)
	case strings.HasPrefix(dl, "past:"):
		n, _ := strconv.Atoi(dl[5:])
		return time.Now().Add(-time.Duration(n) * time.Microsecond)
	}
	return time.Now().Add(farDeadline)
}

func dlClass(dl string) string {
	if i := strings.IndexByte(dl, ':'); i >= 0 {
		return dl[:i]
	}
	return dl
}

func termStatus(p *proc) string {
	switch p.kind {
	case "held", "fork", "forkign":
		return "sig:15"
	case "trap", "trapsleep":
		return "code:7"
	}
	return ""
}

// runCmd performs one command against the real supervisor, writes its op/obs lines and facts and
// returns the steps of the environment that necessarily follow (exits to wait for).
func (c *caseRun) runCmd(x cmd) []cmd {
	c.st.Inc("op:" + x.op)
	switch x.op {
	case "exec":
		return c.seqExec(x)
	case "exit":
		c.seqExit(x)
	case "terminate":
		return c.seqTerminate(x)
	case "kill":
		return c.seqKill(x)
	case "foreign":
		c.seqForeign(x)
	case "snap":
		c.seqSnap()
	}
	return nil
}

func (c *caseRun) seqExec(x cmd) []cmd {
	p := &proc{name: x.name, kind: x.kind, code: x.code, sig: x.sig, delayMs: x.delay, out: x.out}
	ret := c.startProc(p, x.fail)
	if x.fail != "" {
		c.line(fmt.Sprintf("exec %d fail %s", x.name, x.fail), "ret="+ret)
		c.fact("call k=exec name=%d p=- ret=%s t0=%s t1=%s", x.name, ret, us(p.execT0), us(p.execT1))
		c.st.Inc("exec:fail")
		return nil
	}
	if ret != "ok" {
		c.st.Note(fmt.Sprintf("case %s: Exec of a valid command failed (%s); case abandoned", c.id, ret))
		c.aborted = true
		if ret != "envfail" {
			// refused although the machine could have started it: the step is written (the model says ok)
			c.line(fmt.Sprintf("exec %d ok %s %d %d %d %s", x.name, x.kind, x.code, x.sig, x.delay, x.out), "ret="+ret)
		}
		return nil
	}
	c.st.Inc("kind:" + x.kind)
	c.st.Inc("out:" + x.out)
	if old := c.latest[x.name]; old != nil {
		if old.live {
			c.st.Inc("exec:name-of-live-process")
			c.nontr = true
		} else {
			c.st.Inc("exec:name-reused-after-exit")
		}
	}
	c.latest[x.name] = p
	p.live = true
	c.line(fmt.Sprintf("exec %d ok %s %d %d %d %s", x.name, x.kind, x.code, x.sig, x.delay, x.out), fmt.Sprintf("ret=ok pid=%d", p.idx))
	c.fact("call k=exec name=%d p=%d ret=ok t0=%s t1=%s", x.name, p.idx, us(p.execT0), us(p.execT1))
	if p.selfExiting() {
		return []cmd{{op: "exit", pid: p.idx, how: "self"}}
	}
	// determinate state: the child is up (pid marker written after its traps are installed)
	if waitMarker(p.marker+".pid", markerGrace) == 0 {
		c.st.Note(fmt.Sprintf("case %s: child %d (%s) wrote no pid marker within the grace; case abandoned", c.id, p.idx, p.kind))
		c.aborted = true
		return nil
	}
	if p.kind == "fork" || p.kind == "forkign" {
		p.childPid = waitMarker(p.marker+".child", markerGrace)
	}
	c.mu.Lock()
	p.learnPid()
	c.mu.Unlock()
	return nil
}

func (c *caseRun) procByIdx(i int) *proc {
	c.mu.Lock()
	defer c.mu.Unlock()
	if i >= 0 && i < len(c.procs) {
		return c.procs[i]
	}
	return nil
}

func (c *caseRun) seqExit(x cmd) {
	p := c.procByIdx(x.pid)
	if p == nil || !p.live {
		return
	}
	var status string
	switch {
	case x.how == "self":
		status = p.natural()
	case x.how == "release":
		if p.relW == nil {
			return
		}
		status = fmt.Sprintf("code:%d", p.code)
		c.release(p)
	case strings.HasPrefix(x.how, "ext:"):
		sig, _ := strconv.Atoi(x.how[4:])
		if !c.extKill(p, sig) {
			return
		}
		status = fmt.Sprintf("sig:%d", sig)
	case x.how == "term":
		status = termStatus(p)
	default: // late, unexpected: a SIGKILL is on its way
		status = "sig:9"
	}
	c.st.Inc("exit:" + strings.SplitN(x.how, ":", 2)[0])
	ev, ok := c.waitEvent(p.nameStr, eventGrace)
	obs := "ev=-"
	if ok {
		obs = fmt.Sprintf("ev=%s:%s", c.nameID(ev.name), ev.status)
	}
	p.live = false
	c.line(fmt.Sprintf("exit %d %s %s", p.idx, status, x.how), obs)
	if !ok {
		c.aborted = true // something is badly wrong: do not spend further graces on this case
	}
}

func (c *caseRun) seqTerminate(x cmd) []cmd {
	target := c.latest[x.name]
	t0 := c.now()
	err, blocked := guardedFor(termGuard, func() error {
		return c.sup.Terminate(context.Background(), &model.TerminateRequest{Name: c.nameStr(x.name), Domain: "runtime"})
	})
	t1 := c.now()
	ret := classify(err, blocked)
	c.line(fmt.Sprintf("terminate %d", x.name), "ret="+ret)
	tp := "-"
	if target != nil {
		tp = strconv.Itoa(target.idx)
	}
	// ground truth of "delivers SIGTERM to the group": a live process that reacts to TERM is gone
	// (generous grace), and so is the rest of its group unless it ignores TERM
	gone, group := "u", "u"
	if target != nil && target.live && !blocked && termStatus(target) != "" {
		gone = "0"
		for d := time.Now().Add(eventGrace); time.Now().Before(d); time.Sleep(300 * time.Microsecond) {
			if target.alive() == "0" {
				gone = "1"
				break
			}
		}
		if gone == "1" && target.hasChild && target.pid != 0 {
			group = strconv.Itoa(len(waitGroupDead(target.pid, groupGrace)))
		}
	}
	c.fact("call k=terminate name=%d p=%s ret=%s t0=%s t1=%s gone=%s group_after=%s", x.name, tp, ret, us(t0), us(t1), gone, group)
	c.st.Inc("terminate:" + ret)
	if blocked || gone == "0" || (group != "u" && group != "0") {
		c.aborted = true
		return nil
	}
	if target == nil {
		c.st.Inc("terminate:unknown-name")
		return nil
	}
	if !target.live {
		c.st.Inc("terminate:exited-process")
		return nil
	}
	c.nontr = true
	if termStatus(target) != "" {
		return []cmd{{op: "exit", pid: target.idx, how: "term"}}
	}
	c.st.Inc("terminate:ignored-by-process")
	return nil
}

func (c *caseRun) seqKill(x cmd) []cmd {
	target := c.latest[x.name]
	liveBefore := target != nil && target.live
	aliveBefore := "u"
	if target != nil {
		aliveBefore = target.alive()
	}
	t0 := c.now() // before the deadline is fixed: "returned timed out at t1" ⇒ t1-t0 ≥ the distance of the deadline
	deadline := deadlineOf(x.dl)
	err, blocked := guarded(func() error {
		return c.sup.Kill(context.Background(), &model.KillRequest{Name: c.nameStr(x.name), Domain: "runtime", Deadline: deadline})
	})
	t1 := c.now()
	aliveAtRet := "u"
	if target != nil {
		aliveAtRet = target.alive() // taken at once: "Kill returned" ⇒ the process is gone
	}
	ret := classify(err, blocked)
	// the environment's answers, for the model: was the deadline over, did the process die in time
	cls, dies := "ahead", "1"
	switch dlClass(x.dl) {
	case "past", "zero":
		cls, dies = "past", "0"
	case "near":
		if ret == "baddeadline" {
			cls, dies = "past", "0"
		} else if ret != "ok" {
			dies = "0"
		}
	}
	ev := "-"
	var follow []cmd
	if ret == "ok" && liveBefore {
		if e, ok := c.waitEvent(target.nameStr, eventGrace); ok {
			ev = fmt.Sprintf("%s:%s", c.nameID(e.name), e.status)
		}
		target.live = false
	}
	c.line(fmt.Sprintf("kill %d %s %s %s", x.name, cls, dies, x.dl), fmt.Sprintf("ret=%s ev=%s", ret, ev))
	group, aliveAfter := "u", "u"
	if target != nil && target.pid != 0 && ret == "ok" && aliveBefore == "1" {
		// only for a process that was alive a moment ago: the number of a long dead group may be in use again
		group = strconv.Itoa(len(waitGroupDead(target.pid, groupGrace)))
	}
	if liveBefore && ret != "ok" && !blocked {
		c.nontr = true
		if ret == "timedout" && cls == "ahead" {
			follow = append(follow, cmd{op: "exit", pid: target.idx, how: "late"})
		} else {
			// a refused Kill must leave the process alone: look again a little later
			time.Sleep(aliveRecheck)
			aliveAfter = target.alive()
			if aliveAfter == "0" {
				follow = append(follow, cmd{op: "exit", pid: target.idx, how: "unexpected"})
			}
		}
	}
	tp := "-"
	if target != nil {
		tp = strconv.Itoa(target.idx)
	}
	c.fact("call k=kill name=%d p=%s dl=%s ret=%s t0=%s t1=%s alive_before=%s alive_at_ret=%s alive_after=%s group_after=%s",
		x.name, tp, x.dl, ret, us(t0), us(t1), aliveBefore, aliveAtRet, aliveAfter, group)
	state := "unknown-name"
	if target != nil {
		state = "exited-process"
		if liveBefore {
			state = "live-process"
			c.nontr = true
		}
	}
	c.st.Inc("kill:" + dlClass(x.dl) + ":" + state + ":" + ret)
	if blocked || (group != "u" && group != "0") {
		c.aborted = true
	}
	return follow
}

func (c *caseRun) seqForeign(x cmd) {
	var err error
	var blocked bool
	name := c.nameStr(x.name)
	switch x.call {
	case "kill":
		err, blocked = guarded(func() error {
			return c.sup.Kill(context.Background(), &model.KillRequest{Name: name, Domain: "other", Deadline: time.Now().Add(-time.Second)})
		})
	case "terminate":
		err, blocked = guardedFor(termGuard, func() error {
			return c.sup.Terminate(context.Background(), &model.TerminateRequest{Name: name, Domain: "other"})
		})
	default:
		err, blocked = guarded(func() error {
			return c.sup.Exec(context.Background(), &model.ExecRequest{Name: name, Domain: "other", Path: "/nonexistent/verif-c19"})
		})
	}
	c.line(fmt.Sprintf("foreign %s %d", x.call, x.name), "ret="+classify(err, blocked))
	if blocked {
		c.aborted = true
	}
}

func (c *caseRun) seqSnap() {
	c.mu.Lock()
	live := 0
	for _, p := range c.procs {
		if strings.HasPrefix(p.kind, "notstarted:") {
			continue
		}
		p.learnPid()
		a := p.alive()
		if a == "1" || (a == "u" && p.live) {
			live++
		}
	}
	by := map[string][]string{}
	for _, e := range c.evs {
		id := c.nameID(e.name)
		by[id] = append(by[id], e.status)
	}
	c.mu.Unlock()
	var ids []string
	for id := range by {
		ids = append(ids, id)
	}
	sort.Slice(ids, func(i, j int) bool {
		a, ea := strconv.Atoi(ids[i])
		b, eb := strconv.Atoi(ids[j])
		if ea != nil || eb != nil {
			return eb != nil && ea == nil
		}
		return a < b
	})
	parts := []string{fmt.Sprintf("live=%d", live)}
	for _, id := range ids {
		sort.Strings(by[id])
		parts = append(parts, fmt.Sprintf("%s=[%s]", id, strings.Join(by[id], ",")))
	}
	c.line("snap", strings.Join(parts, " "))
}

// drain runs a command and everything that necessarily follows from it.
func (c *caseRun) drain(x cmd) {
	queue := []cmd{x}
	for len(queue) > 0 && !c.aborted {
		y := queue[0]
		queue = append(c.runCmd(y), queue[1:]...)
	}
}

func (c *caseRun) liveProcs() []*proc {
	c.mu.Lock()
	defer c.mu.Unlock()
	var l []*proc
	for _, p := range c.procs {
		if p.live {
			l = append(l, p)
		}
	}
	return l
}

func genDeadline(r *rng.R) string {
	switch r.Pick([]int{40, 22, 8, 22, 4, 4}) {
	case 0:
		return "far"
	case 1:
		return fmt.Sprintf("near:%d", 300+r.Intn(20000))
	case 2:
		return fmt.Sprintf("near:%d", 1+r.Intn(150))
	case 3:
		return fmt.Sprintf("past:%d", 1+r.Intn(5000))
	case 4:
		return "past:3600000000"
	default:
		return "zero"
	}
}

var outs = []string{"pipe", "pipe", "pipe", "null", "file"}
var selfSigs = []int{9, 11, 15, 1, 2, 10, 6}
var extSigs = []int{9, 9, 11, 10, 1} // signals no child handles or ignores

func genProc(r *rng.R, name int) cmd {
	x := cmd{op: "exec", name: name, out: outs[r.Intn(len(outs))]}
	x.code = []int{0, 1, 2, 3, 7, 9, 15, 126, 127, 128, 137, 143, 255}[r.Intn(13)]
	if r.Chance(1, 2) {
		x.code = r.Intn(256)
	}
	switch r.Pick([]int{8, 10, 8, 14, 10, 5, 8, 5, 10}) {
	case 0:
		x.kind, x.code = "exit", 0
	case 1:
		x.kind = "exit"
		if x.code == 0 {
			x.code = 1 + r.Intn(255)
		}
	case 2:
		x.kind, x.sig = "selfsig", selfSigs[r.Intn(len(selfSigs))]
	case 3:
		x.kind = "held"
	case 4:
		x.kind = "trap"
	case 5:
		x.kind = "trapsleep"
	case 6:
		x.kind = "ignore"
	case 7:
		x.kind = "ignsleep"
	case 8:
		x.kind = "fork"
	}
	return x
}

// seqCase generates and runs one sequential case with nprocs processes, at most maxLive alive at once.
func seqCase(c *caseRun, r *rng.R, nprocs, maxLive int) {
	started := 0
	nextName := 0
	var usedNames []int
	pickName := func() int {
		if len(usedNames) > 0 && r.Chance(1, 7) {
			return usedNames[r.Intn(len(usedNames))] // exited or live: reuse / overwrite
		}
		nextName++
		return nextName
	}
	anyName := func() int {
		if len(usedNames) == 0 || r.Chance(1, 12) {
			return 1000 + r.Intn(50) // never started
		}
		if l := c.liveProcs(); len(l) > 0 && r.Chance(2, 3) {
			return l[r.Intn(len(l))].name
		}
		return usedNames[r.Intn(len(usedNames))]
	}
	for steps := 0; !c.aborted && steps < 40*nprocs+50; steps++ {
		live := c.liveProcs()
		if started >= nprocs && (len(live) == 0 || r.Chance(1, 6)) {
			break
		}
		wExec := 0
		if started < nprocs && len(live) < maxLive {
			wExec = 45
			if len(live) < maxLive/2 {
				wExec = 120
			}
		}
		switch r.Pick([]int{wExec, 3, 9, 14, 24, 7, 2, 3}) {
		case 0:
			x := genProc(r, pickName())
			usedNames = append(usedNames, x.name)
			started++
			c.drain(x)
		case 1:
			c.drain(cmd{op: "exec", name: pickName(), fail: []string{"/nonexistent/verif-c19", "/etc/hostname", "/tmp"}[r.Intn(3)]})
		case 2: // natural exit of a held process
			var cand []*proc
			for _, p := range live {
				if p.releasable() && p.kind != "fork" {
					cand = append(cand, p)
				}
			}
			if len(cand) > 0 {
				c.drain(cmd{op: "exit", pid: cand[r.Intn(len(cand))].idx, how: "release"})
			}
		case 3:
			c.drain(cmd{op: "terminate", name: anyName()})
		case 4:
			c.drain(cmd{op: "kill", name: anyName(), dl: genDeadline(r)})
		case 5: // somebody else kills the group
			if len(live) > 0 {
				c.drain(cmd{op: "exit", pid: live[r.Intn(len(live))].idx, how: fmt.Sprintf("ext:%d", extSigs[r.Intn(len(extSigs))])})
			}
		case 6:
			c.drain(cmd{op: "foreign", call: []string{"exec", "kill", "terminate"}[r.Intn(3)], name: anyName()})
		case 7:
			c.drain(cmd{op: "snap"})
		}
	}
	seqCleanup(c, r)
}

// seqCleanup ends every process that is still alive through logged steps, then takes the final snapshot.
func seqCleanup(c *caseRun, r *rng.R) {
	for _, p := range c.liveProcs() {
		if c.aborted {
			break
		}
		reachable := c.latest[p.name] == p
		k := r.Intn(10)
		switch {
		case reachable && k < 6:
			c.drain(cmd{op: "kill", name: p.name, dl: "far"})
		case p.releasable() && p.kind != "fork" && (k < 8 || !reachable):
			c.drain(cmd{op: "exit", pid: p.idx, how: "release"})
		default:
			c.drain(cmd{op: "exit", pid: p.idx, how: "ext:9"})
		}
	}
	if !c.aborted {
		time.Sleep(settleAtEnd)
		c.drain(cmd{op: "snap"})
	}
}

func fnvs(h uint64, s string) uint64 {
	if h == 0 {
		h = 14695981039346656037
	}
	for i := 0; i < len(s); i++ {
		h ^= uint64(s[i])
		h *= 1099511628211
	}
	return h
}

func init() { _ = os.Getpid }
