package main

import (
	"context"
	"fmt"
	"sort"
	"strconv"
	"sync"
	"time"

	"go.amzn.com/lambda/supervisor/model"
	"verifharness/internal/rng"
)

// Racing cases: every call runs in its own goroutine at a planned instant, children exit by
// themselves at unplanned instants, Kill / Terminate race with Exec, with natural exits and with each
// other. Nothing here goes to the Lean model; the raw observations (facts) are judged by the
// model-free oracle in vcheck/c19.py, which only uses one-sided timing ("started before … returned").

type action struct {
	at  time.Duration
	k   string // exec terminate kill release extkill
	p   int    // plan index (= name - 1); -1: a name that is never started
	dl  string
	sig int
}

type planned struct {
	x  cmd
	mu sync.Mutex
	p  *proc
}

func raceCase(c *caseRun, r *rng.R, n int) {
	plan := make([]*planned, n)
	var acts []action
	for i := range plan {
		x := genProc(r, i+1)
		if x.kind == "exit" {
			x.delay = []int{0, 0, 5, 15, 30, 60, 100}[r.Intn(7)]
		}
		plan[i] = &planned{x: x}
		at := time.Duration(r.Intn(60000)) * time.Microsecond
		acts = append(acts, action{at: at, k: "exec", p: i})
		for k := r.Intn(4); k > 0; k-- {
			a := action{at: at + time.Duration(r.Intn(120000)-3000)*time.Microsecond, p: i}
			switch r.Pick([]int{30, 45, 15, 10}) {
			case 0:
				a.k = "terminate"
			case 1:
				a.k, a.dl = "kill", genDeadline(r)
			case 2:
				a.k = "release"
			case 3:
				a.k, a.sig = "extkill", extSigs[r.Intn(len(extSigs))]
			}
			if a.at < 0 {
				a.at = 0
			}
			acts = append(acts, a)
		}
	}
	for k := n/8 + 1; k > 0; k-- {
		a := action{at: time.Duration(r.Intn(150000)) * time.Microsecond, p: -1, k: "kill", dl: genDeadline(r)}
		if r.Bool() {
			a.k = "terminate"
		}
		acts = append(acts, a)
	}
	sort.SliceStable(acts, func(i, j int) bool { return acts[i].at < acts[j].at })
	c.tw.Comment("plan %s: %d processes, %d actions", c.id, n, len(acts))
	var wg sync.WaitGroup
	base := time.Now()
	for _, a := range acts {
		a := a
		wg.Add(1)
		go func() {
			defer wg.Done()
			if d := a.at - time.Since(base); d > 0 {
				time.Sleep(d)
			}
			c.raceAct(plan, a)
		}()
	}
	wg.Wait()
	// cleanup: everything must end, every started process must get its event
	var wg2 sync.WaitGroup
	for _, pl := range plan {
		pl.mu.Lock()
		p := pl.p
		pl.mu.Unlock()
		if p == nil {
			continue
		}
		wg2.Add(1)
		go func(p *proc) {
			defer wg2.Done()
			c.raceKill(p.name, p, "far")
			c.extKill(p, 9) // an orphaned rest of the group, if any
		}(p)
	}
	wg2.Wait()
	deadline := time.Now().Add(eventGrace)
	for _, pl := range plan {
		if pl.p == nil {
			continue
		}
		for c.eventCount(pl.p.nameStr) < 1 && time.Now().Before(deadline) {
			time.Sleep(2 * time.Millisecond)
		}
	}
	c.nontr = true
	c.hash = fnvs(c.hash, fmt.Sprintf("%s/%d/%d", c.id, n, len(acts)))
}

func (c *caseRun) raceAct(plan []*planned, a action) {
	c.mu.Lock()
	c.st.Inc("race:" + a.k)
	c.mu.Unlock()
	name := 5000
	var pl *planned
	if a.p >= 0 {
		pl = plan[a.p]
		name = a.p + 1
	}
	switch a.k {
	case "exec":
		x := pl.x
		p := &proc{name: x.name, kind: x.kind, code: x.code, sig: x.sig, delayMs: x.delay, out: x.out}
		// visible to the other actions before the call: they may use it for ground truth only
		ret := c.startProc(p, "")
		c.fact("call k=exec name=%d p=%d ret=%s t0=%s t1=%s", x.name, p.idx, ret, us(p.execT0), us(p.execT1))
		pl.mu.Lock()
		pl.p = p
		pl.mu.Unlock()
		c.mu.Lock()
		c.st.Inc("kind:" + x.kind)
		c.mu.Unlock()
	case "terminate":
		t0 := c.now()
		err, blocked := guardedFor(termGuard, func() error {
			return c.sup.Terminate(context.Background(), &model.TerminateRequest{Name: c.nameStr(name), Domain: "runtime"})
		})
		t1 := c.now()
		c.fact("call k=terminate name=%d p=- ret=%s t0=%s t1=%s gone=u group_after=u", name, classify(err, blocked), us(t0), us(t1))
	case "kill":
		var p *proc
		if pl != nil {
			pl.mu.Lock()
			p = pl.p
			pl.mu.Unlock()
		}
		c.raceKill(name, p, a.dl)
	case "release":
		pl.mu.Lock()
		p := pl.p
		pl.mu.Unlock()
		if p != nil && p.releasable() && p.kind != "fork" {
			c.mu.Lock()
			w := p.relW
			p.relW = nil
			if w != nil {
				p.relT = c.now()
			}
			c.mu.Unlock()
			if w != nil {
				w.Close()
			}
		}
	case "extkill":
		pl.mu.Lock()
		p := pl.p
		pl.mu.Unlock()
		if p != nil {
			c.extKill(p, a.sig)
		}
	}
}

func (c *caseRun) raceKill(name int, p *proc, dl string) {
	t0 := c.now()
	deadline := deadlineOf(dl)
	err, blocked := guarded(func() error {
		return c.sup.Kill(context.Background(), &model.KillRequest{Name: c.nameStr(name), Domain: "runtime", Deadline: deadline})
	})
	t1 := c.now()
	ret := classify(err, blocked)
	aliveAtRet, group := "u", "u"
	if p != nil {
		c.mu.Lock()
		p.learnPid()
		aliveAtRet = p.alive()
		pid := p.pid
		c.mu.Unlock()
		if ret == "ok" && pid != 0 && c.now()-p.execT1 < 30*time.Second {
			group = strconv.Itoa(len(waitGroupDead(pid, groupGrace)))
		}
	}
	c.fact("call k=kill name=%d p=- dl=%s ret=%s t0=%s t1=%s alive_before=u alive_at_ret=%s alive_after=u group_after=%s",
		name, dl, ret, us(t0), us(t1), aliveAtRet, group)
	c.mu.Lock()
	c.st.Inc("racekill:" + dlClass(dl) + ":" + ret)
	c.mu.Unlock()
}
