package main

import (
	"context"
	"strconv"
	"syscall"
	"time"

	"go.amzn.com/lambda/supervisor/model"
)

// Orphan scenarios (not part of the default run, see vcheck/c19.py): the started process ends while a
// background child it forked lives on in its process group.
//
//	scn 1  output not piped: main released (exit N) → event; then Kill(name, far)
//	scn 2  output piped through the supervisor (what rapid does): main released; is the event delivered
//	       once main is gone? then Kill(name, +2s)
//	scn 3  as 2, but main is ended by Terminate and the child ignores TERM
//	scn 4  as 2, but main exits with status 0 (the event, whenever it comes, must say 0)
func orphanCase(c *caseRun, scn int) {
	kind, out := "fork", "null"
	if scn >= 2 {
		out = "pipe"
	}
	if scn == 3 {
		kind = "forkign"
	}
	p := &proc{name: 1, kind: kind, code: 4, out: out}
	if scn == 4 {
		p.code = 0
	}
	ret := c.startProc(p, "")
	c.tw.Comment("scenario %d: Exec(name 1, /bin/sh -c %q, fd 3 = pipe held by the harness, StdoutWriter/StderrWriter: %s)", scn, c.script(p),
		map[string]string{"null": "nil", "pipe": "an io.Writer that is not an *os.File, as rapid passes"}[out])
	c.tw.Comment("  then: %s; wait until /proc says the started process is gone; wait 3 s for its event; Kill(name 1, deadline %s); look at its process group",
		map[bool]string{true: "Terminate(name 1)", false: "close the pipe (the process runs `exit <code>`)"}[scn == 3],
		map[bool]string{true: "25 s ahead", false: "2 s ahead"}[scn == 1])
	c.fact("call k=exec name=1 p=%d ret=%s t0=%s t1=%s", p.idx, ret, us(p.execT0), us(p.execT1))
	if ret != "ok" || waitMarker(p.marker+".pid", markerGrace) == 0 || waitMarker(p.marker+".child", markerGrace) == 0 {
		c.aborted = true
		return
	}
	c.mu.Lock()
	p.learnPid()
	c.mu.Unlock()
	if scn == 3 {
		_ = c.sup.Terminate(context.Background(), &model.TerminateRequest{Name: p.nameStr, Domain: "runtime"})
		c.fact("call k=terminate name=1 p=- ret=ok t0=%s t1=%s gone=u group_after=u", us(c.now()), us(c.now()))
	} else {
		c.release(p)
	}
	// ground truth: main is gone (reaped or zombie)
	gone := false
	for d := time.Now().Add(10 * time.Second); time.Now().Before(d); time.Sleep(time.Millisecond) {
		if p.alive() == "0" {
			gone = true
			break
		}
	}
	if !gone {
		c.aborted = true
		return
	}
	goneAt := c.now()
	_, got := c.waitEvent(p.nameStr, 3*time.Second)
	c.fact("exitwait p=%d scn=%d gone_at=%s waited_ms=3000 event=%s", p.idx, scn, us(goneAt), b01(got))
	dl := time.Now().Add(2 * time.Second)
	dls := "near:2000000"
	if scn == 1 {
		dl, dls = time.Now().Add(farDeadline), "far"
	}
	t0 := c.now()
	err, blocked := guarded(func() error {
		return c.sup.Kill(context.Background(), &model.KillRequest{Name: p.nameStr, Domain: "runtime", Deadline: dl})
	})
	t1 := c.now()
	group := len(waitGroupDead(p.pid, 2*time.Second))
	c.fact("call k=kill name=1 p=- dl=%s ret=%s t0=%s t1=%s alive_before=0 alive_at_ret=%s alive_after=u group_after=%s",
		dls, classify(err, blocked), us(t0), us(t1), p.alive(), strconv.Itoa(group))
	// cleanup: end the rest of the group ourselves, then the (late) event must still come
	for _, m := range groupMembers(p.pid) {
		_ = syscall.Kill(m, syscall.SIGKILL)
	}
	if !got {
		c.waitEvent(p.nameStr, 5*time.Second)
	}
	c.nontr = true
	c.hash = fnvs(c.hash, c.id)
}
