package main

import (
	"fmt"
	"sync"
	"time"

	"verifharness/internal/rng"
)

// Burst cases: the subscriber of the event stream is slow. While nobody reads the events channel, n
// processes are started and all of them end (by themselves, by Kill, by a foreign signal); only when
// every one of them is gone per /proc does the subscriber start to read. Every process must still get
// exactly one truthful event. Judged by the ordinary rules of the model-free oracle (vcheck/c19.py).
func burstCase(c *caseRun, r *rng.R, n int) {
	c.holdEvents(true)
	ps := make([]*proc, n)
	var wg sync.WaitGroup
	for i := range ps {
		p := &proc{name: i + 1, kind: "exit", code: r.Intn(120), out: []string{"null", "file", "pipe"}[r.Intn(3)]}
		if r.Intn(4) == 0 {
			p.kind, p.code = "held", r.Intn(120) // ended by Kill below
		}
		ps[i] = p
		wg.Add(1)
		go func(p *proc) {
			defer wg.Done()
			ret := c.startProc(p, "")
			c.fact("call k=exec name=%d p=%d ret=%s t0=%s t1=%s", p.name, p.idx, ret, us(p.execT0), us(p.execT1))
		}(p)
	}
	wg.Wait()
	for _, p := range ps {
		if p.kind == "held" {
			wg.Add(1)
			go func(p *proc) { defer wg.Done(); c.raceKill(p.name, p, "far") }(p)
		}
	}
	wg.Wait()
	// ground truth: everything is gone
	for d := time.Now().Add(markerGrace); time.Now().Before(d); time.Sleep(2 * time.Millisecond) {
		left := 0
		c.mu.Lock()
		for _, p := range ps {
			p.learnPid()
			if p.idx >= 0 && p.alive() != "0" {
				left++
			}
		}
		c.mu.Unlock()
		if left == 0 {
			break
		}
	}
	time.Sleep(time.Duration(50+r.Intn(300)) * time.Millisecond)
	c.holdEvents(false)
	deadline := time.Now().Add(eventGrace / 2)
	for _, p := range ps {
		for c.eventCount(p.nameStr) < 1 && time.Now().Before(deadline) {
			time.Sleep(2 * time.Millisecond)
		}
	}
	c.nontr = true
	c.hash = fnvs(c.hash, fmt.Sprintf("%s/burst/%d", c.id, n))
}
