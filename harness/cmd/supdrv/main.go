// supdrv drives the REAL lambda/supervisor.LocalSupervisor with real /bin/sh children and writes
// (a) the case/init/op/obs line protocol replayed by `rie-oracle supervisor` (sequential cases) and
// (b) "# fact …" lines with raw ground-truth observations (all cases) that vcheck/c19.py judges
// without the model. Property C19.
package main

import (
	"flag"
	"fmt"
	"io"
	"os"
	"os/signal"
	"path/filepath"
	"syscall"

	log "github.com/sirupsen/logrus"
	"verifharness/internal/drv"
	"verifharness/internal/rng"
	"verifharness/internal/trace"
)

func main() {
	fs := flag.NewFlagSet("supdrv", flag.ExitOnError)
	c := drv.CommonFlags(fs)
	children := fs.Int("children", 0, "total number of children to start (overrides -cases as the budget)")
	maxProcs := fs.Int("maxprocs", 24, "max processes per case")
	big := fs.Bool("big", false, "first case uses maxprocs processes, all alive at once")
	mode := fs.String("mode", "mixed", "seq | race | mixed | orphan | burst")
	dir := fs.String("dir", "", "scratch directory for marker files")
	_ = fs.Parse(os.Args[1:])

	log.SetOutput(io.Discard)
	log.SetLevel(log.PanicLevel)
	// The children's scripts rely on default signal dispositions (`kill -s HUP $$` must end the shell).
	// A disposition "ignored" is inherited across exec — and a check started under nohup or as a
	// background job of a non-interactive shell comes with HUP resp. INT/QUIT ignored. A signal that has
	// a Go handler is reset to the default in exec'd children, so: where a signal is ignored on entry,
	// install a handler that goes on ignoring it for this process only.
	for _, sg := range []os.Signal{syscall.SIGHUP, syscall.SIGINT, syscall.SIGQUIT, syscall.SIGTERM, syscall.SIGUSR1, syscall.SIGABRT} {
		if signal.Ignored(sg) {
			signal.Notify(make(chan os.Signal, 1), sg)
		}
	}
	// children that kill themselves with SEGV/ABRT must not write core files
	_ = syscall.Setrlimit(syscall.RLIMIT_CORE, &syscall.Rlimit{Cur: 0, Max: 0})
	var err error
	if devNull, err = os.OpenFile("/dev/null", os.O_WRONLY, 0); err != nil {
		fmt.Fprintln(os.Stderr, err)
		os.Exit(2)
	}
	if *dir == "" {
		if *dir, err = os.MkdirTemp("", "supdrv"); err != nil {
			fmt.Fprintln(os.Stderr, err)
			os.Exit(2)
		}
		defer os.RemoveAll(*dir)
	} else if err = os.MkdirAll(*dir, 0o755); err != nil {
		fmt.Fprintln(os.Stderr, err)
		os.Exit(2)
	}
	if *dir, err = filepath.Abs(*dir); err != nil {
		fmt.Fprintln(os.Stderr, err)
		os.Exit(2)
	}
	tw, err := trace.Create(c.Out)
	if err != nil {
		fmt.Fprintln(os.Stderr, err)
		os.Exit(2)
	}
	defer tw.Close()
	st := drv.NewStats()
	st.Samples = []string{}
	defer func() { st.Write(c.Stats) }()

	if c.Replay != "" {
		for _, rc := range drv.ReadCases(c.Replay) {
			cr := newCase(rc.ID, "seq", *dir, tw, st)
			for _, ws := range rc.Ops {
				x, ok := parseCmd(ws)
				if !ok || !x.explicit() || x.op == "snap" {
					continue // exits that merely follow from an earlier call are regenerated
				}
				if cr.aborted {
					break
				}
				cr.drain(x)
			}
			seqCleanup(cr, rng.New(1))
			cr.finish()
		}
		return
	}

	r := rng.New(c.Seed)
	if *mode == "orphan" {
		for k := 0; k < c.Cases; k++ {
			cr := newCase(fmt.Sprintf("o%d_%d", c.Seed, k), "orphan", *dir, tw, st)
			orphanCase(cr, 1+k%4)
			cr.finish()
			st.Inc("case:orphan")
			st.Sample(fmt.Sprintf("orphan scenario %d: the process ends while a background child of it lives on in its group", 1+k%4))
		}
		return
	}
	if *mode == "burst" {
		for k := 0; k < c.Cases; k++ {
			crng := r.Fork()
			n := []int{20, 24, 33, 40, 48}[crng.Intn(5)]
			if n > *maxProcs {
				n = *maxProcs
			}
			cr := newCase(fmt.Sprintf("b%d_%d", c.Seed, k), "burst", *dir, tw, st)
			burstCase(cr, crng, n)
			cr.finish()
			st.Inc("case:burst")
			st.Dist["children"] += n
			st.Sample(fmt.Sprintf("burst case: %d processes end while the subscriber does not read the events channel", n))
			tw.Flush()
		}
		return
	}
	budget := *children
	if budget == 0 {
		budget = c.Cases * 8
	}
	sizes := []int{1, 2, 3, 4, 6, 8, 12, 16, 24, 32, 48, 64}
	lives := []int{1, 2, 3, 4, 8, 16, 32, 64}
	for k := 0; budget > 0; k++ {
		crng := r.Fork()
		n := sizes[crng.Intn(len(sizes))]
		maxLive := lives[crng.Intn(len(lives))]
		if *big && k == 0 {
			n, maxLive = *maxProcs, *maxProcs
		}
		if n > *maxProcs {
			n = *maxProcs
		}
		if n > budget {
			n = budget
		}
		budget -= n
		m := *mode
		if m == "mixed" {
			m = "seq"
			if k%2 == 1 {
				m = "race"
			}
		}
		id := fmt.Sprintf("%c%d_%d", m[0], c.Seed, k)
		cr := newCase(id, m, *dir, tw, st)
		if m == "seq" {
			seqCase(cr, crng, n, maxLive)
		} else {
			raceCase(cr, crng, n)
		}
		cr.finish()
		st.Inc("case:" + m)
		st.Inc("children")
		st.Dist["children"] += n - 1
		if k < 4 {
			st.Sample(fmt.Sprintf("%s case %s: %d processes, max %d alive at once", m, id, n, maxLive))
		}
		tw.Flush()
	}
}
