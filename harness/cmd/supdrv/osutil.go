package main

import (
	"fmt"
	"os"
	"strconv"
	"strings"
	"time"
)

// pstat is what /proc/<pid>/stat says about a process (ground truth independent of the supervisor).
type pstat struct {
	ok    bool
	state byte
	ppid  int
	pgrp  int
	start uint64 // starttime in clock ticks since boot: distinguishes a reused pid
}

func readStat(pid int) pstat {
	b, err := os.ReadFile("/proc/" + strconv.Itoa(pid) + "/stat")
	if err != nil {
		return pstat{}
	}
	s := string(b)
	i := strings.LastIndexByte(s, ')')
	if i < 0 || i+2 >= len(s) {
		return pstat{}
	}
	f := strings.Fields(s[i+2:])
	// f[0]=state(3) f[1]=ppid(4) f[2]=pgrp(5) … starttime is field 22 → f[19]
	if len(f) < 20 || len(f[0]) != 1 {
		return pstat{}
	}
	ppid, _ := strconv.Atoi(f[1])
	pgrp, _ := strconv.Atoi(f[2])
	start, _ := strconv.ParseUint(f[19], 10, 64)
	return pstat{ok: true, state: f[0][0], ppid: ppid, pgrp: pgrp, start: start}
}

// a zombie (exited, not yet reaped) or a dead task counts as dead
func deadState(c byte) bool { return c == 'Z' || c == 'X' || c == 'x' }

// groupMembers lists the processes that are alive (not zombies) and belong to process group pgid.
func groupMembers(pgid int) []int {
	d, err := os.Open("/proc")
	if err != nil {
		return nil
	}
	names, _ := d.Readdirnames(-1)
	d.Close()
	var res []int
	for _, n := range names {
		if n[0] < '0' || n[0] > '9' {
			continue
		}
		pid, err := strconv.Atoi(n)
		if err != nil {
			continue
		}
		st := readStat(pid)
		if st.ok && st.pgrp == pgid && !deadState(st.state) {
			res = append(res, pid)
		}
	}
	return res
}

// waitGroupDead polls (generous grace, one-sided) until no live member of the group is left;
// returns the members still alive after the grace.
func waitGroupDead(pgid int, grace time.Duration) []int {
	deadline := time.Now().Add(grace)
	sleep := 500 * time.Microsecond
	for {
		m := groupMembers(pgid)
		if len(m) == 0 || time.Now().After(deadline) {
			return m
		}
		time.Sleep(sleep)
		if sleep < 50*time.Millisecond {
			sleep *= 2
		}
	}
}

// readMarker reads a "<pid>\n" marker file written by a child; 0 if not (completely) there yet.
func readMarker(path string) int {
	b, err := os.ReadFile(path)
	if err != nil || len(b) < 2 || b[len(b)-1] != '\n' {
		return 0
	}
	n, err := strconv.Atoi(strings.TrimSpace(string(b)))
	if err != nil {
		return 0
	}
	return n
}

func waitMarker(path string, grace time.Duration) int {
	deadline := time.Now().Add(grace)
	sleep := 200 * time.Microsecond
	for {
		if n := readMarker(path); n != 0 {
			return n
		}
		if time.Now().After(deadline) {
			return 0
		}
		time.Sleep(sleep)
		if sleep < 20*time.Millisecond {
			sleep *= 2
		}
	}
}

func b01(b bool) string {
	if b {
		return "1"
	}
	return "0"
}

func us(d time.Duration) string {
	if d < 0 {
		return "-1"
	}
	return fmt.Sprintf("%d", d.Microseconds())
}
