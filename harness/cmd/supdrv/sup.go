package main

import (
	"context"
	"errors"
	"fmt"
	"os"
	"path/filepath"
	"strconv"
	"strings"
	"sync"
	"syscall"
	"time"

	"go.amzn.com/lambda/supervisor"
	"go.amzn.com/lambda/supervisor/model"
	"verifharness/internal/drv"
	"verifharness/internal/trace"
)

// generous one-sided limits: nothing is ever judged on tight timing
const (
	eventGrace   = 20 * time.Second // an expected termination event must arrive within this
	markerGrace  = 15 * time.Second // a started child must have written its pid marker within this
	farDeadline  = 25 * time.Second // Kill deadline of class "far": never reached by a dying process
	groupGrace   = 6 * time.Second  // members of a SIGKILLed group must be gone within this
	callGuard    = 60 * time.Second // a Kill / Exec that has not returned after this is "blocked"
	termGuard    = 10 * time.Second // Terminate never waits for anything: blocked after this
	settleAtEnd  = 40 * time.Millisecond
	aliveRecheck = 15 * time.Millisecond
)

var signalNames = map[int]string{1: "HUP", 2: "INT", 6: "ABRT", 9: "KILL", 10: "USR1", 11: "SEGV", 15: "TERM"}

// kinds of child behaviour
//
//	exit      echo pid; [sleep d;] exit N                     (exits by itself)
//	selfsig   echo pid; kill -s S $$                          (killed by a signal it sends itself)
//	held      echo pid; read <&3; exit N                      (lives until released / signalled; TERM kills)
//	trap      trap 'mark; exit 7' TERM; echo pid; read <&3    (TERM → exit 7)
//	trapsleep trap 'exit 7' TERM; sh -c 'echo ppid; exec sleep 600'  (TERM to the group → exit 7; has a child)
//	ignore    trap ” TERM; echo pid; read <&3                (TERM ignored)
//	ignsleep  trap ” TERM; sh -c 'echo ppid; exec sleep 600'  (TERM ignored by it and its child)
//	fork      background child writes its pid and sleeps; main: echo pid; read <&3
type proc struct {
	idx     int
	name    int
	nameStr string
	kind    string
	code    int // exit code of the natural exit
	sig     int // selfsig: the signal
	delayMs int // exit: sleep before exiting
	out     string
	marker  string
	relW    *os.File // write end of the release pipe (fd 3 of the child)

	pid      int
	start    uint64
	childPid int

	live     bool // the driver's belief (sequential cases): started and no exit logged yet
	evSeen   bool
	execT0   time.Duration
	execT1   time.Duration
	relT     time.Duration // when the release pipe was closed (-1: never)
	extSig   int
	extT     time.Duration
	hasChild bool
}

func (p *proc) natural() string {
	if p.kind == "selfsig" {
		return fmt.Sprintf("sig:%d", p.sig)
	}
	return fmt.Sprintf("code:%d", p.code)
}

func (p *proc) selfExiting() bool { return p.kind == "exit" || p.kind == "selfsig" }
func (p *proc) releasable() bool {
	return p.kind == "held" || p.kind == "trap" || p.kind == "ignore" || p.kind == "fork"
}

// learnPid reads the pid marker (non-blocking) and pins the identity of the process by its start time.
func (p *proc) learnPid() {
	if p.pid != 0 {
		return
	}
	pid := readMarker(p.marker + ".pid")
	if pid == 0 {
		return
	}
	st := readStat(pid)
	p.pid = pid
	switch {
	case !st.ok:
		p.start = 0 // already gone
	case st.ppid == os.Getpid() && st.pgrp == pid:
		p.start = st.start
	default:
		p.start = ^uint64(0) // the pid already belongs to somebody else: ours is gone
	}
}

// alive: "1" alive and not a zombie, "0" gone / zombie, "u" unknown
func (p *proc) alive() string {
	if p.pid == 0 {
		return "u"
	}
	st := readStat(p.pid)
	if !st.ok || deadState(st.state) {
		return "0"
	}
	if p.start == 0 {
		return "u"
	}
	if st.start != p.start {
		return "0"
	}
	return "1"
}

type evRec struct {
	name    string
	status  string
	t       time.Duration
	aliveAt string // was the (only candidate) process alive when the event arrived
}

type caseRun struct {
	hold  sync.Mutex
	id    string
	mode  string
	sup   *supervisor.LocalSupervisor
	t0    time.Time
	mu    sync.Mutex
	procs []*proc
	evs   []evRec
	stop  chan struct{}
	tw    *trace.W
	st    *drv.Stats
	dir   string
	facts []string
	hash  uint64
	nontr bool
	// sequential cases
	latest  map[int]*proc // name → process started by the latest successful Exec (mirror)
	waited  map[string]int
	aborted bool
}

type sinkWriter struct {
	mu sync.Mutex
	n  int
}

func (w *sinkWriter) Write(b []byte) (int, error) {
	w.mu.Lock()
	w.n += len(b)
	w.mu.Unlock()
	return len(b), nil
}

var devNull *os.File

func newCase(id, mode, dir string, tw *trace.W, st *drv.Stats) *caseRun {
	c := &caseRun{id: id, mode: mode, sup: supervisor.NewLocalSupervisor(), t0: time.Now(), stop: make(chan struct{}),
		tw: tw, st: st, dir: dir, latest: map[int]*proc{}, waited: map[string]int{}}
	ch, err := c.sup.Events(context.Background(), &model.EventsRequest{Domain: "runtime"})
	if err != nil {
		panic(err)
	}
	go func() {
		for {
			c.hold.Lock() // held while the subscriber is "slow" (burst cases)
			c.hold.Unlock()
			select {
			case ev := <-ch:
				c.onEvent(ev)
			case <-c.stop:
				return
			}
		}
	}()
	tw.Case(id)
	tw.Init("%s", mode)
	return c
}

// holdEvents makes the subscriber stop (true) / resume (false) reading the events channel; at most one
// event that was already being received is still consumed after a stop.
func (c *caseRun) holdEvents(on bool) {
	if on {
		c.hold.Lock()
	} else {
		c.hold.Unlock()
	}
}

func (c *caseRun) now() time.Duration { return time.Since(c.t0) }

func (c *caseRun) nameStr(n int) string { return fmt.Sprintf("%s-n%d", c.id, n) }

// nameID maps an event's name back to the case-local number ("?" if it is not one of ours)
func (c *caseRun) nameID(s string) string {
	pre := c.id + "-n"
	if strings.HasPrefix(s, pre) {
		if _, err := strconv.Atoi(s[len(pre):]); err == nil {
			return s[len(pre):]
		}
	}
	return "?"
}

func eventStatus(ev model.Event) string {
	d := ev.Event
	switch {
	case d.ExitStatus != nil && d.Signo == nil:
		return fmt.Sprintf("code:%d", *d.ExitStatus)
	case d.Signo != nil && d.ExitStatus == nil:
		return fmt.Sprintf("sig:%d", *d.Signo)
	case d.Signo == nil && d.ExitStatus == nil:
		return "none"
	default:
		return fmt.Sprintf("both:%d/%d", *d.ExitStatus, *d.Signo)
	}
}

func (c *caseRun) onEvent(ev model.Event) {
	name := "?"
	if ev.Event.Name != nil {
		name = *ev.Event.Name
	}
	rec := evRec{name: name, status: eventStatus(ev), t: c.now(), aliveAt: "u"}
	if ev.Event.Domain == nil || *ev.Event.Domain != "runtime" {
		rec.status += "/domain"
	}
	c.mu.Lock()
	var cand []*proc
	for _, p := range c.procs {
		if p.nameStr == name && !p.evSeen {
			cand = append(cand, p)
		}
	}
	if len(cand) == 1 {
		cand[0].learnPid()
		rec.aliveAt = cand[0].alive()
		cand[0].evSeen = true
	} else if len(cand) > 1 {
		all := true
		for _, p := range cand {
			p.learnPid()
			if p.alive() != "1" {
				all = false
			}
		}
		if all {
			rec.aliveAt = "1"
		}
	}
	c.evs = append(c.evs, rec)
	c.mu.Unlock()
}

// waitEvent waits (generously) for the next not yet consumed event carrying this name.
func (c *caseRun) waitEvent(name string, grace time.Duration) (evRec, bool) {
	c.waited[name]++
	want := c.waited[name]
	deadline := time.Now().Add(grace)
	sleep := 100 * time.Microsecond
	for {
		c.mu.Lock()
		k := 0
		for _, e := range c.evs {
			if e.name == name {
				k++
				if k == want {
					c.mu.Unlock()
					return e, true
				}
			}
		}
		c.mu.Unlock()
		if time.Now().After(deadline) {
			c.waited[name]--
			return evRec{}, false
		}
		time.Sleep(sleep)
		if sleep < 5*time.Millisecond {
			sleep *= 2
		}
	}
}

func (c *caseRun) eventCount(name string) int {
	c.mu.Lock()
	defer c.mu.Unlock()
	k := 0
	for _, e := range c.evs {
		if e.name == name {
			k++
		}
	}
	return k
}

func guarded(f func() error) (error, bool) { return guardedFor(callGuard, f) }

func guardedFor(limit time.Duration, f func() error) (error, bool) {
	ch := make(chan error, 1)
	go func() { ch <- f() }()
	t := time.NewTimer(limit)
	defer t.Stop()
	select {
	case e := <-ch:
		return e, false
	case <-t.C:
		return nil, true
	}
}

func classify(err error, blocked bool) string {
	if blocked {
		return "blocked"
	}
	if err == nil {
		return "ok"
	}
	var se *model.SupervisorError
	if errors.As(err, &se) {
		if se.Kind == model.NoSuchEntity {
			return "nosuchentity"
		}
		return "superr:" + string(se.Kind)
	}
	msg := err.Error()
	switch {
	case strings.HasPrefix(msg, "invalid timeout while killing"):
		return "baddeadline"
	case strings.HasPrefix(msg, "timed out while trying to SIGKILL"):
		return "timedout"
	}
	return "other:" + strings.Map(func(r rune) rune {
		if r <= ' ' || r > '~' {
			return '_'
		}
		return r
	}, msg)
}

func (c *caseRun) script(p *proc) string {
	m := p.marker
	pidLine := "echo $$ > " + m + ".pid; "
	switch p.kind {
	case "exit":
		if p.delayMs > 0 {
			return fmt.Sprintf("%ssleep %d.%03d; exit %d", pidLine, p.delayMs/1000, p.delayMs%1000, p.code)
		}
		return fmt.Sprintf("%sexit %d", pidLine, p.code)
	case "selfsig":
		return fmt.Sprintf("%skill -s %s $$; sleep 5; exit 99", pidLine, signalNames[p.sig])
	case "held":
		return fmt.Sprintf("%sread x <&3; exit %d", pidLine, p.code)
	case "trap":
		return fmt.Sprintf("trap 'echo t > %s.trap; exit 7' TERM; %sread x <&3; exit %d", m, pidLine, p.code)
	case "trapsleep":
		// the marker is written by the already forked child: once it is there, a TERM to the group
		// reaches the child too (dash runs the handler only after its foreground child has ended)
		return fmt.Sprintf("trap 'exit 7' TERM; sh -c 'echo $PPID > %s.pid; exec sleep 600'; exit %d", m, p.code)
	case "ignore":
		return fmt.Sprintf("trap '' TERM; %sread x <&3; exit %d", pidLine, p.code)
	case "ignsleep":
		return fmt.Sprintf("trap '' TERM; sh -c 'echo $PPID > %s.pid; exec sleep 600'; exit %d", m, p.code)
	case "fork":
		return fmt.Sprintf("sh -c 'echo $$ > %s.child; exec sleep 600' & %sread x <&3; exit %d", m, pidLine, p.code)
	case "forkign": // orphan scenarios only: the background child ignores TERM
		return fmt.Sprintf("sh -c 'trap \"\" TERM; echo $$ > %s.child; exec sleep 600' & %sread x <&3; exit %d", m, pidLine, p.code)
	}
	return "exit 98"
}

// startProc calls the real Exec for a new process description; returns the return class.
func (c *caseRun) startProc(p *proc, failPath string) string {
	p.idx = -1
	p.nameStr = c.nameStr(p.name)
	p.relT, p.extT = -1, -1
	p.hasChild = p.kind == "trapsleep" || p.kind == "ignsleep" || p.kind == "fork" || p.kind == "forkign" || (p.kind == "exit" && p.delayMs > 0)
	req := &model.ExecRequest{Name: p.nameStr, Domain: "runtime", Path: "/bin/sh"}
	var rd *os.File
	if failPath != "" {
		req.Path = failPath
		req.Args = []string{"-c", "exit 0"}
	} else {
		r, w, err := os.Pipe()
		if err != nil {
			panic(err)
		}
		rd, p.relW = r, w
		req.ExtraFiles = &[]*os.File{r}
		// the marker prefix must be known before the script is built; the index is assigned under the lock
		c.mu.Lock()
		p.idx = len(c.procs)
		p.marker = filepath.Join(c.dir, fmt.Sprintf("%s_p%d", c.id, p.idx))
		c.procs = append(c.procs, p)
		c.mu.Unlock()
		req.Args = []string{"-c", c.script(p)}
	}
	switch p.out {
	case "pipe":
		w := &sinkWriter{}
		req.StdoutWriter, req.StderrWriter = w, w
	case "file":
		req.StdoutWriter, req.StderrWriter = devNull, devNull
	}
	if p.code%3 == 1 {
		env := map[string]string{"PATH": "/usr/local/bin:/usr/bin:/bin", "VERIF_C19": p.nameStr}
		req.Env = &env
	}
	if p.code%5 == 2 {
		cwd := c.dir
		req.Cwd = &cwd
	}
	p.execT0 = c.now()
	err, blocked := guarded(func() error { return c.sup.Exec(context.Background(), req) })
	p.execT1 = c.now()
	if rd != nil {
		rd.Close()
	}
	ret := classify(err, blocked)
	if ret != "ok" {
		ret2 := ret
		if !blocked {
			ret2 = "starterr"
			if failPath == "" {
				msg := err.Error()
				for _, env := range []string{"temporarily unavailable", "cannot allocate", "too many open files", "no space left"} {
					if strings.Contains(msg, env) {
						ret2 = "envfail" // the machine, not the supervisor
					}
				}
			}
		}
		if p.relW != nil {
			p.relW.Close()
			p.relW = nil
		}
		if p.idx >= 0 {
			// unexpectedly not started (fork failure …): it stays in the table, marked
			c.mu.Lock()
			p.kind = "notstarted:" + p.kind
			c.mu.Unlock()
		}
		return ret2
	}
	return "ok"
}

func (c *caseRun) release(p *proc) {
	if p.relW != nil {
		c.mu.Lock()
		p.relT = c.now()
		c.mu.Unlock()
		p.relW.Close()
		p.relW = nil
	}
}

// extKill: somebody other than the supervisor signals the whole group (ground truth pid needed)
func (c *caseRun) extKill(p *proc, sig int) bool {
	c.mu.Lock()
	p.learnPid()
	pid, start := p.pid, p.start
	if pid != 0 && start != 0 && start != ^uint64(0) && p.extT < 0 {
		p.extT, p.extSig = c.now(), sig
	}
	c.mu.Unlock()
	if pid == 0 || start == 0 || start == ^uint64(0) {
		return false
	}
	if st := readStat(pid); !st.ok || st.start != start {
		return false
	}
	_ = syscall.Kill(-pid, syscall.Signal(sig))
	return true
}

// reapLeftovers kills whatever is left of the groups of this case (cleanup, after all judgements).
func (c *caseRun) reapLeftovers() int {
	left := 0
	c.mu.Lock()
	procs := append([]*proc(nil), c.procs...)
	c.mu.Unlock()
	for _, p := range procs {
		if p.relW != nil {
			p.relW.Close()
			p.relW = nil
		}
		c.mu.Lock()
		p.learnPid()
		pid := p.pid
		c.mu.Unlock()
		if pid == 0 {
			continue
		}
		for _, m := range groupMembers(pid) {
			if st := readStat(m); st.ok && st.pgrp == pid && (m != pid || st.start == p.start) {
				left++
				_ = syscall.Kill(m, syscall.SIGKILL)
			}
		}
	}
	// final sweep: children of this driver that lead a process group (= started by the supervisor)
	// and are still alive although their pid never became known
	if d, err := os.ReadDir("/proc"); err == nil {
		me := os.Getpid()
		for _, e := range d {
			pid, err := strconv.Atoi(e.Name())
			if err != nil {
				continue
			}
			if st := readStat(pid); st.ok && st.ppid == me && st.pgrp == pid && !deadState(st.state) {
				left++
				_ = syscall.Kill(-pid, syscall.SIGKILL)
			}
		}
	}
	return left
}

func (c *caseRun) fact(format string, a ...any) {
	s := fmt.Sprintf(format, a...)
	c.mu.Lock()
	c.facts = append(c.facts, s)
	c.mu.Unlock()
}

// finish writes the per-process / per-event facts (the raw observations the model-free oracle in
// vcheck/c19.py judges), cleans up and closes the case.
func (c *caseRun) finish() {
	time.Sleep(settleAtEnd) // stray extra events would arrive now
	c.mu.Lock()
	for _, p := range c.procs {
		p.learnPid()
		started := !strings.HasPrefix(p.kind, "notstarted:")
		c.facts = append(c.facts, fmt.Sprintf("proc p=%d name=%d kind=%s started=%s natural=%s delay=%d out=%s t0=%s t1=%s rel=%s ext=%d extt=%s pidknown=%s alive=%s trapmark=%s",
			p.idx, p.name, p.kind, b01(started), p.natural(), p.delayMs, p.out, us(p.execT0), us(p.execT1), us(p.relT), p.extSig, us(p.extT),
			b01(p.pid != 0), p.alive(), b01(fileExists(p.marker+".trap"))))
	}
	for _, e := range c.evs {
		c.facts = append(c.facts, fmt.Sprintf("event name=%s status=%s t=%s alive=%s", c.nameID(e.name), e.status, us(e.t), e.aliveAt))
	}
	facts := c.facts
	c.mu.Unlock()
	left := c.reapLeftovers()
	facts = append(facts, fmt.Sprintf("end leftover=%d aborted=%s", left, b01(c.aborted)))
	for _, f := range facts {
		c.tw.Comment("fact %s", f)
	}
	close(c.stop)
	// remove marker files
	if ents, err := os.ReadDir(c.dir); err == nil {
		pre := c.id + "_p"
		for _, e := range ents {
			if strings.HasPrefix(e.Name(), pre) {
				os.Remove(filepath.Join(c.dir, e.Name()))
			}
		}
	}
	c.st.Cases++
	c.st.Mark(c.hash, c.nontr)
}

func fileExists(p string) bool {
	_, err := os.Stat(p)
	return err == nil
}
