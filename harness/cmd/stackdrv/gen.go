package main

import (
	"fmt"
	"strings"

	"verifharness/internal/rng"
)

// gen is a state-driven random scheduler: it looks at what the harness has observed so far
// and picks the next op among the ones that make sense, with per-family weights for misuse,
// faults, stalls and concurrent callers.
type gen struct {
	r      *rng.R
	family string
	cfg    caseCfg
	maxOps int
	nops   int
	coldSlept bool // a slow cold start was already inserted in this case

	ints                            []string          // internal extension names to register
	subs                            map[string]string // events each extension will subscribe to
	registered                      map[string]bool
	everNext                        map[string]bool
	rtHolding                       bool // runtime has an invocation and has not responded
	rtResponded                     bool
	invLeft                         int
	nextCaller                      int
	delivered                       int
	faults                          int
	sawBlocked                      bool
	sawRefusal                      bool
	lastBlocked                     string
	rtAsked                         bool       // the runtime issued its first next in this generation
	pre                             [][]string // ops issued before anything else (fake process behaviours)
	resetPending                    bool
	restorePolled, restoreRequested bool
	gotShutdown                     map[string]bool
	execFail                        map[string]bool // extensions whose Exec currently fails
	execFailUsed                    int
	initFirst                       bool // the case starts with an init that no invocation awaits
}

func newGen(r *rng.R, family string) *gen {
	g := &gen{r: r, family: family, subs: map[string]string{}, registered: map[string]bool{}, everNext: map[string]bool{}, gotShutdown: map[string]bool{}, execFail: map[string]bool{}}
	names := []string{"a", "b", "c"}
	if r.Chance(1, 5) { // any regular file in the directory is an extension, whatever its name looks like
		names = [][]string{{".a", "b", "c"}, {"a", "b~", "c"}, {"-a", ".b", "c.d"}}[r.Intn(3)]
	}
	ne := r.Intn(4)
	if family == "noext" || family == "slowbody" {
		ne = 0
	}
	if family == "sizes" {
		ne = r.Intn(2)
	}
	if family == "limit" {
		// enough extensions to reach the limit of ten (internal ones on top of 0..3 external ones,
		// or — rarely — eleven external ones: the launch itself must be refused)
		if r.Chance(1, 6) {
			names = []string{"e00", "e01", "e02", "e03", "e04", "e05", "e06", "e07", "e08", "e09", "e10"}
			ne = 11
		} else if r.Chance(1, 5) {
			// exactly the allowed number of external extensions: all are launched, init completes
			names = []string{"e00", "e01", "e02", "e03", "e04", "e05", "e06", "e07", "e08", "e09"}
			ne = 10
		}
	}
	if family == "restore" {
		ne = r.Intn(2)
		g.cfg.snapshot = true
		g.pre = append(g.pre, []string{"init"})
	}
	if (family == "shutdown" || family == "faults") && r.Chance(1, 4) {
		// the init runs before any invocation (as with the standalone front end): it may fail, and the idle
		// emulator may be reset, with nobody having awaited its outcome
		g.initFirst = true
		g.pre = append(g.pre, []string{"init"})
	}
	g.cfg.exts = append([]string{}, names[:ne]...)
	if r.Chance(1, 5) {
		g.cfg.dirs = []string{"zdir"}
	}
	evs := []string{"I", "S", "IS", "-"}
	for _, e := range g.cfg.exts {
		g.subs[e] = evs[r.Intn(4)]
	}
	ni := r.Intn(3)
	if family == "noext" {
		ni = 0
	}
	if family == "limit" {
		ni = 7 + r.Intn(6)
	}
	for i := 0; i < ni; i++ {
		n := fmt.Sprintf("i%d", i)
		g.ints = append(g.ints, n)
		g.subs[n] = []string{"I", "-"}[r.Intn(2)]
	}
	g.cfg.timeout = 2000
	switch family {
	case "timeouts", "faults", "chaos", "shutdown", "concurrent", "slowbody":
		g.cfg.timeout = 300 + 100*r.Intn(4)
	case "sizes":
		g.cfg.timeout = 8000
	}
	if family == "shutdown" {
		// how the fake processes react to SIGTERM
		for _, n := range append([]string{"runtime"}, g.cfg.exts...) {
			if r.Chance(1, 2) {
				g.pre = append(g.pre, []string{"beh", n, []string{"term=exit:0", "term=exit:3", "term=ignore"}[r.Intn(3)]})
			}
		}
	}
	g.invLeft = 2 + r.Intn(3)
	g.maxOps = 80
	return g
}

func (g *gen) nontrivial() bool { return g.delivered > 0 && (g.sawBlocked || g.sawRefusal) }

type cand struct {
	w  int
	ws []string
}

func (g *gen) next(w *world) []string {
	g.nops++
	if len(g.pre) > 0 {
		op := g.pre[0]
		g.pre = g.pre[1:]
		return op
	}
	s := w.s
	var cs []cand
	add := func(weight int, ws ...string) {
		if weight > 0 {
			cs = append(cs, cand{weight, ws})
		}
	}
	blocked := map[string]bool{}
	for _, b := range s.Blocked() {
		blocked[b] = true
	}
	callers := s.Callers()
	liveRt := s.Sup.Live("runtime") != nil
	misuse, fault, conc := 0, 0, 0
	switch g.family {
	case "misuse":
		misuse = 6
	case "faults":
		fault = 4
	case "chaos":
		misuse, fault, conc = 4, 3, 2
	case "slowbody":
		// a runtime that uploads its response slowly, around the expiry of the invocation
	case "concurrent":
		conc = 8
		fault = 3 // extra callers must also be tried while a failure reset is in progress
	case "shutdown":
		fault = 3
	}
	sizes := []int{0, 1, 2, 17, 4095, 4096, 65537}
	const maxp = 6*1024*1024 + 100
	if g.family == "sizes" {
		sizes = []int{0, 1, 65537, 1<<20 - 1, 1 << 20, maxp - 1, maxp, maxp + 1, maxp + 4096, maxp / 2}
	}
	fills := []string{"rand", "zero", "ff", "crlf", "utf8bad"}
	if callers == 0 && g.invLeft > 0 && !g.resetPending {
		wInv := 40
		if g.initFirst && g.delivered == 0 {
			wInv = 6
			if g.family == "faults" && !g.resetPending {
				add(3, "reset", []string{"timeout", "failure", "explicit"}[g.r.Intn(3)])
			}
		}
		if g.nextCaller > 0 && g.r.Intn(4) == 0 {
			// the same trace header as the previous caller sent: the request ids must differ all the same
			add(wInv, "invoke", fmt.Sprint(g.nextCaller), fmt.Sprint(sizes[g.r.Intn(len(sizes))]), fills[g.r.Intn(len(fills))], fmt.Sprintf("astrace=%d", g.nextCaller-1))
		} else {
			add(wInv, "invoke", fmt.Sprint(g.nextCaller), fmt.Sprint(sizes[g.r.Intn(len(sizes))]), fills[g.r.Intn(len(fills))])
		}
	}
	if callers > 0 && conc > 0 {
		add(conc, "invoke", fmt.Sprint(g.nextCaller), "5", "rand")
	}
	if (g.family == "faults" || g.family == "chaos" || g.family == "shutdown") && callers == 0 && !liveRt {
		// an extension file that cannot be launched (the supervisor's Exec fails) — decided while nothing runs
		idle := true
		for _, e := range g.cfg.exts {
			if s.Sup.Live(e) != nil {
				idle = false
			}
		}
		for _, e := range g.cfg.exts {
			if idle && !g.execFail[e] && g.execFailUsed < 2 {
				add(3, "execfail", e, "on")
			}
			if g.execFail[e] {
				add(25, "execfail", e, "off")
			}
		}
	}
	for _, e := range g.cfg.exts {
		if s.Sup.Live(e) == nil {
			continue
		}
		if !g.registered[e] {
			if g.r.Intn(3) == 0 { // with the account-id feature, in one of the spellings of an HTTP list
				add(30, "ext", e, "register", g.subs[e], []string{"acct", "acct2", "acct3", "acct4"}[g.r.Intn(4)])
			} else {
				add(30, "ext", e, "register", g.subs[e])
			}
			add(misuse, "ext", e, "register", "B")
			if s.AgentID(e) != "" && !blocked[e+".next"] {
				// not yet registered in this generation: the identifier of the previous one is stale
				add(misuse, "ext", e, "next")
				add(misuse/2, "ext", e, "exiterror", "Extension.Stale")
				add(misuse/2, "ext", e, "initerror", "Extension.Stale")
			}
			add(misuse, "ext", e, "register", "I", "badjson")
			add(misuse/2, "ext", e, "register", "I", "cfgkeys")
		} else {
			if !blocked[e+".next"] {
				add(30, "ext", e, "next")
			}
			add(misuse, "ext", e, "register", g.subs[e])
			add(misuse, "ext", e, "nextbadid")
			add(misuse, "ext", e, "nextnoid")
			add(misuse, "ext", e, "nextunknownid")
			if s.PrevAgentID(e) != "" {
				add(misuse, "ext", e, "nextoldid")
				add(misuse, "ext", e, "initerror", "Extension.Old", "oldid")
				add(misuse, "ext", e, "exiterror", "Extension.Old", "oldid")
			}
			add(misuse, "ext", e, "initerror", "Extension.Foo")
			if g.gotShutdown[e] && (g.family == "faults" || g.family == "shutdown" || g.family == "chaos" || g.family == "timeouts") {
				// an extension may report an exit error while it is being shut down
				add(12, "ext", e, "exiterror", "Extension.ShutdownErr")
				add(12, "exit", e, []string{"0", "1"}[g.r.Intn(2)])
			}
			add(misuse/2, "ext", e, "exiterror", "Extension.Bar")
			add(misuse/2, "ext", e, "initerror", "notype")
		}
		add(fault, "exit", e, []string{"0", "1", "sig9"}[g.r.Intn(3)])
	}
	if liveRt {
		for _, n := range g.ints {
			if !g.registered[n] {
				if !g.rtAsked {
					if g.r.Intn(4) == 0 {
						add(35, "int", n, "register", g.subs[n], []string{"acct", "acct2", "acct3"}[g.r.Intn(3)])
					} else {
						add(35, "int", n, "register", g.subs[n])
					}
				} else {
					add(misuse, "int", n, "register", g.subs[n])
				}
				add(misuse, "int", n, "register", "S")
			} else if !blocked[n+".next"] {
				add(25, "int", n, "next")
			}
			if g.registered[n] && s.PrevAgentID(n) != "" {
				// the identifier this internal extension had under an earlier runtime process
				add(misuse, "int", n, "nextoldid")
				add(misuse, "int", n, "exiterror", "Extension.Old", "oldid")
			}
		}
		if len(g.cfg.exts) > 0 {
			add(misuse, "int", g.cfg.exts[0], "register", "I") // name collision with an external one
		}
		if !blocked["rt.next"] && !g.rtHolding {
			add(35, "rt", "next")
		}
		if g.family == "slowbody" && g.rtHolding && len(w.slow) == 0 {
			add(45, "rt", "slowresponse", "cur", fmt.Sprint(2000+g.r.Intn(3000)), "rand")
			add(20, "rt", "slowresponse", "cur", fmt.Sprint(2000+g.r.Intn(3000)), "rand", "tied")
			add(30, "rt", "slowerror", "cur", "Function.SlowOops")
		}
		if g.rtHolding {
			sz := []int{0, 1, 10, 4096, 70000}[g.r.Intn(5)]
			if g.family == "sizes" {
				sz = []int{0, 1, 65537, 1 << 20, maxp - 1, maxp, maxp + 1, maxp + 100000, maxp / 2}[g.r.Intn(9)]
			}
			if g.family == "sizes" && g.r.Intn(3) == 0 {
				add(40, "rt", "response", "cur", fmt.Sprint(sz), fills[g.r.Intn(len(fills))], "chunked")
			} else {
				add(40, "rt", "response", "cur", fmt.Sprint(sz), fills[g.r.Intn(len(fills))])
			}
			if g.family == "sizes" {
				add(8, "rt", "next") // the same (possibly cut) event again
			}
			add(6, "rt", "error", "cur", []string{"Function.Oops", "Runtime.Bad", "garbage_type"}[g.r.Intn(3)])
			add(misuse, "rt", "next")
			add(misuse, "rt", "response", "cur", "3", "rand", "mode=bogus")
		}
		add(misuse, "rt", "response", "bogus", "3", "rand")
		add(misuse, "rt", "response", "cur", "3", "rand")
		if g.rtHolding {
			add(misuse, "rt", "response", "curup", "3", "rand") // the current id in another spelling is another id
			add(misuse/2, "rt", "error", "curup", "Function.Case")
		}
		add(misuse, "rt", "error", "id#1", "Function.Stale")
		add(misuse, "rt", "initerror", "Runtime.Late")
		add(misuse, "rt", "restorenext")
		add(misuse/2, "rt", "raw", "GET", "/2018-06-01/runtime/nonexistent")
		add(misuse/2, "rt", "raw", "POST", "/2018-06-01/runtime/invocation/next")
		if g.r.Intn(3) == 0 {
			// the rest of the route table: telemetry stubs (PUT only), wrong methods, routes of the other mode
			raws := [][2]string{{"PUT", "/2020-08-15/logs"}, {"GET", "/2020-08-15/logs"}, {"PUT", "/2022-07-01/telemetry"}, {"POST", "/2022-07-01/telemetry"},
				{"GET", "/2018-06-01/ping"}, {"POST", "/2018-06-01/ping"}, {"GET", "/2020-01-01/extension/register"}, {"PUT", "/2020-01-01/extension/event/next"},
				{"GET", "/2018-06-01/runtime/init/error"}, {"GET", "/2019-01-01/runtime/invocation/next"}, {"DELETE", "/2018-06-01/runtime/invocation/next"}}
			if !g.cfg.snapshot {
				raws = append(raws, [2]string{"GET", "/2021-04-23/credentials"}, [2]string{"POST", "/2018-06-01/runtime/restore/error"})
			} else {
				raws = append(raws, [2]string{"POST", "/2021-04-23/credentials"}, [2]string{"GET", "/2018-06-01/runtime/restore/error"})
			}
			rw := raws[g.r.Intn(len(raws))]
			add(misuse, "rt", "raw", rw[0], rw[1])
		}
		add(fault, "exit", "runtime", []string{"0", "1", "2", "sig11"}[g.r.Intn(4)])
		if !g.everNext["rt"] {
			add(fault, "rt", "initerror", "Runtime.InitBoom")
		}
	}
	if g.family == "slowbody" && len(w.slow) > 0 {
		// the rest of a slow upload may arrive whether or not the runtime process still exists
		add(25, "rt", "finish")
		add(25, "sleep", fmt.Sprint(g.cfg.timeout+150))
	}
	if g.family == "restore" && liveRt {
		// snapshot protocol: restore poll, platform restore request, hook completion / error / timeout
		if !g.rtAsked && !blocked["rt.restorenext"] && !g.restorePolled {
			add(40, "rt", "restorenext")
		}
		if !g.restoreRequested && callers == 0 {
			add(25, "restore", []string{"250", "2000"}[g.r.Intn(2)], fmt.Sprintf("AKID%d", g.nops))
		}
		if g.restoreRequested && !g.rtAsked {
			add(8, "rt", "restoreerror", []string{"Runtime.HookBoom", "bad_type"}[g.r.Intn(2)])
			add(5, "rt", "initerror", []string{"Function.RestoreInit", "bad_type<1>", "Function.bad;DROP", "Runtime.Ok"}[g.r.Intn(4)])
			add(6, "sleep", "400")
		}
		add(6, "rt", "creds", []string{"good", "wrong", "good", "bearer", "upper"}[g.r.Intn(5)])
		add(2, "rt", "raw", []string{"GET", "PUT"}[g.r.Intn(2)], "/2018-06-01/runtime/restore/error") // snapshot-only routes, wrong method
		add(2, "rt", "raw", "POST", "/2021-04-23/credentials")
		add(2, "exit", "runtime", "1")
	}
	if g.family == "shutdown" {
		if callers > 0 {
			add(3, "sleep", fmt.Sprint(g.cfg.timeout+150))
			add(3, "sleep", "700")
		} else if (g.delivered > 0 || g.initFirst) && !g.resetPending {
			// explicit reset / shutdown of an idle environment (never concurrently with another reset:
			// concurrent Reset() calls share one unbuffered completion channel)
			add(6, "reset", []string{"timeout", "failure", "explicit"}[g.r.Intn(3)])
			add(2, "shutdown")
		}
		if g.resetPending {
			add(10, "sleep", "700")
		}
	}
	if (g.family == "healthy" || g.family == "noext" || g.family == "sizes") && callers > 0 && liveRt && !g.everNext["rt"] && !g.coldSlept {
		// a slow cold start: the runtime takes its time before its first next (the deadline it is then
		// given must still be arrival + timeout)
		add(12, "sleep", "350")
	}
	if g.family == "timeouts" || g.family == "chaos" {
		if callers > 0 {
			add(3, "sleep", fmt.Sprint(g.cfg.timeout+150))
		}
	}
	if len(cs) == 0 {
		if callers > 0 {
			// somebody must be stuck: let the timeout fire
			return []string{"sleep", fmt.Sprint(g.cfg.timeout + 150)}
		}
		return nil
	}
	ws := make([]int, len(cs))
	for i, c := range cs {
		ws[i] = c.w
	}
	return cs[g.r.Pick(ws)].ws
}

// observe updates the generator's view from the canonical observation.
func (g *gen) observe(ws []string, obs string) {
	if ws[0] == "sleep" {
		g.coldSlept = true
	}
	if ws[0] == "invoke" {
		g.nextCaller++
		g.invLeft--
	}
	if ws[0] == "execfail" {
		g.execFail[ws[1]] = ws[2] == "on"
		if ws[2] == "on" {
			g.execFailUsed++
		}
		g.faults++
	}
	if ws[0] == "rt" && ws[1] == "next" {
		g.rtAsked = true
	}
	if ws[0] == "rt" && ws[1] == "restorenext" {
		g.restorePolled = true
	}
	if ws[0] == "restore" {
		g.restoreRequested = true
	}
	if ws[0] == "reset" || ws[0] == "shutdown" {
		g.resetPending = true
	}
	if strings.Contains(obs, "reset done") || strings.Contains(obs, "shutdown done") {
		g.resetPending = false
	}
	if ws[0] == "exit" || ws[0] == "sleep" {
		g.faults++
	}
	if strings.Contains(obs, "=403") || strings.Contains(obs, "=400") || strings.Contains(obs, "=404") || strings.Contains(obs, "=405") || strings.Contains(obs, "=413") {
		g.sawRefusal = true
	}
	parts := strings.SplitN(obs, " | blocked=", 2)
	if len(parts) == 2 && parts[1] != "" {
		g.sawBlocked = true
	}
	for _, e := range strings.Split(parts[0], " ; ") {
		switch {
		case strings.HasPrefix(e, "rt.next=200"):
			g.rtHolding = true
			g.everNext["rt"] = true
			g.delivered++
		case strings.HasPrefix(e, "rt.response=202"), strings.HasPrefix(e, "rt.error=202"), strings.HasPrefix(e, "rt.response=413"):
			g.rtHolding = false
		case strings.HasPrefix(e, "sup exec:runtime-"):
			// a fresh runtime process: protocol state starts over
			g.rtHolding = false
			g.rtAsked = false
			g.restorePolled = false
			g.restoreRequested = false
			g.everNext = map[string]bool{}
			for k := range g.registered {
				if strings.HasPrefix(k, "i") {
					delete(g.registered, k)
				}
			}
		case strings.HasPrefix(e, "sup exec:extension-"):
			name := strings.TrimPrefix(e, "sup exec:extension-")
			if i := strings.LastIndexByte(name, '-'); i >= 0 {
				delete(g.registered, name[:i])
				delete(g.gotShutdown, name[:i])
			}
		case strings.Contains(e, ".next=200,SHUTDOWN"):
			g.gotShutdown[e[:strings.Index(e, ".next=")]] = true
		case strings.Contains(e, ".register=200"):
			g.registered[e[:strings.Index(e, ".register=")]] = true
		}
	}
}
