package main

import (
	"encoding/json"
	"errors"
	"fmt"
	"io"
	"net/http"
	"sort"
	"strconv"
	"strings"
	"time"

	"go.amzn.com/lambda/interop"
	"go.amzn.com/lambda/verifhook"
	"verifharness/internal/stack"
)

const (
	rtAPI   = "/2018-06-01"
	extAPI  = "/2020-01-01"
	credAPI = "/2021-04-23"
)

// world is the harness around one emulator instance.
type world struct {
	s       *stack.Stack
	careful bool
	mark    int               // log position after the previous op
	extKind map[string]string // name -> "ext" | "int"
	notes   []string
	side    []string // non-canonical facts (timestamps, deadlines) written as comment lines
	extra   []string // derived tokens appended to the op line in the trace (hashes)
	slow    []slowUpload // pending slow uploads (second halves)
	nslow   int
	callers []int // caller numbers of the invocations submitted so far
	traceAs map[int]int // caller -> caller whose trace header it sends (astrace=)
	nrestore int        // restores issued in this case
}

type slowUpload struct {
	finish func()
	tied   bool // made by the runtime process itself: a stalled runtime stays stalled
}

// traceFor is the X-Amzn-Trace-Id value caller c sends. The shape varies with c: canonical; with a
// Lineage field; Self first and neither Parent nor Sampled; fields reordered; no Sampled; no Root.
// Extensions must see exactly this value.
func traceFor(c int) string {
	root := fmt.Sprintf("Root=1-5e1b4151-%024d", c)
	switch c % 6 {
	case 1:
		return root + ";Parent=53995c3f42cd8ad8;Sampled=1;Lineage=a87bd80c:0"
	case 2:
		return "Self=1-5e1b4152-000000000000000000000001;" + root
	case 3:
		return "Sampled=0;Parent=53995c3f42cd8ad8;" + root
	case 4:
		return root + ";Parent=53995c3f42cd8ad8"
	case 5:
		return fmt.Sprintf("Parent=%016d;Sampled=1", c)
	}
	return root + ";Parent=53995c3f42cd8ad8;Sampled=1"
}

// traceClass: "trace<c>" if the value is exactly what caller c sent ("trace" for caller 0), else the
// value itself marked as altered
// traceOf is the trace header caller c sends: its own, or — `astrace=<k>` — the one caller k sent
// (two callers may send the same header; request ids must differ all the same)
func (w *world) traceOf(c int) string {
	if k, ok := w.traceAs[c]; ok {
		return traceFor(k)
	}
	return traceFor(c)
}

func (w *world) traceClass(v string) string {
	for i := len(w.callers) - 1; i >= 0; i-- { // the latest caller that sent this header
		c := w.callers[i]
		if v == w.traceOf(c) {
			if c == 0 {
				return "trace"
			}
			return "trace" + strconv.Itoa(c)
		}
	}
	return "trace!" + strings.ReplaceAll(v, " ", "_")
}

func (w *world) settle() bool {
	if w.careful {
		return w.s.Settle(8, 4*time.Millisecond, 20*time.Second)
	}
	return w.s.Settle(3, 300*time.Microsecond, 20*time.Second)
}

// observe returns the canonical observation text for everything logged since the previous op.
func (w *world) observe() string {
	ents := w.s.L.Since(w.mark)
	w.mark += len(ents)
	var xs []string
	for _, e := range ents {
		t := e.Text
		if strings.HasPrefix(t, "#") {
			w.side = append(w.side, fmt.Sprintf("%s @%d", t, e.At.UnixMilli()))
			continue
		}
		if strings.HasPrefix(t, "caller") && strings.Contains(t, " start ") {
			w.side = append(w.side, fmt.Sprintf("#%s @%d", t, e.At.UnixMilli()))
			continue
		}
		if strings.HasPrefix(t, "caller") && strings.Contains(t, " done ") {
			w.side = append(w.side, fmt.Sprintf("#%s @%d", t, e.At.UnixMilli()))
		}
		if strings.HasPrefix(t, "sup ") {
			w.side = append(w.side, fmt.Sprintf("#%s @%d", t, e.At.UnixMilli()))
		}
		if i := strings.Index(t, " ms="); i >= 0 {
			t = t[:i]
		}
		xs = append(xs, t)
	}
	sort.Strings(xs)
	return strings.Join(xs, " ; ") + " | blocked=" + strings.Join(w.s.Blocked(), ",")
}

func evList(spec string) string {
	var evs []string
	for _, c := range spec {
		switch c {
		case 'I':
			evs = append(evs, `"INVOKE"`)
		case 'S':
			evs = append(evs, `"SHUTDOWN"`)
		case 'B':
			evs = append(evs, `"BOGUS"`)
		}
	}
	return "[" + strings.Join(evs, ",") + "]"
}

func (w *world) procFor(actor string) *stack.Proc {
	if actor == "rt" {
		return w.s.Sup.Live("runtime")
	}
	for _, e := range w.s.Cfg.ExtFiles {
		if e == actor {
			return w.s.Sup.Live(actor)
		}
	}
	return w.s.Sup.Live("runtime") // internal extensions live inside the runtime process
}

func (w *world) idHeader(actor, mode string) map[string]string {
	switch mode {
	case "noid":
		return map[string]string{}
	case "badid":
		return map[string]string{"Lambda-Extension-Identifier": "not-a-uuid"}
	case "unknownid":
		return map[string]string{"Lambda-Extension-Identifier": "11111111-2222-3333-4444-555555555555"}
	case "oldid": // the identifier issued to this name in an earlier sandbox generation
		return map[string]string{"Lambda-Extension-Identifier": w.s.PrevAgentID(actor)}
	}
	return map[string]string{"Lambda-Extension-Identifier": w.s.AgentID(actor)}
}

// apply executes one op; returns false if the op is not applicable in the current situation
// (then nothing was done and no op/obs lines are written).
func (w *world) apply(ws []string) bool {
	s := w.s
	switch ws[0] {
	case "invoke": // invoke <caller> <size> <fill>
		c, _ := strconv.Atoi(ws[1])
		size, _ := strconv.Atoi(ws[2])
		pl := stack.Payload(size, ws[3], c)
		w.extra = []string{"h=" + hashOf(pl)}
		if size > interop.MaxPayloadSize {
			w.extra = []string{"h=" + hashOf(pl[:interop.MaxPayloadSize])}
		}
		for _, a := range ws[4:] {
			if strings.HasPrefix(a, "astrace=") {
				k, _ := strconv.Atoi(a[8:])
				if w.traceAs == nil {
					w.traceAs = map[int]int{}
				}
				w.traceAs[c] = k
			}
		}
		w.callers = append(w.callers, c)
		s.Invoke(c, pl, w.traceOf(c))
	case "init":
		s.Init()
	case "hook": // hook <point> <delay-ms>   (0 disarms)
		ms, _ := strconv.Atoi(ws[2])
		if ms == 0 {
			verifhook.Disarm(ws[1])
		} else {
			verifhook.Arm(ws[1], time.Duration(ms)*time.Millisecond)
		}
	case "dinvoke": // dinvoke <caller> <size> <fill> [max=<n>]: an invocation through the direct-invoke reply path
		c, _ := strconv.Atoi(ws[1])
		size, _ := strconv.Atoi(ws[2])
		pl := stack.Payload(size, ws[3], c)
		w.extra = []string{"h=" + hashOf(pl)}
		max := int64(interop.MaxPayloadSize)
		for _, a := range ws[4:] {
			if strings.HasPrefix(a, "max=") {
				n, _ := strconv.Atoi(a[4:])
				max = int64(n)
			}
		}
		w.callers = append(w.callers, c)
		s.DirectInvoke(c, pl, traceFor(c), max)
	case "beh": // beh <base> <term=exit:N|ignore> [execfail]
		b := stack.Behaviour{}
		for _, a := range ws[2:] {
			if strings.HasPrefix(a, "term=") {
				b.OnTerm = a[5:]
			}
			if a == "execfail" {
				b.ExecFails = true
			}
			if a == "exec=hold" {
				b.ExecHold = true
			}
		}
		s.Sup.Beh[ws[1]] = b
	case "execfail": // execfail <base> on|off: the supervisor's Exec for that base name fails / works again
		b := s.Sup.Beh[ws[1]]
		b.ExecFails = ws[2] == "on"
		s.Sup.Beh[ws[1]] = b
	case "release": // release <base>: a held Exec call returns
		if !s.Sup.ReleaseExec(ws[1]) {
			return false
		}
	case "ext", "int": // ext <name> <call> [args]
		name := ws[1]
		call := ws[2]
		if ws[0] == "int" {
			w.extKind[name] = "int"
		} else if _, ok := w.extKind[name]; !ok {
			w.extKind[name] = "ext"
		}
		p := w.procFor(name)
		if p == nil {
			return false
		}
		switch call {
		case "register": // register <events> [acct] [rawbody=...]
			body := fmt.Sprintf(`{"events":%s}`, evList(ws[3]))
			hdr := map[string]string{"Lambda-Extension-Name": name}
			for _, a := range ws[4:] {
				switch {
				case a == "acct":
					hdr["Lambda-Extension-Accept-Feature"] = "accountId"
				case a == "acct2": // the usual HTTP list style
					hdr["Lambda-Extension-Accept-Feature"] = "otherFeature, accountId"
				case a == "acct3":
					hdr["Lambda-Extension-Accept-Feature"] = "accountId , otherFeature"
				case a == "acct4":
					hdr["Lambda-Extension-Accept-Feature"] = "x,accountId,"
				case a == "noname":
					delete(hdr, "Lambda-Extension-Name")
				case a == "badjson":
					body = `{"events":`
				case a == "cfgkeys":
					body = `{"events":[],"configurationKeys":["x"]}`
				}
			}
			wantAcct := hdr["Lambda-Extension-Accept-Feature"] != ""
			s.Do(stack.CallSpec{Actor: name, What: "register", Method: "POST", Path: extAPI + "/extension/register", Headers: hdr, Body: []byte(body), Proc: p,
				Render: func(st int, h http.Header, b []byte) string {
					if st != 200 {
						return s.DefaultRender(st, h, b)
					}
					if id := h.Get("Lambda-Extension-Identifier"); id != "" {
						s.SetAgentID(name, id)
					}
					var m map[string]any
					_ = json.Unmarshal(b, &m)
					meta := "ok"
					if m["functionName"] != "test_function" || m["functionVersion"] != "$LATEST" || m["handler"] != "index.handler" {
						meta = "bad"
					}
					acct, has := m["accountId"]
					if wantAcct != has || (has && acct != "123456789012") {
						meta = "bad"
					}
					return "200,meta=" + meta
				}})
		case "next", "nextnoid", "nextbadid", "nextunknownid", "nextoldid":
			mode := strings.TrimPrefix(call, "next")
			if mode == "" && s.AgentID(name) == "" || mode == "oldid" && s.PrevAgentID(name) == "" {
				return false
			}
			s.Do(stack.CallSpec{Actor: name, What: "next", Method: "GET", Path: extAPI + "/extension/event/next", Headers: w.idHeader(name, mode), Proc: p,
				Render: func(st int, h http.Header, b []byte) string {
					if st != 200 {
						return s.DefaultRender(st, h, b)
					}
					var m map[string]any
					_ = json.Unmarshal(b, &m)
					switch m["eventType"] {
					case "INVOKE":
						arn := "ok"
						if m["invokedFunctionArn"] != "arn:aws:lambda:us-east-1:012345678912:function:test_function" {
							arn = "bad"
						}
						tr := "-"
						if t, ok := m["tracing"].(map[string]any); ok {
							tr = w.traceClass(fmt.Sprint(t["value"]))
						}
						dl, _ := m["deadlineMs"].(float64)
						s.L.Add("#deadline ext %s %s %d", name, s.Alias(fmt.Sprint(m["requestId"])), int64(dl))
						return fmt.Sprintf("200,INVOKE,%s,arn=%s,%s", s.Alias(fmt.Sprint(m["requestId"])), arn, tr)
					case "SHUTDOWN":
						dl, _ := m["deadlineMs"].(float64)
						s.L.Add("#deadline ext %s shutdown %d", name, int64(dl))
						return fmt.Sprintf("200,SHUTDOWN,%v", m["shutdownReason"])
					}
					return "200,?"
				}})
		case "initerror", "exiterror": // <type> [noid|badid|unknownid|notype]
			hdr := w.idHeader(name, "")
			if len(ws) > 4 {
				if ws[4] == "oldid" && s.PrevAgentID(name) == "" {
					return false
				}
				hdr = w.idHeader(name, ws[4])
			}
			if ws[3] != "notype" {
				hdr["Lambda-Extension-Function-Error-Type"] = ws[3]
			}
			path := "/extension/init/error"
			if call == "exiterror" {
				path = "/extension/exit/error"
			}
			s.Do(stack.CallSpec{Actor: name, What: call, Method: "POST", Path: extAPI + path, Headers: hdr, Body: []byte(`{"errorMessage":"x"}`), Proc: p})
		default:
			return false
		}
	case "rt":
		if ws[1] == "finish" { // complete the oldest slow upload (the sender need not be alive as a process of the environment)
			if len(w.slow) == 0 {
				return false
			}
			f := w.slow[0]
			w.slow = w.slow[1:]
			go f.finish()
			return true
		}
		p := w.procFor("rt")
		for _, t := range ws[2:] {
			// `via=<ext>`: the Runtime API is called by another local process (an extension), e.g. after the
			// runtime process itself has been killed
			if strings.HasPrefix(t, "via=") {
				p = w.s.Sup.Live(t[4:])
			}
		}
		if p == nil {
			return false
		}
		switch ws[1] {
		case "next":
			s.Do(stack.CallSpec{Actor: "rt", What: "next", Method: "GET", Path: rtAPI + "/runtime/invocation/next", Proc: p,
				Headers: map[string]string{"User-Agent": "verif-runtime/1.0"},
				Render: func(st int, h http.Header, b []byte) string {
					if st != 200 {
						return s.DefaultRender(st, h, b)
					}
					id := h.Get("Lambda-Runtime-Aws-Request-Id")
					s.SetLastRtID(id)
					arn := "ok"
					if h.Get("Lambda-Runtime-Invoked-Function-Arn") != "arn:aws:lambda:us-east-1:012345678912:function:test_function" {
						arn = "bad"
					}
					dl, _ := strconv.ParseInt(h.Get("Lambda-Runtime-Deadline-Ms"), 10, 64)
					s.L.Add("#deadline rt %s %d", s.Alias(id), dl)
					return fmt.Sprintf("200,%s,body=%s,arn=%s,ctx=%s", s.Alias(id), hashOf(b), arn, h.Get("Lambda-Runtime-Client-Context"))
				}})
		case "response": // response <idref> <size> <fill> [mode=x]
			size, _ := strconv.Atoi(ws[3])
			hdr := map[string]string{"Content-Type": "application/octet-stream"}
			chunked := false
			for _, a := range ws[5:] {
				if strings.HasPrefix(a, "mode=") {
					hdr["Lambda-Runtime-Function-Response-Mode"] = a[5:]
				}
				if a == "chunked" { // no Content-Length: the server learns the size only by reading
					chunked = true
				}
			}
			id := s.Unalias(ws[2])
			s.L.Add("#posted response %s %s", ws[2], hashOf(stack.Payload(size, ws[4], 7)))
			s.NotePosted(stack.Payload(size, ws[4], 7))
			w.extra = []string{"h=" + hashOf(stack.Payload(size, ws[4], 7))}
			s.Do(stack.CallSpec{Actor: "rt", What: "response", Method: "POST", Path: rtAPI + "/runtime/invocation/" + id + "/response", Headers: hdr,
				Body: stack.Payload(size, ws[4], 7), Chunked: chunked, Proc: p})
		case "slowresponse": // slowresponse <idref> <size> <fill> [tied]: headers and the first half of the body now, the rest on `rt finish`
			// tied: the upload is made by the runtime process itself and dies with it; otherwise by a sender that outlives it
			var slowProc *stack.Proc
			if len(ws) > 5 && ws[5] == "tied" {
				slowProc = p
			}
			size, _ := strconv.Atoi(ws[3])
			id := s.Unalias(ws[2])
			body := stack.Payload(size, ws[4], 7)
			s.L.Add("#posted response %s %s", ws[2], hashOf(body))
			s.NotePosted(body)
			w.extra = []string{"h=" + hashOf(body)}
			pr, pw := io.Pipe()
			w.slow = append(w.slow, slowUpload{func() { _, _ = pw.Write(body[len(body)/2:]); pw.Close() }, slowProc != nil})
			go func() { _, _ = pw.Write(body[:len(body)/2]) }()
			w.nslow++
			s.Do(stack.CallSpec{Actor: "rt", What: fmt.Sprintf("slowresponse#%d", w.nslow), Method: "POST", Path: rtAPI + "/runtime/invocation/" + id + "/response",
				// the upload is not tied to the life of the runtime process: a sender that outlives it (a forked
				// helper, bytes still in flight) is what makes a submission arrive after the reset
				Headers: map[string]string{"Content-Type": "application/octet-stream"}, BodyReader: pr, Proc: slowProc})
		case "slowerror": // slowerror <idref> <type>: as slowresponse, for the error endpoint (its handler reads the whole body first)
			id := s.Unalias(ws[2])
			body := []byte(fmt.Sprintf(`{"errorMessage":"%s","errorType":"%s"}`, strings.Repeat("m", 3000), ws[3]))
			s.L.Add("#posted error %s %s", ws[2], hashOf(body))
			pr, pw := io.Pipe()
			w.slow = append(w.slow, slowUpload{func() { _, _ = pw.Write(body[len(body)/2:]); pw.Close() }, false})
			go func() { _, _ = pw.Write(body[:len(body)/2]) }()
			w.nslow++
			s.Do(stack.CallSpec{Actor: "rt", What: fmt.Sprintf("slowerror#%d", w.nslow), Method: "POST", Path: rtAPI + "/runtime/invocation/" + id + "/error",
				Headers: map[string]string{"Lambda-Runtime-Function-Error-Type": ws[3], "Content-Type": "application/json"}, BodyReader: pr, Proc: nil})
		case "error": // error <idref> <type> <size>
			size := 20
			if len(ws) > 4 {
				size, _ = strconv.Atoi(ws[4])
			}
			id := s.Unalias(ws[2])
			body := []byte(fmt.Sprintf(`{"errorMessage":"%s","errorType":"%s"}`, strings.Repeat("m", size), ws[3]))
			s.L.Add("#posted error %s %s", ws[2], hashOf(body))
			s.Do(stack.CallSpec{Actor: "rt", What: "error", Method: "POST", Path: rtAPI + "/runtime/invocation/" + id + "/error",
				Headers: map[string]string{"Lambda-Runtime-Function-Error-Type": ws[3], "Content-Type": "application/json"}, Body: body, Proc: p})
		case "initerror": // initerror <type>
			body := []byte(fmt.Sprintf(`{"errorMessage":"init failed","errorType":"%s"}`, ws[2]))
			s.Do(stack.CallSpec{Actor: "rt", What: "initerror", Method: "POST", Path: rtAPI + "/runtime/init/error",
				Headers: map[string]string{"Lambda-Runtime-Function-Error-Type": ws[2]}, Body: body, Proc: p})
		case "restorenext":
			s.Do(stack.CallSpec{Actor: "rt", What: "restorenext", Method: "GET", Path: rtAPI + "/runtime/restore/next", Proc: p})
		case "restoreerror":
			s.Do(stack.CallSpec{Actor: "rt", What: "restoreerror", Method: "POST", Path: rtAPI + "/runtime/restore/error",
				Headers: map[string]string{"Lambda-Runtime-Function-Error-Type": ws[2]}, Body: []byte(`{}`), Proc: p})
		case "raw": // raw <METHOD> <path>
			s.Do(stack.CallSpec{Actor: "rt", What: "raw:" + ws[2] + ":" + ws[3], Method: ws[2], Path: ws[3], Proc: p})
		case "creds": // creds <token|good>
			tok := ws[2]
			if tok == "good" {
				tok = p.Env["AWS_CONTAINER_AUTHORIZATION_TOKEN"]
			}
			if tok == "bearer" { // derived from the token, but not the token
				tok = "Bearer " + p.Env["AWS_CONTAINER_AUTHORIZATION_TOKEN"]
			}
			if tok == "upper" {
				tok = strings.ToUpper(p.Env["AWS_CONTAINER_AUTHORIZATION_TOKEN"])
			}
			s.Do(stack.CallSpec{Actor: "rt", What: "creds:" + ws[2], Method: "GET", Path: credAPI + "/credentials", Headers: map[string]string{"Authorization": tok}, Proc: p,
				Render: func(st int, h http.Header, b []byte) string {
					if st != 200 {
						return s.DefaultRender(st, h, b)
					}
					var m map[string]any
					_ = json.Unmarshal(b, &m)
					return fmt.Sprintf("200,key=%v", m["AccessKeyId"])
				}})
		default:
			return false
		}
	case "exit": // exit <base> <code|sigN>
		p := w.s.Sup.Live(ws[1])
		if p == nil {
			return false
		}
		code := 0
		if strings.HasPrefix(ws[2], "sig") {
			n, _ := strconv.Atoi(ws[2][3:])
			code = -n
		} else {
			code, _ = strconv.Atoi(ws[2])
		}
		s.Sup.NaturalExit(p.Name, code)
	case "sleep":
		ms, _ := strconv.Atoi(ws[1])
		time.Sleep(time.Duration(ms) * time.Millisecond)
	case "reset": // reset <reason>
		reason := ws[1]
		s.L.Add("#reset start budget=2000")
		go func() {
			_, err := s.Srv.Reset(reason, 2000)
			s.L.Add("reset done err=%v", err != nil)
		}()
	case "shutdown":
		go func() {
			s.Srv.Shutdown(&interop.Shutdown{DeadlineNs: time.Now().Add(2 * time.Second).UnixNano()})
			s.L.Add("shutdown done")
		}()
	case "restore": // restore <hookTimeoutMs> [key]
		ms, _ := strconv.Atoi(ws[1])
		key := "AKIDRESTORED"
		if len(ws) > 2 {
			key = ws[2]
		}
		// the expiry goes down and up from one restore of a case to the next (3h, 1h, 2h, 30m, …): the
		// credentials served must be those of the most recent restore whatever their expiry (seed C18-7)
		w.nrestore++
		exp := time.Now().Add(3 * time.Hour)
		if w.nrestore%2 == 0 {
			exp = time.Now().Add(time.Duration(120/w.nrestore) * time.Minute)
		} else if w.nrestore > 1 {
			exp = time.Now().Add(2 * time.Hour)
		}
		go func() {
			_, err := s.Srv.Restore(&interop.Restore{AwsKey: key, AwsSecret: "s2", AwsSession: "t2", CredentialsExpiry: exp, RestoreHookTimeoutMs: int64(ms)})
			var ue interop.ErrRestoreHookUserError
			if errors.As(err, &ue) {
				s.L.Add("restore done err=userError:%s", ue.UserError.Type)
			} else if err != nil && strings.HasPrefix(err.Error(), "Runtime exited") {
				s.L.Add("restore done err=procExit")
			} else {
				s.L.Add("restore done err=%s", errText(err))
			}
		}()
	default:
		return false
	}
	return true
}

func errText(err error) string {
	if err == nil {
		return "ok"
	}
	return strings.ReplaceAll(err.Error(), " ", "_")
}

func hashOf(b []byte) string { return stack.HashBytes(b) }
