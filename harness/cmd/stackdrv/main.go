// stackdrv drives the real emulator stack in process with a fake supervisor and scripted
// HTTP actors, one op at a time, observing at quiescent points (mechanism Q of DESIGN.md).
package main

import (
	"flag"
	"fmt"
	"io"
	"net"
	"os"
	"strings"

	log "github.com/sirupsen/logrus"
	"verifharness/internal/drv"
	"verifharness/internal/rng"
	"verifharness/internal/stack"
	"verifharness/internal/trace"
)

type caseCfg struct {
	exts     []string // external extension file names
	dirs     []string
	timeout  int
	snapshot bool
}

func (c caseCfg) initLine() string {
	snap := 0
	if c.snapshot {
		snap = 1
	}
	return fmt.Sprintf("exts=%s dirs=%s timeout=%d snapshot=%d", strings.Join(c.exts, ","), strings.Join(c.dirs, ","), c.timeout, snap)
}

func parseInit(ws []string) caseCfg {
	c := caseCfg{timeout: 1000}
	for _, w := range ws {
		k, v, _ := strings.Cut(w, "=")
		switch k {
		case "exts":
			if v != "" {
				c.exts = strings.Split(v, ",")
			}
		case "dirs":
			if v != "" {
				c.dirs = strings.Split(v, ",")
			}
		case "timeout":
			c.timeout = drv.Atoi(v)
		case "snapshot":
			c.snapshot = v == "1"
		}
	}
	return c
}

var portBase = 21000
var portNext = 0

func newWorld(c caseCfg, careful bool) (*world, error) {
	var s *stack.Stack
	var err error
	for try := 0; try < 200; try++ {
		port := portBase + portNext
		portNext++
		// the sandbox panics if it cannot listen: probe first (another check may run concurrently)
		if ln, lerr := net.Listen("tcp", fmt.Sprintf("127.0.0.1:%d", port)); lerr != nil {
			err = lerr
			continue
		} else {
			ln.Close()
		}
		s, err = stack.New(stack.Config{Port: port, ExtFiles: c.exts, ExtDirs: c.dirs, TimeoutMs: int64(c.timeout), Snapshot: c.snapshot})
		if err == nil {
			break
		}
	}
	if err != nil {
		return nil, err
	}
	return &world{s: s, careful: careful, extKind: map[string]string{}}, nil
}

// step applies one op and writes op/obs lines.
func (w *world) step(tw *trace.W, st *drv.Stats, ws []string) (string, bool) {
	w.extra = nil
	var clean []string
	for _, x := range ws { // derived tokens from an earlier run are recomputed
		if !strings.HasPrefix(x, "h=") {
			clean = append(clean, x)
		}
	}
	ws = clean
	if !w.apply(ws) {
		return "", false
	}
	if !w.settle() {
		st.Note("not quiescent after 20s: " + strings.Join(ws, " "))
	}
	obs := w.observe()
	tw.Op("%s", strings.Join(append(append([]string{}, ws...), w.extra...), " "))
	tw.Obs("%s", obs)
	for _, c := range w.side {
		tw.Comment("%s", c[1:])
	}
	w.side = nil
	tw.Flush() // a crash of the emulator must leave the ops that led to it on disk
	st.Steps++
	st.Inc("op:" + ws[0] + ":" + opKind(ws))
	return obs, true
}

func opKind(ws []string) string {
	switch ws[0] {
	case "ext", "int":
		return ws[2]
	case "rt":
		return ws[1]
	}
	return ""
}

// finish drains the instance so that goroutines do not pile up: wait for callers, reset.
func (w *world) finish(tw *trace.W, st *drv.Stats, timeout int) {
	if w.s.Callers() > 0 {
		w.step(tw, st, []string{"sleep", fmt.Sprint(timeout + 100)})
		// uploads still in progress end now (a sender outside the environment does not stall for ever)
		for len(w.slow) > 0 && !w.slow[0].tied {
			w.step(tw, st, []string{"rt", "finish"})
		}
		for i := 0; i < 60 && w.s.Callers() > 0; i++ {
			w.step(tw, st, []string{"sleep", "100"})
		}
	}
	w.s.Close()
}

func main() {
	fs := flag.NewFlagSet("stackdrv", flag.ExitOnError)
	c := drv.CommonFlags(fs)
	family := fs.String("family", "healthy", "scenario family")
	port := fs.Int("port", 21000, "first port of this worker's range")
	careful := fs.Bool("careful", false, "long quiescence windows (used when re-examining a disagreement)")
	verbose := fs.Bool("v", false, "emulator logs to stderr")
	_ = fs.Parse(os.Args[1:])
	portBase = *port
	if !*verbose {
		log.SetOutput(io.Discard)
	}
	log.SetLevel(log.ErrorLevel)
	tw, err := trace.Create(c.Out)
	if err != nil {
		fmt.Fprintln(os.Stderr, err)
		os.Exit(2)
	}
	defer tw.Close()
	st := drv.NewStats()
	if c.Replay != "" {
		for _, rc := range drv.ReadCases(c.Replay) {
			cfg := parseInit(rc.Init)
			w, err := newWorld(cfg, *careful)
			if err != nil {
				fmt.Fprintln(os.Stderr, err)
				os.Exit(3)
			}
			tw.Case(rc.ID)
			tw.Init("%s", cfg.initLine())
			for _, ws := range rc.Ops {
				w.step(tw, st, ws)
			}
			w.finish(tw, st, cfg.timeout)
			st.Cases++
			tw.Flush()
		}
		st.Write(c.Stats)
		return
	}
	r := rng.New(c.Seed)
	for k := 0; k < c.Cases; k++ {
		cr := r.Fork()
		g := newGen(cr, *family)
		w, err := newWorld(g.cfg, *careful)
		if err != nil {
			fmt.Fprintln(os.Stderr, err)
			os.Exit(3)
		}
		id := fmt.Sprintf("%s%d", *family, k)
		tw.Case(id)
		tw.Init("%s", g.cfg.initLine())
		h := drv.Fnv(0, g.cfg.initLine())
		for i := 0; i < g.maxOps; i++ {
			ws := g.next(w)
			if ws == nil {
				break
			}
			obs, ok := w.step(tw, st, ws)
			if ok {
				g.observe(ws, obs)
				h = drv.Fnv(h, strings.Join(ws, " ")+"|"+obs)
			}
		}
		w.finish(tw, st, g.cfg.timeout)
		st.Cases++
		st.Mark(h, g.nontrivial())
		st.Sample(fmt.Sprintf("%s: %s; %d ops", id, g.cfg.initLine(), g.nops))
		tw.Flush()
	}
	st.Write(c.Stats)
}
