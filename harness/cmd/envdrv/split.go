package main

import (
	"encoding/hex"
	"flag"
	"fmt"
	"os"
	"strings"

	"go.amzn.com/lambda/rapidcore/env"
	"verifharness/internal/drv"
	"verifharness/internal/rng"
	"verifharness/internal/trace"
)

func init() { commands["split"] = splitCmd }

func showSplit(k, v string, ok bool) string {
	if !ok {
		return "none"
	}
	return "ok:" + hex.EncodeToString([]byte(k)) + ":" + hex.EncodeToString([]byte(v))
}

// frontSplit is the expression of InitHandler in cmd/aws-lambda-rie/handlers.go
// (`envVar := strings.SplitN(env, "=", 2)`, then envVar[0] / envVar[1]). That file is in
// package main and cannot be imported, so the expression is repeated here on the real
// strings.SplitN; the function itself is exercised by `envdrv e2e`. "none" = the front end would
// index out of range.
func frontSplit(s string) (string, string, bool) {
	envVar := strings.SplitN(s, "=", 2)
	if len(envVar) < 2 {
		return "", "", false
	}
	return envVar[0], envVar[1], true
}

func applySplitOp(ws []string) (string, bool) {
	switch {
	case ws[0] == "split" && len(ws) == 2:
		s, ok := unhx(ws[1])
		if !ok {
			return "", false
		}
		k, v, err := env.SplitEnvironmentVariable(s)
		fk, fv, fok := frontSplit(s)
		return "sev=" + showSplit(k, v, err == nil) + " front=" + showSplit(fk, fv, fok), true
	case ws[0] == "kv" && len(ws) == 3:
		k, ok1 := unhx(ws[1])
		v, ok2 := unhx(ws[2])
		if !ok1 || !ok2 {
			return "", false
		}
		s := k + "=" + v // LocalSupervisor.Exec: key+"="+value
		k2, v2, err := env.SplitEnvironmentVariable(s)
		return "kv=" + hex.EncodeToString([]byte(s)) + " sev=" + showSplit(k2, v2, err == nil), true
	}
	return "", false
}

func genSplitString(r *rng.R) string {
	alphabet := "=ab\n _=\xc3\xa9=\xff"
	n := r.Intn(10)
	if r.Chance(1, 20) {
		n = 200 + r.Intn(100)
	}
	b := make([]byte, n)
	for i := range b {
		b[i] = alphabet[r.Intn(len(alphabet))]
	}
	return string(b)
}

func splitCmd(args []string) int {
	fs := flag.NewFlagSet("split", flag.ExitOnError)
	c := drv.CommonFlags(fs)
	_ = fs.Parse(args)
	tw, err := trace.Create(c.Out)
	if err != nil {
		fmt.Fprintln(os.Stderr, err)
		return 2
	}
	defer tw.Close()
	st := drv.NewStats()
	exec := func(id string, ops [][]string) {
		tw.Case(id)
		tw.Init("-")
		h := drv.Fnv(0, "split")
		nontrivial := false
		for _, ws := range ops {
			obs, ok := applySplitOp(ws)
			if !ok {
				st.Note("skipped malformed op in case " + id)
				continue
			}
			tw.Op("%s", strings.Join(ws, " "))
			tw.Obs("%s", obs)
			st.Steps++
			st.Inc("op:" + ws[0])
			if strings.Contains(obs, "none") {
				st.Inc("result:no-delimiter")
			} else {
				st.Inc("result:split")
			}
			if s, _ := unhx(ws[len(ws)-1]); strings.Count(s, "=") >= 1 {
				nontrivial = true // the value part (or the string) itself contains '='
			}
			h = drv.Fnv(h, strings.Join(ws, " ")+"|"+obs)
		}
		st.Cases++
		st.Mark(h, nontrivial)
	}
	if c.Replay != "" {
		for _, rc := range drv.ReadCases(c.Replay) {
			exec(rc.ID, rc.Ops)
		}
		st.Write(c.Stats)
		return 0
	}
	// boundary strings first
	var fixed [][]string
	for _, s := range []string{"", "=", "==", "a", "a=", "=a", "a=b", "a=b=c", "a==b", "a\n=b", "a=\n", "\n", "=\n=", "k=" + strings.Repeat("=", 50)} {
		fixed = append(fixed, []string{"split", hx(s)})
	}
	for _, kv := range [][2]string{{"", ""}, {"K", ""}, {"", "v"}, {"K", "=v"}, {"K", "a=b\nc=d"}, {"K=X", "v"}, {"_HANDLER", "h"}} {
		fixed = append(fixed, []string{"kv", hx(kv[0]), hx(kv[1])})
	}
	exec("s-fixed", fixed)
	r := seeded(c.Seed, 0x5b117)
	for k := 0; k < c.Cases; k++ {
		cr := r.Fork()
		var ops [][]string
		for i := 1 + cr.Intn(6); i > 0; i-- {
			if cr.Chance(60, 100) {
				ops = append(ops, []string{"split", hx(genSplitString(cr))})
			} else {
				key := strings.ReplaceAll(genSplitString(cr), "=", "")
				if cr.Chance(1, 8) {
					key = genSplitString(cr) // a key with '=' : the cut must differ from (k, v)
				}
				ops = append(ops, []string{"kv", hx(key), hx(genSplitString(cr))})
			}
		}
		if k < 2 {
			st.Sample(fmt.Sprintf("s%d: %d split/kv ops over the alphabet {=,a,b,\\n,space,_,é,0xff}", k, len(ops)))
		}
		exec(fmt.Sprintf("s%d", k), ops)
	}
	st.Write(c.Stats)
	return 0
}
