package main

import (
	"flag"
	"fmt"
	"os"
	"sort"
	"strconv"
	"strings"

	"go.amzn.com/lambda/rapidcore/env"
	"verifharness/internal/drv"
	"verifharness/internal/rng"
	"verifharness/internal/trace"
)

func init() { commands["run"] = runCmd }

// ---- key material: the REAL key sets of the built code, so that every reserved key of every
// class is offered as a colliding customer key ----

type keyMaterial struct {
	classes map[string][]string // class name -> sorted keys
	all     []string            // every predefined key of every class + the init-caching keys
}

var cachingKeys = []string{"AWS_CONTAINER_CREDENTIALS_FULL_URI", "AWS_CONTAINER_AUTHORIZATION_TOKEN"}

// reserved / internal names as documented (Lambda developer guide + the exclusions of the
// property), kept here by hand on purpose
var documentedKeys = []string{"_HANDLER", "_X_AMZN_TRACE_ID", "AWS_DEFAULT_REGION", "AWS_REGION", "AWS_EXECUTION_ENV",
	"AWS_LAMBDA_FUNCTION_NAME", "AWS_LAMBDA_FUNCTION_MEMORY_SIZE", "AWS_LAMBDA_FUNCTION_VERSION", "AWS_LAMBDA_LOG_GROUP_NAME",
	"AWS_LAMBDA_LOG_STREAM_NAME", "AWS_ACCESS_KEY_ID", "AWS_SECRET_ACCESS_KEY", "AWS_SESSION_TOKEN", "AWS_LAMBDA_RUNTIME_API",
	"LAMBDA_TASK_ROOT", "LAMBDA_RUNTIME_DIR", "TZ", "AWS_XRAY_DAEMON_ADDRESS", "AWS_XRAY_CONTEXT_MISSING",
	"_AWS_XRAY_DAEMON_ADDRESS", "_AWS_XRAY_DAEMON_PORT", "_LAMBDA_TELEMETRY_LOG_FD", "_LAMBDA_SB_ID", "_LAMBDA_LOG_FD",
	"_LAMBDA_SHARED_MEM_FD", "_LAMBDA_CONTROL_SOCKET", "_LAMBDA_DIRECT_INVOKE_SOCKET", "_LAMBDA_RUNTIME_LOAD_TIME",
	"_LAMBDA_CONSOLE_SOCKET", "_LAMBDA_TELEMETRY_API_PASSPHRASE"}

// names the front end reads, and some ordinary ones
var otherKeys = []string{"AWS_LAMBDA_FUNCTION_HANDLER", "AWS_LAMBDA_FUNCTION_TIMEOUT", "PATH", "LANG", "HOME",
	"FOO", "MY_VAR", "foo", "A", "AWS_PROFILE", "LD_LIBRARY_PATH", "AWS_XRAY_DAEMON_ADDRESS_2", "TZ2",
	"cl\xc3\xa9", "K\xff", "sp ace"}
var underscoreKeys = []string{"_", "__", "_X", "_PRIVATE", "_HANDLER2", "_AWS_XRAY_DAEMON", "_LAMBDA_X", "_\xc3\xa9"}

func loadKeys() *keyMaterial {
	km := &keyMaterial{classes: map[string][]string{}}
	seen := map[string]bool{}
	sets := env.VerifKeySets()
	var names []string
	for n := range sets {
		names = append(names, n)
	}
	sort.Strings(names)
	for _, n := range names {
		var ks []string
		for k := range sets[n] {
			ks = append(ks, k)
		}
		sort.Strings(ks)
		km.classes[n] = ks
		for _, k := range ks {
			if !seen[k] {
				seen[k] = true
				km.all = append(km.all, k)
			}
		}
	}
	km.classes["caching"] = cachingKeys
	// … and the documented names, independently of what the built code lists (a name that the
	// code forgot must still be offered as a customer key)
	for _, k := range append(append([]string{}, cachingKeys...), documentedKeys...) {
		if !seen[k] {
			seen[k] = true
			km.all = append(km.all, k)
		}
	}
	return km
}

// seeded: rng.New maps consecutive seeds to the same stream shifted by one draw, and the check
// gives consecutive seeds to its parallel workers; hash the seed first so that workers do not
// repeat each other's cases.
func seeded(seed, salt uint64) *rng.R { return rng.New(rng.New(seed).U64() ^ salt) }

// ---- generators ----

var valuePool = []string{"", "", "v", "value-1", "a=b", "=lead", "trail=", "==", "k=v=w", "line1\nline2", "\n", "with space",
	"\"quoted\"", "caf\xc3\xa9", "\xff\xfe", "evil", "0", "127.0.0.1:1", "$LATEST", "tab\there", "x=\ny="}

func genValue(r *rng.R, allowNul bool) string {
	switch r.Pick([]int{70, 12, 10, 3}) {
	case 0:
		return valuePool[r.Intn(len(valuePool))]
	case 1:
		return fmt.Sprintf("v%d", r.Intn(1000))
	case 2:
		n := 1 + r.Intn(12)
		b := make([]byte, n)
		for i := range b {
			const al = "ab=\n _-:/.\xc3\xa9Z9"
			b[i] = al[r.Intn(len(al))]
		}
		return string(b)
	default:
		if allowNul && r.Chance(1, 4) {
			return "nul\x00in"
		}
		return strings.Repeat("long=", 40+r.Intn(40))
	}
}

func valueClass(v string) string {
	switch {
	case v == "":
		return "empty"
	case strings.Contains(v, "=") && strings.Contains(v, "\n"):
		return "eq+nl"
	case strings.Contains(v, "="):
		return "eq"
	case strings.Contains(v, "\n"):
		return "nl"
	}
	return "plain"
}

// genCustomer: a customer map. mode 0: every predefined key of every class collides; 1: random
// subset; 2: small; 3: empty.
func genCustomer(r *rng.R, km *keyMaterial, st *drv.Stats) map[string]string {
	m := map[string]string{}
	mode := r.Pick([]int{25, 50, 15, 10})
	st.Inc(fmt.Sprintf("custmap:mode%d", mode))
	switch mode {
	case 0:
		for _, k := range km.all {
			m[k] = genValue(r, true)
		}
	case 1:
		p := 20 + r.Intn(60)
		for _, k := range km.all {
			if r.Chance(p, 100) {
				m[k] = genValue(r, true)
			}
		}
	case 2:
		for i := r.Intn(4); i > 0; i-- {
			m[km.all[r.Intn(len(km.all))]] = genValue(r, true)
		}
	case 3:
		return m
	}
	for _, k := range otherKeys {
		if r.Chance(35, 100) {
			m[k] = genValue(r, true)
		}
	}
	for _, k := range underscoreKeys {
		if r.Chance(30, 100) {
			m[k] = genValue(r, true)
		}
	}
	if r.Chance(1, 12) {
		m[""] = genValue(r, true) // a Go map accepts it
	}
	if r.Chance(1, 12) {
		m["K=EY"] = genValue(r, true)
	}
	return m
}

// genProc: process environment of the emulator (only what os.Setenv accepts).
func genProc(r *rng.R, km *keyMaterial) map[string]string {
	m := map[string]string{}
	mode := r.Pick([]int{15, 60, 25})
	p := 15 + r.Intn(50)
	for _, k := range km.all {
		if mode == 0 || (mode == 1 && r.Chance(p, 100)) {
			m[k] = genValue(r, false)
		}
	}
	for _, k := range otherKeys {
		if r.Chance(25, 100) {
			m[k] = genValue(r, false)
		}
	}
	for _, k := range underscoreKeys {
		if r.Chance(20, 100) {
			m[k] = genValue(r, false)
		}
	}
	return m
}

func genParam(r *rng.R, emptyPct int, pool []string) string {
	if r.Chance(emptyPct, 100) {
		return ""
	}
	if r.Chance(60, 100) {
		return pool[r.Intn(len(pool))]
	}
	return genValue(r, true)
}

var handlerPool = []string{"app.handler", "index.handler", "pkg/mod.fn", "h=x", "main"}
var credPool = []string{"AKIAEXAMPLE", "secret/with=eq", "tok\nen", "s3cr3t"}
var namePool = []string{"test_function", "fn-1", "my=fn", "$LATEST", "7"}
var addrPool = []string{"127.0.0.1:9001", "localhost:8080", "0.0.0.0:0", "[::1]:9001", "host", ""}

func genOp(r *rng.R, km *keyMaterial, st *drv.Stats, kind int) string {
	switch kind {
	case 0:
		return "api " + hx(genParam(r, 5, addrPool))
	case 1:
		return "sethandler " + hx(genParam(r, 10, handlerPool))
	case 2:
		return "init " + mp(genCustomer(r, km, st)) + " " + hx(genParam(r, 35, handlerPool)) + " " +
			hx(genParam(r, 25, credPool)) + " " + hx(genParam(r, 25, credPool)) + " " + hx(genParam(r, 25, credPool)) + " " +
			hx(genParam(r, 30, namePool)) + " " + hx(genParam(r, 30, namePool))
	case 3:
		port := []int{9001, 0, 65535, -1, 80, 123456}[r.Intn(6)]
		return "initcaching " + hx(genParam(r, 10, []string{"127.0.0.1", "localhost", "h=o", "::1"})) + " " + strconv.Itoa(port) + " " +
			mp(genCustomer(r, km, st)) + " " + hx(genParam(r, 35, handlerPool)) + " " +
			hx(genParam(r, 30, namePool)) + " " + hx(genParam(r, 30, namePool)) + " " + hx(genParam(r, 10, []string{"3d7f9c3e-1111-4222-8333-444455556666", "tok"}))
	case 4:
		return "cli " + mp(genCustomer(r, km, st))
	case 5:
		return "execenv " + hx(genParam(r, 10, []string{"AWS_Lambda_rapid", "AWS_Lambda_java11"}))
	case 6:
		return "taskroot " + hx(genParam(r, 10, []string{"/var/task", "/tmp/x=y"}))
	case 7:
		return "runtimedir " + hx(genParam(r, 10, []string{"/var/runtime"}))
	}
	return "custenv"
}

func genCase(r *rng.R, km *keyMaterial, st *drv.Stats) (string, []string) {
	initLine := mp(genProc(r, km))
	var ops []string
	if r.Chance(70, 100) {
		// the order the emulator really uses: [CLI options] [SetHandler] StoreRuntimeAPI, init
		st.Inc("shape:canonical")
		if r.Chance(20, 100) {
			ops = append(ops, genOp(r, km, st, 4))
		}
		if r.Chance(15, 100) {
			ops = append(ops, genOp(r, km, st, 5+r.Intn(3)))
		}
		if r.Chance(45, 100) {
			ops = append(ops, genOp(r, km, st, 1))
		}
		ops = append(ops, genOp(r, km, st, 0))
		if r.Chance(15, 100) {
			ops = append(ops, "custenv")
		}
		ops = append(ops, genOp(r, km, st, 2+r.Intn(2)))
	} else {
		st.Inc("shape:random")
		n := 1 + r.Intn(8)
		for i := 0; i < n; i++ {
			ops = append(ops, genOp(r, km, st, r.Pick([]int{20, 15, 20, 15, 10, 5, 5, 5, 5})))
		}
	}
	return initLine, ops
}

// ---- executor: the same path for generated and replayed cases ----

type envCase struct {
	e    *env.Environment
	proc map[string]string
}

func startCase(initWords []string) (*envCase, bool) {
	if len(initWords) != 1 {
		return nil, false
	}
	proc, ok := unmp(initWords[0])
	if !ok {
		return nil, false
	}
	os.Clearenv()
	for k, v := range proc {
		if err := os.Setenv(k, v); err != nil {
			return nil, false
		}
	}
	return &envCase{e: env.NewEnvironment(), proc: proc}, true
}

func showEnvironment(e *env.Environment) string {
	l := e.VerifLayers()
	rt, ag, ready := "-", "-", "0"
	if e.VerifReady() { // RuntimeExecEnv / AgentExecEnv exit the process otherwise
		ready = "1"
		rt = pairs(e.RuntimeExecEnv())
		ag = pairs(e.AgentExecEnv())
	}
	return fmt.Sprintf("ready=%s cu=%s ra=%s pl=%s ru=%s un=%s cr=%s rt=%s ag=%s", ready, pairs(l["customer"]), pairs(l["rapid"]),
		pairs(l["platform"]), pairs(l["runtime"]), pairs(l["platformUnreserved"]), pairs(l["credentials"]), rt, ag)
}

// applyOp calls the real method named by the op line; returns the observation.
func (c *envCase) applyOp(ws []string) (string, bool) {
	arg := func(i int) string {
		s, _ := unhx(ws[i])
		return s
	}
	for i := 1; i < len(ws); i++ {
		if strings.HasPrefix(ws[i], "x") {
			if _, ok := unhx(ws[i]); !ok {
				return "", false
			}
		}
	}
	switch {
	case ws[0] == "custenv" && len(ws) == 1:
		return "cust=" + pairs(env.CustomerEnvironmentVariables()), true
	case ws[0] == "api" && len(ws) == 2:
		c.e.StoreRuntimeAPIEnvironmentVariable(arg(1))
	case ws[0] == "sethandler" && len(ws) == 2:
		c.e.SetHandler(arg(1))
	case ws[0] == "execenv" && len(ws) == 2:
		c.e.SetExecutionEnv(arg(1))
	case ws[0] == "taskroot" && len(ws) == 2:
		c.e.SetTaskRoot(arg(1))
	case ws[0] == "runtimedir" && len(ws) == 2:
		c.e.SetRuntimeDir(arg(1))
	case ws[0] == "init" && len(ws) == 8:
		m, ok := unmp(ws[1])
		if !ok {
			return "", false
		}
		c.e.StoreEnvironmentVariablesFromInit(m, arg(2), arg(3), arg(4), arg(5), arg(6), arg(7))
	case ws[0] == "initcaching" && len(ws) == 8:
		m, ok := unmp(ws[3])
		port, err := strconv.Atoi(ws[2])
		if !ok || err != nil {
			return "", false
		}
		c.e.StoreEnvironmentVariablesFromInitForInitCaching(arg(1), port, m, arg(4), arg(5), arg(6), arg(7))
	case ws[0] == "cli" && len(ws) == 2:
		m, ok := unmp(ws[1])
		if !ok {
			return "", false
		}
		c.e.StoreEnvironmentVariablesFromCLIOptions(m)
	default:
		return "", false
	}
	return showEnvironment(c.e), true
}

func execEnvCase(tw *trace.W, st *drv.Stats, id string, initWords []string, ops [][]string) {
	c, ok := startCase(initWords)
	if !ok {
		st.Note("unusable init line in case " + id)
		return
	}
	tw.Case(id)
	tw.Init("%s", strings.Join(initWords, " "))
	h := drv.Fnv(0, strings.Join(initWords, " "))
	nontrivial := false
	for _, ws := range ops {
		obs, ok := c.applyOp(ws)
		if !ok {
			st.Note("skipped malformed op in case " + id)
			continue
		}
		tw.Op("%s", strings.Join(ws, " "))
		tw.Obs("%s", obs)
		st.Steps++
		st.Inc("op:" + ws[0])
		h = drv.Fnv(h, strings.Join(ws, " ")+"|"+obs)
	}
	// classify the final state
	if c.e.VerifReady() {
		st.Inc("final:ready")
		l := c.e.VerifLayers()
		rt := c.e.RuntimeExecEnv()
		for _, layer := range []string{"platform", "runtime", "credentials", "platformUnreserved"} {
			for k, v := range l[layer] {
				if cv, ok := l["customer"][k]; ok && cv != v {
					st.Inc("shadowed-by:" + layer)
					nontrivial = true
				}
			}
		}
		for k, v := range l["customer"] {
			if rt[k] == v {
				st.Inc("delivered-customer-value:" + valueClass(v))
			}
		}
		ag := c.e.AgentExecEnv()
		if len(ag) < len(l["customer"]) {
			st.Inc("agent-view-filtered")
		}
	} else {
		st.Inc("final:notready")
	}
	st.Cases++
	st.Mark(h, nontrivial)
}

func runCmd(args []string) int {
	fs := flag.NewFlagSet("run", flag.ExitOnError)
	c := drv.CommonFlags(fs)
	_ = fs.Parse(args)
	tw, err := trace.Create(c.Out)
	if err != nil {
		fmt.Fprintln(os.Stderr, err)
		return 2
	}
	defer tw.Close()
	st := drv.NewStats()
	if c.Replay != "" {
		for _, rc := range drv.ReadCases(c.Replay) {
			execEnvCase(tw, st, rc.ID, rc.Init, rc.Ops)
		}
		st.Write(c.Stats)
		return 0
	}
	km := loadKeys()
	r := seeded(c.Seed, 0xe7c16)
	for k := 0; k < c.Cases; k++ {
		cr := r.Fork()
		initLine, opLines := genCase(cr, km, st)
		var ops [][]string
		for _, o := range opLines {
			ops = append(ops, strings.Fields(o))
		}
		if k < 2 {
			st.Sample(fmt.Sprintf("e%d: proc env of %d vars, ops %v", k, strings.Count(initLine, ":"), opKinds(ops)))
		}
		execEnvCase(tw, st, fmt.Sprintf("e%d", k), []string{initLine}, ops)
	}
	st.Write(c.Stats)
	return 0
}

func opKinds(ops [][]string) []string {
	var ks []string
	for _, o := range ops {
		ks = append(ks, o[0])
	}
	return ks
}
