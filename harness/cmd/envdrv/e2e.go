package main

// End-to-end tie of C16: the REAL aws-lambda-rie binary (front end InitHandler with its
// os.Environ() split, SandboxBuilder, rapid handlers, LocalSupervisor's key+"="+value rendering,
// execve) is started with a generated environment; its runtime and extension child processes
// are this binary in `child` mode: they dump os.Environ() verbatim and talk to the Runtime API
// at the address they find in AWS_LAMBDA_RUNTIME_API.
//
// The extension directory is the fixed path /opt/extensions; to keep the shared machine
// untouched, the emulator runs in a private mount namespace (CLONE_NEWNS, needs root) in which a
// scratch directory is bind-mounted on /opt. Without that privilege the extension part is skipped
// (noted in the stats).

import (
	"bytes"
	"encoding/hex"
	"flag"
	"fmt"
	"io"
	"net"
	"net/http"
	"os"
	"os/exec"
	"path/filepath"
	"sort"
	"strings"
	"sync"
	"syscall"
	"time"

	"verifharness/internal/drv"
	"verifharness/internal/rng"
	"verifharness/internal/trace"
)

func init() {
	commands["e2e"] = e2eCmd
	commands["launch"] = launchCmd
	commands["child"] = func([]string) int { return childMain("runtime") }
}

const (
	runtimeChildName = "c16runtime"
	agentChildName   = "c16ext"
)

// childRole: the child processes are started by the emulator without arguments we control, so the
// role is taken from the name of the executable.
func childRole() string {
	switch filepath.Base(os.Args[0]) {
	case runtimeChildName:
		return "runtime"
	case agentChildName:
		return "agent"
	}
	return ""
}

func init() {
	if role := childRole(); role != "" {
		os.Exit(childMain(role))
	}
}

// ---- child side ----

func childMain(role string) int {
	time.AfterFunc(25*time.Second, func() { os.Exit(3) }) // never outlive the test
	self := os.Args[0]
	dumpDir := filepath.Join(filepath.Dir(filepath.Dir(self)), "c16dump")
	_ = os.MkdirAll(dumpDir, 0o755)
	var b strings.Builder
	for _, kv := range os.Environ() {
		b.WriteString(hex.EncodeToString([]byte(kv)))
		b.WriteByte('\n')
	}
	writeAtomic(filepath.Join(dumpDir, role+".env"), b.String())

	addr := os.Getenv("AWS_LAMBDA_RUNTIME_API")
	client := &http.Client{Timeout: 20 * time.Second}
	if role == "agent" {
		req, _ := http.NewRequest("POST", "http://"+addr+"/2020-01-01/extension/register", strings.NewReader(`{"events":["INVOKE","SHUTDOWN"]}`))
		req.Header.Set("Lambda-Extension-Name", filepath.Base(self))
		resp, err := client.Do(req)
		if err != nil {
			writeAtomic(filepath.Join(dumpDir, role+".listen"), "fail "+oneLine(err.Error()))
			return 1
		}
		io.Copy(io.Discard, resp.Body)
		resp.Body.Close()
		id := resp.Header.Get("Lambda-Extension-Identifier")
		if resp.StatusCode != 200 || id == "" {
			writeAtomic(filepath.Join(dumpDir, role+".listen"), fmt.Sprintf("fail register status %d", resp.StatusCode))
			return 1
		}
		writeAtomic(filepath.Join(dumpDir, role+".listen"), "ok")
		for {
			req, _ := http.NewRequest("GET", "http://"+addr+"/2020-01-01/extension/event/next", nil)
			req.Header.Set("Lambda-Extension-Identifier", id)
			resp, err := client.Do(req)
			if err != nil {
				return 0
			}
			io.Copy(io.Discard, resp.Body)
			resp.Body.Close()
			if resp.StatusCode != 200 {
				return 0
			}
		}
	}
	first := true
	for {
		resp, err := client.Get("http://" + addr + "/2018-06-01/runtime/invocation/next")
		if err != nil {
			if first {
				writeAtomic(filepath.Join(dumpDir, role+".listen"), "fail "+oneLine(err.Error()))
			}
			return 1
		}
		io.Copy(io.Discard, resp.Body)
		resp.Body.Close()
		id := resp.Header.Get("Lambda-Runtime-Aws-Request-Id")
		if first {
			if resp.StatusCode == 200 && id != "" {
				writeAtomic(filepath.Join(dumpDir, role+".listen"), "ok")
			} else {
				writeAtomic(filepath.Join(dumpDir, role+".listen"), fmt.Sprintf("fail next status %d", resp.StatusCode))
			}
			first = false
		}
		if resp.StatusCode != 200 {
			return 1
		}
		r2, err := client.Post("http://"+addr+"/2018-06-01/runtime/invocation/"+id+"/response", "application/json", strings.NewReader(`"done"`))
		if err != nil {
			return 1
		}
		io.Copy(io.Discard, r2.Body)
		r2.Body.Close()
	}
}

func oneLine(s string) string { return strings.ReplaceAll(s, "\n", " ") }

func writeAtomic(path, content string) {
	tmp := path + ".tmp"
	if os.WriteFile(tmp, []byte(content), 0o644) == nil {
		_ = os.Rename(tmp, path)
	}
}

// ---- launcher: runs inside the private mount namespace ----

// envdrv launch <scratch-opt-dir> <program> args… : bind-mount the scratch dir on /opt and exec.
func launchCmd(args []string) int {
	if len(args) < 2 {
		return 2
	}
	if err := syscall.Mount(args[0], "/opt", "", syscall.MS_BIND, ""); err != nil {
		fmt.Fprintln(os.Stderr, "launch: bind mount failed:", err)
		return 97
	}
	err := syscall.Exec(args[1], args[1:], os.Environ())
	fmt.Fprintln(os.Stderr, "launch: exec failed:", err)
	return 98
}

// ---- harness side ----

func freePort() int {
	l, err := net.Listen("tcp", "127.0.0.1:0")
	if err != nil {
		return 0
	}
	defer l.Close()
	return l.Addr().(*net.TCPAddr).Port
}

type e2eCase struct {
	environ    map[string]string
	handlerArg string
	caching    bool
}

type e2eResult struct {
	addr        string
	rt, ag      string // obs text; "missing" if the child never reported
	listen      map[string]string
	token       string
	invokeState string
	log         string
}

func readDump(path string) (string, map[string]string, bool) {
	b, err := os.ReadFile(path)
	if err != nil {
		return "missing", nil, false
	}
	var ls []string
	m := map[string]string{}
	for _, l := range strings.Split(strings.TrimSpace(string(b)), "\n") {
		if l == "" {
			continue
		}
		raw, _ := hex.DecodeString(l)
		ls = append(ls, string(raw))
		if i := strings.IndexByte(string(raw), '='); i >= 0 {
			m[string(raw[:i])] = string(raw[i+1:])
		}
	}
	sort.Strings(ls)
	for i := range ls {
		ls[i] = hex.EncodeToString([]byte(ls[i]))
	}
	return strings.Join(ls, ","), m, true
}

func waitFile(path string, d time.Duration) bool {
	deadline := time.Now().Add(d)
	for time.Now().Before(deadline) {
		if _, err := os.Stat(path); err == nil {
			return true
		}
		time.Sleep(10 * time.Millisecond)
	}
	return false
}

func runE2E(rie, self string, c e2eCase, withAgent bool) (*e2eResult, error) {
	tmp, err := os.MkdirTemp("", "c16e2e")
	if err != nil {
		return nil, err
	}
	defer os.RemoveAll(tmp)
	bin := filepath.Join(tmp, "bin")
	opt := filepath.Join(tmp, "opt")
	_ = os.MkdirAll(bin, 0o755)
	_ = os.MkdirAll(filepath.Join(opt, "extensions"), 0o755)
	_ = os.MkdirAll(filepath.Join(opt, "c16dump"), 0o755)
	if err := os.Symlink(self, filepath.Join(bin, runtimeChildName)); err != nil {
		return nil, err
	}
	if withAgent {
		if err := os.Symlink(self, filepath.Join(opt, "extensions", agentChildName)); err != nil {
			return nil, err
		}
	}
	apiPort, fePort := freePort(), freePort()
	res := &e2eResult{addr: fmt.Sprintf("127.0.0.1:%d", apiPort), listen: map[string]string{}}
	args := []string{rie, "--log-level", "error", "--runtime-api-address", res.addr,
		"--runtime-interface-emulator-address", fmt.Sprintf("127.0.0.1:%d", fePort)}
	if c.caching {
		args = append(args, "--enable-init-caching")
	}
	args = append(args, filepath.Join(bin, runtimeChildName))
	if c.handlerArg != "" {
		args = append(args, c.handlerArg)
	}
	var cmd *exec.Cmd
	if withAgent {
		cmd = exec.Command(self, append([]string{"launch", opt}, args...)...)
		cmd.SysProcAttr = &syscall.SysProcAttr{Setpgid: true, Unshareflags: syscall.CLONE_NEWNS}
	} else {
		cmd = exec.Command(args[0], args[1:]...)
		cmd.SysProcAttr = &syscall.SysProcAttr{Setpgid: true}
	}
	cmd.Dir = bin
	cmd.Env = []string{}
	for _, k := range sortedKeys(c.environ) {
		cmd.Env = append(cmd.Env, k+"="+c.environ[k])
	}
	logb := &syncBuffer{}
	cmd.Stdout, cmd.Stderr = logb, logb
	if err := cmd.Start(); err != nil {
		return nil, err
	}
	done := make(chan struct{})
	go func() { _ = cmd.Wait(); close(done) }()
	defer func() {
		_ = syscall.Kill(-cmd.Process.Pid, syscall.SIGKILL)
		_ = cmd.Process.Kill()
		<-done
	}()
	// wait for the front end
	up := false
	for i := 0; i < 400 && !up; i++ {
		select {
		case <-done:
			return nil, fmt.Errorf("emulator exited early: %s", tail(logb.String()))
		default:
		}
		if conn, err := net.DialTimeout("tcp", fmt.Sprintf("127.0.0.1:%d", fePort), 100*time.Millisecond); err == nil {
			conn.Close()
			up = true
		} else {
			time.Sleep(10 * time.Millisecond)
		}
	}
	if !up {
		return nil, fmt.Errorf("front end did not come up: %s", tail(logb.String()))
	}
	// the first invoke triggers init (extensions, then the runtime); it is not awaited beyond
	// the moment both children have reported, so that a broken emulator costs seconds, not the
	// function timeout
	invoked := make(chan string, 1)
	go func() {
		client := &http.Client{Timeout: 20 * time.Second}
		resp, err := client.Post(fmt.Sprintf("http://127.0.0.1:%d/2015-03-31/functions/function/invocations", fePort), "application/json", strings.NewReader("{}"))
		if err != nil {
			invoked <- "error " + oneLine(err.Error())
			return
		}
		body, _ := io.ReadAll(resp.Body)
		resp.Body.Close()
		invoked <- fmt.Sprintf("%d %s", resp.StatusCode, oneLine(string(body)))
	}()
	rtDir := filepath.Join(tmp, "c16dump")
	agDir := filepath.Join(opt, "c16dump")
	deadline := time.Now().Add(20 * time.Second)
	for res.invokeState == "" && time.Now().Before(deadline) {
		select {
		case res.invokeState = <-invoked:
		case <-time.After(10 * time.Millisecond):
		}
		if _, err := os.Stat(filepath.Join(rtDir, "runtime.listen")); err == nil {
			break
		}
	}
	if res.invokeState == "" {
		select {
		case res.invokeState = <-invoked:
		case <-time.After(time.Second):
			res.invokeState = "pending (not awaited)"
		}
	}
	var rtm map[string]string
	res.rt, rtm, _ = readDump(filepath.Join(rtDir, "runtime.env"))
	res.token = rtm["AWS_CONTAINER_AUTHORIZATION_TOKEN"]
	if b, err := os.ReadFile(filepath.Join(rtDir, "runtime.listen")); err == nil {
		res.listen["runtime"] = string(b)
	} else {
		res.listen["runtime"] = "fail no report from the child"
	}
	if withAgent {
		res.ag, _, _ = readDump(filepath.Join(agDir, "agent.env"))
		if b, err := os.ReadFile(filepath.Join(agDir, "agent.listen")); err == nil {
			res.listen["agent"] = string(b)
		} else {
			res.listen["agent"] = "fail no report from the child"
		}
	}
	res.log = tail(logb.String())
	select {
	case <-done:
		// another process took one of the two ports between freePort() and the emulator's bind
		// (the machine is shared): not an observation about the emulator, try again
		if strings.Contains(logb.String(), "address already in use") {
			return nil, fmt.Errorf("port taken meanwhile: %s", res.log)
		}
	default:
	}
	return res, nil
}

type syncBuffer struct {
	mu sync.Mutex
	b  bytes.Buffer
}

func (s *syncBuffer) Write(p []byte) (int, error) {
	s.mu.Lock()
	defer s.mu.Unlock()
	return s.b.Write(p)
}

func (s *syncBuffer) String() string {
	s.mu.Lock()
	defer s.mu.Unlock()
	return s.b.String()
}

func tail(s string) string {
	if len(s) > 1500 {
		s = s[len(s)-1500:]
	}
	return oneLine(s)
}

func canUnshare(self string) bool {
	cmd := exec.Command(self, "launch", os.TempDir(), "/bin/true")
	cmd.SysProcAttr = &syscall.SysProcAttr{Unshareflags: syscall.CLONE_NEWNS}
	return cmd.Run() == nil
}

// names the emulator or the Go runtime of the children interpret themselves
var e2eAvoid = map[string]bool{"AWS_LAMBDA_FUNCTION_TIMEOUT": true, "LOG_LEVEL": true}

func genE2E(r *rng.R, km *keyMaterial) e2eCase {
	c := e2eCase{environ: map[string]string{}}
	p := 25 + r.Intn(50)
	all := r.Chance(1, 5)
	for _, k := range km.all {
		if all || r.Chance(p, 100) {
			c.environ[k] = genValue(r, false)
		}
	}
	for _, k := range otherKeys {
		if !e2eAvoid[k] && r.Chance(40, 100) {
			c.environ[k] = genValue(r, false)
		}
	}
	for _, k := range underscoreKeys {
		if r.Chance(35, 100) {
			c.environ[k] = genValue(r, false)
		}
	}
	if r.Chance(1, 6) {
		c.environ[""] = genValue(r, false) // the string "=value"
	}
	if r.Chance(1, 3) {
		c.environ["AWS_LAMBDA_FUNCTION_TIMEOUT"] = "20"
	}
	if r.Chance(1, 2) {
		c.handlerArg = handlerPool[r.Intn(len(handlerPool))]
	}
	c.caching = r.Chance(1, 3)
	return c
}

func e2eCmd(args []string) int {
	fs := flag.NewFlagSet("e2e", flag.ExitOnError)
	cf := drv.CommonFlags(fs)
	rieFlag := fs.String("rie", "", "path of the built aws-lambda-rie binary (default $VERIF_BUILD/aws-lambda-rie-c16)")
	_ = fs.Parse(args)
	rie := *rieFlag
	if rie == "" {
		b := os.Getenv("VERIF_BUILD")
		if b == "" {
			b = "/verif/.build"
		}
		rie = filepath.Join(b, "aws-lambda-rie-c16")
	}
	self, err := os.Executable()
	if err != nil {
		fmt.Fprintln(os.Stderr, err)
		return 2
	}
	tw, err := trace.Create(cf.Out)
	if err != nil {
		fmt.Fprintln(os.Stderr, err)
		return 2
	}
	defer tw.Close()
	st := drv.NewStats()
	if _, err := os.Stat(rie); err != nil {
		st.Note("no emulator binary at " + rie + ": end-to-end tie skipped")
		st.Write(cf.Stats)
		return 0
	}
	withAgent := canUnshare(self)
	if !withAgent {
		st.Note("no private mount namespace available (needs root): extension processes not exercised end to end")
	}
	exec1 := func(id string, c e2eCase) {
		var res *e2eResult
		var err error
		for try := 0; try < 5; try++ { // a start-up failure (port taken meanwhile) is retried
			res, err = runE2E(rie, self, c, withAgent)
			if err == nil {
				break
			}
		}
		if err != nil {
			st.Note("case " + id + " could not run: " + err.Error())
			return
		}
		host, port, _ := net.SplitHostPort(res.addr)
		cflag := "0"
		if c.caching {
			cflag = "1"
		}
		tw.Case(id)
		tw.Init("%s %s %s %s %s %s %s", mp(c.environ), hx(c.handlerArg), hx(res.addr), cflag, hx(host), port, hx(res.token))
		tw.Comment("invoke %s", res.invokeState)
		h := drv.Fnv(0, mp(c.environ)+c.handlerArg+cflag)
		tw.Op("runtime")
		tw.Obs("%s", res.rt)
		tw.Comment("listen runtime %s", res.listen["runtime"])
		st.Steps++
		if withAgent {
			tw.Op("agent")
			tw.Obs("%s", res.ag)
			tw.Comment("listen agent %s", res.listen["agent"])
			st.Steps++
		}
		if res.rt == "missing" || (withAgent && res.ag == "missing") {
			tw.Comment("emulator log: %s", res.log)
			st.Inc("child-missing")
		}
		for _, role := range []string{"runtime", "agent"} {
			if v, ok := res.listen[role]; ok {
				st.Inc("listen-" + role + ":" + strings.Fields(v + " ?")[0])
			}
		}
		if c.caching {
			st.Inc("mode:init-caching")
		} else {
			st.Inc("mode:normal")
		}
		if c.handlerArg != "" {
			st.Inc("handler-arg")
		}
		st.Inc("invoke:" + strings.Fields(res.invokeState + " ?")[0])
		st.Cases++
		st.Mark(h, true)
	}
	if cf.Replay != "" {
		for _, rc := range drv.ReadCases(cf.Replay) {
			if len(rc.Init) < 4 {
				continue
			}
			m, ok := unmp(rc.Init[0])
			harg, ok2 := unhx(rc.Init[1])
			if !ok || !ok2 {
				continue
			}
			exec1(rc.ID, e2eCase{environ: m, handlerArg: harg, caching: rc.Init[3] == "1"})
		}
		st.Write(cf.Stats)
		return 0
	}
	km := loadKeys()
	r := seeded(cf.Seed, 0xe2e16)
	for k := 0; k < cf.Cases; k++ {
		cr := r.Fork()
		c := genE2E(cr, km)
		if k < 2 {
			st.Sample(fmt.Sprintf("x%d: emulator started with %d variables, handler arg %q, init caching %v", k, len(c.environ), c.handlerArg, c.caching))
		}
		exec1(fmt.Sprintf("x%d", k), c)
	}
	st.Write(cf.Stats)
	return 0
}
