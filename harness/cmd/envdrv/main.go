// envdrv drives the REAL go.amzn.com/lambda/rapidcore/env package (property C16) and writes the
// line protocol that rie-oracle replays on the Lean model Rie.Env.
//
//	envdrv keys  -dir <lean/Rie/Gen>   regenerate EnvKeys.lean from the built code
//	envdrv run   [common flags]        Environment op sequences (model "env")
//	envdrv split [common flags]        KEY=VALUE splitting / rendering (model "envsplit")
//	envdrv e2e   [common flags]        the real aws-lambda-rie binary with real child processes (model "enve2e")
//	envdrv child                       (internal) bootstrap / extension process of the e2e tie
package main

import (
	"encoding/hex"
	"fmt"
	"os"
	"sort"
	"strings"
)

var commands = map[string]func(args []string) int{}

func main() {
	if len(os.Args) < 2 {
		var names []string
		for k := range commands {
			names = append(names, k)
		}
		sort.Strings(names)
		fmt.Fprintln(os.Stderr, "usage: envdrv <cmd> [flags]; cmds:", names)
		os.Exit(2)
	}
	f, ok := commands[os.Args[1]]
	if !ok {
		fmt.Fprintln(os.Stderr, "unknown command", os.Args[1])
		os.Exit(2)
	}
	os.Exit(f(os.Args[2:]))
}

// ---- protocol encoding: byte strings as x<hex>, maps as m<hexk>:<hexv>,... sorted by key ----

func hx(s string) string { return "x" + hex.EncodeToString([]byte(s)) }

func unhx(tok string) (string, bool) {
	if !strings.HasPrefix(tok, "x") {
		return "", false
	}
	b, err := hex.DecodeString(tok[1:])
	if err != nil {
		return "", false
	}
	return string(b), true
}

func sortedKeys(m map[string]string) []string {
	ks := make([]string, 0, len(m))
	for k := range m {
		ks = append(ks, k)
	}
	sort.Strings(ks)
	return ks
}

// pairs renders a map as hexk:hexv,... sorted by key (bytewise).
func pairs(m map[string]string) string {
	var sb strings.Builder
	for i, k := range sortedKeys(m) {
		if i > 0 {
			sb.WriteByte(',')
		}
		sb.WriteString(hex.EncodeToString([]byte(k)))
		sb.WriteByte(':')
		sb.WriteString(hex.EncodeToString([]byte(m[k])))
	}
	return sb.String()
}

func mp(m map[string]string) string { return "m" + pairs(m) }

func unmp(tok string) (map[string]string, bool) {
	if !strings.HasPrefix(tok, "m") {
		return nil, false
	}
	res := map[string]string{}
	if tok == "m" {
		return res, true
	}
	for _, e := range strings.Split(tok[1:], ",") {
		kv := strings.SplitN(e, ":", 2)
		if len(kv) != 2 {
			return nil, false
		}
		k, err1 := hex.DecodeString(kv[0])
		v, err2 := hex.DecodeString(kv[1])
		if err1 != nil || err2 != nil {
			return nil, false
		}
		res[string(k)] = string(v)
	}
	return res, true
}
