package main

// directdrv http: the direct-invoke path over a REAL HTTP round trip (net/http server and client):
// ReceiveDirectInvoke + SendDirectInvokeResponse behind a chi route, the caller reads body and
// trailers as any HTTP client would. What is judged (model-free, vcheck/c17.py judge_http) is what
// the CALLER received: the bytes, and the End-Of-Response classification in the trailer — a trailer
// that is written but was never announced in the `Trailer` response header is dropped by net/http
// and never reaches the caller.

import (
	"bytes"
	"flag"
	"fmt"
	"io"
	"net/http"
	"net/http/httptest"
	"os"
	"strconv"
	"strings"
	"time"

	"github.com/go-chi/chi"

	"go.amzn.com/lambda/core/directinvoke"
	"go.amzn.com/lambda/interop"
	"go.amzn.com/lambda/metering"
	"verifharness/internal/drv"
	"verifharness/internal/rng"
	"verifharness/internal/trace"
)

func init() { commands["http"] = httpCmd }

type httpCase struct {
	mode   string // "" (header absent) | "buffered" | "streaming" | "Streaming" …
	max    string // "" (absent) | decimal
	paylen int
	seed   int
	fail   bool // the response reader fails after the payload (-> Truncated)
	chunk  int
	frm    bool // the runtime answers with Lambda-Runtime-Function-Response-Mode: streaming (and an error trailer)
}

// errAfter yields the payload in chunks and then a read error (or EOF)
type errAfter struct {
	b     []byte
	chunk int
	fail  bool
}

func (e *errAfter) Read(p []byte) (int, error) {
	if len(e.b) == 0 {
		if e.fail {
			return 0, fmt.Errorf("connection reset by runtime")
		}
		return 0, io.EOF
	}
	n := e.chunk
	if n > len(e.b) {
		n = len(e.b)
	}
	if n > len(p) {
		n = len(p)
	}
	copy(p, e.b[:n])
	e.b = e.b[n:]
	return n, nil
}

func runHTTPCase(hc httpCase) string {
	payload := make([]byte, hc.paylen)
	for i := range payload {
		payload[i] = patByte(hc.seed, i)
	}
	tok := interop.Token{InvokeID: "i1", ReservationToken: "t1", VersionID: "v1", FunctionTimeout: 3 * time.Second,
		InvackDeadlineNs: metering.Monotime() + int64(time.Hour)}
	var recvErr, sendErr error
	r := chi.NewRouter()
	r.Post("/invoke/{reservationtoken}", func(w http.ResponseWriter, req *http.Request) {
		_, recvErr = directinvoke.ReceiveDirectInvoke(w, req, tok)
		if recvErr != nil {
			return
		}
		respCh := make(chan *interop.InvokeResponseMetrics, 4)
		add := map[string]string{"Content-Type": "application/octet-stream"}
		trailers := http.Header{}
		if hc.frm {
			add[directinvoke.FunctionResponseModeHeader] = "streaming"
			trailers.Set(directinvoke.FunctionErrorTypeTrailer, "Rt.Err")
		}
		sendErr = directinvoke.SendDirectInvokeResponse(add, &errAfter{b: payload, chunk: hc.chunk, fail: hc.fail}, trailers, w, make(chan *interop.Reset), respCh, nil, true, "i1")
	})
	srv := httptest.NewServer(r)
	defer srv.Close()
	req, _ := http.NewRequest("POST", srv.URL+"/invoke/t1", strings.NewReader("event"))
	req.Header.Set(directinvoke.InvokeIDHeader, "i1")
	req.Header.Set(directinvoke.VersionIDHeader, "v1")
	if hc.mode != "" {
		req.Header.Set(directinvoke.InvokeResponseModeHeader, hc.mode)
	}
	if hc.max != "" {
		req.Header.Set(directinvoke.MaxPayloadSizeHeader, hc.max)
	}
	// a fast bucket: the rate limiter is not what this family is about
	req.Header.Set(directinvoke.ResponseBandwidthRateHeader, strconv.FormatInt(interop.MaxResponseBandwidthRate, 10))
	req.Header.Set(directinvoke.ResponseBandwidthBurstSizeHeader, strconv.FormatInt(interop.MaxResponseBandwidthBurstSize, 10))
	cl := &http.Client{Timeout: 60 * time.Second}
	resp, err := cl.Do(req)
	if err != nil {
		return "clienterr=" + strings.ReplaceAll(err.Error(), " ", "_")
	}
	defer resp.Body.Close()
	body, rerr := io.ReadAll(resp.Body)
	prefix := 0
	if len(body) <= len(payload) && bytes.Equal(body, payload[:len(body)]) {
		prefix = 1
	}
	tr := func(k string) string {
		if v := resp.Trailer.Get(k); v != "" {
			return strings.ReplaceAll(v, " ", "_")
		}
		return "none"
	}
	rd := "ok"
	if rerr != nil {
		rd = "err"
	}
	return fmt.Sprintf("st=%d n=%d prefix=%d read=%s eor=%s fet=%s recverr=%v senderr=%v", resp.StatusCode, len(body), prefix, rd,
		tr(directinvoke.EndOfResponseTrailer), tr(directinvoke.FunctionErrorTypeTrailer), recvErr != nil, sendErr != nil)
}

func httpCmd(args []string) int {
	fs := flag.NewFlagSet("http", flag.ExitOnError)
	c := drv.CommonFlags(fs)
	_ = fs.Parse(args)
	tw, err := trace.Create(c.Out)
	if err != nil {
		fmt.Fprintln(os.Stderr, err)
		return 2
	}
	defer tw.Close()
	st := drv.NewStats()
	r := rng.New(c.Seed ^ 0x477)
	modes := []string{"", "", "buffered", "streaming", "streaming", "Streaming", "STREAMING"}
	for k := 0; k < c.Cases; k++ {
		cr := r.Fork()
		hc := httpCase{mode: modes[cr.Intn(len(modes))], seed: cr.Intn(250), chunk: []int{1 << 15, 4096, 1000, 1 << 20}[cr.Intn(4)]}
		limit := []int{0, 1, 10, 1000, 32768, 70000}[cr.Intn(6)]
		switch cr.Intn(5) {
		case 0: // default limit
			hc.max = ""
			hc.paylen = []int{0, 1, 5000, 100000}[cr.Intn(4)]
		case 1: // the WorkerProxy convention: -1 = streaming, no limit
			hc.max = "-1"
			hc.paylen = []int{0, 1, 5000, 200000}[cr.Intn(4)]
		default:
			hc.max = strconv.Itoa(limit)
			hc.paylen = []int{0, limit, limit + 1, limit + 2, limit * 2, limit / 2, limit + 4097}[cr.Intn(7)]
		}
		hc.fail = cr.Intn(5) == 0
		hc.frm = cr.Intn(3) == 0
		res := runHTTPCase(hc)
		tw.Case(fmt.Sprintf("h%d", k))
		f, fr := 0, 0
		if hc.fail {
			f = 1
		}
		if hc.frm {
			fr = 1
		}
		tw.Comment("http mode=%s max=%s paylen=%d seed=%d chunk=%d fail=%d frm=%d defaultlimit=%d -> %s", hexOrDash(hc.mode), hexOrDash(hc.max), hc.paylen, hc.seed, hc.chunk, f, fr,
			interop.MaxPayloadSize, res)
		st.Cases++
		st.Steps++
		cls := "http:" + strings.ToLower(hc.mode) + ":"
		if i := strings.Index(res, "eor="); i >= 0 {
			cls += strings.Fields(res[i:])[0]
		}
		st.Inc(cls)
		st.Mark(drv.Fnv(0, fmt.Sprintf("%s/%s/%d/%v/%v", hc.mode, hc.max, hc.paylen, hc.fail, hc.frm)), hc.paylen > 0)
		if k < 2 {
			st.Sample(fmt.Sprintf("http h%d: mode=%q max=%q paylen=%d fail=%v -> %s", k, hc.mode, hc.max, hc.paylen, hc.fail, res))
		}
	}
	st.Write(c.Stats)
	return 0
}
