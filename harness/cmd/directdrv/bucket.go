package main

import (
	"flag"
	"fmt"
	"net/http"
	"os"
	"strconv"
	"strings"
	"sync"
	"sync/atomic"
	"time"

	"go.amzn.com/lambda/core/bandwidthlimiter"
	"go.amzn.com/lambda/core/directinvoke"
	"go.amzn.com/lambda/interop"
	"verifharness/internal/drv"
	"verifharness/internal/quiesce"
	"verifharness/internal/rng"
	"verifharness/internal/trace"
)

func init() {
	commands["bucket"] = bucketCmd
	commands["shape"] = shapeCmd
	commands["wall"] = wallCmd
}

// ---------------- bucket: produceTokens / consumeTokens under arbitrary schedules ----------------
// init <capacity> <tokens> <refill>;  op tick | consume <n>

func runBucketCase(tw *trace.W, st *drv.Stats, id string, capacity, tokens, refill int64, ops []string) {
	b, err := bandwidthlimiter.NewBucket(capacity, tokens, refill, 125*time.Millisecond)
	if err != nil {
		st.Inc("newbucket-refused")
		return
	}
	tw.Case(id)
	tw.Init("%d %d %d", capacity, tokens, refill)
	h := drv.Fnv(0, fmt.Sprintf("%d/%d/%d", capacity, tokens, refill))
	nontrivial := false
	for _, op := range ops {
		ws := strings.Fields(op)
		var obs string
		switch {
		case len(ws) == 1 && ws[0] == "tick":
			b.VerifProduceTokens()
			obs = fmt.Sprintf("tokens=%d", b.VerifTokenCount())
			st.Inc("tick")
		case len(ws) == 2 && ws[0] == "consume":
			n, _ := strconv.ParseInt(ws[1], 10, 64)
			ok := b.VerifConsumeTokens(n)
			k := 0
			if ok {
				k = 1
				st.Inc("consume:ok")
			} else {
				st.Inc("consume:refused")
				nontrivial = true
			}
			obs = fmt.Sprintf("ok=%d tokens=%d", k, b.VerifTokenCount())
		default:
			continue
		}
		tw.Op("%s", op)
		tw.Obs("%s", obs)
		st.Steps++
		h = drv.Fnv(h, op+"|"+obs)
	}
	st.Cases++
	st.Mark(h, nontrivial)
}

func bucketCmd(args []string) int {
	fs := flag.NewFlagSet("bucket", flag.ExitOnError)
	c := drv.CommonFlags(fs)
	maxlen := fs.Int("maxlen", 60, "max ops per case")
	_ = fs.Parse(args)
	tw, err := trace.Create(c.Out)
	if err != nil {
		fmt.Fprintln(os.Stderr, err)
		return 2
	}
	defer tw.Close()
	st := drv.NewStats()
	if c.Replay != "" {
		st.Sample("replay of " + c.Replay)
		for _, rc := range drv.ReadCases(c.Replay) {
			runBucketCase(tw, st, rc.ID, int64(drv.AtoiDef(rc.Init, 0, 1)), int64(drv.AtoiDef(rc.Init, 1, 0)), int64(drv.AtoiDef(rc.Init, 2, 1)), rc.OpLines)
		}
		st.Write(c.Stats)
		return 0
	}
	r := rng.New(c.Seed ^ 0xb0c4e7)
	for k := 0; k < c.Cases; k++ {
		cr := r.Fork()
		var capacity, refill int64
		if cr.Bool() {
			// the ranges the headers allow: burst 32 KiB … 64 MiB, refill = rate·125/1000
			caps := []int64{32768, 32769, 65536, 6291456, 67108864, 32768 + int64(cr.Intn(1<<20))}
			rates := []int64{32768, 32769, 2097152, 67108864, 32768 + int64(cr.Intn(1<<24))}
			capacity = caps[cr.Intn(len(caps))]
			refill = rates[cr.Intn(len(rates))] * directinvoke.DefaultRefillIntervalMs / 1000
		} else {
			capacity = 1 + int64(cr.Intn(40))
			refill = 1 + int64(cr.Intn(15))
		}
		tokens := capacity
		if cr.Chance(1, 3) {
			tokens = int64(cr.U64() % uint64(capacity+1))
		}
		n := 1 + cr.Intn(*maxlen)
		var ops []string
		shadow := tokens // only to aim the generator at the interesting sizes; not an oracle
		for i := 0; i < n; i++ {
			if cr.Chance(45, 100) {
				ops = append(ops, "tick")
				shadow += refill
				continue
			}
			var x int64
			switch cr.Pick([]int{30, 25, 20, 15, 10}) {
			case 0:
				x = int64(cr.U64() % uint64(capacity+1))
			case 1:
				x = shadow - 1 + int64(cr.Intn(3))
			case 2:
				x = capacity - 1 + int64(cr.Intn(3))
			case 3:
				x = int64(cr.U64() % uint64(2*capacity+1))
			default:
				x = int64(cr.Intn(3))
			}
			if x < 0 {
				x = 0
			}
			ops = append(ops, fmt.Sprintf("consume %d", x))
			if x <= shadow {
				shadow -= x
			}
			if shadow > capacity {
				shadow = capacity
			}
		}
		if k < 2 {
			st.Sample(fmt.Sprintf("bucket b%d: capacity=%d tokens=%d refill=%d len=%d", k, capacity, tokens, refill, len(ops)))
		}
		runBucketCase(tw, st, fmt.Sprintf("b%d", k), capacity, tokens, refill, ops)
	}
	st.Write(c.Stats)
	return 0
}

// ---------------- shape: the real BandwidthLimitingWriter, ticks supplied by the harness ----------------
// init <rate> <burst>;  op params | idle <k> | write <n>

type tickSink struct {
	mu     sync.Mutex
	ticks  *atomic.Int64
	bucket *bandwidthlimiter.Bucket
	sizes  []int
	at     []int64 // tick count at each write
	tokens []int64 // tokens left right after the write was admitted
	hdr    http.Header
}

func (s *tickSink) Header() http.Header { return s.hdr }
func (s *tickSink) WriteHeader(int)     {}
func (s *tickSink) Flush()              {}
func (s *tickSink) Write(p []byte) (int, error) {
	s.mu.Lock()
	s.sizes = append(s.sizes, len(p))
	s.at = append(s.at, s.ticks.Load())
	s.tokens = append(s.tokens, s.bucket.VerifTokenCount())
	s.mu.Unlock()
	return len(p), nil
}

//go:noinline
func verifShapeWrite(w *bandwidthlimiter.BandwidthLimitingWriter, buf []byte, done *atomic.Int32, res *int, rerr *error) {
	*res, *rerr = w.Write(buf)
	done.Store(1)
}

func runShapeCase(tw *trace.W, st *drv.Stats, id string, rate, burst int64, ops []string) bool {
	setGlobals(-1, interop.InvokeResponseModeStreaming, rate, burst)
	var ticks atomic.Int64
	sink := &tickSink{ticks: &ticks, hdr: http.Header{}}
	w, cancel, err := directinvoke.NewStreamedResponseWriter(sink)
	if err != nil {
		st.Inc("writer-refused")
		return true
	}
	defer cancel()
	bk := w.VerifBucket()
	sink.bucket = bk
	tick := w.VerifManualTicks()
	defer w.Close()
	tw.Case(id)
	tw.Init("%d %d", rate, burst)
	h := drv.Fnv(0, fmt.Sprintf("%d/%d", rate, burst))
	nontrivial := false
	for _, op := range ops {
		ws := strings.Fields(op)
		var obs string
		cmt := ""
		switch {
		case len(ws) == 1 && ws[0] == "params":
			c, rf, _ := bk.VerifParams()
			obs = fmt.Sprintf("cap=%d refill=%d tokens=%d", c, rf, bk.VerifTokenCount())
		case len(ws) == 2 && ws[0] == "idle":
			k, _ := strconv.Atoi(ws[1])
			for i := 0; i < k; i++ {
				ticks.Add(1) // the tick is counted before its tokens exist, so a write it admits is never dated earlier
				tick()
			}
			obs = fmt.Sprintf("tokens=%d", bk.VerifTokenCount())
			st.Inc("idle")
		case len(ws) == 2 && ws[0] == "write":
			n, _ := strconv.Atoi(ws[1])
			buf := make([]byte, n)
			var done atomic.Int32
			var res int
			var rerr error
			sink.mu.Lock()
			first := len(sink.sizes)
			sink.mu.Unlock()
			t0 := ticks.Load()
			tokensBefore := bk.VerifTokenCount()
			go verifShapeWrite(w, buf, &done, &res, &rerr)
			limit := int64(n)/1 + 1000000
			for {
				// quiescent = returned, or parked on the throttler's `produced` channel
				ok := quiesce.Wait(func() int { return 1 - int(done.Load()) }, 20*time.Second, "bandwidthLimitingWrite", "chan receive")
				if done.Load() == 1 {
					break
				}
				if !ok || ticks.Load()-t0 > limit {
					tw.Op("%s", op)
					tw.Obs("hang")
					st.Note("writer neither returned nor parked in case " + id)
					return false
				}
				ticks.Add(1) // the tick is counted before its tokens exist, so a write it admits is never dated earlier
				tick()
			}
			sink.mu.Lock()
			var sz, waits, toks []string
			prev := t0
			for i := first; i < len(sink.sizes); i++ {
				sz = append(sz, strconv.Itoa(sink.sizes[i]))
				waits = append(waits, strconv.FormatInt(sink.at[i]-prev, 10))
				toks = append(toks, strconv.FormatInt(sink.tokens[i], 10))
				prev = sink.at[i]
			}
			sink.mu.Unlock()
			ret := strconv.Itoa(res)
			if rerr != nil {
				ret = "err:" + strings.ReplaceAll(rerr.Error(), " ", "_")
			}
			total := ticks.Load() - t0
			obs = fmt.Sprintf("ret=%s sizes=%s waits=%s ticks=%d tokens=%d", ret, strings.Join(sz, ","), strings.Join(waits, ","), total, bk.VerifTokenCount())
			cmt = fmt.Sprintf("shape tokens_before=%d after_each=%s", tokensBefore, strings.Join(toks, ","))
			st.Inc("write")
			if total > 0 {
				st.Inc("write:waited")
				nontrivial = true
			}
			if len(sz) > 1 {
				st.Inc("write:chunked")
			}
		default:
			continue
		}
		tw.Op("%s", op)
		tw.Obs("%s", obs)
		if cmt != "" {
			tw.Comment("%s", cmt)
		}
		st.Steps++
		h = drv.Fnv(h, op+"|"+obs)
	}
	st.Cases++
	st.Mark(h, nontrivial)
	return true
}

func shapeCmd(args []string) int {
	fs := flag.NewFlagSet("shape", flag.ExitOnError)
	c := drv.CommonFlags(fs)
	maxlen := fs.Int("maxlen", 12, "max ops per case")
	_ = fs.Parse(args)
	tw, err := trace.Create(c.Out)
	if err != nil {
		fmt.Fprintln(os.Stderr, err)
		return 2
	}
	defer tw.Close()
	st := drv.NewStats()
	defer func() { st.Write(c.Stats) }()
	if c.Replay != "" {
		st.Sample("replay of " + c.Replay)
		for _, rc := range drv.ReadCases(c.Replay) {
			if !runShapeCase(tw, st, rc.ID, int64(drv.AtoiDef(rc.Init, 0, 32768)), int64(drv.AtoiDef(rc.Init, 1, 32768)), rc.OpLines) {
				break
			}
		}
		return 0
	}
	r := rng.New(c.Seed ^ 0x54a9e)
	for k := 0; k < c.Cases; k++ {
		cr := r.Fork()
		rates := []int64{32768, 32769, 40000, 262144, 2097152, 67108864, 32768 + int64(cr.Intn(1<<22))}
		bursts := []int64{32768, 32769, 50000, 65536, 262144, 1 << 20, 32768 + int64(cr.Intn(1<<19))}
		rate, burst := rates[cr.Intn(len(rates))], bursts[cr.Intn(len(bursts))]
		if cr.Chance(1, 40) {
			burst = 6291456
		}
		n := 1 + cr.Intn(*maxlen)
		ops := []string{"params"}
		for i := 0; i < n; i++ {
			switch cr.Pick([]int{70, 30}) {
			case 0:
				var x int64
				switch cr.Pick([]int{30, 25, 25, 20}) {
				case 0:
					x = 1 + int64(cr.U64()%uint64(burst))
				case 1:
					x = burst - 1 + int64(cr.Intn(3))
				case 2:
					x = 1 + int64(cr.U64()%uint64(3*burst))
				default:
					x = 1 + int64(cr.Intn(40000))
				}
				// keep the number of virtual ticks per op moderate
				refill := rate * directinvoke.DefaultRefillIntervalMs / 1000
				if x/refill > 3000 {
					x = refill * 3000
				}
				ops = append(ops, fmt.Sprintf("write %d", x))
			default:
				ops = append(ops, fmt.Sprintf("idle %d", []int{1, 2, 3, 10, 100, 5000}[cr.Intn(6)]))
			}
		}
		if k < 2 {
			st.Sample(fmt.Sprintf("shape h%d: rate=%d burst=%d ops=%s", k, rate, burst, strings.Join(ops, "; ")))
		}
		if !runShapeCase(tw, st, fmt.Sprintf("h%d", k), rate, burst, ops) {
			break
		}
	}
	st.Note("ticks are supplied by the harness (VerifManualTicks) each time the writer is parked on the throttler's channel")
	return 0
}

// ---------------- wall: the streaming path with its real ticker, judged one-sidedly ----------------
// case line only:  # wall rate=… burst=… paylen=… n=… eor=… dur_ms=… worst_excess=… (bytes beyond burst+rate·t, max over writes)

type wallSink struct {
	hdr   http.Header
	t0    time.Time
	cum   int64
	rate  int64
	burst int64
	worst int64 // max over writes of cum − (burst + rate·elapsed)
	sizes []int
}

func (s *wallSink) Header() http.Header { return s.hdr }
func (s *wallSink) WriteHeader(int)     {}
func (s *wallSink) Flush()              {}
func (s *wallSink) Write(p []byte) (int, error) {
	s.cum += int64(len(p))
	s.sizes = append(s.sizes, len(p))
	el := time.Since(s.t0)
	allowed := s.burst + int64(float64(s.rate)*el.Seconds())
	if ex := s.cum - allowed; ex > s.worst {
		s.worst = ex
	}
	return len(p), nil
}

func wallCmd(args []string) int {
	fs := flag.NewFlagSet("wall", flag.ExitOnError)
	c := drv.CommonFlags(fs)
	_ = fs.Parse(args)
	tw, err := trace.Create(c.Out)
	if err != nil {
		fmt.Fprintln(os.Stderr, err)
		return 2
	}
	defer tw.Close()
	st := drv.NewStats()
	r := rng.New(c.Seed ^ 0x3a11)
	for k := 0; k < c.Cases; k++ {
		cr := r.Fork()
		rate := []int64{1 << 20, 2 << 20, 524288, 4 << 20}[cr.Intn(4)]
		burst := []int64{32768, 65536, 40000}[cr.Intn(3)]
		refill := rate * directinvoke.DefaultRefillIntervalMs / 1000
		nt := int64(2 + cr.Intn(4))
		eff := refill // tokens gained per tick are capped by the capacity
		if burst < eff {
			eff = burst
		}
		paylen := burst + nt*eff - int64(cr.Intn(1000))
		setGlobals(-1, interop.InvokeResponseModeStreaming, rate, burst)
		payload := make([]byte, paylen)
		sink := &wallSink{hdr: http.Header{}, rate: rate, burst: burst, worst: -1 << 62}
		respCh := make(chan *interop.InvokeResponseMetrics, 4)
		sr := &scriptReader{chunks: [][]byte{payload}, resetAt: -1}
		sink.t0 = time.Now()
		err := directinvoke.SendDirectInvokeResponse(map[string]string{}, sr, http.Header{}, sink, make(chan *interop.Reset), respCh, nil, true, "w")
		dur := time.Since(sink.t0)
		eor := sink.hdr.Get(directinvoke.EndOfResponseTrailer)
		tw.Case(fmt.Sprintf("w%d", k))
		budget := int64(0) // Σ ⌈size/refill⌉ over the writes actually made
		for _, x := range sink.sizes {
			budget += (int64(x) + refill - 1) / refill
		}
		tw.Comment("wall rate=%d burst=%d refill=%d paylen=%d n=%d eor=%s err=%v dur_ms=%d tick_budget=%d worst_excess=%d", rate, burst, refill, paylen, sink.cum, eor, err != nil, dur.Milliseconds(), budget, sink.worst)
		st.Cases++
		st.Steps++
		st.Inc("wall:" + eor)
		st.Mark(drv.Fnv(0, fmt.Sprintf("%d/%d/%d", rate, burst, paylen)), true)
		if k < 2 {
			st.Sample(fmt.Sprintf("wall w%d: rate=%d burst=%d paylen=%d took %d ms", k, rate, burst, paylen, dur.Milliseconds()))
		}
	}
	st.Write(c.Stats)
	return 0
}
