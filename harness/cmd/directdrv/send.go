package main

import (
	"bytes"
	"context"
	"errors"
	"flag"
	"fmt"
	"io"
	"net"
	"net/http"
	"net/http/httptest"
	"os"
	"strconv"
	"strings"
	"time"

	"go.amzn.com/lambda/core/directinvoke"
	"go.amzn.com/lambda/interop"
	"verifharness/internal/drv"
	"verifharness/internal/quiesce"
	"verifharness/internal/rng"
	"verifharness/internal/trace"
)

func init() { commands["send"] = sendCmd }

// init  limit=<n> mode=<B|S> cap=<n|-> refill=<n|-> path=<resp|err> rate=<n> burst=<n> conn=<0|1>
// op    send seed=<n> chunks=<c1,c2,…|-> fail=<0|1> wt=<0|1> reset=<j|-> budget=<n|-> frm=<0|1> stall=<0|1>

var errRead = errors.New("verif: injected read error")
var errConn = errors.New("verif: connection broken")

func patByte(seed, i int) byte { return byte((seed + i*31 + i/256*17) % 256) }

// recWriter is the recording, flushing http.ResponseWriter.
type recWriter struct {
	hdr     http.Header
	writes  [][]byte
	budget  int64 // -1: unlimited
	used    int64
	code    int
	flushes int
}

func (w *recWriter) Header() http.Header { return w.hdr }
func (w *recWriter) WriteHeader(c int)   { w.code = c }
func (w *recWriter) Flush()              { w.flushes++ }
func (w *recWriter) Write(p []byte) (int, error) {
	if len(p) == 0 {
		return 0, nil
	}
	if w.budget >= 0 && w.used+int64(len(p)) > w.budget {
		k := int(w.budget - w.used)
		if k > 0 {
			w.writes = append(w.writes, append([]byte(nil), p[:k]...))
			w.used += int64(k)
		}
		return k, errConn
	}
	w.writes = append(w.writes, append([]byte(nil), p...))
	w.used += int64(len(p))
	return len(p), nil
}

// scriptReader returns the scripted chunks, never joining two, then EOF or an error.
type scriptReader struct {
	chunks  [][]byte
	ci, off int
	fail    bool
	calls   int
	resetAt int
	onReset func()
	// stall: at read call resetAt the body stalls (connection open, nothing arrives); the reset comes from
	// elsewhere while the copy is parked in this Read, which returns only when the connection is closed
	stall   <-chan struct{}
	onStall func()
	stalled bool
}

func (s *scriptReader) Read(p []byte) (int, error) {
	call := s.calls
	s.calls++
	if call == s.resetAt && s.stall != nil {
		s.onStall()
		select {
		case <-s.stall:
		case <-time.After(20 * time.Second):
			s.stalled = true // nobody closed the runtime's connection
		}
		return 0, errRead
	}
	if call == s.resetAt && s.onReset != nil {
		s.onReset()
	}
	if s.ci >= len(s.chunks) {
		if s.fail {
			return 0, errRead
		}
		return 0, io.EOF
	}
	n := copy(p, s.chunks[s.ci][s.off:])
	s.off += n
	if s.off == len(s.chunks[s.ci]) {
		s.ci++
		s.off = 0
	}
	return n, nil
}

// wtReader additionally implements io.WriterTo (like *bytes.Reader): one Write per chunk.
type wtReader struct{ *scriptReader }

func (s wtReader) WriteTo(w io.Writer) (int64, error) {
	var total int64
	for i, c := range s.chunks {
		if i == s.resetAt && s.onReset != nil {
			s.onReset()
		}
		n, err := w.Write(c)
		total += int64(n)
		if err != nil {
			return total, err
		}
	}
	if len(s.chunks) == s.resetAt && s.onReset != nil {
		s.onReset()
	}
	if s.fail {
		return total, errRead
	}
	return total, nil
}

type fakeConn struct {
	net.Conn
	closed chan struct{}
}

func (c *fakeConn) Close() error {
	select {
	case <-c.closed:
	default:
		close(c.closed)
	}
	return nil
}

type sendInit struct {
	limit       int64
	mode        string
	path        string
	rate, burst int64
	conn        bool
}

func parseSendInit(ws []string) sendInit {
	si := sendInit{mode: kvGet(ws, "mode"), path: kvGet(ws, "path")}
	si.limit, _ = strconv.ParseInt(kvGet(ws, "limit"), 10, 64)
	si.rate, _ = strconv.ParseInt(kvGet(ws, "rate"), 10, 64)
	si.burst, _ = strconv.ParseInt(kvGet(ws, "burst"), 10, 64)
	si.conn = kvGet(ws, "conn") == "1"
	if si.path == "" {
		si.path = "resp"
	}
	return si
}

// initLine installs the package variables and renders the init line (cap/refill as computed by the
// real NewStreamedResponseWriter).
func (si sendInit) install() string {
	setGlobals(si.limit, letterMode(si.mode), si.rate, si.burst)
	capS, refS := "-", "-"
	if si.mode == "S" {
		bw, cancel, err := directinvoke.NewStreamedResponseWriter(httptest.NewRecorder())
		if err != nil {
			capS, refS = "err", "err"
		} else {
			c, rf, _ := bw.VerifBucket().VerifParams()
			capS, refS = strconv.FormatInt(c, 10), strconv.FormatInt(rf, 10)
			cancel()
		}
	}
	conn := 0
	if si.conn {
		conn = 1
	}
	return fmt.Sprintf("limit=%d mode=%s cap=%s refill=%s path=%s rate=%d burst=%d conn=%d", si.limit, si.mode, capS, refS, si.path, si.rate, si.burst, conn)
}

func parseNatList(s string) []int {
	if s == "-" || s == "" {
		return nil
	}
	var r []int
	for _, x := range strings.Split(s, ",") {
		n, _ := strconv.Atoi(x)
		r = append(r, n)
	}
	return r
}

func optInt(s string) int {
	if s == "-" || s == "" {
		return -1
	}
	n, _ := strconv.Atoi(s)
	return n
}

// doSend runs one real SendDirectInvokeResponse and renders obs + the model-free check line.
func doSend(si sendInit, ws []string, st *drv.Stats) (obs, check string, hang bool) {
	seed, _ := strconv.Atoi(kvGet(ws, "seed"))
	sizes := parseNatList(kvGet(ws, "chunks"))
	fail := kvGet(ws, "fail") == "1"
	wt := kvGet(ws, "wt") == "1"
	resetAt := optInt(kvGet(ws, "reset"))
	budget := optInt(kvGet(ws, "budget"))
	if si.mode != "S" {
		resetAt = -1
	}
	total := 0
	for _, c := range sizes {
		total += c
	}
	payload := make([]byte, total)
	for i := range payload {
		payload[i] = patByte(seed, i)
	}
	var chunks [][]byte
	off := 0
	for _, c := range sizes {
		chunks = append(chunks, payload[off:off+c])
		off += c
	}
	// the variables again (a previous op may have been followed by anything)
	setGlobals(si.limit, letterMode(si.mode), si.rate, si.burst)

	w := &recWriter{hdr: http.Header{}, budget: int64(budget)}
	if kvGet(ws, "frm") == "1" {
		w.hdr.Set(directinvoke.FunctionResponseModeHeader, "streaming")
	}
	resetCh := make(chan *interop.Reset)
	respCh := make(chan *interop.InvokeResponseMetrics, 4)
	acked := make(chan struct{}, 1)
	marker := "directinvoke.sendStreamingInvokeResponse"
	add := map[string]string{"Content-Type": "application/octet-stream"}
	if si.path == "err" {
		marker = "directinvoke.sendStreamingInvokeErrorResponse"
		add[directinvoke.ErrorTypeHeader] = "Function.Error"
	}
	var req *interop.CancellableRequest
	var fc *fakeConn
	if si.conn {
		fc = &fakeConn{closed: make(chan struct{})}
		hr := httptest.NewRequest("POST", "/response", nil)
		hr = hr.WithContext(context.WithValue(hr.Context(), interop.HTTPConnKey, net.Conn(fc)))
		req = &interop.CancellableRequest{Request: hr}
	}
	resetSeen := false
	sr := &scriptReader{chunks: chunks, fail: fail, resetAt: resetAt}
	sr.onReset = func() {
		resetSeen = true
		resetCh <- &interop.Reset{Reason: "timeout"}
		// wait until the sender has cancelled the writer and is blocked waiting for the copy
		if !quiesce.Wait(func() int { return 1 }, 10*time.Second, marker, "chan receive") {
			st.Note("sender not parked in <-copyDone after a reset")
		}
		go func() { <-resetCh; acked <- struct{}{} }()
	}
	if kvGet(ws, "stall") == "1" && fc != nil && si.mode == "S" && si.path == "resp" && !wt && resetAt >= 0 {
		sr.stall = fc.closed
		sr.onStall = func() {
			resetSeen = true
			go func() {
				resetCh <- &interop.Reset{Reason: "timeout"}
				<-resetCh
				acked <- struct{}{}
			}()
		}
	}
	var rd io.Reader = sr
	if wt {
		rd = wtReader{sr}
	}
	done := make(chan error, 1)
	go func() {
		done <- directinvoke.SendDirectInvokeResponse(add, rd, http.Header{}, w, resetCh, respCh, req, true, "inv-1")
	}()
	var err error
	select {
	case err = <-done:
	case <-time.After(60 * time.Second):
		return "hang", fmt.Sprintf("check prefix=0 paylen=%d hang=1", total), true
	}
	if resetSeen {
		select {
		case <-acked:
		case <-time.After(5 * time.Second):
			st.Note("no acknowledgement on the reset channel")
		}
		if fc != nil && si.path == "resp" {
			select {
			case <-fc.closed:
			default:
				st.Note("reset did not close the request connection")
			}
		}
	}
	select {
	case <-respCh:
	default:
		st.Note("no response metrics were sent")
	}
	var fwd []byte
	wh := uint64(fnvOff)
	for _, x := range w.writes {
		fwd = append(fwd, x...)
		wh = fnvBytes(wh, []byte(strconv.Itoa(len(x))+","))
	}
	rc := "none"
	if err != nil {
		var tl *interop.ErrorResponseTooLargeDI
		var tr *interop.ErrTruncatedResponse
		switch {
		case errors.As(err, &tl):
			rc = fmt.Sprintf("toolarge:%d:%d", tl.ResponseSize, tl.MaxResponseSize)
		case errors.As(err, &tr):
			rc = "truncated"
		default:
			rc = "other:" + strings.ReplaceAll(err.Error(), " ", "_")
		}
	}
	eor := w.hdr.Get(directinvoke.EndOfResponseTrailer)
	if eor == "" {
		eor = "none"
	}
	obs = fmt.Sprintf("n=%d h=%d nw=%d wh=%d eor=%s rc=%s", len(fwd), fnvBytes(fnvOff, fwd), len(w.writes), wh, eor, rc)
	prefix := 0
	if len(fwd) <= len(payload) && bytes.Equal(fwd, payload[:len(fwd)]) {
		prefix = 1
	}
	maxw := 0
	for _, x := range w.writes {
		if len(x) > maxw {
			maxw = len(x)
		}
	}
	rs := 0
	if resetSeen {
		rs = 1
	}
	st0 := 0
	if sr.stalled {
		st0 = 1
	}
	check = fmt.Sprintf("check prefix=%d paylen=%d maxwrite=%d resetseen=%d flushes=%d stalltimeout=%d", prefix, total, maxw, rs, w.flushes, st0)
	return obs, check, false
}

func runSendCase(tw *trace.W, st *drv.Stats, id string, si sendInit, ops []string) bool {
	tw.Case(id)
	tw.Init("%s", si.install())
	h := drv.Fnv(0, fmt.Sprintf("%d%s%s", si.limit, si.mode, si.path))
	nontrivial := false
	for _, op := range ops {
		ws := strings.Fields(op)
		if len(ws) == 0 || ws[0] != "send" {
			continue
		}
		obs, check, hang := doSend(si, ws, st)
		tw.Op("%s", op)
		tw.Obs("%s", obs)
		tw.Comment("%s", check)
		st.Steps++
		eor := kvGet(strings.Fields(obs), "eor")
		st.Inc(si.mode + "/" + si.path + ":" + eor)
		if kvGet(ws, "reset") != "-" && si.mode == "S" {
			st.Inc("with-reset")
		}
		if kvGet(ws, "budget") != "-" {
			st.Inc("with-broken-connection")
		}
		if kvGet(ws, "fail") == "1" {
			st.Inc("with-read-error")
		}
		if eor != "Complete" {
			nontrivial = true
		}
		h = drv.Fnv(h, op+"|"+obs)
		if hang {
			st.Note("SendDirectInvokeResponse did not return within 60 s in case " + id)
			st.Cases++
			return false
		}
	}
	st.Cases++
	st.Mark(h, nontrivial)
	return true
}

func joinInts(xs []int) string {
	if len(xs) == 0 {
		return "-"
	}
	var sb strings.Builder
	for i, x := range xs {
		if i > 0 {
			sb.WriteByte(',')
		}
		sb.WriteString(strconv.Itoa(x))
	}
	return sb.String()
}

func genChunks(r *rng.R, total int) []int {
	if total == 0 {
		return nil
	}
	var out []int
	switch r.Pick([]int{25, 50, 25}) {
	case 0:
		return []int{total}
	case 1:
		cands := []int{1, 2, 7, 100, 1000, 4096, 32767, 32768, 32769, 40000, 70000}
		c := cands[r.Intn(len(cands))]
		for total/c > 1500 {
			c = c*3 + 1
		}
		for total > 0 {
			k := c
			if k > total {
				k = total
			}
			out = append(out, k)
			total -= k
		}
	default:
		maxc := []int{3, 50, 5000, 33000, 80000}[r.Intn(5)]
		for total/maxc > 800 {
			maxc = maxc*3 + 1
		}
		for total > 0 {
			k := 1 + r.Intn(maxc)
			if k > total {
				k = total
			}
			out = append(out, k)
			total -= k
		}
	}
	return out
}

func nReads(sizes []int) int {
	n := 0
	for _, c := range sizes {
		n += (c + 32767) / 32768
	}
	return n
}

func genSendCase(r *rng.R, big bool) (sendInit, []string) {
	si := sendInit{path: "resp"}
	switch r.Pick([]int{50, 35, 15}) {
	case 0:
		si.mode = "B"
	case 1:
		si.mode = "S"
	default:
		si.mode, si.path = "S", "err"
	}
	limits := []int64{0, 1, 2, 10, 100, 1000, 32766, 32767, 32768, 32769, 65535, 65536, 65537, 100000}
	si.limit = limits[r.Intn(len(limits))]
	if si.mode == "S" && r.Chance(3, 10) {
		si.limit = -1
	}
	if big {
		si.limit = interop.MaxPayloadSize
	}
	si.conn = r.Bool()
	rates := []int64{32768, 32769, 100000, 2097152, 67108864, 32768 + int64(r.Intn(1000000))}
	si.rate = rates[r.Intn(len(rates))]
	if si.mode == "B" {
		// junk that the buffered path must not read
		j := []int64{0, 1, -5, 32768, 67108864, 99}
		si.rate, si.burst = j[r.Intn(len(j))], j[r.Intn(len(j))]
	}
	nops := 1 + r.Intn(3)
	var ops []string
	needBurst := 0
	type pend struct {
		seed, total int
		sizes       []int
		fail, wt    bool
		reset, bud  int
		frm, stall  bool
	}
	var ps []pend
	chunkedWrite := si.mode == "S" && si.limit == -1 && !big && r.Chance(1, 12)
	for i := 0; i < nops; i++ {
		p := pend{seed: r.Intn(1000), reset: -1, bud: -1}
		L := int(si.limit)
		switch {
		case big:
			p.total = L - 2 + r.Intn(5)
		case L >= 0 && r.Chance(6, 10):
			p.total = L - 2 + r.Intn(6)
			if p.total < 0 {
				p.total = 0
			}
		case r.Chance(1, 10):
			p.total = 0
		case L > 0 && r.Chance(1, 2):
			p.total = r.Intn(L + 1)
		case L >= 0:
			p.total = 2*L + 5
		default:
			p.total = r.Intn([]int{10, 1000, 40000, 150000}[r.Intn(4)])
		}
		if big {
			p.sizes = genChunksBig(r, p.total)
		} else {
			p.sizes = genChunks(r, p.total)
		}
		p.fail = r.Chance(1, 4)
		if si.mode == "S" && si.limit == -1 && r.Chance(1, 3) {
			p.wt = true
		}
		if chunkedWrite {
			p.wt = true
			p.total = 40000 + r.Intn(30000)
			p.sizes = []int{p.total}
			if r.Bool() {
				p.sizes = []int{100, p.total - 100}
			}
		}
		if r.Chance(15, 100) {
			p.bud = r.Intn(p.total + 3)
		}
		if si.mode == "S" && r.Chance(1, 4) {
			p.reset = r.Intn(nReads(p.sizes) + 2)
		}
		p.frm = si.mode == "B" && r.Chance(1, 5)
		// the runtime's body stalls (instead of continuing) at the read where the reset arrives
		p.stall = p.reset >= 0 && si.conn && si.path == "resp" && !p.wt && r.Bool()
		fw := p.total
		if si.limit >= 0 && fw > int(si.limit)+1 {
			fw = int(si.limit) + 1
		}
		if fw > needBurst {
			needBurst = fw
		}
		ps = append(ps, p)
	}
	if si.mode == "S" {
		// a burst that admits the whole response at once keeps the run independent of the wall clock
		bursts := []int64{32768, 32769, 65536, 1 << 20, 6291456, 67108864}
		var ok []int64
		for _, b := range bursts {
			if b >= int64(needBurst) {
				ok = append(ok, b)
			}
		}
		si.burst = ok[r.Intn(len(ok))]
		if chunkedWrite {
			// a Write larger than the bucket: split into capacity-sized pieces, second piece waits for one tick
			si.burst, si.rate = 32768, 67108864
		}
	}
	for _, p := range ps {
		b := func(x bool) int {
			if x {
				return 1
			}
			return 0
		}
		o := func(x int) string {
			if x < 0 {
				return "-"
			}
			return strconv.Itoa(x)
		}
		ops = append(ops, fmt.Sprintf("send seed=%d chunks=%s fail=%d wt=%d reset=%s budget=%s frm=%d stall=%d", p.seed, joinInts(p.sizes), b(p.fail), b(p.wt), o(p.reset), o(p.bud), b(p.frm), b(p.stall)))
	}
	return si, ops
}

func genChunksBig(r *rng.R, total int) []int {
	c := []int{total, 65536, 1 << 20, 32768}[r.Intn(4)]
	var out []int
	for total > 0 {
		k := c
		if k > total {
			k = total
		}
		out = append(out, k)
		total -= k
	}
	return out
}

func sendCmd(args []string) int {
	fs := flag.NewFlagSet("send", flag.ExitOnError)
	c := drv.CommonFlags(fs)
	big := fs.Bool("big", false, "payloads around the default limit (6 MiB + 100): judged model-free only")
	_ = fs.Parse(args)
	tw, err := trace.Create(c.Out)
	if err != nil {
		fmt.Fprintln(os.Stderr, err)
		return 2
	}
	defer tw.Close()
	st := drv.NewStats()
	defer func() { st.Write(c.Stats) }()
	if c.Replay != "" {
		st.Sample("replay of " + c.Replay)
		for _, rc := range drv.ReadCases(c.Replay) {
			if !runSendCase(tw, st, rc.ID, parseSendInit(rc.Init), rc.OpLines) {
				break
			}
		}
		return 0
	}
	r := rng.New(c.Seed ^ 0x5e9d)
	for k := 0; k < c.Cases; k++ {
		cr := r.Fork()
		si, ops := genSendCase(cr, *big)
		if k < 2 {
			st.Sample(fmt.Sprintf("send case s%d: limit=%d mode=%s path=%s, first: %.120s", k, si.limit, si.mode, si.path, ops[0]))
		}
		if !runSendCase(tw, st, fmt.Sprintf("s%d", k), si, ops) {
			break
		}
	}
	return 0
}
