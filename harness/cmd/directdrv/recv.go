package main

import (
	"context"
	"encoding/base64"
	"flag"
	"fmt"
	"math"
	"net/http/httptest"
	"os"
	"strconv"
	"strings"
	"time"

	"github.com/go-chi/chi"

	"go.amzn.com/lambda/core/directinvoke"
	"go.amzn.com/lambda/interop"
	"go.amzn.com/lambda/metering"
	"verifharness/internal/drv"
	"verifharness/internal/rng"
	"verifharness/internal/trace"
)

func init() { commands["recv"] = recvCmd }

// op texts:
//   junk <max> <B|S> <rate> <burst>                      overwrite the four package variables
//   recv cust=none|ok|bad dl=future|past max=<hex|-> mode=… rate=… burst=… id=… tok=… ver=… tid=… ttok=… tver=…

func setGlobals(max int64, mode interop.InvokeResponseMode, rate, burst int64) {
	directinvoke.MaxDirectResponseSize = max
	directinvoke.InvokeResponseMode = mode
	directinvoke.ResponseBandwidthRate = rate
	directinvoke.ResponseBandwidthBurstSize = burst
}

func showGlobals() string {
	return fmt.Sprintf("%d/%s/%d/%d", directinvoke.MaxDirectResponseSize, modeLetter(directinvoke.InvokeResponseMode),
		directinvoke.ResponseBandwidthRate, directinvoke.ResponseBandwidthBurstSize)
}

var custOK = base64.StdEncoding.EncodeToString([]byte(`{"Cognito-Identity-Id":"id1","Client-Context":"cc"}`))
var custBad = []string{"!!!", base64.StdEncoding.EncodeToString([]byte(`{"Cognito-Identity-Id":`)), base64.StdEncoding.EncodeToString([]byte(`[1,2]`))}

func errName(err error) string {
	switch err {
	case interop.ErrMalformedCustomerHeaders, interop.ErrInvalidMaxPayloadSize, interop.ErrInvalidInvokeResponseMode,
		interop.ErrInvalidResponseBandwidthRate, interop.ErrInvalidResponseBandwidthBurstSize, interop.ErrInvalidInvokeID,
		interop.ErrInvalidReservationToken, interop.ErrInvalidFunctionVersion, interop.ErrReservationExpired:
		return err.Error()
	}
	return "other:" + strings.ReplaceAll(err.Error(), " ", "_")
}

// doRecv runs one request through the real ReceiveDirectInvoke and renders the observation.
func doRecv(ws []string, custVariant int) (obs string, nogl string) {
	r := httptest.NewRequest("POST", "/invoke", strings.NewReader("payload"))
	set := func(h, key string) {
		if v := unhex(kvGet(ws, key)); v != "" {
			r.Header.Set(h, v)
		}
	}
	set(directinvoke.MaxPayloadSizeHeader, "max")
	set(directinvoke.InvokeResponseModeHeader, "mode")
	set(directinvoke.ResponseBandwidthRateHeader, "rate")
	set(directinvoke.ResponseBandwidthBurstSizeHeader, "burst")
	set(directinvoke.InvokeIDHeader, "id")
	set(directinvoke.VersionIDHeader, "ver")
	switch kvGet(ws, "cust") {
	case "ok":
		r.Header.Set(directinvoke.CustomerHeadersHeader, custOK)
	case "bad":
		r.Header.Set(directinvoke.CustomerHeadersHeader, custBad[custVariant%len(custBad)])
	}
	rctx := chi.NewRouteContext()
	rctx.URLParams.Add("reservationtoken", unhex(kvGet(ws, "tok")))
	r = r.WithContext(context.WithValue(r.Context(), chi.RouteCtxKey, rctx))
	tok := interop.Token{
		InvokeID: unhex(kvGet(ws, "tid")), ReservationToken: unhex(kvGet(ws, "ttok")), VersionID: unhex(kvGet(ws, "tver")),
		FunctionTimeout: 3 * time.Second, TraceID: "trace", LambdaSegmentID: "seg",
	}
	if kvGet(ws, "dl") == "past" {
		tok.InvackDeadlineNs = metering.Monotime() - int64(time.Second)
	} else {
		tok.InvackDeadlineNs = metering.Monotime() + int64(time.Hour)
	}
	w := httptest.NewRecorder()
	inv, err := directinvoke.ReceiveDirectInvoke(w, r, tok)
	if err != nil {
		extra := ""
		if inv != nil {
			extra = " invoke-not-nil"
		}
		if et := w.Header().Get(directinvoke.ErrorTypeHeader); et != errName(err) {
			extra += " error-type-header=" + et
		}
		nogl = fmt.Sprintf("err=%s st=%d%s", errName(err), w.Code, extra)
		return nogl + " g=" + showGlobals(), nogl
	}
	// the record handed on + what the response path will read from the package variables
	mode := inv.InvokeResponseMode
	rate, burst, capS, refS := "-", "-", "-", "-"
	extra := ""
	if mode == interop.InvokeResponseModeStreaming {
		rate = strconv.FormatInt(directinvoke.ResponseBandwidthRate, 10)
		burst = strconv.FormatInt(directinvoke.ResponseBandwidthBurstSize, 10)
		bw, cancel, e := directinvoke.NewStreamedResponseWriter(httptest.NewRecorder())
		if e != nil {
			capS, refS = "err", "err"
		} else {
			c, rf, iv := bw.VerifBucket().VerifParams()
			capS, refS = strconv.FormatInt(c, 10), strconv.FormatInt(rf, 10)
			if iv != directinvoke.DefaultRefillIntervalMs*time.Millisecond {
				extra += " interval=" + iv.String()
			}
			cancel()
		}
	}
	if mode != directinvoke.InvokeResponseMode {
		extra += " record-mode-differs-from-variable"
	}
	if inv.ID != tok.InvokeID || inv.ReservationToken != tok.ReservationToken || inv.VersionID != tok.VersionID {
		extra += " accepted-with-token-mismatch"
	}
	if w.Header().Get(directinvoke.ReservationTokenHeader) != tok.ReservationToken || w.Header().Get(directinvoke.InvokeIDHeader) != tok.InvokeID {
		extra += " response-headers-differ"
	}
	nogl = fmt.Sprintf("ok limit=%d mode=%s rate=%s burst=%s cap=%s refill=%s st=%d%s", directinvoke.MaxDirectResponseSize,
		modeLetter(mode), rate, burst, capS, refS, w.Code, extra)
	return nogl + " g=" + showGlobals(), nogl
}

// ---- generators ----

func pickS(r *rng.R, xs []string) string { return xs[r.Intn(len(xs))] }

func genMax(r *rng.R) string {
	switch r.Pick([]int{40, 30, 12, 18}) {
	case 0:
		return ""
	case 1:
		return pickS(r, []string{"-1", "0", "1", "6291556", "6291557", "+5", "007", "-0", "9223372036854775807", "100", "32768"})
	case 2:
		return strconv.Itoa(r.Intn(1 << uint(1+r.Intn(30))))
	}
	return pickS(r, []string{"-2", "abc", "1.5", " 5", "5 ", "9223372036854775808", "-9223372036854775808", "-9223372036854775809",
		"1_000", "0x10", "+", "-", "٣", "1e3", "--1", "+-1", "99999999999999999999999999", "-1 ", "\t-1"})
}

func genMode(r *rng.R) string {
	switch r.Pick([]int{40, 40, 20}) {
	case 0:
		return ""
	case 1:
		return pickS(r, []string{"Buffered", "Streaming", "buffered", "streaming", "STREAMING", "BUFFERED", "sTrEaMiNg", "bUFFERED",
			"ſtreaming", "ſTREAMING"})
	}
	return pickS(r, []string{"stream", "Streaming ", " Streaming", "buffere", "bufferedd", "\xc5treaming", "ſ", "Buffered,Streaming",
		"Ktreaming", "streaminɡ", "Buﬀered", "0", "true", "streaming\x00", "ıstreaming", "Streamıng", "STREAMİNG"})
}

func genRanged(r *rng.R, lo, hi int64) string {
	switch r.Pick([]int{35, 30, 15, 20}) {
	case 0:
		return ""
	case 1:
		return pickS(r, []string{strconv.FormatInt(lo, 10), strconv.FormatInt(hi, 10), strconv.FormatInt(lo+1, 10), strconv.FormatInt(hi-1, 10),
			"+" + strconv.FormatInt(lo, 10), "0" + strconv.FormatInt(lo, 10), "2097152", "6291456", "1000000", "33000"})
	case 2:
		return strconv.FormatInt(lo+int64(r.U64()%uint64(hi-lo+1)), 10)
	}
	return pickS(r, []string{strconv.FormatInt(lo-1, 10), strconv.FormatInt(hi+1, 10), "0", "-1", "1", "abc", "32768.0", " 32768", "3e4",
		"9223372036854775807", "9223372036854775808", "-32768", "32_768", strconv.FormatInt(math.MaxInt32, 10)})
}

func genRecv(r *rng.R) string {
	ids := []string{"i1", "i2", ""}
	toks := []string{"t1", "t2", ""}
	vers := []string{"v1", "$LATEST", ""}
	tid, ttok, tver := pickS(r, ids), pickS(r, toks), pickS(r, vers)
	id, tk, ver := tid, ttok, tver
	if r.Chance(1, 10) {
		id = pickS(r, ids)
	}
	if r.Chance(1, 10) {
		tk = pickS(r, toks)
	}
	if r.Chance(1, 10) {
		ver = pickS(r, vers)
	}
	cust := []string{"none", "none", "ok", "ok", "ok", "bad"}[r.Intn(6)]
	if r.Chance(14, 15) && cust == "bad" {
		cust = "ok"
	}
	dl := "future"
	if r.Chance(1, 12) {
		dl = "past"
	}
	return fmt.Sprintf("recv cust=%s dl=%s max=%s mode=%s rate=%s burst=%s id=%s tok=%s ver=%s tid=%s ttok=%s tver=%s", cust, dl,
		hexOrDash(genMax(r)), hexOrDash(genMode(r)), hexOrDash(genRanged(r, interop.MinResponseBandwidthRate, interop.MaxResponseBandwidthRate)),
		hexOrDash(genRanged(r, interop.MinResponseBandwidthBurstSize, interop.MaxResponseBandwidthBurstSize)),
		hexOrDash(id), hexOrDash(tk), hexOrDash(ver), hexOrDash(tid), hexOrDash(ttok), hexOrDash(tver))
}

func genJunk(r *rng.R) string {
	maxs := []int64{-1, 0, 1, 5, 6291556, 77777, -7}
	vals := []int64{0, 1, 32767, 32768, 40000, 2097152, 6291456, 67108864, 67108865, -5}
	return fmt.Sprintf("junk %d %s %d %d", maxs[r.Intn(len(maxs))], []string{"B", "S"}[r.Intn(2)], vals[r.Intn(len(vals))], vals[r.Intn(len(vals))])
}

func classify(op, obs string) string {
	if strings.HasPrefix(op, "junk") {
		return "junk"
	}
	if strings.HasPrefix(obs, "err=") {
		return strings.Fields(obs)[0]
	}
	if strings.Contains(obs, "mode=S") {
		return "ok:streaming"
	}
	return "ok:buffered"
}

func runRecvCase(tw *trace.W, st *drv.Stats, id string, initLine []string, ops []string) {
	tw.Case(id)
	if len(initLine) == 4 {
		mx, _ := strconv.ParseInt(initLine[0], 10, 64)
		ra, _ := strconv.ParseInt(initLine[2], 10, 64)
		bu, _ := strconv.ParseInt(initLine[3], 10, 64)
		setGlobals(mx, letterMode(initLine[1]), ra, bu)
		tw.Init("%s", strings.Join(initLine, " "))
	} else {
		setGlobals(initMax, initMode, initRate, initBurst)
		tw.Init("")
	}
	h := drv.Fnv(0, strings.Join(initLine, " "))
	nontrivial := false
	lastRecv := ""
	lastNogl := ""
	variant := 0
	for _, op := range ops {
		ws := strings.Fields(op)
		if len(ws) == 0 {
			continue
		}
		var obs string
		switch ws[0] {
		case "junk":
			if len(ws) != 5 {
				continue
			}
			mx, _ := strconv.ParseInt(ws[1], 10, 64)
			ra, _ := strconv.ParseInt(ws[3], 10, 64)
			bu, _ := strconv.ParseInt(ws[4], 10, 64)
			setGlobals(mx, letterMode(ws[2]), ra, bu)
			obs = "-"
		case "recv":
			variant++
			obs, lastNogl = doRecv(ws, variant)
			lastRecv = op
			if len(ops) > 1 {
				nontrivial = true
			}
		default:
			continue
		}
		tw.Op("%s", op)
		tw.Obs("%s", obs)
		st.Steps++
		st.Inc(classify(op, obs))
		h = drv.Fnv(h, op+"|"+obs)
	}
	// model-free history independence: the last request again, on the state of a fresh process
	if lastRecv != "" {
		setGlobals(initMax, initMode, initRate, initBurst)
		_, fresh := doRecv(strings.Fields(lastRecv), variant)
		tw.Comment("fresh %s", fresh)
		tw.Comment("last %s", lastNogl)
	}
	st.Cases++
	st.Mark(h, nontrivial)
}

func recvCmd(args []string) int {
	fs := flag.NewFlagSet("recv", flag.ExitOnError)
	c := drv.CommonFlags(fs)
	maxlen := fs.Int("maxlen", 6, "max requests per case")
	_ = fs.Parse(args)
	tw, err := trace.Create(c.Out)
	if err != nil {
		fmt.Fprintln(os.Stderr, err)
		return 2
	}
	defer tw.Close()
	st := drv.NewStats()
	if c.Replay != "" {
		st.Sample("replay of " + c.Replay)
		for _, rc := range drv.ReadCases(c.Replay) {
			runRecvCase(tw, st, rc.ID, rc.Init, rc.OpLines)
		}
		st.Write(c.Stats)
		return 0
	}
	r := rng.New(c.Seed ^ 0xd17ec7)
	for k := 0; k < c.Cases; k++ {
		cr := r.Fork()
		n := 1 + cr.Intn(*maxlen)
		var ops []string
		for i := 0; i < n; i++ {
			if cr.Chance(1, 6) {
				ops = append(ops, genJunk(cr))
			}
			ops = append(ops, genRecv(cr))
		}
		var initLine []string
		if cr.Chance(1, 4) {
			initLine = strings.Fields(genJunk(cr))[1:]
		}
		if k < 2 {
			st.Sample(fmt.Sprintf("recv case r%d: %d ops, first: %s", k, len(ops), ops[0]))
		}
		runRecvCase(tw, st, fmt.Sprintf("r%d", k), initLine, ops)
	}
	st.Note("each case ends with the last request replayed on the initial values of the package variables (# fresh / # last)")
	st.Write(c.Stats)
	return 0
}
