import Rie.Oracle.Core
import Rie.Oracle.Gate
import Rie.Oracle.Env
import Rie.Oracle.Sanitize
import Rie.Oracle.DirectInvoke
import Rie.Oracle.Supervisor
import Rie.Oracle.Sys

open Rie.Oracle

def models : List (String × Model) :=
  [("gate", gateModel), ("initflow", initFlowModel), ("invokeflow", invokeFlowModel),
   ("thread", threadModel)] ++ envModels ++ sanitizeModels ++ directInvokeModels ++ supervisorModels

def main (args : List String) : IO UInt32 := do
  match args with
  | ["sys"] => runNModel sysModel
  | [name] =>
    match models.lookup name with
    | some m => runModel m
    | none => IO.eprintln s!"unknown model {name}"; return 2
  | _ => IO.eprintln "usage: rie-oracle <model> < trace"; return 2
