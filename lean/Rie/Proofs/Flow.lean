import Rie.Model.Flow
import Rie.Proofs.Gate

namespace Rie.Flow
open Rie.Gate

theorem step_length (f : Flow) (x : FOp) : (step f x).1.gates.length = f.gates.length := by
  unfold step; split <;> simp

theorem step_get_same (f : Flow) (x : FOp) (s : Gate.Sys) (h : f.gates[x.k]? = some s) :
    (step f x).1.gates[x.k]? = some (Gate.step s x.o).1 := by
  unfold step
  rw [h]
  have := (List.getElem?_eq_some_iff.mp h).1
  simp [List.getElem?_set_self this]

theorem step_get_other (f : Flow) (x : FOp) (k : Nat) (h : x.k ≠ k) :
    (step f x).1.gates[k]? = f.gates[k]? := by
  unfold step
  split
  · simp [List.getElem?_set_ne h]
  · rfl

/-- Gates of a flow are independent: the final state of gate `k` is the gate model run on the
    projection of the history to gate `k`. Every per-gate theorem lifts through this. -/
theorem run_proj (f : Flow) (ops : List FOp) (k : Nat) (s : Gate.Sys) (h : f.gates[k]? = some s) :
    (run f ops).gates[k]? = some (Gate.run s (proj k ops)) := by
  induction ops generalizing f s with
  | nil => simpa [run, proj, Gate.run] using h
  | cons x xs ih =>
    simp only [run, List.foldl_cons]
    by_cases hk : x.k = k
    · have h' : f.gates[x.k]? = some s := by rw [hk]; exact h
      have := step_get_same f x s h'
      rw [hk] at this
      have := ih (step f x).1 (Gate.step s x.o).1 this
      simp only [run] at this
      rw [this]
      simp [proj, hk, Gate.run]
    · have : (step f x).1.gates[k]? = some s := by rw [step_get_other f x k hk]; exact h
      have := ih (step f x).1 s this
      simp only [run] at this
      rw [this]
      simp [proj, hk]

end Rie.Flow
