import Rie.Model.RuntimeRelease

/-! Lemmas about the runtime-release model. -/
namespace Rie.Release

def sumLen : List Bytes → Nat
  | [] => 0
  | x :: r => x.length + sumLen r

/-- invariant of the feature loop: accepted bytes + delimiters stay within `availableLength + 1` -/
theorem select_bound (fs : List Bytes) : ∀ (avail : Int) (n : Nat),
    select avail n fs ≠ [] →
    (sumLen (select avail n fs) : Int) + n + (select avail n fs).length ≤ avail + 1 := by
  induction fs with
  | nil => intro avail n h; simp [select] at h
  | cons f fs ih =>
    intro avail n h
    simp only [select] at h ⊢
    split
    · next hc =>
      by_cases he : select (avail - (f.length : Int)) (n + 1) fs = []
      · rw [he]; simp only [sumLen, List.length_cons, List.length_nil]; omega
      · have := ih (avail - (f.length : Int)) (n + 1) he
        simp only [sumLen, List.length_cons]
        omega
    · next hc =>
      rw [if_neg hc] at h
      exact ih avail n h

theorem joinSp_length : ∀ (xs : List Bytes), xs ≠ [] → (joinSp xs).length + 1 = sumLen xs + xs.length
  | [], h => absurd rfl h
  | [x], _ => by simp [joinSp, sumLen]
  | x :: y :: r, _ => by
    have := joinSp_length (y :: r) (by simp)
    simp only [joinSp, sumLen, List.length_append, List.length_cons] at this ⊢
    omega

theorem unknown_length : unknown.length = 7 := rfl

theorem appends_false_createFrom (m : Nat) (rr : Bytes) (fs : List Bytes)
    (h : appends m rr fs = false) : createFrom m rr fs = rr := by
  unfold appends at h
  unfold createFrom
  simp only at h ⊢
  split
  · rfl
  · next heq => rw [heq] at h; simp at h

theorem appends_true_createFrom (m : Nat) (rr : Bytes) (fs : List Bytes)
    (h : appends m rr fs = true) :
    (createFrom m rr fs).length ≤ m ∧ (createFrom m rr fs).getLast? = some 41 ∧
      rr.length < (createFrom m rr fs).length := by
  unfold appends at h
  unfold createFrom
  simp only at h ⊢
  generalize hl : (if rr.length = 0 then unknown.length else rr.length) = l at h ⊢
  have hne : select ((m : Int) - (l : Int) - 3) 0 fs ≠ [] := by
    intro he; rw [he] at h; simp at h
  have hb := select_bound fs ((m : Int) - (l : Int) - 3) 0 hne
  have hj := joinSp_length _ hne
  split
  · next heq => exact absurd heq hne
  · next a b heq =>
    have hpre : (if rr.isEmpty = true then unknown else rr).length = l := by
      cases rr with
      | nil => simpa using hl
      | cons x r => simpa using hl
    refine ⟨?_, ?_, ?_⟩
    · simp only [List.length_append, hpre, List.length_cons, List.length_nil]
      omega
    · rw [List.getLast?_append]; simp
    · simp only [List.length_append, hpre, List.length_cons, List.length_nil]
      have : rr.length ≤ l := by rw [← hl]; split <;> omega
      omega

/-- features never make the value longer than `maxLen`: either nothing is appended (the value
    is returned as it came) or the result is within the bound and closed by `)` -/
theorem createFrom_cases (m : Nat) (rr : Bytes) (fs : List Bytes) :
    (appends m rr fs = false ∧ createFrom m rr fs = rr) ∨
    (appends m rr fs = true ∧ (createFrom m rr fs).length ≤ m ∧
      (createFrom m rr fs).getLast? = some 41 ∧ rr.length < (createFrom m rr fs).length) := by
  cases h : appends m rr fs with
  | false => exact Or.inl ⟨rfl, appends_false_createFrom m rr fs h⟩
  | true => exact Or.inr ⟨rfl, appends_true_createFrom m rr fs h⟩

/-! ### update -/

theorem update_fixed (m : Nat) (stored : Bytes) (r : Req) (h : stored.getLast? = some 41) :
    update m stored r = (stored, false) := by
  have hpos : 0 < stored.length := by
    cases stored with
    | nil => simp at h
    | cons a s => simp
  simp [update, hpos, h]

theorem run_fixed (m : Nat) (stored : Bytes) (rs : List Req) (h : stored.getLast? = some 41) :
    run m stored rs = stored := by
  induction rs with
  | nil => rfl
  | cons r rs ih =>
    simp only [run, List.foldl_cons, update_fixed m stored r h]
    exact ih

/-- one update: the new value is the old one, or a bounded value closed by `)`, or (only from
    the empty context) the first token of the user agent -/
theorem update_cases (m : Nat) (stored : Bytes) (r : Req) :
    (update m stored r).1 = stored ∨
    ((update m stored r).1.length ≤ m ∧ (update m stored r).1.getLast? = some 41) ∨
    (stored = [] ∧ (update m stored r).1 = userAgent r.ua) := by
  unfold update
  split
  · simp only
    split
    · next hc =>
      rcases createFrom_cases m stored (fields (removeParens r.hdr)) with ⟨_, he⟩ | ⟨_, hb, hl, _⟩
      · have : create m stored r.hdr = stored := he
        rw [this] at hc; omega
      · exact Or.inr (Or.inl ⟨hb, hl⟩)
    · exact Or.inl rfl
  · next hz =>
    have hs : stored = [] := by
      cases stored with
      | nil => rfl
      | cons a s => simp at hz
    simp only
    split
    · rcases createFrom_cases m (userAgent r.ua) (fields (removeParens r.hdr)) with ⟨_, he⟩ | ⟨_, hb, hl, _⟩
      · exact Or.inr (Or.inr ⟨hs, he⟩)
      · exact Or.inr (Or.inl ⟨hb, hl⟩)
    · exact Or.inl rfl

/-- over any sequence of requests from the empty context: the stored value is empty, or within
    the bound, or still the bare first user-agent token of one of the requests -/
theorem run_bound (m : Nat) (rs : List Req) : ∀ (stored : Bytes),
    (stored = [] ∨ stored.length ≤ m ∨ ∃ r ∈ rs, stored = userAgent r.ua) →
    (run m stored rs = [] ∨ (run m stored rs).length ≤ m ∨ ∃ r ∈ rs, run m stored rs = userAgent r.ua) := by
  suffices H : ∀ (all : List Req) (rs : List Req) (stored : Bytes), (∀ r ∈ rs, r ∈ all) →
      (stored = [] ∨ stored.length ≤ m ∨ ∃ r ∈ all, stored = userAgent r.ua) →
      (run m stored rs = [] ∨ (run m stored rs).length ≤ m ∨ ∃ r ∈ all, run m stored rs = userAgent r.ua) from
    fun stored h => H rs rs stored (fun _ h => h) h
  intro all rs
  induction rs with
  | nil => intro stored _ h; exact h
  | cons r rs ih =>
    intro stored hsub h
    simp only [run, List.foldl_cons]
    apply ih _ (fun x hx => hsub x (List.mem_cons_of_mem _ hx))
    rcases update_cases m stored r with he | ⟨hb, _⟩ | ⟨_, hu⟩
    · rw [he]; exact h
    · exact Or.inr (Or.inl hb)
    · exact Or.inr (Or.inr ⟨r, hsub r (List.mem_cons_self), hu⟩)

end Rie.Release
