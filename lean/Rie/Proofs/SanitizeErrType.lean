import Rie.Model.ErrType

/-! Lemmas about the byte-level matcher of the error-type pattern. -/
namespace Rie.ErrType

theorem stripPrefix_eq_some (p s x : Bytes) : stripPrefix p s = some x ↔ s = p ++ x := by
  induction p generalizing s with
  | nil => simp [stripPrefix, eq_comm]
  | cons a p ih =>
    cases s with
    | nil => simp [stripPrefix]
    | cons b s =>
      simp only [stripPrefix]
      by_cases h : a = b
      · subst h; simp [ih]
      · simp [h]; intro h'; exact absurd h'.symm h

theorem stripPrefix_isSome (p s : Bytes) : (stripPrefix p s).isSome = true ↔ p <+: s := by
  constructor
  · intro h
    obtain ⟨x, hx⟩ := Option.isSome_iff_exists.mp h
    exact ⟨x, ((stripPrefix_eq_some p s x).mp hx).symm⟩
  · rintro ⟨x, hx⟩
    exact Option.isSome_iff_exists.mpr ⟨x, (stripPrefix_eq_some p s x).mpr hx.symm⟩

theorem isUpper_isAlpha {c : UInt8} (h : isUpper c = true) : isAlpha c = true := by
  simp [isAlpha, h]

theorem matchName_iff (x : Bytes) :
    matchName x = true ↔
      2 ≤ x.length ∧ (∃ c, x.head? = some c ∧ isUpper c = true) ∧ ∀ c ∈ x, isAlpha c = true := by
  match x with
  | [] => simp [matchName]
  | [c] => simp [matchName]
  | c :: d :: rest =>
    simp only [matchName, Bool.and_eq_true, List.all_eq_true, List.length_cons, List.head?_cons,
      Option.some.injEq, List.mem_cons]
    constructor
    · rintro ⟨⟨hc, hd⟩, hr⟩
      refine ⟨by omega, ⟨c, rfl, hc⟩, ?_⟩
      intro e he
      rcases he with rfl | rfl | he
      · exact isUpper_isAlpha hc
      · exact hd
      · exact hr e he
    · rintro ⟨_, ⟨c', hc', hu⟩, hall⟩
      subst hc'
      exact ⟨⟨hu, hall d (Or.inr (Or.inl rfl))⟩, fun e he => hall e (Or.inr (Or.inr he))⟩

theorem matchAfter_iff (p s : Bytes) :
    matchAfter p s = true ↔ ∃ x, s = p ++ x ∧ matchName x = true := by
  unfold matchAfter
  cases h : stripPrefix p s with
  | none =>
    simp only [Bool.false_eq_true, false_iff]
    rintro ⟨x, hx, _⟩
    rw [(stripPrefix_eq_some p s x).mpr hx] at h
    cases h
  | some y =>
    have hy := (stripPrefix_eq_some p s y).mp h
    constructor
    · intro hm; exact ⟨y, hy, hm⟩
    · rintro ⟨x, hx, hm⟩
      have : y = x := by
        have := hy.symm.trans hx
        exact List.append_cancel_left this
      simpa [this] using hm

theorem matchesPattern_iff (s : Bytes) : matchesPattern s = true ↔ IsForm s := by
  simp only [matchesPattern, Bool.or_eq_true, matchAfter_iff, matchName_iff, IsForm]
  constructor
  · rintro (⟨x, hx, h⟩ | ⟨x, hx, h⟩)
    · exact ⟨runtimeDot, x, Or.inl rfl, hx, h⟩
    · exact ⟨functionDot, x, Or.inr rfl, hx, h⟩
  · rintro ⟨p, x, (rfl | rfl), hx, h⟩
    · exact Or.inl ⟨x, hx, h⟩
    · exact Or.inr ⟨x, hx, h⟩

theorem isForm_runtimeUnknown : IsForm runtimeUnknown :=
  (matchesPattern_iff _).mp (by decide)

theorem isForm_functionUnknown : IsForm functionUnknown :=
  (matchesPattern_iff _).mp (by decide)

theorem sanitize_closed (s : Bytes) : IsForm (sanitize s) := by
  unfold sanitize
  split
  · next h => exact (matchesPattern_iff s).mp h
  · split
    · exact isForm_functionUnknown
    · exact isForm_runtimeUnknown

theorem sanitize_identity (s : Bytes) : sanitize s = s ↔ IsForm s := by
  constructor
  · intro h
    have := sanitize_closed s
    rwa [h] at this
  · intro h
    simp [sanitize, (matchesPattern_iff s).mpr h]

theorem sanitize_fallback (s : Bytes) (h : ¬ IsForm s) :
    (functionDot <+: s → sanitize s = functionUnknown) ∧
    (¬ functionDot <+: s → sanitize s = runtimeUnknown) := by
  have hm : matchesPattern s = false := by
    cases hh : matchesPattern s with
    | false => rfl
    | true => exact absurd ((matchesPattern_iff s).mp hh) h
  constructor
  · intro hp
    have : hasFunctionPrefix s = true := (stripPrefix_isSome _ _).mpr hp
    simp [sanitize, hm, this]
  · intro hp
    have : hasFunctionPrefix s = false := by
      cases hh : hasFunctionPrefix s with
      | false => rfl
      | true => exact absurd ((stripPrefix_isSome _ _).mp hh) hp
    simp [sanitize, hm, this]

end Rie.ErrType
