import Rie.Proofs.SysIds

/-!
Whole-run invariant of the reservation (C10, "at most one invocation is in flight"): **the invocation that
holds the reservation is the one admitted last** — its number is the counter minus one. An admission needs
the reservation to be free (`C10_admitted_only_when_free`), takes the counter's value and moves the counter;
every other function of the model leaves the counter and the reservation's number alone (`RE`) or gives the
reservation up (`RK`). So at no time is there a second invocation in flight, and the one there is, is never
an older one coming back.
-/
namespace Rie.Sys
open Rie.SM

/-- the counter and the reservation's number stand -/
abbrev RE (s s' : State) : Prop := s'.nextK = s.nextK ∧ rkf s'.resv = rkf s.resv

theorem RE.of_kk {s s' : State} (h : KK s s') : RE s s' := ⟨h.1, h.2.1⟩
theorem RE.trans' {a b c : State} (h1 : RE a b) (h2 : RE b c) : RE a c := ⟨h2.1.trans h1.1, h2.2.trans h1.2⟩

macro "re_tac" : tactic => `(tactic| (splits <;> simp_all [RE]))

theorem re_sendReply_of {s s' : State} {k : Nat} {b : String} {r : SendRes} (h : sendReply s k b = (s', r)) : RE s s' :=
  RE.of_kk (kk_sendReply_of h)

@[simp] theorem re_invokeReturned (s : State) (ok rr : Bool) (et : String) : RE s (invokeReturned s ok rr et) := by
  unfold invokeReturned
  splits <;> (try have hSR := re_sendReply_of (by assumption)) <;> simp_all [RE]
@[simp] theorem re_invokeFail (s : State) (e : Option CErr) : RE s (invokeFail s e) := by unfold invokeFail; exact re_invokeReturned _ _ _ _
@[simp] theorem re_continueInvoke (s : State) : RE s (continueInvoke s) := by unfold continueInvoke; re_tac
@[simp] theorem re_initFinish (s : State) (ph : Phase) (ok : Bool) (st : String) (e : Option CErr) : RE s (initFinish s ph ok st e) := by
  unfold initFinish; re_tac
@[simp] theorem re_afterReset (s : State) (n : Nat) : RE s (afterReset s n) := by unfold afterReset; simp [RE]
@[simp] theorem re_shutdownAgents (s : State) (k : ShutKind) : RE s (shutdownAgents s k) := by
  unfold shutdownAgents
  dsimp only
  have := kk_foldl_shutdownOne (s.agents.filter (·.ext)) { s with renderer := .shutdown (reasonOf k), awaitingExit := [], agentWaits := [] }
  exact ⟨this.1, this.2.1⟩
@[simp] theorem re_fastInvoke (s : State) (f : Flight) : RE s (fastInvoke s f) := by unfold fastInvoke; re_tac
@[simp] theorem re_handleRestore (s : State) (key : String) : RE s (handleRestore s key) := by unfold handleRestore; re_tac
@[simp] theorem re_restoreFinish (s : State) (e : Option String) : RE s (restoreFinish s e) := by unfold restoreFinish; re_tac

theorem re_launchExtensions (s : State) (ph : Phase) (ps : List String) : RE s (launchExtensions s ph ps) := by
  induction ps generalizing s with
  | nil => unfold launchExtensions; simp [RE]
  | cons p ps ih =>
    unfold launchExtensions
    dsimp only
    splits
    · exact re_initFinish _ _ _ _ _
    · refine RE.trans' ?_ (re_initFinish _ _ _ _ _); simp [RE]
    · refine RE.trans' ?_ (re_initFinish _ _ _ _ _); simp [RE]
    · refine RE.trans' ?_ (ih _); simp [RE]
@[simp] theorem re_startInit (s : State) (ph : Phase) : RE s (startInit s ph) := by
  unfold startInit
  dsimp only
  split
  · refine RE.trans' ?_ (re_initFinish _ _ _ _ _); simp [RE]
  · refine RE.trans' ?_ (re_launchExtensions _ _ _); simp [RE]
@[simp] theorem re_finishShutdown (s : State) (k : ShutKind) (n : Nat) : RE s (finishShutdown s k n) := by
  unfold finishShutdown; re_tac
@[simp] theorem re_shutdownBody (s : State) (k : ShutKind) : RE s (shutdownBody s k) := by unfold shutdownBody; re_tac
@[simp] theorem re_beginShutdown (s : State) (k : ShutKind) : RE s (beginShutdown s k) := by unfold beginShutdown; simp [RE]
@[simp] theorem re_startHandler (s : State) (r : HReq) : RE s (startHandler s r) := by
  cases r <;> (unfold startHandler; re_tac)

def REO (s : State) (o : Option State) : Prop := ∀ s', o = some s' → RE s s'
@[simp] theorem reO_none (s : State) : REO s none := by intro s' h; cases h
@[simp] theorem reO_some (s x : State) : REO s (some x) ↔ RE s x := by
  constructor
  · intro h; exact h x rfl
  · intro h s' e; cases e; exact h

theorem reO_orchResume (s : State) : REO s (orchResume s) := by unfold orchResume; splits <;> simp_all [RE]
theorem reO_restoreResume (s : State) : REO s (restoreResume s) := by unfold restoreResume; splits <;> simp_all [RE]
theorem reO_shutResume (s : State) (n : Nat) : REO s (shutResume s n) := by
  unfold shutResume
  split
  · splits <;> simp_all [RE]
  · dsimp only
    have hw := kk_foldl_waits s.agentWaits (s, [])
    generalize (s.agentWaits.foldl _ (s, [])) = r at hw ⊢
    obtain ⟨s1, still⟩ := r
    dsimp only at hw ⊢
    splits <;> simp_all [RE, KK]
  · splits <;> simp_all [RE]
  · exact reO_none _

/-- the counter stands; the reservation's number stands or the reservation is gone -/
def RK (s s' : State) : Prop := s'.nextK = s.nextK ∧ (rkf s'.resv = rkf s.resv ∨ rkf s'.resv = [])

theorem RK.of_re {s s' : State} (h : RE s s') : RK s s' := ⟨h.1, Or.inl h.2⟩
theorem RK.refl (s : State) : RK s s := ⟨rfl, Or.inl rfl⟩
theorem RK.trans {a b c : State} (h1 : RK a b) (h2 : RK b c) : RK a c := by
  refine ⟨h2.1.trans h1.1, ?_⟩
  rcases h2.2 with h | h
  · rcases h1.2 with g | g
    · exact Or.inl (h.trans g)
    · exact Or.inr (h.trans g)
  · exact Or.inr h
theorem rk_release (s : State) : RK s (release s) := ⟨rfl, Or.inr rfl⟩
theorem rk_resetTail (s : State) (n : Nat) : RK s (resetTail s n) := by
  unfold resetTail
  dsimp only
  splits <;> exact ⟨rfl, Or.inr rfl⟩

def RKO (s : State) (o : Option State) : Prop := ∀ s', o = some s' → RK s s'
theorem rkO_none (s : State) : RKO s none := by intro s' h; cases h
theorem rkO_some (s x : State) : RKO s (some x) ↔ RK s x := by
  constructor
  · intro h; exact h x rfl
  · intro h s' e; cases e; exact h
theorem RKO.of_reO {s : State} {o : Option State} (h : REO s o) : RKO s o := fun s' e => RK.of_re (h s' e)

theorem rkO_flightMove (s : State) (f : Flight) : RKO s (flightMove s f) := by
  unfold flightMove
  splits <;> first
    | exact rkO_none _
    | (rw [rkO_some]; first
        | (apply RK.of_re; simp [RE]; done)
        | exact ⟨rfl, Or.inr rfl⟩)

theorem rkO_orElse' {s : State} {a y : Option State} (ha : RKO s a) (hb : RKO s y) : RKO s (orElse' a fun _ => y) := by
  unfold orElse'
  split
  · rename_i x; intro s' e; cases e; exact ha x rfl
  · exact hb

theorem rkO_platformMove (lifo : Bool) (s : State) : RKO s (platformMove lifo s) := by
  unfold platformMove
  refine rkO_orElse' (RKO.of_reO (reO_orchResume s)) ?_
  refine rkO_orElse' (RKO.of_reO (reO_shutResume s _)) ?_
  refine rkO_orElse' (RKO.of_reO (reO_restoreResume s)) ?_
  split
  · split
    · split
      · rw [rkO_some]; apply RK.of_re; refine RE.trans' ?_ (re_startHandler _ _); simp [RE]
      · exact rkO_none _
    · rw [rkO_some]; apply RK.of_re; refine RE.trans' ?_ (re_startHandler _ _); simp [RE]
  · intro s' hs
    obtain ⟨f, _, hm⟩ := firstSome_spec _ _ _ hs
    exact rkO_flightMove s f s' hm

theorem rkO_progress (v : Nat) (s : State) : RKO s (progress v s) := by
  have hp := fun l => rkO_platformMove l s
  have hw : ∀ l, RKO s (wakeMove l s) := by
    intro l s' hs
    unfold wakeMove orElse' at hs
    split at hs
    · rename_i x hx; cases hs; exact RK.of_re (RE.of_kk (kk_wakeRt hx))
    · exact RK.of_re (RE.of_kk (kk_wakeAgent hs))
  have hk : RKO s (killMove s) := by
    unfold killMove
    split
    · rw [rkO_some]; apply RK.of_re; simp [RE]
    · exact rkO_none _
  have hr : ∀ l, RKO s (renderWoken l s) := fun l s' h => RK.of_re (RE.of_kk (kk_renderWoken h))
  unfold progress
  splits <;> first
    | exact rkO_none _
    | (rw [rkO_some]; apply RK.of_re; refine RE.trans' ?_ (RE.of_kk (kk_watchOne _ _ _)); simp [RE])
    | exact rkO_orElse' (rkO_orElse' (hw _) (rkO_orElse' (hp _) hk)) (hr _)
    | exact rkO_orElse' (rkO_orElse' (hp _) (rkO_orElse' (hw _) hk)) (hr _)
    | exact rkO_orElse' (rkO_orElse' (hp _) (rkO_orElse' hk (hw _))) (hr _)
    | exact rkO_orElse' (hr _) (rkO_orElse' (hw _) (rkO_orElse' (hp _) hk))
    | exact rkO_orElse' (hr _) (rkO_orElse' (hp _) (rkO_orElse' (hw _) hk))
    | exact rkO_orElse' (hr _) (rkO_orElse' (hp _) (rkO_orElse' hk (hw _)))

theorem rk_settle (v n : Nat) (s : State) : RK s (settle v n s) := by
  induction n generalizing v s with
  | zero => exact RK.refl _
  | succ n ih =>
    unfold settle
    split
    · exact RK.refl _
    · rename_i s' hp
      exact RK.trans (rkO_progress v s s' hp) (ih _ s')

/-! ### the invariant -/

/-- the reservation, if any, belongs to the invocation admitted last -/
def RInv (s : State) : Prop := ∀ r, s.resv = some r → r.k + 1 = s.nextK

theorem rinv_of_rk {s s' : State} (h : RK s s') (i : RInv s) : RInv s' := by
  intro r hr
  rw [h.1]
  rcases h.2 with g | g
  · cases hs : s.resv with
    | none => rw [hr, hs] at g; cases g
    | some r0 =>
      rw [hr, hs] at g
      have : r.k = r0.k := by simpa using g
      rw [this]; exact i r0 hs
  · rw [hr] at g; cases g

theorem rinv_applyOp (s : State) (o : Op) (i : RInv s) : RInv (applyOp s o) := by
  cases o with
  | invoke c z h =>
    simp only [applyOp]
    split
    · exact rinv_of_rk (RK.of_re (by simp [RE])) i
    · intro r hr; simp only [Option.some.injEq] at hr; subst hr; simp
  | timer t =>
    simp only [applyOp]
    splits <;> first
      | exact i
      | exact rinv_of_rk (rk_resetTail _ _) (rinv_of_rk (RK.of_re (by simp [RE])) i)
      | exact rinv_of_rk (RK.of_re (by simp [RE])) i
  | _ => (simp only [applyOp]; splits <;> exact rinv_of_rk (RK.of_re (by simp [RE])) i)

theorem rinv_step (v : Nat) (s : State) (o : Op) (i : RInv s) : RInv (step v s o) := by
  unfold step
  exact rinv_of_rk (rk_settle _ _ _) (rinv_applyOp _ o (rinv_of_rk (RK.of_re (by simp [RE])) i))

theorem rinv_run (s : State) (H : List Nat) (ops : List (Nat × Op)) (i : RInv s) : RInv (run s H ops).1 := by
  induction ops generalizing s H with
  | nil => exact i
  | cons x ops ih => obtain ⟨v, o⟩ := x; exact ih _ _ (rinv_step v s o i)

end Rie.Sys
