import Rie.Proofs.SysBarrier

/-!
Whole-run invariant of the SECOND init barrier (C03): no invocation is dispatched before the runtime
and every extension whose registration was accepted have asked for their next event.

Ghost: `Agent.asked` is set exactly when the agent's program walks the init flow's agents-ready gate
*and the gate counts the arrival* (`runAgInstrs`). Invariant `B2Inv`:
* `arr`  — the gate's arrivals = the number of agents with `asked`;
* `wait` — while the orchestrator waits at that gate, registration is closed and the expected count is
  the number of agents;
* `done` — once `initDone` (set only when the orchestrator has passed the gate), registration is
  closed, the count is the number of agents and arrivals = count.
Hence `initDone → every agent has asked` (`all_asked_of_done`). Method as in `SysBarrier`.
-/
namespace Rie.Sys
open Rie.SM

def nasked (s : State) : Nat := (s.agents.filter (·.asked)).length

def orchARof : OrchPC → Option Phase
  | .iAwaitAgentsReady ph => some ph
  | _ => none

theorem orchARof_eq {o : OrchPC} {ph : Phase} : o = .iAwaitAgentsReady ph ↔ orchARof o = some ph := by
  cases o <;> simp [orchARof]

/-- not yet past its first `next`: `Started` or `Registered` -/
def early (a : Agent) : Bool := a.st == .started || a.st == .registered

structure B2Inv (s : State) : Prop where
  arr  : s.initFlow.agentReady.arrived = nasked s
  wait : ∀ ph, s.orch = .iAwaitAgentsReady ph → s.regOn = false ∧ s.initFlow.agentReady.count = s.agents.length
  done : s.initDone = true → s.regOn = false ∧ s.initFlow.agentReady.count = s.agents.length ∧
           s.initFlow.agentReady.arrived = s.initFlow.agentReady.count
  /-- an agent that has not yet made its first `next` has not walked the gate -/
  fresh : ∀ a ∈ s.agents, early a = true → a.asked = false

/-- orchestrator PC, registration switch, init-done flag and the gate's two numbers unchanged -/
abbrev B2E (s s' : State) : Prop :=
  s'.orch = s.orch ∧ s'.regOn = s.regOn ∧ s'.initDone = s.initDone ∧
  s'.initFlow.agentReady.count = s.initFlow.agentReady.count ∧
  s'.initFlow.agentReady.arrived = s.initFlow.agentReady.arrived

theorem b2inv_of_b2e_agents {s s' : State} (h : B2E s s') (ha : s'.agents = s.agents) (i : B2Inv s) : B2Inv s' := by
  obtain ⟨h1, h2, h3, h4, h5⟩ := h
  have hn : nasked s' = nasked s := by unfold nasked; rw [ha]
  refine ⟨by rw [h5, hn]; exact i.arr, ?_, ?_, by rw [ha]; exact i.fresh⟩
  · intro ph hph
    obtain ⟨w1, w2⟩ := i.wait ph (by rw [← h1]; exact hph)
    exact ⟨by rw [h2]; exact w1, by rw [h4, ha]; exact w2⟩
  · intro hd
    obtain ⟨d1, d2, d3⟩ := i.done (by rw [← h3]; exact hd)
    exact ⟨by rw [h2]; exact d1, by rw [h4, ha]; exact d2, by rw [h5, h4]; exact d3⟩

/-- arrivals never exceed the number of agents; when they equal it, every agent has asked -/
theorem nasked_le (s : State) : nasked s ≤ s.agents.length := List.length_filter_le _ _

theorem all_asked_of_count (l : List Agent) (h : (l.filter (·.asked)).length = l.length) : ∀ a ∈ l, a.asked = true := by
  induction l with
  | nil => intro a ha; cases ha
  | cons x xs ih =>
    intro a ha
    simp only [List.filter_cons] at h
    split at h
    · rename_i hx
      simp only [List.length_cons, Nat.add_right_cancel_iff] at h
      rcases List.mem_cons.mp ha with rfl | hm
      · exact hx
      · exact ih h a hm
    · have := List.length_filter_le (fun a : Agent => a.asked) xs
      simp only [List.length_cons] at h
      omega

/-- **init done ⇒ everybody has asked** -/
theorem all_asked_of_done {s : State} (i : B2Inv s) (hd : s.initDone = true) : ∀ a ∈ s.agents, a.asked = true := by
  obtain ⟨_, d2, d3⟩ := i.done hd
  apply all_asked_of_count
  have := i.arr
  unfold nasked at this
  omega

theorem B2E.trans' {a b c : State} (h1 : B2E a b) (h2 : B2E b c) : B2E a c :=
  ⟨h2.1.trans h1.1, h2.2.1.trans h1.2.1, h2.2.2.1.trans h1.2.2.1, h2.2.2.2.1.trans h1.2.2.2.1, h2.2.2.2.2.trans h1.2.2.2.2⟩

macro "b2e_tac" : tactic => `(tactic| (splits <;> simp_all [B2E]))

@[simp] theorem b2e_emit (s : State) (e : String) : B2E s (s.emit e) := ⟨rfl, rfl, rfl, rfl, rfl⟩
@[simp] theorem b2e_emitEv (s : State) (k : EvKind) (r : String) : B2E s (s.emitEv k r) := ⟨rfl, rfl, rfl, rfl, rfl⟩
@[simp] theorem b2e_emitCaller (s : State) (c : Nat) (e b : String) : B2E s (s.emitCaller c e b) := ⟨rfl, rfl, rfl, rfl, rfl⟩
@[simp] theorem b2e_storeFatal (s : State) (t : String) : B2E s (storeFatal s t) := by unfold storeFatal; b2e_tac
@[simp] theorem b2e_cancelFlows (s : State) (e : CErr) : B2E s (cancelFlows s e) := by unfold cancelFlows; splits <;> simp [B2E, Latch.cancel]
@[simp] theorem b2e_cancelInitFlow (s : State) (e : CErr) : B2E s (cancelInitFlow s e) := by simp [B2E, cancelInitFlow, Latch.cancel]
/-- every flow call except the arrival of a registering external extension -/
theorem b2e_flowCall (s : State) (f : FlowCall) (hf : f ≠ .initAgentReady) : B2E s (flowCall s f).1 := by
  cases f <;> first | exact absurd rfl hf | simp [B2E, flowCall, cancelInitFlow, Latch.cancel]
@[simp] theorem b2e_setProc (s : State) (p : Proc) : B2E s (setProc s p) := ⟨rfl, rfl, rfl, rfl, rfl⟩
@[simp] theorem b2e_setAgent (s : State) (a : Agent) : B2E s (setAgent s a) := ⟨rfl, rfl, rfl, rfl, rfl⟩
@[simp] theorem b2e_addPending (s : State) (a c : String) : B2E s (addPending s a c) := by unfold addPending; b2e_tac
@[simp] theorem b2e_answer (s : State) (a c r : String) : B2E s (answer s a c r) := by unfold answer; b2e_tac
@[simp] theorem b2e_reply (s : State) (a c r : String) : B2E s (reply s a c r) := ⟨rfl, rfl, rfl, rfl, rfl⟩
@[simp] theorem b2e_setFlight (s : State) (f : Flight) : B2E s (setFlight s f) := ⟨rfl, rfl, rfl, rfl, rfl⟩
@[simp] theorem b2e_release (s : State) : B2E s (release s) := ⟨rfl, rfl, rfl, rfl, rfl⟩
@[simp] theorem b2e_idsSet (s : State) (n : String) (k : Nat) : B2E s (idsSet s n k) := ⟨rfl, rfl, rfl, rfl, rfl⟩
@[simp] theorem b2e_sendReply (s : State) (k : Nat) (b : String) : B2E s (sendReply s k b).1 := by
  unfold sendReply; splits <;> simp_all [B2E]

theorem b2e_runRtInstrs (s : State) (cur : RtState) (is : List (Instr RtState))
    (hf : FlowCall.initAgentReady ∉ flowsOf is) : B2E s (runRtInstrs s cur is).1 := by
  induction is generalizing s cur with
  | nil => exact ⟨rfl, rfl, rfl, rfl, rfl⟩
  | cons i is ih =>
    cases i with
    | set x => exact ih s x (by simpa [flowsOf] using hf)
    | flow f chk =>
      have hf1 : f ≠ .initAgentReady := by intro e; apply hf; simp [flowsOf, e]
      have hf2 : FlowCall.initAgentReady ∉ flowsOf is := by intro e; apply hf; simp [flowsOf, e]
      simp only [runRtInstrs]
      split
      · exact b2e_flowCall s f hf1
      · exact B2E.trans' (b2e_flowCall s f hf1) (ih _ _ hf2)
    | suspend ok nx => exact ⟨rfl, rfl, rfl, rfl, rfl⟩
    | subscribe es => exact ih s cur (by simpa [flowsOf] using hf)
    | setErrType => exact ih s cur (by simpa [flowsOf] using hf)

/-- table fact: no runtime program makes an external extension's registration arrival -/
theorem rtProg_noAgFlow (st : RtState) (c : RtCall) (is : List (Instr RtState)) (h : rtProg st c = some is) :
    FlowCall.initAgentReady ∉ flowsOf is := by
  cases st <;> cases c <;> simp [rtProg] at h <;> subst h <;> simp [flowsOf]

theorem b2e_runRt_of {s s' : State} {st : RtState} {c : RtCall} {is : List (Instr RtState)} {x : RtState × Err × Option Park}
    (hp : rtProg st c = some is) (h : runRtInstrs s st is = (s', x)) : B2E s s' := by
  have := b2e_runRtInstrs s st is (rtProg_noAgFlow st c is hp); rw [h] at this; exact this
theorem b2e_sendReply_of {s s' : State} {k : Nat} {b : String} {r : SendRes} (h : sendReply s k b = (s', r)) : B2E s s' := by
  have := b2e_sendReply s k b; rw [h] at this; exact this

macro "b2e_tac2" : tactic => `(tactic| (splits <;>
  (try have hSR := b2e_sendReply_of (by assumption)) <;>
  (try have hRT := b2e_runRt_of (by assumption) (by assumption)) <;> simp_all [B2E]))

@[simp] theorem b2e_rtCallBlocking (s : State) (call : String) (c : RtCall) : B2E s (rtCallBlocking s call c) := by
  unfold rtCallBlocking; b2e_tac2
theorem b2e_wakeRt {s s' : State} (h : wakeRt s = some s') : B2E s s' := by
  unfold wakeRt at h; split at h <;> simp at h
  rename_i hrt
  split at h <;> (simp at h; subst h; simp [B2E, hrt])
@[simp] theorem b2e_rtDeliver (s : State) (call : String) (k : Nat) (b : String) (o : Option Nat) : B2E s (rtDeliver s call k b o) := by
  unfold rtDeliver; b2e_tac2
@[simp] theorem b2e_rtResponse (s : State) (idk : Option Nat) (size : Nat) (h : String) (bad : Bool) : B2E s (rtResponse s idk size h bad) := by
  unfold rtResponse; b2e_tac2
@[simp] theorem b2e_rtError (s : State) (idk : Option Nat) (et : String) : B2E s (rtError s idk et) := by
  unfold rtError; b2e_tac2
@[simp] theorem b2e_rtInitError (s : State) (et : String) : B2E s (rtInitError s et) := by
  unfold rtInitError; b2e_tac2
@[simp] theorem b2e_rtRestoreError (s : State) (et : String) : B2E s (rtRestoreError s et) := by
  unfold rtRestoreError; b2e_tac2
@[simp] theorem b2e_rtCreds (s : State) (tok : String) : B2E s (rtCreds s tok) := by unfold rtCreds; b2e_tac

theorem b2e_runAgInstrs (et : String) (s : State) (a : Agent) (is : List (Instr ExtState))
    (hf : FlowCall.initAgentReady ∉ flowsOf is) : B2E s (runAgInstrs et s a is).1 := by
  induction is generalizing s a with
  | nil => exact ⟨rfl, rfl, rfl, rfl, rfl⟩
  | cons i is ih =>
    cases i with
    | set x => exact ih s _ (by simpa [flowsOf] using hf)
    | flow f chk =>
      have hf1 : f ≠ .initAgentReady := by intro e; apply hf; simp [flowsOf, e]
      have hf2 : FlowCall.initAgentReady ∉ flowsOf is := by intro e; apply hf; simp [flowsOf, e]
      simp only [runAgInstrs]
      exact B2E.trans' (b2e_flowCall s f hf1) (ih _ _ hf2)
    | suspend ok nx => exact ⟨rfl, rfl, rfl, rfl, rfl⟩
    | subscribe es => exact ih s _ (by simpa [flowsOf] using hf)
    | setErrType => exact ih s _ (by simpa [flowsOf] using hf)


theorem b2e_foldl_emit {α : Type} (l : List α) (f : α → String) (s : State) : B2E s (l.foldl (fun s a => s.emit (f a)) s) := by
  induction l generalizing s with
  | nil => exact ⟨rfl, rfl, rfl, rfl, rfl⟩
  | cons a l ih => simp only [List.foldl_cons]; exact B2E.trans' (b2e_emit s (f a)) (ih _)

@[simp] theorem b2e_die (s : State) (full st : String) (z : Bool) : B2E s (die s full st z) := by
  unfold die
  split
  · exact ⟨rfl, rfl, rfl, rfl, rfl⟩
  · split
    · exact ⟨rfl, rfl, rfl, rfl, rfl⟩
    · dsimp only
      exact B2E.trans' (b := { (setProc s _).emit _ with pending := _, exitQueue := _ }) ⟨rfl, rfl, rfl, rfl, rfl⟩ (b2e_foldl_emit _ _ _)
@[simp] theorem b2e_supKill (s : State) (full : String) : B2E s (supKill s full) := by unfold supKill; b2e_tac
@[simp] theorem b2e_supTerm (s : State) (full : String) : B2E s (supTerm s full) := by unfold supTerm; b2e_tac
@[simp] theorem b2e_initTailEvents (s : State) (ph : Phase) (st : String) : B2E s (initTailEvents s ph st) := by
  unfold initTailEvents
  dsimp only
  generalize hs1 : (if s.rtDoneReg = true then s.emitEv _ _ else s) = s1
  have h0 : B2E s s1 := by rw [← hs1]; split <;> exact ⟨rfl, rfl, rfl, rfl, rfl⟩
  exact B2E.trans' h0 (B2E.trans' (b2e_foldl_emit _ _ _) ⟨rfl, rfl, rfl, rfl, rfl⟩)
@[simp] theorem b2e_disarm (s : State) : B2E s (disarmShutdownTimers s) := ⟨rfl, rfl, rfl, rfl, rfl⟩
@[simp] theorem b2e_resetTail (s : State) (n : Nat) : B2E s (resetTail s n) := by unfold resetTail; b2e_tac
@[simp] theorem b2e_requestReset (s : State) (r : String) (n : Nat) : B2E s (requestReset s r n) := by
  unfold requestReset
  have := b2e_cancelFlows { s with resv := s.resv.map fun r => { r with resetStarted := true } } .reset
  exact ⟨this.1, this.2.1, this.2.2.1, this.2.2.2.1, this.2.2.2.2⟩
@[simp] theorem b2e_finishFlight (s : State) (f : Flight) (e : String) : B2E s (finishFlight s f e) := ⟨rfl, rfl, rfl, rfl, rfl⟩
@[simp] theorem b2e_fastInvoke (s : State) (f : Flight) : B2E s (fastInvoke s f) := by unfold fastInvoke; b2e_tac
@[simp] theorem b2e_startServerInit (s : State) : B2E s (startServerInit s) := by unfold startServerInit; b2e_tac
@[simp] theorem b2e_restoreDoneEvent (s : State) (ok : Bool) : B2E s (restoreDoneEvent s ok) := ⟨rfl, rfl, rfl, rfl, rfl⟩
@[simp] theorem b2e_handleRestore (s : State) (key : String) : B2E s (handleRestore s key) := by unfold handleRestore; b2e_tac
@[simp] theorem b2e_restoreFinish (s : State) (e : Option String) : B2E s (restoreFinish s e) := by unfold restoreFinish; b2e_tac

def B2EO (s : State) (o : Option State) : Prop := ∀ s', o = some s' → B2E s s'
@[simp] theorem b2eO_none (s : State) : B2EO s none := by intro s' h; cases h
@[simp] theorem b2eO_some (s x : State) : B2EO s (some x) ↔ B2E s x := by
  constructor
  · intro h; exact h x rfl
  · intro h s' e; cases e; exact h
theorem b2eO_flightMove (s : State) (f : Flight) : B2EO s (flightMove s f) := by unfold flightMove; splits <;> simp_all [B2E]
theorem b2eO_restoreResume (s : State) : B2EO s (restoreResume s) := by unfold restoreResume; splits <;> simp_all [B2E]
theorem b2eO_killMove (s : State) : B2EO s (killMove s) := by unfold killMove; splits <;> simp_all [B2E]


/-! ### agent programs -/

/-- table fact: the only program that walks the agents-ready gate of the init flow is the first
    `next` of a registered agent; every other legal program leaves an agent that was past its first
    `next` past it -/
theorem agProg_ask (a : Agent) (c : AgCall) (is : List (Instr ExtState)) (h : agProg a c = some is) :
    (a.st = .registered ∧ is = [.set .ready, .flow .initAgentReady false, .suspend [.ready] .running]) ∨
    (FlowCall.initAgentReady ∉ flowsOf is ∧ (early { a with st := finalSt a.st is } = true → early a = true)) := by
  unfold agProg at h
  split at h
  · cases hst : a.st <;> cases c <;> simp [extProg, hst] at h <;> subst h <;>
      first
        | (left; exact ⟨rfl, rfl⟩)
        | (right; simp [finalSt, flowsOf, early, hst])
  · cases hst : a.st <;> cases c <;> simp [intProgE, hst] at h <;> subst h <;>
      first
        | (left; exact ⟨rfl, rfl⟩)
        | (right; simp [finalSt, flowsOf, early, hst])

theorem runAgInstrs_asked (et : String) (s : State) (a : Agent) (is : List (Instr ExtState))
    (hf : FlowCall.initAgentReady ∉ flowsOf is) : (runAgInstrs et s a is).2.1.asked = a.asked := by
  induction is generalizing s a with
  | nil => rfl
  | cons i is ih =>
    cases i with
    | set x => exact ih s _ (by simpa [flowsOf] using hf)
    | flow f chk =>
      have hf1 : f ≠ .initAgentReady := by intro e; apply hf; simp [flowsOf, e]
      have hf2 : FlowCall.initAgentReady ∉ flowsOf is := by intro e; apply hf; simp [flowsOf, e]
      simp only [runAgInstrs]
      rw [ih _ _ hf2]
      have : (f == FlowCall.initAgentReady) = false := by simpa using hf1
      simp [this]
    | suspend ok nx => rfl
    | subscribe es => exact ih s _ (by simpa [flowsOf] using hf)
    | setErrType => exact ih s _ (by simpa [flowsOf] using hf)

/-- replacing an agent by a successor with the same name and the same `asked`, which is past its first
    `next` if the original was: nothing the invariant looks at changes -/
theorem b2inv_repl_same {s s' : State} (a a' : Agent) (h : B2E s s') (hag : s'.agents = s.agents.map (repl a'))
    (hn : (s.agents.map (·.name)).Nodup) (ha : a ∈ s.agents) (hname : a'.name = a.name)
    (hask : a'.asked = a.asked) (hearly : early a' = true → early a = true) (i : B2Inv s) : B2Inv s' := by
  obtain ⟨h1, h2, h3, h4, h5⟩ := h
  have hl : s'.agents.length = s.agents.length := by rw [hag, List.length_map]
  have hnk : nasked s' = nasked s := by
    unfold nasked; rw [hag]
    exact filter_repl_same s.agents a a' (·.asked) hn ha hname hask
  refine ⟨by rw [h5, hnk]; exact i.arr, ?_, ?_, ?_⟩
  · intro ph hph
    obtain ⟨w1, w2⟩ := i.wait ph (by rw [← h1]; exact hph)
    exact ⟨by rw [h2]; exact w1, by rw [h4, hl]; exact w2⟩
  · intro hd
    obtain ⟨d1, d2, d3⟩ := i.done (by rw [← h3]; exact hd)
    exact ⟨by rw [h2]; exact d1, by rw [h4, hl]; exact d2, by rw [h5, h4]; exact d3⟩
  · intro b hb hbe
    rw [hag] at hb
    obtain ⟨x, hx, rfl⟩ := List.mem_map.mp hb
    unfold repl at hbe ⊢
    split
    · rename_i hxn
      simp only [hxn, ↓reduceIte] at hbe
      rw [hask]; exact i.fresh a ha (hearly hbe)
    · rename_i hxn
      simp only [hxn] at hbe
      exact i.fresh x hx hbe

theorem b2inv_agStep (s : State) (a a' : Agent) (c : AgCall) (is : List (Instr ExtState)) (et : String)
    (hA : AInv s) (hB : B2Inv s) (ha : a ∈ s.agents) (hp : agProg a c = some is)
    (hn' : a'.name = a.name) (hs' : a'.st = finalSt a.st is) (hk' : a'.asked = (runAgInstrs et s a is).2.1.asked) :
    B2Inv (setAgent (runAgInstrs et s a is).1 a') := by
  have hag : (runAgInstrs et s a is).1.agents = s.agents := runAgInstrs_agents et s a is
  rcases agProg_ask a c is hp with ⟨hst, his⟩ | ⟨hnf, hearly⟩
  · -- the first `next` of a registered agent
    subst his
    have hfresh : a.asked = false := hB.fresh a ha (by simp [early, hst])
    have hst' : a'.st = .ready := by rw [hs']; rfl
    have hne' : early a' = false := by simp [early, hst']
    by_cases hw : (s.initFlow.agentReady.arrived == s.initFlow.agentReady.count) = true
    · -- the gate is complete: the arrival is refused, nothing is counted
      have hask : a'.asked = a.asked := by
        rw [hk']; simp [runAgInstrs, flowCall, Latch.walk, hw]
      have hbe : B2E s (setAgent (runAgInstrs et s a [Instr.set ExtState.ready, Instr.flow FlowCall.initAgentReady false, Instr.suspend [ExtState.ready] ExtState.running]).1 a') := by
        simp [B2E, runAgInstrs, flowCall, Latch.walk, hw, setAgent]
      exact b2inv_repl_same a a' hbe (by rw [setAgent_agents, hag]) hA.nodup ha hn' hask (by rw [hne']; intro e; cases e) hB
    · -- the arrival is counted
      have hw' : (s.initFlow.agentReady.arrived == s.initFlow.agentReady.count) = false := by simpa using hw
      have hask : a'.asked = true := by
        rw [hk']; simp [runAgInstrs, flowCall, Latch.walk, hw']
      have hgate : (runAgInstrs et s a [Instr.set ExtState.ready, Instr.flow FlowCall.initAgentReady false, Instr.suspend [ExtState.ready] ExtState.running]).1.initFlow.agentReady
          = { s.initFlow.agentReady with arrived := s.initFlow.agentReady.arrived + 1 } := by
        simp [runAgInstrs, flowCall, Latch.walk, hw']
      have horch : (runAgInstrs et s a [Instr.set ExtState.ready, Instr.flow FlowCall.initAgentReady false, Instr.suspend [ExtState.ready] ExtState.running]).1.orch = s.orch := by
        simp [runAgInstrs, flowCall]
      have hreg : (runAgInstrs et s a [Instr.set ExtState.ready, Instr.flow FlowCall.initAgentReady false, Instr.suspend [ExtState.ready] ExtState.running]).1.regOn = s.regOn := by
        simp [runAgInstrs, flowCall]
      have hdone : (runAgInstrs et s a [Instr.set ExtState.ready, Instr.flow FlowCall.initAgentReady false, Instr.suspend [ExtState.ready] ExtState.running]).1.initDone = s.initDone := by
        simp [runAgInstrs, flowCall]
      generalize (runAgInstrs et s a [Instr.set ExtState.ready, Instr.flow FlowCall.initAgentReady false, Instr.suspend [ExtState.ready] ExtState.running]).1 = s1 at hag hgate horch hreg hdone ⊢
      have hl : (setAgent s1 a').agents.length = s.agents.length := by rw [setAgent_agents, hag, List.length_map]
      have hnk : nasked (setAgent s1 a') = nasked s + 1 := by
        unfold nasked; rw [setAgent_agents, hag]
        exact filter_repl_gain s.agents a a' (·.asked) hA.nodup ha hn' hfresh hask
      have e2 : (setAgent s1 a').initFlow.agentReady = { s.initFlow.agentReady with arrived := s.initFlow.agentReady.arrived + 1 } := hgate
      have e3 : (setAgent s1 a').orch = s.orch := horch
      have e4 : (setAgent s1 a').regOn = s.regOn := hreg
      have e5 : (setAgent s1 a').initDone = s.initDone := hdone
      refine ⟨?_, ?_, ?_, ?_⟩
      · rw [hnk, e2]; simp [hB.arr]
      · intro ph hph
        obtain ⟨w1, w2⟩ := hB.wait ph (by rw [← e3]; exact hph)
        exact ⟨by rw [e4]; exact w1, by rw [e2, hl]; exact w2⟩
      · intro hd
        have hall := all_asked_of_done hB (by rw [← e5]; exact hd)
        rw [hall a ha] at hfresh; cases hfresh
      · intro b hb hbe
        rw [setAgent_agents, hag] at hb
        obtain ⟨x, hx, rfl⟩ := List.mem_map.mp hb
        unfold repl at hbe ⊢
        split
        · rename_i hxn
          simp only [hxn, ↓reduceIte] at hbe
          rw [hne'] at hbe; cases hbe
        · rename_i hxn
          simp only [hxn] at hbe
          exact hB.fresh x hx hbe
  · -- no arrival
    have hbe := b2e_runAgInstrs et s a is hnf
    have hask : a'.asked = a.asked := by rw [hk']; exact runAgInstrs_asked et s a is hnf
    refine b2inv_repl_same a a' (B2E.trans' hbe (b2e_setAgent _ a')) (by rw [setAgent_agents, hag]) hA.nodup ha hn' hask ?_ hB
    intro he
    apply hearly
    simpa [early, hs'] using he

/-! ### the Extensions API handlers -/

theorem b2inv_wrap {s s' : State} (h : B2E s s') (ha : s'.agents = s.agents) (i : B2Inv s) : B2Inv s' := b2inv_of_b2e_agents h ha i

/-- a new agent (not yet asked) is appended while registration is open -/
theorem b2inv_append (s : State) (a : Agent) (hreg : s.regOn = true) (hask : a.asked = false) (i : B2Inv s) :
    B2Inv { s with agents := s.agents ++ [a] } := by
  have hnk : nasked { s with agents := s.agents ++ [a] } = nasked s := by
    unfold nasked
    show ((s.agents ++ [a]).filter _).length = _
    simp [List.filter_append, hask]
  refine ⟨by rw [hnk]; exact i.arr, ?_, ?_, ?_⟩
  · intro ph hph
    have := (i.wait ph hph).1
    rw [hreg] at this; cases this
  · intro hd
    have := (i.done hd).1
    rw [hreg] at this; cases this
  · intro b hb hbe
    rcases List.mem_append.mp hb with h | h
    · exact i.fresh b h hbe
    · have : b = a := by simpa using h
      rw [this]; exact hask

theorem b2inv_agRegister (s : State) (n : String) (es : List Ev) (v : String) (hA : AInv s) (hB : B2Inv s) : B2Inv (agRegister s n es v) := by
  unfold agRegister
  split
  · exact b2inv_wrap (b2e_reply _ _ _ _) rfl hB
  · split
    · exact b2inv_wrap (b2e_reply _ _ _ _) rfl hB
    · split
      · rename_i a hfa
        have ha : a ∈ s.agents := List.mem_of_find?_eq_some hfa
        split
        · exact b2inv_wrap (b2e_reply _ _ _ _) rfl hB
        · split
          · exact b2inv_wrap (b2e_reply _ _ _ _) rfl hB
          · rename_i is hp
            dsimp only
            have hst := runAgInstrs_st "" s a is
            have hnm := runAgInstrs_name "" s a is
            have hstep := b2inv_agStep s a (runAgInstrs "" s a is).2.1 (.register es) is "" hA hB ha hp hnm hst.1 rfl
            exact b2inv_wrap (B2E.trans' (b2e_idsSet _ _ _) (b2e_reply _ _ _ _)) rfl hstep
      · split
        · exact b2inv_wrap (b2e_reply _ _ _ _) rfl hB
        · split
          · exact b2inv_wrap (b2e_reply _ _ _ _) rfl hB
          · rename_i hreg
            have hreg' : s.regOn = true := by simpa using hreg
            split
            · exact b2inv_wrap (b2e_reply _ _ _ _) rfl hB
            · split
              · exact b2inv_wrap (b2e_reply _ _ _ _) rfl hB
              · dsimp only
                split
                · apply b2inv_wrap (b2e_reply _ _ _ _) rfl
                  exact b2inv_append { s with nextSerial := s.nextSerial + 1 } _ hreg' rfl (b2inv_wrap (s := s) ⟨rfl, rfl, rfl, rfl, rfl⟩ rfl hB)
                · rename_i is hp
                  apply b2inv_wrap (B2E.trans' (b2e_idsSet _ _ _) (b2e_reply _ _ _ _)) rfl
                  have hnf : FlowCall.initAgentReady ∉ flowsOf is := by
                    rcases agProg_ask _ _ is hp with ⟨hst, _⟩ | ⟨h, _⟩
                    · cases hst
                    · exact h
                  have hbe := b2e_runAgInstrs "" { s with nextSerial := s.nextSerial + 1 } { name := n, ext := false, serial := s.nextSerial } is hnf
                  have hag := runAgInstrs_agents "" { s with nextSerial := s.nextSerial + 1 } { name := n, ext := false, serial := s.nextSerial } is
                  have hask := runAgInstrs_asked "" { s with nextSerial := s.nextSerial + 1 } { name := n, ext := false, serial := s.nextSerial } is hnf
                  have h1 : B2Inv (runAgInstrs "" { s with nextSerial := s.nextSerial + 1 } { name := n, ext := false, serial := s.nextSerial } is).1 :=
                    b2inv_wrap (B2E.trans' (a := s) ⟨rfl, rfl, rfl, rfl, rfl⟩ hbe) hag hB
                  have hreg1 : (runAgInstrs "" { s with nextSerial := s.nextSerial + 1 } { name := n, ext := false, serial := s.nextSerial } is).1.regOn = true := by
                    rw [hbe.2.1]; exact hreg'
                  have := b2inv_append _ _ hreg1 hask h1
                  rw [hag] at this ⊢
                  exact this

theorem b2inv_agNext (s : State) (n m : String) (hA : AInv s) (hB : B2Inv s) : B2Inv (agNext s n m) := by
  unfold agNext
  split
  · exact b2inv_wrap (b2e_reply _ _ _ _) rfl hB
  · rename_i a hres
    have ha := resolveId_mem hres
    split
    · exact b2inv_wrap (b2e_reply _ _ _ _) rfl hB
    · rename_i is hp
      dsimp only
      have hst := runAgInstrs_st "" s a is
      have hnm := runAgInstrs_name "" s a is
      split
      · exact b2inv_wrap (b2e_addPending _ _ _) (by simp) (b2inv_agStep s a _ .ready is "" hA hB ha hp hnm hst.1 rfl)
      · exact b2inv_wrap (b2e_reply _ _ _ _) rfl (b2inv_agStep s a _ .ready is "" hA hB ha hp hnm hst.1 rfl)

theorem b2inv_agReport (s : State) (n c e m : String) (hA : AInv s) (hB : B2Inv s) : B2Inv (agReport s n c e m) := by
  unfold agReport
  split
  · exact b2inv_wrap (b2e_reply _ _ _ _) rfl hB
  · rename_i a hres
    have ha := resolveId_mem hres
    split
    · exact b2inv_wrap (b2e_reply _ _ _ _) rfl hB
    · dsimp only
      split
      · exact b2inv_wrap (b2e_reply _ _ _ _) rfl hB
      · rename_i is hp
        have hst := runAgInstrs_st e s a is
        have hnm := runAgInstrs_name e s a is
        exact b2inv_wrap (B2E.trans' (b2e_storeFatal _ _) (b2e_reply _ _ _ _)) (by simp)
          (b2inv_agStep s a _ _ is e hA hB ha hp hnm hst.1 rfl)

theorem b2inv_renderWoken (l : Bool) (s : State) (hA : AInv s) (hB : B2Inv s) : ∀ s', renderWoken l s = some s' → B2Inv s' := by
  intro s' h
  unfold renderWoken at h
  split at h
  · cases h
  · rename_i a hf
    have ha : a ∈ s.agents := pickAgent_mem hf
    cases h
    apply b2inv_wrap (b2e_answer _ _ _ _) (by simp)
    exact b2inv_repl_same a _ (b2e_setAgent _ _) (setAgent_agents _ _) hA.nodup ha rfl rfl (by simp [early]) hB

theorem b2inv_wakeAgent (l : Bool) (s : State) (hA : AInv s) (hB : B2Inv s) : ∀ s', wakeAgent l s = some s' → B2Inv s' := by
  intro s' h
  unfold wakeAgent at h
  split at h
  · cases h
  · rename_i a hf
    have ha : a ∈ s.agents := pickAgent_mem hf
    dsimp only at h
    split at h
    · rename_i hst
      have hr : a.st = .ready := by simpa using hst
      cases h
      exact b2inv_repl_same a _ (b2e_setAgent _ _) (setAgent_agents _ _) hA.nodup ha rfl rfl (by simp [early]) hB
    · cases h
      apply b2inv_wrap (b2e_answer _ _ _ _) (by simp)
      exact b2inv_repl_same a _ (b2e_setAgent _ _) (setAgent_agents _ _) hA.nodup ha rfl rfl (by simp [early]) hB

/-! ### the orchestrator -/

/-- (asked, early) per agent: all the invariant needs of the agent list -/
def aview (l : List Agent) : List (Bool × Bool) := l.map fun a => (a.asked, early a)

theorem aview_len {l l' : List Agent} (h : aview l' = aview l) : l'.length = l.length := by
  have := congrArg List.length h; simpa [aview] using this
theorem aview_nasked {l l' : List Agent} (h : aview l' = aview l) : (l'.filter (·.asked)).length = (l.filter (·.asked)).length := by
  have key : ∀ m : List Agent, (m.filter (·.asked)).length = ((aview m).filter (·.1)).length := by
    intro m; induction m with
    | nil => rfl
    | cons x xs ih => simp only [aview, List.map_cons, List.filter_cons] at *; split <;> simp_all
  rw [key, key, h]
theorem aview_fresh {l l' : List Agent} (h : aview l' = aview l) (hf : ∀ a ∈ l, early a = true → a.asked = false) :
    ∀ a ∈ l', early a = true → a.asked = false := by
  intro a ha he
  have hm : (a.asked, early a) ∈ aview l' := List.mem_map_of_mem ha
  rw [h] at hm
  obtain ⟨b, hb, hbe⟩ := List.mem_map.mp hm
  have h1 : b.asked = a.asked := congrArg Prod.fst hbe
  have h2 : early b = early a := congrArg Prod.snd hbe
  rw [← h1]; exact hf b hb (by rw [h2]; exact he)

/-- the orchestrator PC changes to one that does not wait at the agents-ready gate (or stays), nothing
    else the invariant looks at changes -/
theorem b2inv_of_b2eo {s s' : State} (ho : orchARof s'.orch = none ∨ s'.orch = s.orch) (hr : s'.regOn = s.regOn)
    (hd : s'.initDone = s.initDone) (hc : s'.initFlow.agentReady.count = s.initFlow.agentReady.count)
    (ha : s'.initFlow.agentReady.arrived = s.initFlow.agentReady.arrived) (hag : aview s'.agents = aview s.agents)
    (i : B2Inv s) : B2Inv s' := by
  have hl := aview_len hag
  have hn : nasked s' = nasked s := aview_nasked hag
  refine ⟨by rw [ha, hn]; exact i.arr, ?_, ?_, aview_fresh hag i.fresh⟩
  · intro ph hph
    rcases ho with h | h
    · have := orchARof_eq.mp hph; rw [h] at this; cases this
    · obtain ⟨w1, w2⟩ := i.wait ph (by rw [← h]; exact hph)
      exact ⟨by rw [hr]; exact w1, by rw [hc, hl]; exact w2⟩
  · intro hdd
    obtain ⟨d1, d2, d3⟩ := i.done (by rw [← hd]; exact hdd)
    exact ⟨by rw [hr]; exact d1, by rw [hc, hl]; exact d2, by rw [ha, hc]; exact d3⟩

theorem aview_map_flag (l : List Agent) (c : Agent → Bool) : aview (l.map fun a => if c a then { a with flag := true } else a) = aview l := by
  unfold aview; rw [List.map_map]; apply List.map_congr_left; intro a _
  simp only [Function.comp]; split <;> rfl

theorem b2inv_invokeReturned (s : State) (ok rr : Bool) (et : String) (i : B2Inv s) : B2Inv (invokeReturned s ok rr et) := by
  unfold invokeReturned
  splits <;> (refine b2inv_of_b2eo (Or.inl ?_) ?_ ?_ ?_ ?_ ?_ i <;> simp [orchARof])

theorem b2inv_invokeFail (s : State) (e : Option CErr) (i : B2Inv s) : B2Inv (invokeFail s e) := by
  unfold invokeFail; exact b2inv_invokeReturned _ _ _ _ i

theorem b2inv_continueInvoke (s : State) (i : B2Inv s) : B2Inv (continueInvoke s) := by
  unfold continueInvoke
  splits
  · refine b2inv_of_b2eo (Or.inl ?_) ?_ ?_ ?_ ?_ ?_ i <;> simp [orchARof]
  · apply b2inv_invokeFail
    refine b2inv_of_b2eo (Or.inr ?_) ?_ ?_ ?_ ?_ ?_ i <;> simp
  · refine b2inv_of_b2eo (Or.inl ?_) ?_ ?_ ?_ ?_ ?_ i <;> first | exact aview_map_flag _ _ | simp [orchARof]

theorem b2inv_initFinish (s : State) (ph : Phase) (ok : Bool) (st : String) (e : Option CErr) (i : B2Inv s) : B2Inv (initFinish s ph ok st e) := by
  have h0 := b2e_initTailEvents s ph st
  have ha0 := initTailEvents_agents s ph st
  unfold initFinish
  dsimp only
  splits
  · refine b2inv_of_b2eo (Or.inl ?_) ?_ ?_ ?_ ?_ ?_ i <;> simp_all [orchARof, B2E]
  · refine b2inv_of_b2eo (Or.inl ?_) ?_ ?_ ?_ ?_ ?_ i <;> simp_all [orchARof, B2E]
  · apply b2inv_continueInvoke
    refine b2inv_of_b2eo (Or.inr ?_) ?_ ?_ ?_ ?_ ?_ i <;> simp_all [B2E]
  · apply b2inv_invokeFail
    refine b2inv_of_b2eo (Or.inr ?_) ?_ ?_ ?_ ?_ ?_ i <;> simp_all [B2E]
  · refine b2inv_of_b2eo (Or.inl ?_) ?_ ?_ ?_ ?_ ?_ i <;> simp_all [orchARof, B2E]

/-! ### launching the extensions -/

theorem b2inv_launchExtensions (s : State) (ph : Phase) (ps : List String) (hB : B2Inv s) (hnw : orchARof s.orch = none) :
    B2Inv (launchExtensions s ph ps) := by
  induction ps generalizing s with
  | nil =>
    show B2Inv { s with orch := .iAwaitRegistered ph }
    refine b2inv_of_b2eo (Or.inl ?_) ?_ ?_ ?_ ?_ ?_ hB <;> first | rfl | simp [orchARof]
  | cons p ps ih =>
    unfold launchExtensions
    split
    · exact b2inv_initFinish _ _ _ _ _ hB
    · rename_i hcond
      have hreg : s.regOn = true := by
        cases hr : s.regOn
        · simp [hr] at hcond
        · rfl
      have hnot : p ∉ s.agents.map (·.name) := by
        apply findAgent_none_notMem
        cases hf : (findAgent s p).isSome
        · rfl
        · simp [hf] at hcond
      dsimp only
      have happ : ∀ a : Agent, a.asked = false → B2Inv { s with agents := s.agents ++ [a], nextSerial := s.nextSerial + 1 } := by
        intro a hk
        have := b2inv_append { s with nextSerial := s.nextSerial + 1 } a hreg hk (b2inv_wrap (s := s) ⟨rfl, rfl, rfl, rfl, rfl⟩ rfl hB)
        exact this
      split
      · apply b2inv_initFinish
        apply b2inv_wrap (b2e_storeFatal _ _) (by simp)
        have hrepl : (setAgent { s with agents := s.agents ++ [{ name := p, ext := true, serial := s.nextSerial }], nextSerial := s.nextSerial + 1 }
            { name := p, ext := true, st := .launchError, errSet := true, errType := "TooManyExtensions", serial := s.nextSerial }).agents
            = s.agents ++ [{ name := p, ext := true, st := .launchError, errSet := true, errType := "TooManyExtensions", serial := s.nextSerial }] :=
          map_replace_last s.agents { name := p, ext := true, serial := s.nextSerial } _ hnot rfl
        have := happ { name := p, ext := true, st := .launchError, errSet := true, errType := "TooManyExtensions", serial := s.nextSerial } rfl
        refine b2inv_of_b2eo ?_ ?_ ?_ ?_ ?_ ?_ this <;> first
          | exact Or.inr rfl
          | (show aview (setAgent _ _).agents = _; rw [hrepl])
          | rfl
      · split
        · apply b2inv_initFinish
          apply b2inv_wrap (b2e_storeFatal _ _) (by simp)
          apply b2inv_wrap (b2e_emit _ _) rfl
          have hrepl : (setAgent { s with agents := s.agents ++ [{ name := p, ext := true, serial := s.nextSerial }], nextSerial := s.nextSerial + 1 }
              { name := p, ext := true, st := .launchError, errSet := true, errType := "UnknownError", serial := s.nextSerial }).agents
              = s.agents ++ [{ name := p, ext := true, st := .launchError, errSet := true, errType := "UnknownError", serial := s.nextSerial }] :=
            map_replace_last s.agents { name := p, ext := true, serial := s.nextSerial } _ hnot rfl
          have := happ { name := p, ext := true, st := .launchError, errSet := true, errType := "UnknownError", serial := s.nextSerial } rfl
          refine b2inv_of_b2eo ?_ ?_ ?_ ?_ ?_ ?_ this <;> first
            | exact Or.inr rfl
            | (show aview (setAgent _ _).agents = _; rw [hrepl])
            | rfl
        · apply ih
          · apply b2inv_wrap (b2e_emit _ _) rfl
            have := happ { name := p, ext := true, serial := s.nextSerial } rfl
            refine b2inv_of_b2eo ?_ ?_ ?_ ?_ ?_ ?_ this <;> first | exact Or.inr rfl | rfl
          · exact hnw

theorem b2inv_startInit (s : State) (ph : Phase) (hB : B2Inv s) (hnw : orchARof s.orch = none) : B2Inv (startInit s ph) := by
  unfold startInit
  dsimp only
  splits
  · apply b2inv_initFinish
    refine b2inv_of_b2eo (Or.inr ?_) ?_ ?_ ?_ ?_ ?_ hB <;> simp [State.emit]
  · apply b2inv_launchExtensions
    · refine b2inv_of_b2eo (Or.inr ?_) ?_ ?_ ?_ ?_ ?_ hB <;> simp [State.emit]
    · simpa [State.emit] using hnw

def B2InvO (o : Option State) : Prop := ∀ s', o = some s' → B2Inv s'
@[simp] theorem b2invO_none : B2InvO none := by intro s' h; cases h
@[simp] theorem b2invO_some (x : State) : B2InvO (some x) ↔ B2Inv x := by
  constructor
  · intro h; exact h x rfl
  · intro h s' e; cases e; exact h

/-- **Passing the agents-ready gate** (and closing registration before it). -/
theorem b2invO_orchResume (s : State) (hB : B2Inv s) : B2InvO (orchResume s) := by
  unfold orchResume
  split
  · exact b2invO_none
  · -- waiting at the registration gate: not this barrier
    dsimp only
    splits <;> first
      | exact b2invO_none
      | (rw [b2invO_some]; first
          | exact b2inv_initFinish _ _ _ _ _ hB
          | (refine b2inv_of_b2eo (Or.inl ?_) ?_ ?_ ?_ ?_ ?_ hB <;> first | rfl | simp [orchARof, State.emit]))
  · -- the runtime has asked for its first event: registration is closed, the gate expects every agent
    rename_i ph horch
    dsimp only
    split
    · exact b2invO_none
    · split
      · rw [b2invO_some]; exact b2inv_initFinish _ _ _ _ _ hB
      · -- registration was open until now: the init is not done, nobody waits at the agents gate
        have hle : ¬ (s.agents.length < s.initFlow.agentReady.arrived) := by
          have := hB.arr; have := nasked_le s; omega
        have hB1 : B2Inv { s with regOn := false } := by
          refine ⟨hB.arr, ?_, ?_, hB.fresh⟩
          · intro ph' hph'
            have : s.orch = .iAwaitAgentsReady ph' := hph'
            rw [horch] at this; cases this
          · intro hd
            obtain ⟨d1, d2, d3⟩ := hB.done hd
            exact ⟨rfl, d2, d3⟩
        split
        · rename_i hfail
          simp [Latch.setCount, hle] at hfail
        · rw [b2invO_some]
          refine ⟨?_, ?_, ?_, hB.fresh⟩
          · show (Latch.setCount _ _).1.arrived = _
            simp only [Latch.setCount, hle, ↓reduceIte]
            exact hB.arr
          · intro ph' _
            exact ⟨rfl, by show (Latch.setCount _ _).1.count = _; simp [Latch.setCount, hle]⟩
          · intro hd
            obtain ⟨_, d2, d3⟩ := hB.done hd
            refine ⟨rfl, by show (Latch.setCount _ _).1.count = _; simp [Latch.setCount, hle], ?_⟩
            show (Latch.setCount _ _).1.arrived = (Latch.setCount _ _).1.count
            simp only [Latch.setCount, hle, ↓reduceIte]
            rw [d3, d2]
  · -- waiting at the agents-ready gate
    rename_i ph horch
    dsimp only
    split
    · exact b2invO_none
    · rename_i hopen
      split
      · rw [b2invO_some]; exact b2inv_initFinish _ _ _ _ _ hB
      · rename_i hnc
        rw [b2invO_some]
        apply b2inv_initFinish
        obtain ⟨w1, w2⟩ := hB.wait ph horch
        have harr : s.initFlow.agentReady.arrived = s.initFlow.agentReady.count := by
          have : s.initFlow.agentReady.isOpen = true := by simpa using hopen
          unfold Latch.isOpen at this
          have hc : s.initFlow.agentReady.canceled = false := by simpa using hnc
          simpa [hc] using this
        exact ⟨hB.arr, fun ph' hph' => hB.wait ph' hph', fun _ => ⟨w1, w2, harr⟩, hB.fresh⟩
  all_goals (
    splits <;> first
      | exact b2invO_none
      | (rw [b2invO_some]; first
          | exact b2inv_invokeFail _ _ hB
          | (apply b2inv_invokeReturned; refine b2inv_of_b2eo (Or.inr ?_) ?_ ?_ ?_ ?_ ?_ hB <;> first | rfl | simp [State.emit])
          | exact b2inv_invokeReturned _ _ _ _ hB
          | (refine b2inv_of_b2eo (Or.inl ?_) ?_ ?_ ?_ ?_ ?_ hB <;> first | rfl | simp [orchARof, State.emit])))

/-! ### shutdown and reset -/

/-- (name, asked, early) per agent -/
def nview (l : List Agent) : List (String × Bool × Bool) := l.map fun a => (a.name, a.asked, early a)

theorem nview_aview {l l' : List Agent} (h : nview l' = nview l) : aview l' = aview l := by
  have := congrArg (List.map Prod.snd) h
  simpa [nview, aview, List.map_map, Function.comp_def] using this
theorem nview_names {l l' : List Agent} (h : nview l' = nview l) : l'.map (·.name) = l.map (·.name) := by
  have := congrArg (List.map Prod.fst) h
  simpa [nview, List.map_map, Function.comp_def] using this

theorem nview_repl_same (l : List Agent) (a a' : Agent) (hn : (l.map (·.name)).Nodup) (ha : a ∈ l)
    (hname : a'.name = a.name) (hk : a'.asked = a.asked) (he : early a' = early a) : nview (l.map (repl a')) = nview l := by
  unfold nview
  rw [List.map_map]
  apply List.map_congr_left
  intro b hb
  by_cases hbn : b.name = a'.name
  · have : b = a := eq_of_nodup_map (·.name) l hn hb ha (by rw [hbn, hname])
    subst this
    simp [repl, hbn, hk, he]
  · simp [repl, hbn]

theorem shutdownOne_view2 (s : State) (a : Agent) (hn : (s.agents.map (·.name)).Nodup) (ha : (a.name, a.asked, early a) ∈ nview s.agents) :
    B2E s (shutdownOne s a) ∧ nview (shutdownOne s a).agents = nview s.agents := by
  unfold shutdownOne
  splits <;> first
    | exact ⟨⟨rfl, rfl, rfl, rfl, rfl⟩, rfl⟩
    | (refine ⟨⟨rfl, rfl, rfl, rfl, rfl⟩, ?_⟩
       obtain ⟨b, hb, hbe⟩ := List.mem_map.mp ha
       have hbn : b.name = a.name := congrArg Prod.fst hbe
       have hbk : b.asked = a.asked := congrArg (fun x => x.2.1) hbe
       have hbe' : early b = early a := congrArg (fun x => x.2.2) hbe
       rw [setAgent_agents]
       exact nview_repl_same s.agents b _ hn hb hbn.symm hbk.symm (by simpa [early] using hbe'.symm))

theorem foldl_shutdownOne_view2 (l : List Agent) (s : State) (hn : (s.agents.map (·.name)).Nodup)
    (hl : ∀ a ∈ l, (a.name, a.asked, early a) ∈ nview s.agents) :
    B2E s (l.foldl shutdownOne s) ∧ nview (l.foldl shutdownOne s).agents = nview s.agents := by
  induction l generalizing s with
  | nil => exact ⟨⟨rfl, rfl, rfl, rfl, rfl⟩, rfl⟩
  | cons a l ih =>
    simp only [List.foldl_cons]
    obtain ⟨h1, h2⟩ := shutdownOne_view2 s a hn (hl a List.mem_cons_self)
    have hn' : ((shutdownOne s a).agents.map (·.name)).Nodup := by rw [nview_names h2]; exact hn
    obtain ⟨h3, h4⟩ := ih (shutdownOne s a) hn' (by intro b hb; rw [h2]; exact hl b (List.mem_cons_of_mem _ hb))
    exact ⟨B2E.trans' h1 h3, h4.trans h2⟩

theorem b2inv_shutdownAgents (s : State) (k : ShutKind) (hA : AInv s) (hB : B2Inv s) : B2Inv (shutdownAgents s k) := by
  unfold shutdownAgents
  dsimp only
  obtain ⟨h1, h2⟩ := foldl_shutdownOne_view2 (s.agents.filter (·.ext))
    { s with renderer := .shutdown (reasonOf k), awaitingExit := [], agentWaits := [] } hA.nodup (by
      intro a ha; exact List.mem_map_of_mem (List.mem_filter.mp ha).1)
  refine b2inv_of_b2eo (Or.inl rfl) ?_ ?_ ?_ ?_ ?_ hB
  · exact h1.2.1
  · exact h1.2.2.1
  · exact h1.2.2.2.1
  · exact h1.2.2.2.2
  · exact nview_aview h2

theorem b2inv_shutdownBody (s : State) (k : ShutKind) (hA : AInv s) (hB : B2Inv s) : B2Inv (shutdownBody s k) := by
  unfold shutdownBody
  splits <;> first
    | (refine b2inv_of_b2eo (Or.inl ?_) ?_ ?_ ?_ ?_ ?_ hB <;> first | rfl | simp [enterGrace, orchARof, B2E])
    | (refine b2inv_of_b2eo (Or.inl ?_) ?_ ?_ ?_ ?_ ?_ hB <;> first | rfl | simp [orchARof, B2E])
    | exact b2inv_shutdownAgents _ _ (by exact hA) (b2inv_of_b2eo (s := s) (Or.inr rfl) rfl rfl rfl rfl rfl hB)

theorem b2inv_beginShutdown (s : State) (k : ShutKind) (hA : AInv s) (hB : B2Inv s) : B2Inv (beginShutdown s k) := by
  unfold beginShutdown
  exact b2inv_shutdownBody _ k (by exact hA) (b2inv_of_b2eo (s := s) (Or.inr rfl) rfl rfl rfl rfl rfl hB)

/-- the reset: no agents, fresh gate, registration open, init not done -/
theorem b2inv_afterReset (s : State) (n : Nat) (hnw : orchARof s.orch = none) : B2Inv (afterReset s n) := by
  unfold afterReset
  dsimp only
  refine ⟨by simp [nasked, Latch.clear], ?_, by intro h; simp at h, by intro a ha; simp at ha⟩
  intro ph hph
  have h2 : s.orch = .iAwaitAgentsReady ph := hph
  have := orchARof_eq.mp h2; rw [hnw] at this; cases this

theorem b2inv_finishShutdown (s : State) (k : ShutKind) (n : Nat) (hB : B2Inv s) : B2Inv (finishShutdown s k n) := by
  unfold finishShutdown
  have i1 : B2Inv (disarmShutdownTimers { s with shuttingDown := false, orch := .idle, agentWaits := [] }) := by
    refine b2inv_of_b2eo (Or.inl ?_) ?_ ?_ ?_ ?_ ?_ hB <;> first | rfl | simp [disarmShutdownTimers, orchARof]
  dsimp only
  splits
  · exact b2inv_afterReset _ _ rfl
  · refine b2inv_of_b2eo (Or.inr ?_) ?_ ?_ ?_ ?_ ?_ i1 <;> first | rfl | simp
  · refine b2inv_of_b2eo (Or.inr ?_) ?_ ?_ ?_ ?_ ?_ i1 <;> first | rfl | simp

theorem foldl_waits_view2 (l : List String) (acc : State × List String) :
    B2E acc.1 (l.foldl (fun (acc : State × List String) full =>
      match procByFull acc.1 full with
      | some p => if p.chanClosed then acc
                  else if acc.1.agDeadlineFired then (supKill acc.1 full, acc.2)
                  else (acc.1, acc.2 ++ [full])
      | none => acc) acc).1 := by
  induction l generalizing acc with
  | nil => exact ⟨rfl, rfl, rfl, rfl, rfl⟩
  | cons x xs ih =>
    simp only [List.foldl_cons]
    refine B2E.trans' ?_ (ih _)
    splits <;> simp [B2E]

theorem b2invO_shutResume (s : State) (n : Nat) (hA : AInv s) (hB : B2Inv s) : B2InvO (shutResume s n) := by
  unfold shutResume
  split
  · splits <;> first
      | exact b2invO_none
      | (rw [b2invO_some]; first
          | exact b2inv_shutdownAgents _ _ hA hB
          | (apply b2inv_shutdownAgents
             · show AInvL (supKill _ _).agents; rw [supKill_agents]; exact hA
             · exact b2inv_wrap (b2e_supKill _ _) (supKill_agents _ _) hB))
  · have hw := foldl_waits_view2 s.agentWaits (s, [])
    have hwa := foldl_waits_agents s.agentWaits (s, [])
    dsimp only at hw hwa ⊢
    generalize (List.foldl _ (s, []) s.agentWaits) = r at hw hwa ⊢
    obtain ⟨s1, still⟩ := r
    dsimp only at hw hwa ⊢
    have h1 : B2Inv s1 := b2inv_wrap hw hwa hB
    splits <;> first
      | exact b2invO_none
      | (rw [b2invO_some]; (refine b2inv_of_b2eo (Or.inl ?_) ?_ ?_ ?_ ?_ ?_ h1 <;> first | rfl | simp [enterGrace, orchARof]); done)
      | (rw [b2invO_some]; (refine b2inv_of_b2eo (Or.inr ?_) ?_ ?_ ?_ ?_ ?_ h1 <;> first | rfl | simp); done)
  · splits <;> first
      | exact b2invO_none
      | (rw [b2invO_some]; apply b2inv_finishShutdown; first | exact hB | (refine b2inv_of_b2eo (Or.inr ?_) ?_ ?_ ?_ ?_ ?_ hB <;> first | rfl | simp))
  · exact b2invO_none

theorem b2inv_startHandler (s : State) (r : HReq) (hA : AInv s) (hB : B2Inv s) (hidle : s.orch = .idle) : B2Inv (startHandler s r) := by
  have hnw : orchARof s.orch = none := by rw [hidle]; rfl
  unfold startHandler
  splits <;> first
    | (apply b2inv_startInit
       · refine b2inv_of_b2eo (Or.inr ?_) ?_ ?_ ?_ ?_ ?_ hB <;> first | rfl | simp
       · exact hnw)
    | (apply b2inv_continueInvoke; refine b2inv_of_b2eo (Or.inr ?_) ?_ ?_ ?_ ?_ ?_ hB <;> first | rfl | simp)
    | (apply b2inv_beginShutdown
       · first | exact hA | (show AInvL _; simp; exact hA)
       · refine b2inv_of_b2eo (Or.inr ?_) ?_ ?_ ?_ ?_ ?_ hB <;> first | rfl | simp)

theorem b2inv_watchOne (s : State) (full : String) (z : Bool) (hA : AInv s) (hB : B2Inv s) : B2Inv (watchOne s full z) := by
  unfold watchOne
  dsimp only
  generalize hs1 : (if (!s.shuttingDown) = true then
      (storeFatal s (if (full == rtFull s) = true then "Runtime.ExitError" else "Extension.Crash"), CErr.procExit)
    else (s, CErr.nilErr)) = r
  have hr : B2E s r.1 ∧ r.1.agents = s.agents := by
    rw [← hs1]; split
    · exact ⟨b2e_storeFatal _ _, storeFatal_agents _ _⟩
    · exact ⟨⟨rfl, rfl, rfl, rfl, rfl⟩, rfl⟩
  obtain ⟨s1, e1⟩ := r
  dsimp only at hr ⊢
  clear hs1
  have hA1 : AInv s1 := by show AInvL s1.agents; rw [hr.2]; exact hA
  have hB1 : B2Inv s1 := b2inv_wrap hr.1 hr.2 hB
  generalize hs2 : (if s1.awaitingExit.contains full = true then _ else s1) = s2
  have h2 : B2Inv s2 := by
    rw [← hs2]
    splits <;> first
      | exact hB1
      | (rename_i a hfa _ is hp
         have ha := findAgent_mem hfa
         have hst := runAgInstrs_st "" s1 a is
         have hnm := runAgInstrs_name "" s1 a is
         exact b2inv_agStep s1 a _ _ is "" hA1 hB1 ha hp hnm hst.1 rfl)
  clear hs2
  splits <;> first
    | (refine b2inv_of_b2eo (Or.inr ?_) ?_ ?_ ?_ ?_ ?_ h2 <;> first | rfl | simp [B2E]; done)
    | exact b2inv_wrap (B2E.trans' (b2e_setProc _ _) (b2e_cancelFlows _ _)) (by simp) h2

theorem b2invO_orElse' {a y : Option State} (ha : B2InvO a) (hb : B2InvO y) : B2InvO (orElse' a fun _ => y) := by
  intro s' h; unfold orElse' at h; split at h
  · exact ha _ h
  · exact hb _ h

theorem B2InvO.of_b2eO {s : State} {o : Option State} (hB : B2Inv s) (he : B2EO s o) (ha : AgEqO s o) : B2InvO o := by
  intro s' e; exact b2inv_wrap (he s' e) (ha s' e) hB

theorem b2invO_platformMove (lifo : Bool) (s : State) (hA : AInv s) (hB : B2Inv s) : B2InvO (platformMove lifo s) := by
  unfold platformMove
  refine b2invO_orElse' (b2invO_orchResume s hB) ?_
  refine b2invO_orElse' (b2invO_shutResume s _ hA hB) ?_
  refine b2invO_orElse' (B2InvO.of_b2eO hB (b2eO_restoreResume s) (restoreResume_agents s)) ?_
  split
  · rename_i r rest horch hqueue
    splits <;> first
      | exact b2invO_none
      | (rw [b2invO_some]; apply b2inv_startHandler
         · show AInvL _; exact hA
         · refine b2inv_of_b2eo (Or.inr ?_) ?_ ?_ ?_ ?_ ?_ hB <;> first | rfl | simp
         · exact horch)
  · intro s' hs
    obtain ⟨f, _, hm⟩ := firstSome_spec _ _ _ hs
    exact B2InvO.of_b2eO hB (b2eO_flightMove s f) (flightMove_agents s f) s' hm

theorem b2invO_wakeMove (l : Bool) (s : State) (hA : AInv s) (hB : B2Inv s) : B2InvO (wakeMove l s) := by
  intro s' hs
  unfold wakeMove orElse' at hs
  split at hs
  · rename_i x hx; cases hs; exact b2inv_wrap (b2e_wakeRt hx) (wakeRt_agents hx) hB
  · exact b2inv_wakeAgent l s hA hB s' hs

theorem b2invO_progress (v : Nat) (s : State) (hA : AInv s) (hB : B2Inv s) : B2InvO (progress v s) := by
  have hp := fun l => b2invO_platformMove l s hA hB
  have hw := fun l => b2invO_wakeMove l s hA hB
  have hr : ∀ l, B2InvO (renderWoken l s) := fun l => b2inv_renderWoken l s hA hB
  have hk := B2InvO.of_b2eO hB (b2eO_killMove s) (killMove_agents s)
  unfold progress
  splits <;> first
    | exact b2invO_none
    | (rw [b2invO_some]; apply b2inv_watchOne
       · show AInvL _; exact hA
       · refine b2inv_of_b2eo (Or.inr ?_) ?_ ?_ ?_ ?_ ?_ hB <;> first | rfl | simp)
    | exact b2invO_orElse' (b2invO_orElse' (hw _) (b2invO_orElse' (hp _) hk)) (hr _)
    | exact b2invO_orElse' (b2invO_orElse' (hp _) (b2invO_orElse' (hw _) hk)) (hr _)
    | exact b2invO_orElse' (b2invO_orElse' (hp _) (b2invO_orElse' hk (hw _))) (hr _)
    | exact b2invO_orElse' (hr _) (b2invO_orElse' (hw _) (b2invO_orElse' (hp _) hk))
    | exact b2invO_orElse' (hr _) (b2invO_orElse' (hp _) (b2invO_orElse' (hw _) hk))
    | exact b2invO_orElse' (hr _) (b2invO_orElse' (hp _) (b2invO_orElse' hk (hw _)))

theorem ab2inv_settle (v n : Nat) (s : State) (hA : AInv s) (hB : B2Inv s) : AInv (settle v n s) ∧ B2Inv (settle v n s) := by
  induction n generalizing v s with
  | zero => exact ⟨hA, hB⟩
  | succ n ih =>
    unfold settle
    split
    · exact ⟨hA, hB⟩
    · rename_i s' hp
      exact ih _ s' (ainvO_progress v s hA s' hp) (b2invO_progress v s hA hB s' hp)

theorem b2inv_applyOp (s : State) (o : Op) (hA : AInv s) (hB : B2Inv s) : B2Inv (applyOp s o) := by
  cases o with
  | register n es v => exact b2inv_agRegister s n es v hA hB
  | agNext n m => exact b2inv_agNext s n m hA hB
  | agReport n c e m => exact b2inv_agReport s n c e m hA hB
  | timer t =>
    simp only [applyOp]
    splits <;> first
      | exact hB
      | (apply b2inv_wrap _ _ hB <;> simp [B2E]; done)
  | _ =>
    simp only [applyOp]
    splits <;> first
      | exact hB
      | (apply b2inv_wrap _ _ hB <;> simp [B2E]; done)

theorem ab2inv_step (v : Nat) (s : State) (o : Op) (hA : AInv s) (hB : B2Inv s) : AInv (step v s o) ∧ B2Inv (step v s o) := by
  unfold step
  apply ab2inv_settle
  · exact ainv_applyOp _ _ hA
  · apply b2inv_applyOp
    · exact hA
    · exact b2inv_wrap (s := s) ⟨rfl, rfl, rfl, rfl, rfl⟩ rfl hB

theorem ab2inv_run (s : State) (H : List Nat) (ops : List (Nat × Op)) (hA : AInv s) (hB : B2Inv s) :
    AInv (run s H ops).1 ∧ B2Inv (run s H ops).1 := by
  induction ops generalizing s H with
  | nil => exact ⟨hA, hB⟩
  | cons x rest ih =>
    obtain ⟨v, o⟩ := x
    obtain ⟨h1, h2⟩ := ab2inv_step v s o hA hB
    exact ih _ _ h1 h2

/-- initial configurations: no agents, fresh agents-ready gate, init not done, orchestrator idle -/
structure InitialB2 (s : State) : Prop where
  agents : s.agents = []
  arrived : s.initFlow.agentReady.arrived = 0
  notDone : s.initDone = false
  idle : s.orch = .idle

theorem b2inv_initial (s : State) (h : InitialB2 s) : B2Inv s := by
  refine ⟨by rw [h.arrived]; simp [nasked, h.agents], ?_, ?_, ?_⟩
  · intro ph hph; rw [h.idle] at hph; cases hph
  · intro hd; rw [h.notDone] at hd; cases hd
  · intro a ha; rw [h.agents] at ha; cases ha

end Rie.Sys
