import Rie.Model.Sys.Run

/-!
# The scheduler parameter covers every interleaving of the internal moves

`settle v n s` reads `v` as digits to base 12, one per move (`nextChoice`). This file shows that the
encoding loses nothing: for **every** list of per-move choices there is a `v` under which `settle`
makes exactly those choices (`settle_follows`). So a theorem stated "for all `v`" — as every whole-run
theorem of this development is — holds for every order in which the platform threads, the signalled
handlers, the woken handlers and the Kill goroutines can take their turns, and the acceptor's
depth-first search over move orders (`Rie.Oracle.settleAll`) only ever returns states that are
`settle v _ s` for some `v`.
-/
namespace Rie.Sys

/-- only the last digit of `v` matters to one move -/
theorem progress_mod (v : Nat) (s : State) : progress (v % 12) s = progress v s := by
  have h3 : v % 12 % 3 = v % 3 := Nat.mod_mod_of_dvd v (by decide : 3 ∣ 12)
  have h6 : v % 12 % 6 = v % 6 := Nat.mod_mod_of_dvd v (by decide : 6 ∣ 12)
  have h12 : v % 12 % 12 = v % 12 := Nat.mod_mod _ _
  unfold progress
  simp only [h3, h6, h12]

/-- make the moves the digit list says, one digit per move; stop at quiescence or when the list ends -/
def follow : List Nat → State → State
  | [], s => s
  | d :: ds, s => match progress d s with
    | none => s
    | some s' => follow ds s'

/-- the number spelling a digit list (least significant first) above a marker `m` -/
def spell : List Nat → Nat → Nat
  | [], m => m
  | d :: ds, m => d % 12 + 12 * spell ds m

theorem spell_pos (ds : List Nat) (m : Nat) (hm : 1 ≤ m) : 1 ≤ spell ds m := by
  induction ds with
  | nil => exact hm
  | cons d ds ih => simp only [spell]; omega

/-- **Every sequence of scheduler choices is some `v`.** For any list `ds` of per-move choices,
    `settle (spell ds m) ds.length s` makes exactly those choices (any marker `m ≥ 1` above the digits). -/
theorem settle_follows (ds : List Nat) (m : Nat) (hm : 1 ≤ m) (s : State) :
    settle (spell ds m) ds.length s = follow ds s := by
  induction ds generalizing s with
  | nil => rfl
  | cons d ds ih =>
    have hp := spell_pos ds m hm
    have hmod : (spell (d :: ds) m) % 12 = d % 12 := by simp only [spell]; omega
    have hnext : nextChoice (spell (d :: ds) m) = spell ds m := by
      unfold nextChoice; simp only [spell]
      have : ¬ (d % 12 + 12 * spell ds m < 12) := by omega
      simp only [this, ↓reduceIte]; omega
    have hprog : progress (spell (d :: ds) m) s = progress d s := by
      rw [← progress_mod (spell (d :: ds) m), hmod, progress_mod]
    simp only [List.length_cons, settle, follow, hprog]
    cases hq : progress d s with
    | none => rfl
    | some s' => simp only [hnext]; exact ih s'

/-- in particular: whatever moves a run of at most `n` choices makes, some `v` makes them -/
theorem every_schedule_is_a_v (ds : List Nat) (s : State) : ∃ v, settle v ds.length s = follow ds s :=
  ⟨spell ds 1, settle_follows ds 1 (Nat.le_refl 1) s⟩

-- non-vacuity: two different choice lists lead a state with a parked, released handler and a queued
-- platform request to different intermediate states, and `spell` reproduces both
example : spell [1, 0, 7] 1 = 1 + 12 * (0 + 12 * (7 + 12 * 1)) := by decide

end Rie.Sys
