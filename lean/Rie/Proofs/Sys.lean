import Rie.Model.Sys.Run
import Rie.Gen.Consts

/-! Basic facts about the system model used by the property files. -/
namespace Rie.Sys
open Rie.SM

@[simp] theorem emit_resv (s : State) (e : String) : (s.emit e).resv = s.resv := rfl
@[simp] theorem emit_rt (s : State) (e : String) : (s.emit e).rt = s.rt := rfl
@[simp] theorem emit_agents (s : State) (e : String) : (s.emit e).agents = s.agents := rfl
@[simp] theorem emitEv_agents (s : State) (k : EvKind) (r : String) : (s.emitEv k r).agents = s.agents := rfl
@[simp] theorem emit_queue (s : State) (e : String) : (s.emit e).queue = s.queue := rfl
@[simp] theorem emit_flights (s : State) (e : String) : (s.emit e).flights = s.flights := rfl
@[simp] theorem emit_timers (s : State) (e : String) : (s.emit e).timers = s.timers := rfl
@[simp] theorem emit_initFlow (s : State) (e : String) : (s.emit e).initFlow = s.initFlow := rfl
@[simp] theorem emit_invFlow (s : State) (e : String) : (s.emit e).invFlow = s.invFlow := rfl
@[simp] theorem emit_out (s : State) (e : String) : (s.emit e).out = s.out ++ [.line e] := rfl
@[simp] theorem emit_outs (s : State) (e : String) : (s.emit e).outs = s.outs ++ [e] := by simp [State.outs, Out.str]
@[simp] theorem emitEv_outs (s : State) (k : EvKind) (r : String) : (s.emitEv k r).outs = s.outs ++ [Out.str (.ev k r)] := by simp [State.outs, State.emitEv]
@[simp] theorem emit_procs (s : State) (e : String) : (s.emit e).procs = s.procs := rfl
@[simp] theorem emit_orch (s : State) (e : String) : (s.emit e).orch = s.orch := rfl
@[simp] theorem emit_crashed (s : State) (e : String) : (s.emit e).crashed = s.crashed := rfl

@[simp] theorem emitCaller_resv (s : State) (c : Nat) (e b : String) : (s.emitCaller c e b).resv = s.resv := rfl
@[simp] theorem emitCaller_rt (s : State) (c : Nat) (e b : String) : (s.emitCaller c e b).rt = s.rt := rfl
@[simp] theorem emitCaller_agents (s : State) (c : Nat) (e b : String) : (s.emitCaller c e b).agents = s.agents := rfl
@[simp] theorem emitCaller_queue (s : State) (c : Nat) (e b : String) : (s.emitCaller c e b).queue = s.queue := rfl
@[simp] theorem emitCaller_flights (s : State) (c : Nat) (e b : String) : (s.emitCaller c e b).flights = s.flights := rfl
@[simp] theorem emitCaller_timers (s : State) (c : Nat) (e b : String) : (s.emitCaller c e b).timers = s.timers := rfl
@[simp] theorem emitCaller_initFlow (s : State) (c : Nat) (e b : String) : (s.emitCaller c e b).initFlow = s.initFlow := rfl
@[simp] theorem emitCaller_invFlow (s : State) (c : Nat) (e b : String) : (s.emitCaller c e b).invFlow = s.invFlow := rfl
@[simp] theorem emitCaller_procs (s : State) (c : Nat) (e b : String) : (s.emitCaller c e b).procs = s.procs := rfl
@[simp] theorem emitCaller_orch (s : State) (c : Nat) (e b : String) : (s.emitCaller c e b).orch = s.orch := rfl
@[simp] theorem emitCaller_crashed (s : State) (c : Nat) (e b : String) : (s.emitCaller c e b).crashed = s.crashed := rfl
@[simp] theorem emitCaller_out (s : State) (c : Nat) (e b : String) : (s.emitCaller c e b).out = s.out ++ [.caller c e b] := rfl

/-- everything except the output of the current op -/
def State.core (s : State) : State := { s with out := [] }

@[simp] theorem emit_core (s : State) (e : String) : (s.emit e).core = s.core := rfl
@[simp] theorem emitCaller_core (s : State) (c : Nat) (e b : String) : (s.emitCaller c e b).core = s.core := rfl
@[simp] theorem reply_core (s : State) (a c r : String) : (reply s a c r).core = s.core := rfl

theorem set_rt_eq (s : State) (st : RtState) (h : s.rt = some st) : { s with rt := some st } = s := by
  cases s; cases h; rfl

theorem maxPayload_gen : maxPayload = Rie.Gen.maxPayloadSize := by decide
theorem maxAgents_gen : maxAgents = Rie.Gen.maxAgentsAllowed := by decide
theorem maxPayload_value : maxPayload = 6 * 2 ^ 20 + 100 := by decide

end Rie.Sys

namespace Rie.Sys
open Rie.SM

theorem find_map_update (l : List Flight) (c : Nat) (f f' : Flight) (hf : l.find? (·.caller == c) = some f)
    (hc : f'.caller = c) :
    (replaceFirst (·.caller == f'.caller) f' l).find? (·.caller == c) = some f' := by
  induction l with
  | nil => simp at hf
  | cons x xs ih =>
    simp only [replaceFirst]
    by_cases hx : x.caller == c
    · have : (x.caller == f'.caller) = true := by rw [hc]; exact hx
      rw [if_pos this]
      simp [hc]
    · have hx' : (x.caller == f'.caller) = false := by rw [hc]; simpa using hx
      simp only [hx', Bool.false_eq_true, ↓reduceIte, List.find?_cons, hx]
      simp only [List.find?_cons, hx] at hf
      exact ih hf

theorem getFlight_setFlight (s : State) (c : Nat) (f f' : Flight) (hf : getFlight s c = some f) (hc : f'.caller = c) :
    getFlight (setFlight s f') c = some f' := by
  unfold getFlight setFlight
  exact find_map_update s.flights c f f' hf hc

theorem getFlight_caller (s : State) (c : Nat) (f : Flight) (hf : getFlight s c = some f) : f.caller = c := by
  unfold getFlight at hf
  have := List.find?_some hf
  simpa using this

/-- `sendReply` on a reservation that can take a reply, as an equation -/
theorem sendReply_eq (s : State) (r : Resv) (f : Flight) (body : String)
    (hr : s.resv = some r) (hs : r.replySent = false) (hst : r.replyStream = true)
    (hf : getFlight s r.caller = some f) :
    sendReply s r.k body =
      (setFlight { s with resv := some { r with replySent := true } }
        { f with body := body, g3 := if f.g3 == .fast then .done else f.g3 }, .ok) := by
  have hgf : ∀ x, getFlight { s with resv := x } r.caller = some f := fun _ => hf
  unfold sendReply
  simp only [hr, bne_self_eq_false, Bool.false_eq_true, ↓reduceIte, hs, hst, Bool.not_true, hgf]

/-- the tail of response / error handling once the reply can be delivered -/
theorem rtDeliver_eq (s : State) (r : Resv) (f : Flight) (call body : String) (oversize : Option Nat) (st : RtState)
    (hst : st = .invocationResponse ∨ st = .invocationErrorResponse)
    (hrt : s.rt = some st) (hr : s.resv = some r) (hs : r.replySent = false) (hstr : r.replyStream = true)
    (hf : getFlight s r.caller = some f)
    (hg : s.invFlow.runtimeResponse.arrived ≠ s.invFlow.runtimeResponse.count) :
    let b := match oversize with
      | some size => s!"errjson:Function.ResponseSizeTooLarge:{size}:{maxPayload}"
      | none => body
    let s1 := setFlight { s with resv := some { r with replySent := true } }
        { f with body := b, g3 := if f.g3 == .fast then .done else f.g3 }
    rtDeliver s call r.k body oversize =
      reply { s1 with rt := some .responseSent,
                      invFlow := { s.invFlow with runtimeResponse := { s.invFlow.runtimeResponse with arrived := s.invFlow.runtimeResponse.arrived + 1 } } }
        "rt" call (if oversize.isSome then "413,RequestEntityTooLarge" else "202") := by
  have hgate : (s.invFlow.runtimeResponse.arrived == s.invFlow.runtimeResponse.count) = false := by simpa using hg
  cases oversize <;> rcases hst with h | h <;> subst h <;>
    simp only [rtDeliver, Bool.false_eq_true, ↓reduceIte, sendReply_eq s r f _ hr hs hstr hf, Option.isSome_some,
      Option.isSome_none] <;>
    simp only [setFlight, hrt, rtProg, runRtInstrs, flowCall, Latch.walk, hgate, Bool.false_eq_true, ↓reduceIte,
      Bool.and_true, Bool.not_true, bne_iff_ne, ne_eq, not_true_eq_false, Bool.and_false]

/-- POST …/response in a state where the runtime is Running and the id is the current one -/
theorem rtResponse_running (s : State) (r : Resv) (size : Nat) (h : String)
    (hrt : s.rt = some .running) (hr : s.resv = some r) :
    rtResponse s (some r.k) size h false =
      rtDeliver { s with rt := some .invocationResponse } "response" r.k
        (if size == 0 then "empty" else s!"bytes:{h}") (if size > maxPayload then some size else none) := by
  simp only [rtResponse, currentId, hr, Option.map_some, Option.isNone_some, Bool.false_eq_true, bne_self_eq_false,
    Bool.or_self, ↓reduceIte, hrt, rtProg, runRtInstrs]

/-- `sendReply` on a reservation that can take a reply -/
theorem sendReply_ok (s : State) (r : Resv) (f : Flight) (body : String)
    (hr : s.resv = some r) (hs : r.replySent = false) (hst : r.replyStream = true)
    (hf : getFlight s r.caller = some f) :
    (sendReply s r.k body).2 = .ok ∧
    (sendReply s r.k body).1.resv = some { r with replySent := true } ∧
    getFlight (sendReply s r.k body).1 r.caller = some { f with body := body, g3 := if f.g3 == .fast then .done else f.g3 } ∧
    (sendReply s r.k body).1.out = s.out ∧ (sendReply s r.k body).1.rt = s.rt ∧
    (sendReply s r.k body).1.queue = s.queue ∧ (sendReply s r.k body).1.invFlow = s.invFlow := by
  have hfc := getFlight_caller s r.caller f hf
  have hgf : ∀ x, getFlight { s with resv := x } r.caller = some f := fun _ => hf
  have h1 : sendReply s r.k body =
      (setFlight { s with resv := some { r with replySent := true } }
        { f with body := body, g3 := if f.g3 == .fast then .done else f.g3 }, .ok) := by
    unfold sendReply
    simp only [hr, bne_self_eq_false, Bool.false_eq_true, ↓reduceIte, hs, hst, Bool.not_true, hgf]
  rw [h1]
  refine ⟨rfl, rfl, ?_, rfl, rfl, rfl, rfl⟩
  exact getFlight_setFlight _ r.caller f _ (hgf _) (by simpa using hfc)

end Rie.Sys
