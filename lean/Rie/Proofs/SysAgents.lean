import Rie.Proofs.SysInv

/-!
Whole-run invariant of the registration service (C13): in every reachable state the names of the
agents (external and internal together) are pairwise distinct and at most `maxAgents` (ten) agents
exist that were not refused at launch (`LaunchError`).

Method as in `SysInv`: most model functions do not touch `agents` at all (`*_agents` simp lemmas);
the rest replace an agent by a successor with the same name and the same "refused at launch" bit
(`setAgent`), append a new name under a guard (`agRegister`, `launchExtensions`), or clear the list
(`afterReset`).
-/
namespace Rie.Sys
open Rie.SM

def isLE (a : Agent) : Bool := a.st == .launchError

structure AInvL (l : List Agent) : Prop where
  nodup : (l.map (·.name)).Nodup
  bound : (l.filter (fun a => !isLE a)).length ≤ maxAgents

abbrev AInv (s : State) : Prop := AInvL s.agents

macro "ag_tac" : tactic => `(tactic| (splits <;> simp_all))

/-! ### functions that do not touch `agents` -/

@[simp] theorem emit_agents' (s : State) (e : String) : (s.emit e).agents = s.agents := rfl
@[simp] theorem emitEv_agents' (s : State) (k : EvKind) (r : String) : (s.emitEv k r).agents = s.agents := rfl
@[simp] theorem emitCaller_agents' (s : State) (c : Nat) (e b : String) : (s.emitCaller c e b).agents = s.agents := rfl
@[simp] theorem storeFatal_agents (s : State) (t : String) : (storeFatal s t).agents = s.agents := by unfold storeFatal; ag_tac
@[simp] theorem cancelFlows_agents (s : State) (e : CErr) : (cancelFlows s e).agents = s.agents := by unfold cancelFlows; ag_tac
@[simp] theorem cancelInitFlow_agents (s : State) (e : CErr) : (cancelInitFlow s e).agents = s.agents := rfl
@[simp] theorem flowCall_agents (s : State) (f : FlowCall) : (flowCall s f).1.agents = s.agents := by cases f <;> rfl
@[simp] theorem setProc_agents (s : State) (p : Proc) : (setProc s p).agents = s.agents := rfl
@[simp] theorem addPending_agents (s : State) (a c : String) : (addPending s a c).agents = s.agents := by unfold addPending; ag_tac
@[simp] theorem answer_agents (s : State) (a c r : String) : (answer s a c r).agents = s.agents := by unfold answer; ag_tac
@[simp] theorem reply_agents (s : State) (a c r : String) : (reply s a c r).agents = s.agents := rfl
@[simp] theorem setFlight_agents (s : State) (f : Flight) : (setFlight s f).agents = s.agents := rfl
@[simp] theorem release_agents (s : State) : (release s).agents = s.agents := rfl
@[simp] theorem idsSet_agents (s : State) (n : String) (k : Nat) : (idsSet s n k).agents = s.agents := rfl
@[simp] theorem sendReply_agents (s : State) (k : Nat) (b : String) : (sendReply s k b).1.agents = s.agents := by
  unfold sendReply; splits <;> simp_all
@[simp] theorem runRtInstrs_agents (s : State) (cur : RtState) (is : List (Instr RtState)) : (runRtInstrs s cur is).1.agents = s.agents := by
  induction is generalizing s cur with
  | nil => rfl
  | cons i is ih =>
    cases i with
    | set x => exact ih s x
    | flow f chk =>
      simp only [runRtInstrs]
      split
      · exact flowCall_agents s f
      · rw [ih]; exact flowCall_agents s f
    | suspend ok nx => rfl
    | subscribe es => exact ih s cur
    | setErrType => exact ih s cur
@[simp] theorem runAgInstrs_agents (et : String) (s : State) (a : Agent) (is : List (Instr ExtState)) : (runAgInstrs et s a is).1.agents = s.agents := by
  induction is generalizing s a with
  | nil => rfl
  | cons i is ih =>
    cases i with
    | set x => exact ih s _
    | flow f chk => simp only [runAgInstrs]; rw [ih]; exact flowCall_agents s f
    | suspend ok nx => rfl
    | subscribe es => exact ih s _
    | setErrType => exact ih s _

theorem runRt_agents_of {s s' : State} {cur : RtState} {is : List (Instr RtState)} {x : RtState × Err × Option Park}
    (h : runRtInstrs s cur is = (s', x)) : s'.agents = s.agents := by
  have := runRtInstrs_agents s cur is; rw [h] at this; exact this
theorem sendReply_agents_of {s s' : State} {k : Nat} {b : String} {r : SendRes}
    (h : sendReply s k b = (s', r)) : s'.agents = s.agents := by
  have := sendReply_agents s k b; rw [h] at this; exact this

macro "ag_tac2" : tactic => `(tactic| (splits <;>
  (try have hSR := sendReply_agents_of (by assumption)) <;>
  (try have hRT := runRt_agents_of (by assumption)) <;> simp_all))

@[simp] theorem rtCallBlocking_agents (s : State) (call : String) (c : RtCall) : (rtCallBlocking s call c).agents = s.agents := by
  unfold rtCallBlocking; ag_tac2
@[simp] theorem rtDeliver_agents (s : State) (call : String) (k : Nat) (b : String) (o : Option Nat) : (rtDeliver s call k b o).agents = s.agents := by
  unfold rtDeliver; ag_tac2
@[simp] theorem rtResponse_agents (s : State) (idk : Option Nat) (size : Nat) (h : String) (bad : Bool) : (rtResponse s idk size h bad).agents = s.agents := by
  unfold rtResponse; ag_tac2
@[simp] theorem rtError_agents (s : State) (idk : Option Nat) (et : String) : (rtError s idk et).agents = s.agents := by
  unfold rtError; ag_tac2
@[simp] theorem rtInitError_agents (s : State) (et : String) : (rtInitError s et).agents = s.agents := by
  unfold rtInitError; ag_tac2
@[simp] theorem rtRestoreError_agents (s : State) (et : String) : (rtRestoreError s et).agents = s.agents := by
  unfold rtRestoreError; ag_tac2
@[simp] theorem rtCreds_agents (s : State) (tok : String) : (rtCreds s tok).agents = s.agents := by unfold rtCreds; ag_tac
theorem wakeRt_agents {s s' : State} (h : wakeRt s = some s') : s'.agents = s.agents := by
  unfold wakeRt at h; split at h <;> simp at h
  split at h <;> (simp at h; subst h; simp)

theorem foldl_emit_agents {α : Type} (l : List α) (f : α → String) (s : State) :
    (l.foldl (fun s a => s.emit (f a)) s).agents = s.agents := by
  induction l generalizing s with
  | nil => rfl
  | cons a l ih => simp only [List.foldl_cons]; rw [ih]; rfl

@[simp] theorem die_agents (s : State) (full st : String) (z : Bool) : (die s full st z).agents = s.agents := by
  unfold die
  split
  · rfl
  · split
    · rfl
    · dsimp only; rw [foldl_emit_agents]; rfl
@[simp] theorem supKill_agents (s : State) (full : String) : (supKill s full).agents = s.agents := by unfold supKill; ag_tac
@[simp] theorem supTerm_agents (s : State) (full : String) : (supTerm s full).agents = s.agents := by unfold supTerm; ag_tac
@[simp] theorem invokeReturned_agents (s : State) (ok rr : Bool) (et : String) : (invokeReturned s ok rr et).agents = s.agents := by
  unfold invokeReturned; ag_tac2
@[simp] theorem invokeFail_agents (s : State) (e : Option CErr) : (invokeFail s e).agents = s.agents := by unfold invokeFail; simp
@[simp] theorem initTailEvents_agents (s : State) (ph : Phase) (st : String) : (initTailEvents s ph st).agents = s.agents := by
  unfold initTailEvents
  dsimp only
  rw [emitEv_agents', foldl_emit_agents]
  split <;> rfl
@[simp] theorem disarm_agents (s : State) : (disarmShutdownTimers s).agents = s.agents := rfl
@[simp] theorem resetTail_agents (s : State) (n : Nat) : (resetTail s n).agents = s.agents := by unfold resetTail; ag_tac
@[simp] theorem enterGrace_agents (s : State) (k : ShutKind) : (enterGrace s k).agents = s.agents := rfl
@[simp] theorem requestReset_agents (s : State) (r : String) (n : Nat) : (requestReset s r n).agents = s.agents := by simp [requestReset]
@[simp] theorem finishFlight_agents (s : State) (f : Flight) (e : String) : (finishFlight s f e).agents = s.agents := rfl
@[simp] theorem fastInvoke_agents (s : State) (f : Flight) : (fastInvoke s f).agents = s.agents := by unfold fastInvoke; ag_tac
@[simp] theorem startServerInit_agents (s : State) : (startServerInit s).agents = s.agents := by unfold startServerInit; ag_tac
@[simp] theorem restoreDoneEvent_agents (s : State) (ok : Bool) : (restoreDoneEvent s ok).agents = s.agents := rfl
@[simp] theorem handleRestore_agents (s : State) (key : String) : (handleRestore s key).agents = s.agents := by unfold handleRestore; ag_tac
@[simp] theorem restoreFinish_agents (s : State) (e : Option String) : (restoreFinish s e).agents = s.agents := by unfold restoreFinish; ag_tac

/-- for the moves that may be disabled -/
def AgEqO (s : State) (o : Option State) : Prop := ∀ s', o = some s' → s'.agents = s.agents
@[simp] theorem agEqO_none (s : State) : AgEqO s none := by intro s' h; cases h
@[simp] theorem agEqO_some (s x : State) : AgEqO s (some x) ↔ x.agents = s.agents := by
  constructor
  · intro h; exact h x rfl
  · intro h s' e; cases e; exact h

theorem flightMove_agents (s : State) (f : Flight) : AgEqO s (flightMove s f) := by
  unfold flightMove; splits <;> simp_all
theorem restoreResume_agents (s : State) : AgEqO s (restoreResume s) := by
  unfold restoreResume; splits <;> simp_all
theorem killMove_agents (s : State) : AgEqO s (killMove s) := by
  unfold killMove; splits <;> simp_all

/-! ### replacing an agent by a successor -/

def agv (l : List Agent) : List (String × Bool) := l.map fun a => (a.name, isLE a)

theorem agv_names (l : List Agent) : (agv l).map (·.1) = l.map (·.name) := by simp [agv, List.map_map, Function.comp_def]
theorem agv_count (l : List Agent) : ((agv l).filter (fun x => !x.2)).length = (l.filter (fun a => !isLE a)).length := by
  induction l with
  | nil => rfl
  | cons x xs ih => simp only [agv, List.map_cons, List.filter_cons] at *; split <;> simp_all

/-- the invariant only depends on the (name, refused-at-launch) pairs -/
theorem ainv_of_agv {l l' : List Agent} (h : agv l' = agv l) (i : AInvL l) : AInvL l' :=
  ⟨by rw [← agv_names, h, agv_names]; exact i.nodup, by rw [← agv_count, h, agv_count]; exact i.bound⟩

/-- replacing (by name) an agent by a successor with the same name and the same bit changes no pair -/
theorem agv_map_replace (l : List Agent) (a : Agent) (hb : ∀ b ∈ l, b.name = a.name → isLE b = isLE a) :
    agv (l.map fun b => if b.name == a.name then a else b) = agv l := by
  unfold agv
  rw [List.map_map]
  apply List.map_congr_left
  intro b hbm
  by_cases hbn : b.name = a.name
  · simp [Function.comp, hbn, hb b hbm hbn]
  · simp [Function.comp, hbn]

theorem eq_of_name {l : List Agent} (hn : (l.map (·.name)).Nodup) {a b : Agent} (ha : a ∈ l) (hb : b ∈ l) (h : b.name = a.name) : b = a :=
  eq_of_nodup_map (·.name) l hn hb ha h

/-- the usual case: the successor `a'` of an agent `a` of the list -/
theorem agv_setAgent (s : State) (a a' : Agent) (hn : (s.agents.map (·.name)).Nodup) (ha : a ∈ s.agents)
    (hname : a'.name = a.name) (hle : isLE a' = isLE a) : agv (setAgent s a').agents = agv s.agents := by
  apply agv_map_replace
  intro b hb hbn
  have : b = a := eq_of_name hn ha hb (by rw [hbn, hname])
  rw [this, hle]

/-- running an agent program never produces or leaves `LaunchError` (the model issues that call only
    through `launchExtensions`) and keeps the name -/
theorem runAgInstrs_name (et : String) (s : State) (a : Agent) (is : List (Instr ExtState)) : (runAgInstrs et s a is).2.1.name = a.name := by
  induction is generalizing s a with
  | nil => rfl
  | cons i is ih => cases i <;> simp only [runAgInstrs] <;> first | rfl | (rw [ih]; done) | (rw [ih]; split <;> rfl)

theorem runAgInstrs_isLE (et : String) (s : State) (a : Agent) (is : List (Instr ExtState))
    (hno : ∀ i ∈ is, i ≠ Instr.set ExtState.launchError) (ha : isLE a = false) : isLE (runAgInstrs et s a is).2.1 = false := by
  induction is generalizing s a with
  | nil => exact ha
  | cons i is ih =>
    have hno' : ∀ j ∈ is, j ≠ Instr.set ExtState.launchError := fun j hj => hno j (List.mem_cons_of_mem _ hj)
    cases i with
    | set x =>
      simp only [runAgInstrs]
      apply ih _ _ hno'
      have : x ≠ .launchError := by intro e; exact hno _ List.mem_cons_self (by rw [e])
      simp [isLE, this]
    | flow f chk => simp only [runAgInstrs]; exact ih _ _ hno' (by split <;> simpa [isLE] using ha)
    | suspend ok nx => exact ha
    | subscribe es => simp only [runAgInstrs]; exact ih _ _ hno' (by simpa [isLE] using ha)
    | setErrType => simp only [runAgInstrs]; exact ih _ _ hno' (by simpa [isLE] using ha)

/-- table fact: a legal call other than `launchError` is made from a state other than `LaunchError`
    and its program never sets `LaunchError` -/
theorem agProg_noLE (a : Agent) (c : AgCall) (is : List (Instr ExtState)) (h : agProg a c = some is) (hc : c ≠ .launchError) :
    isLE a = false ∧ ∀ i ∈ is, i ≠ Instr.set ExtState.launchError := by
  unfold agProg at h
  split at h
  · cases hst : a.st <;> cases c <;> simp [extProg, hst] at h <;> (try exact absurd rfl hc) <;> subst h <;> simp [isLE, hst]
  · cases hst : a.st <;> cases c <;> simp [intProgE, hst] at h <;> (try exact absurd rfl hc) <;> subst h <;> simp [isLE, hst]

theorem runAg_facts {et : String} {s s1 : State} {a a1 : Agent} {is : List (Instr ExtState)} {p : Bool} {c : AgCall}
    (h : runAgInstrs et s a is = (s1, a1, p)) (hp : agProg a c = some is) (hc : c ≠ .launchError) :
    s1.agents = s.agents ∧ a1.name = a.name ∧ isLE a1 = isLE a := by
  have h1 := runAgInstrs_agents et s a is
  have h2 := runAgInstrs_name et s a is
  obtain ⟨h3, h4⟩ := agProg_noLE a c is hp hc
  have h5 := runAgInstrs_isLE et s a is h4 h3
  rw [h] at h1 h2 h5
  exact ⟨h1, h2, by rw [h3]; exact h5⟩

theorem resolveId_mem {s : State} {n m : String} {a : Agent} (h : resolveId s n m = .ok a) : a ∈ s.agents := by
  unfold resolveId at h
  split at h
  · cases h
  · split at h
    · cases h
    · split at h
      · cases h
      · split at h
        · cases h
        · split at h
          · rename_i a' hf
            cases h
            exact List.mem_of_find?_eq_some hf
          · cases h

theorem ainv_agNext (s : State) (n m : String) (h : AInv s) : AInv (agNext s n m) := by
  unfold agNext
  split
  · simpa [AInv] using h
  · rename_i a hres
    have ha := resolveId_mem hres
    split
    · simpa [AInv] using h
    · rename_i is hp
      split
      rename_i s1 a1 parked heq
      obtain ⟨f1, f2, f3⟩ := runAg_facts heq hp (by intro e; cases e)
      have hn1 : (s1.agents.map (·.name)).Nodup := by rw [f1]; exact h.nodup
      have ha1 : a ∈ s1.agents := by rw [f1]; exact ha
      split
      · show AInvL (addPending _ _ _).agents
        rw [addPending_agents]
        apply ainv_of_agv _ h
        rw [← f1]
        exact agv_setAgent s1 a _ hn1 ha1 f2 (by simpa [isLE] using f3)
      · show AInvL (reply _ _ _ _).agents
        rw [reply_agents]
        apply ainv_of_agv _ h
        rw [← f1]
        exact agv_setAgent s1 a _ hn1 ha1 f2 f3

theorem ainv_agReport (s : State) (n c e m : String) (h : AInv s) : AInv (agReport s n c e m) := by
  unfold agReport
  split
  · simpa [AInv] using h
  · rename_i a hres
    have ha := resolveId_mem hres
    split
    · simpa [AInv] using h
    · dsimp only
      have hc : (if (c == "initerror") = true then AgCall.initError else AgCall.exitError) ≠ .launchError := by
        split <;> (intro e; cases e)
      split
      · simpa [AInv] using h
      · rename_i is hp
        obtain ⟨f1, f2, f3⟩ := runAg_facts (et := e) (s := s) (a := a) (is := is)
          (s1 := (runAgInstrs e s a is).1) (a1 := (runAgInstrs e s a is).2.1) (p := (runAgInstrs e s a is).2.2) rfl hp hc
        have hn1 : ((runAgInstrs e s a is).1.agents.map (·.name)).Nodup := by rw [f1]; exact h.nodup
        have ha1 : a ∈ (runAgInstrs e s a is).1.agents := by rw [f1]; exact ha
        show AInvL (reply (storeFatal _ _) _ _ _).agents
        rw [reply_agents, storeFatal_agents]
        apply ainv_of_agv _ h
        rw [← f1]
        exact agv_setAgent _ a _ hn1 ha1 f2 f3

/-- the invariant for moves that may be disabled -/
def AInvO (o : Option State) : Prop := ∀ s', o = some s' → AInv s'
@[simp] theorem ainvO_none : AInvO none := by intro s' h; cases h
@[simp] theorem ainvO_some (x : State) : AInvO (some x) ↔ AInv x := by
  constructor
  · intro h; exact h x rfl
  · intro h s' e; cases e; exact h
theorem AInvO.of_agEq {s : State} {o : Option State} (h : AInv s) (he : AgEqO s o) : AInvO o := by
  intro s' e; show AInvL s'.agents; rw [he s' e]; exact h

theorem pickAgent_mem {lifo : Bool} {p : Agent → Bool} {l : List Agent} {a : Agent} (h : pickAgent lifo p l = some a) : a ∈ l := by
  unfold pickAgent at h
  split at h
  · exact List.mem_reverse.mp (List.mem_of_find?_eq_some h)
  · exact List.mem_of_find?_eq_some h

theorem ainv_wakeAgent (l : Bool) (s : State) (h : AInv s) : AInvO (wakeAgent l s) := by
  unfold wakeAgent
  split
  · simp
  · rename_i a hf
    have ha : a ∈ s.agents := pickAgent_mem hf
    dsimp only
    split
    · rename_i hst
      rw [ainvO_some]
      apply ainv_of_agv _ h
      have hr : a.st = .ready := by simpa using hst
      exact agv_setAgent s a _ h.nodup ha rfl (by simp only [isLE, hr]; rfl)
    · rw [ainvO_some]
      show AInvL (answer _ _ _ _).agents
      rw [answer_agents]
      apply ainv_of_agv _ h
      exact agv_setAgent s a _ h.nodup ha rfl (by simp [isLE])

theorem ainv_renderWoken (l : Bool) (s : State) (h : AInv s) : AInvO (renderWoken l s) := by
  unfold renderWoken
  split
  · simp
  · rename_i a hf
    have ha : a ∈ s.agents := pickAgent_mem hf
    rw [ainvO_some]
    show AInvL (answer _ _ _ _).agents
    rw [answer_agents]
    apply ainv_of_agv _ h
    exact agv_setAgent s a _ h.nodup ha rfl (by simp [isLE])

theorem findAgent_mem {s : State} {n : String} {a : Agent} (h : findAgent s n = some a) : a ∈ s.agents :=
  List.mem_of_find?_eq_some h

theorem ainv_watchOne (s : State) (full : String) (z : Bool) (h : AInv s) : AInv (watchOne s full z) := by
  unfold watchOne
  dsimp only
  -- the state after the (possible) recording of the fault has the same agents
  generalize hs1 : (if (!s.shuttingDown) = true then
      (storeFatal s (if (full == rtFull s) = true then "Runtime.ExitError" else "Extension.Crash"), CErr.procExit)
    else (s, CErr.nilErr)) = r
  have hr : r.1.agents = s.agents := by rw [← hs1]; split <;> simp
  have h1 : AInv r.1 := by show AInvL r.1.agents; rw [hr]; exact h
  obtain ⟨s1, e1⟩ := r
  dsimp only at h1 ⊢
  clear hs1 hr h
  -- handleProcessExit
  have key : AInv (if s1.awaitingExit.contains full = true then
      match procByFull s1 full with
      | some p =>
        match findAgent s1 p.name with
        | some a =>
          match agProg a (if z = true then AgCall.exited else AgCall.shutdownFailed) with
          | some is => setAgent (runAgInstrs "" s1 a is).1 (runAgInstrs "" s1 a is).2.1
          | none => s1
        | none => s1
      | none => s1
    else s1) := by
    split
    · split
      · split
        · rename_i a hfa
          have ha := findAgent_mem hfa
          have hc : (if z = true then AgCall.exited else AgCall.shutdownFailed) ≠ .launchError := by
            split <;> (intro e; cases e)
          split
          · rename_i is hp
            obtain ⟨f1, f2, f3⟩ := runAg_facts (et := "") (s := s1) (a := a) (is := is)
              (s1 := (runAgInstrs "" s1 a is).1) (a1 := (runAgInstrs "" s1 a is).2.1) (p := (runAgInstrs "" s1 a is).2.2) rfl hp hc
            apply ainv_of_agv _ h1
            rw [← f1]
            exact agv_setAgent _ a _ (by rw [f1]; exact h1.nodup) (by rw [f1]; exact ha) f2 f3
          · exact h1
        · exact h1
      · exact h1
    · exact h1
  generalize (if s1.awaitingExit.contains full = true then _ else s1) = s2 at key ⊢
  splits <;> (show AInvL _; simp only [cancelFlows_agents, setProc_agents]; exact key)

/-- a new name is appended while fewer than `maxAgents` agents exist -/
theorem ainv_append (l : List Agent) (a : Agent) (h : AInvL l) (hn : a.name ∉ l.map (·.name)) (hlen : l.length < maxAgents) :
    AInvL (l ++ [a]) := by
  refine ⟨?_, ?_⟩
  · rw [List.map_append]
    exact List.nodup_append.mpr ⟨h.nodup, by simp, by
      intro x hx y hy; have : y = a.name := by simpa using hy
      subst this; intro e; subst e; exact hn hx⟩
  · have h1 : ((l ++ [a]).filter (fun a => !isLE a)).length ≤ (l ++ [a]).length := List.length_filter_le _ _
    simp only [List.length_append, List.length_singleton] at h1
    omega

theorem findAgent_none_notMem {s : State} {n : String} (h : (findAgent s n).isSome = false) : n ∉ s.agents.map (·.name) := by
  intro hm
  obtain ⟨b, hb, hbn⟩ := List.mem_map.mp hm
  have : (findAgent s n).isSome = true := by
    unfold findAgent
    rw [List.find?_isSome]
    exact ⟨b, hb, by simp [hbn]⟩
  rw [h] at this; cases this

theorem ainv_agRegister (s : State) (n : String) (es : List Ev) (v : String) (h : AInv s) : AInv (agRegister s n es v) := by
  unfold agRegister
  split
  · simpa [AInv] using h
  · split
    · simpa [AInv] using h
    · split
      · -- an external agent of that name exists
        rename_i a hfa
        have ha : a ∈ s.agents := List.mem_of_find?_eq_some hfa
        split
        · simpa [AInv] using h
        · split
          · simpa [AInv] using h
          · rename_i is hp
            dsimp only
            obtain ⟨f1, f2, f3⟩ := runAg_facts (et := "") (s := s) (a := a) (is := is)
              (s1 := (runAgInstrs "" s a is).1) (a1 := (runAgInstrs "" s a is).2.1) (p := (runAgInstrs "" s a is).2.2) rfl hp (by intro e; cases e)
            show AInvL (reply (idsSet (setAgent _ _) _ _) _ _ _).agents
            rw [reply_agents, idsSet_agents]
            apply ainv_of_agv _ h
            rw [← f1]
            exact agv_setAgent _ a _ (by rw [f1]; exact h.nodup) (by rw [f1]; exact ha) f2 f3
      · -- a new internal agent
        split
        · simpa [AInv] using h
        · split
          · simpa [AInv] using h
          · split
            · simpa [AInv] using h
            · split
              · simpa [AInv] using h
              · rename_i hlen hfound
                have hlen' : s.agents.length < maxAgents := by omega
                have hnot : n ∉ s.agents.map (·.name) := findAgent_none_notMem (by simpa using hfound)
                dsimp only
                split
                · show AInvL (reply _ _ _ _).agents
                  rw [reply_agents]
                  exact ainv_append s.agents _ h hnot hlen'
                · rename_i is hp
                  show AInvL (reply (idsSet _ _ _) _ _ _).agents
                  rw [reply_agents, idsSet_agents]
                  have hag : (runAgInstrs "" { s with nextSerial := s.nextSerial + 1 } { name := n, ext := false, serial := s.nextSerial } is).1.agents = s.agents := by
                    rw [runAgInstrs_agents]
                  have hnm := runAgInstrs_name "" { s with nextSerial := s.nextSerial + 1 } { name := n, ext := false, serial := s.nextSerial } is
                  show AInvL (_ ++ [_])
                  rw [hag]
                  exact ainv_append s.agents _ h (by rw [hnm]; exact hnot) hlen'

/-! ### orchestrator -/

theorem agv_map_flag (l : List Agent) (c : Agent → Bool) :
    agv (l.map fun a => if c a then { a with flag := true } else a) = agv l := by
  unfold agv; rw [List.map_map]; apply List.map_congr_left; intro a _
  simp only [Function.comp]; split <;> rfl

theorem ainv_continueInvoke (s : State) (h : AInv s) : AInv (continueInvoke s) := by
  unfold continueInvoke
  splits
  · exact h
  · show AInvL (invokeFail _ _).agents
    rw [invokeFail_agents]; exact h
  · show AInvL (List.map _ _)
    exact ainv_of_agv (agv_map_flag _ _) h

theorem ainv_initFinish (s : State) (ph : Phase) (ok : Bool) (st : String) (e : Option CErr) (h : AInv s) : AInv (initFinish s ph ok st e) := by
  unfold initFinish
  splits <;> first
    | (show AInvL _; simp only [initTailEvents_agents]; exact h)
    | (apply ainv_continueInvoke; show AInvL _; simp only [initTailEvents_agents]; exact h)
    | (show AInvL (invokeFail _ _).agents; simp only [invokeFail_agents, emit_agents', initTailEvents_agents]; exact h)

theorem shutdownOne_agv (s : State) (a : Agent) (hn : (s.agents.map (·.name)).Nodup) (ha : (a.name, isLE a) ∈ agv s.agents) :
    agv (shutdownOne s a).agents = agv s.agents := by
  unfold shutdownOne
  splits <;> try rfl
  obtain ⟨b, hb, hbe⟩ := List.mem_map.mp ha
  have hbn : b.name = a.name := congrArg Prod.fst hbe
  have hbl : isLE b = isLE a := congrArg Prod.snd hbe
  exact agv_setAgent _ b _ hn hb hbn.symm (by simpa [isLE] using hbl.symm)

theorem foldl_shutdownOne_agv (l : List Agent) (s : State) (hn : (s.agents.map (·.name)).Nodup)
    (hl : ∀ a ∈ l, (a.name, isLE a) ∈ agv s.agents) : agv (l.foldl shutdownOne s).agents = agv s.agents := by
  induction l generalizing s with
  | nil => rfl
  | cons a l ih =>
    simp only [List.foldl_cons]
    have h1 := shutdownOne_agv s a hn (hl a List.mem_cons_self)
    rw [ih (shutdownOne s a) (by rw [← agv_names, h1, agv_names]; exact hn)
      (by intro b hb; rw [h1]; exact hl b (List.mem_cons_of_mem _ hb)), h1]

theorem ainv_shutdownAgents (s : State) (k : ShutKind) (h : AInv s) : AInv (shutdownAgents s k) := by
  unfold shutdownAgents
  dsimp only
  show AInvL (List.foldl shutdownOne _ _).agents
  apply ainv_of_agv _ h
  exact foldl_shutdownOne_agv _ { s with renderer := .shutdown (reasonOf k), awaitingExit := [], agentWaits := [] } h.nodup (by
    intro a ha
    have : a ∈ s.agents := (List.mem_filter.mp ha).1
    exact List.mem_map.mpr ⟨a, this, rfl⟩)

theorem ainv_shutdownBody (s : State) (k : ShutKind) (h : AInv s) : AInv (shutdownBody s k) := by
  unfold shutdownBody
  splits <;> first
    | (show AInvL (enterGrace _ _).agents; simp only [enterGrace_agents, supKill_agents]; exact h)
    | (show AInvL (supTerm _ _).agents; simp only [supTerm_agents]; exact h)
    | exact ainv_shutdownAgents _ _ h

theorem ainv_beginShutdown (s : State) (k : ShutKind) (h : AInv s) : AInv (beginShutdown s k) := by
  unfold beginShutdown; exact ainv_shutdownBody _ k h

theorem ainv_afterReset (s : State) (n : Nat) : AInv (afterReset s n) := by
  unfold afterReset
  exact ⟨by simp, by simp⟩

theorem ainv_finishShutdown (s : State) (k : ShutKind) (n : Nat) (h : AInv s) : AInv (finishShutdown s k n) := by
  unfold finishShutdown
  splits
  · exact ainv_afterReset _ _
  · exact h
  · exact h

/-- the 11th extension: appended, then marked as refused at launch -/
theorem ainv_append_refused (l : List Agent) (a : Agent) (h : AInvL l) (hn : a.name ∉ l.map (·.name)) (hle : isLE a = true) :
    AInvL (l ++ [a]) := by
  refine ⟨?_, ?_⟩
  · rw [List.map_append]
    exact List.nodup_append.mpr ⟨h.nodup, by simp, by
      intro x hx y hy; have : y = a.name := by simpa using hy
      subst this; intro e; subst e; exact hn hx⟩
  · rw [List.filter_append]
    simp only [List.filter_cons, hle, Bool.not_true, Bool.false_eq_true, ↓reduceIte, List.filter_nil, List.append_nil]
    exact h.bound

theorem map_replace_last (l : List Agent) (a a' : Agent) (hn : a.name ∉ l.map (·.name)) (hname : a'.name = a.name) :
    ((l ++ [a]).map fun b => if b.name == a'.name then a' else b) = l ++ [a'] := by
  rw [List.map_append]
  congr 1
  · conv => rhs; rw [← List.map_id l]
    apply List.map_congr_left
    intro b hb
    have : b.name ≠ a'.name := by
      intro e; apply hn; rw [← hname, ← e]; exact List.mem_map_of_mem hb
    simp [this]
  · simp [hname]

theorem ainv_launchExtensions (s : State) (ph : Phase) (ps : List String) (h : AInv s) : AInv (launchExtensions s ph ps) := by
  induction ps generalizing s with
  | nil => exact h
  | cons p ps ih =>
    unfold launchExtensions
    split
    · exact ainv_initFinish _ _ _ _ _ h
    · rename_i hcond
      have hnot : p ∉ s.agents.map (·.name) := by
        apply findAgent_none_notMem
        cases hf : (findAgent s p).isSome
        · rfl
        · simp [hf] at hcond
      dsimp only
      split
      · -- over the limit: the new agent is marked LaunchError
        apply ainv_initFinish
        show AInvL (storeFatal _ _).agents
        rw [storeFatal_agents]
        show AInvL (List.map _ (s.agents ++ [_]))
        rw [map_replace_last s.agents { name := p, ext := true, serial := s.nextSerial }
          { name := p, ext := true, st := ExtState.launchError, errSet := true, errType := "TooManyExtensions", serial := s.nextSerial } hnot rfl]
        exact ainv_append_refused s.agents _ h hnot rfl
      · rename_i hlen
        split
        · -- Exec fails: the new agent is marked LaunchError
          apply ainv_initFinish
          show AInvL (storeFatal _ _).agents
          rw [storeFatal_agents]
          show AInvL (List.map _ (s.agents ++ [_]))
          rw [map_replace_last s.agents { name := p, ext := true, serial := s.nextSerial }
            { name := p, ext := true, st := ExtState.launchError, errSet := true, errType := "UnknownError", serial := s.nextSerial } hnot rfl]
          exact ainv_append_refused s.agents _ h hnot rfl
        · apply ih
          show AInvL (s.agents ++ [_])
          simp only [List.length_append, List.length_singleton, gt_iff_lt, Nat.not_lt] at hlen
          exact ainv_append s.agents _ h hnot (by omega)

theorem ainv_startInit (s : State) (ph : Phase) (h : AInv s) : AInv (startInit s ph) := by
  unfold startInit
  splits
  · exact ainv_initFinish _ _ _ _ _ h
  · exact ainv_launchExtensions _ _ _ h

theorem ainvO_orchResume (s : State) (h : AInv s) : AInvO (orchResume s) := by
  unfold orchResume
  splits <;> first
    | exact ainvO_none
    | (rw [ainvO_some]; first
        | exact ainv_initFinish _ _ _ _ _ h
        | exact h
        | (show AInvL (invokeFail _ _).agents; simp only [invokeFail_agents]; exact h)
        | (show AInvL (invokeReturned _ _ _ _).agents; simp only [invokeReturned_agents, emit_agents']; exact h))

theorem foldl_waits_agents (l : List String) (acc : State × List String) :
    (l.foldl (fun (acc : State × List String) full =>
      match procByFull acc.1 full with
      | some p => if p.chanClosed then acc
                  else if acc.1.agDeadlineFired then (supKill acc.1 full, acc.2)
                  else (acc.1, acc.2 ++ [full])
      | none => acc) acc).1.agents = acc.1.agents := by
  induction l generalizing acc with
  | nil => rfl
  | cons x xs ih =>
    simp only [List.foldl_cons]
    rw [ih]
    splits <;> simp

theorem ainvO_shutResume (s : State) (n : Nat) (h : AInv s) : AInvO (shutResume s n) := by
  unfold shutResume
  split
  · splits <;> first
      | exact ainvO_none
      | (rw [ainvO_some]; first
          | exact ainv_shutdownAgents _ _ h
          | (apply ainv_shutdownAgents; show AInvL (supKill _ _).agents; rw [supKill_agents]; exact h))
  · have hw := foldl_waits_agents s.agentWaits (s, [])
    dsimp only at hw ⊢
    generalize (List.foldl _ (s, []) s.agentWaits) = r at hw ⊢
    obtain ⟨s1, still⟩ := r
    dsimp only at hw ⊢
    have h1 : AInv s1 := by show AInvL s1.agents; rw [hw]; exact h
    splits <;> first
      | exact ainvO_none
      | (rw [ainvO_some]; show AInvL _; first | exact h1 | (simp only [enterGrace_agents]; exact h1))
  · splits <;> first
      | exact ainvO_none
      | (rw [ainvO_some]; apply ainv_finishShutdown; first | exact h | (show AInvL _; exact h))
  · exact ainvO_none

theorem ainv_startHandler (s : State) (r : HReq) (h : AInv s) : AInv (startHandler s r) := by
  unfold startHandler
  splits <;> first
    | exact ainv_startInit _ _ h
    | (apply ainv_startInit; exact h)
    | (apply ainv_continueInvoke; exact h)
    | (apply ainv_beginShutdown; show AInvL _; simp only [emit_agents']; exact h)
    | (apply ainv_beginShutdown; exact h)

theorem ainvO_orElse' {a y : Option State} (ha : AInvO a) (hb : AInvO y) : AInvO (orElse' a fun _ => y) := by
  intro s' h; unfold orElse' at h; split at h
  · exact ha _ h
  · exact hb _ h

theorem ainvO_platformMove (lifo : Bool) (s : State) (h : AInv s) : AInvO (platformMove lifo s) := by
  unfold platformMove
  refine ainvO_orElse' (ainvO_orchResume s h) ?_
  refine ainvO_orElse' (ainvO_shutResume s _ h) ?_
  refine ainvO_orElse' (AInvO.of_agEq h (restoreResume_agents s)) ?_
  splits <;> first
    | exact ainvO_none
    | (rw [ainvO_some]; apply ainv_startHandler; exact h)
    | (intro s' hs
       obtain ⟨f, _, hm⟩ := firstSome_spec _ _ _ hs
       exact AInvO.of_agEq h (flightMove_agents s f) s' hm)

theorem ainvO_wakeMove (l : Bool) (s : State) (h : AInv s) : AInvO (wakeMove l s) := by
  unfold wakeMove
  refine ainvO_orElse' ?_ (ainv_wakeAgent l s h)
  intro s' hs
  show AInvL s'.agents
  rw [wakeRt_agents hs]; exact h

theorem ainvO_progress (v : Nat) (s : State) (h : AInv s) : AInvO (progress v s) := by
  have hp := fun l => ainvO_platformMove l s h
  have hw := fun l => ainvO_wakeMove l s h
  have hk := AInvO.of_agEq h (killMove_agents s)
  have hr := fun l => ainv_renderWoken l s h
  unfold progress
  splits <;> first
    | exact ainvO_none
    | (rw [ainvO_some]; apply ainv_watchOne; exact h)
    | exact ainvO_orElse' (ainvO_orElse' (hw _) (ainvO_orElse' (hp _) hk)) (hr _)
    | exact ainvO_orElse' (ainvO_orElse' (hp _) (ainvO_orElse' (hw _) hk)) (hr _)
    | exact ainvO_orElse' (ainvO_orElse' (hp _) (ainvO_orElse' hk (hw _))) (hr _)
    | exact ainvO_orElse' (hr _) (ainvO_orElse' (hw _) (ainvO_orElse' (hp _) hk))
    | exact ainvO_orElse' (hr _) (ainvO_orElse' (hp _) (ainvO_orElse' (hw _) hk))
    | exact ainvO_orElse' (hr _) (ainvO_orElse' (hp _) (ainvO_orElse' hk (hw _)))

theorem ainv_settle (v n : Nat) (s : State) (h : AInv s) : AInv (settle v n s) := by
  induction n generalizing v s with
  | zero => exact h
  | succ n ih =>
    unfold settle
    split
    · exact h
    · rename_i s' hp
      exact ih _ s' (ainvO_progress v s h s' hp)

theorem ainv_applyOp (s : State) (o : Op) (h : AInv s) : AInv (applyOp s o) := by
  cases o with
  | register n es v => exact ainv_agRegister s n es v h
  | agNext n m => exact ainv_agNext s n m h
  | agReport n c e m => exact ainv_agReport s n c e m h
  | timer t =>
    simp only [applyOp]
    splits <;> first
      | exact h
      | (show AInvL _; simp only [resetTail_agents, restoreFinish_agents, cancelInitFlow_agents, setFlight_agents, requestReset_agents]; exact h)
  | _ => (simp only [applyOp]; splits <;> first | exact h | (show AInvL _; simp; exact h))

theorem ainv_step (v : Nat) (s : State) (o : Op) (h : AInv s) : AInv (step v s o) := by
  unfold step
  apply ainv_settle
  apply ainv_applyOp
  exact h

theorem ainv_run (s : State) (H : List Nat) (ops : List (Nat × Op)) (h : AInv s) : AInv (run s H ops).1 := by
  induction ops generalizing s H with
  | nil => exact h
  | cons x rest ih => obtain ⟨v, o⟩ := x; exact ih _ _ (ainv_step v s o h)

end Rie.Sys
