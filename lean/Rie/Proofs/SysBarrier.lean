import Rie.Proofs.SysProcs

/-!
Whole-run invariant of the init barrier (C03): **the runtime exists only when every external extension
that was launched has registered.**

Ingredients, all over every state reachable by any ops under any scheduler variant:
  * the external agents' names are a prefix of the configured extension files (they are created in
    that order, once each);
  * the registration gate's `arrived` equals the number of external agents that have registered
    (cancelled or not: a cancellation changes neither), and its count is never below the number of external agents —
    so the arrival of a registering extension is never refused by the gate;
  * while the orchestrator waits at the registration gate every file has been launched, the gate
    expects exactly that many arrivals and no extension was refused at launch;
  * hence, when the orchestrator passes the gate (open, not cancelled) every external agent has
    registered, and that stays so while the runtime object exists.
-/
namespace Rie.Sys
open Rie.SM

/-- an external agent that has registered (any state but Started / LaunchError) -/
def regd (a : Agent) : Bool := a.ext && a.st != .started && a.st != .launchError

def extAgents (s : State) : List Agent := s.agents.filter (·.ext)
def extNames (s : State) : List String := (extAgents s).map (·.name)
def nreg (s : State) : Nat := (s.agents.filter regd).length

structure BInv (s : State) : Prop where
  /-- external agents are created in the order of the extension files, once each -/
  pre : extNames s = s.extFiles.take (extNames s).length
  /-- the gate can hold an arrival of every external agent -/
  cap : (extAgents s).length ≤ s.initFlow.extRegistered.count
  /-- arrivals = registered external agents -/
  arr : s.initFlow.extRegistered.arrived = nreg s
  /-- at the registration gate: everything launched, exactly that many arrivals expected, nobody refused -/
  wait : ∀ ph, s.orch = .iAwaitRegistered ph →
    extNames s = s.extFiles ∧ s.initFlow.extRegistered.count = s.extFiles.length ∧ ∀ a ∈ s.agents, a.ext = true → a.st ≠ .launchError
  /-- the runtime object exists only with every file launched and every external agent registered -/
  rt : s.rt.isSome = true → extNames s = s.extFiles ∧ ∀ a ∈ s.agents, a.ext = true → a.st ≠ .started

/-- all the invariant needs to know about an agent: 0 internal, 1 external not yet registered,
    2 external refused at launch, 3 external registered -/
def cls (a : Agent) : Nat :=
  if !a.ext then 0 else if a.st == .started then 1 else if a.st == .launchError then 2 else 3

def acls (l : List Agent) : List (String × Nat) := l.map fun a => (a.name, cls a)

/-- what the invariant looks at -/
structure BView where
  files : List String
  orchWait : Option Phase          -- some ph ↔ orch = iAwaitRegistered ph
  rtSome : Bool
  count : Nat
  arrived : Nat
  ags : List (String × Nat)
deriving DecidableEq

def orchWaitOf : OrchPC → Option Phase
  | .iAwaitRegistered ph => some ph
  | _ => none

def bview (s : State) : BView :=
  { files := s.extFiles, orchWait := orchWaitOf s.orch, rtSome := s.rt.isSome, count := s.initFlow.extRegistered.count, arrived := s.initFlow.extRegistered.arrived,
    ags := acls s.agents }

theorem orchWaitOf_eq {o : OrchPC} {ph : Phase} : o = .iAwaitRegistered ph ↔ orchWaitOf o = some ph := by
  cases o <;> simp [orchWaitOf]

/-- the invariant is a property of the view -/
theorem binv_of_bview {s s' : State} (h : bview s' = bview s) (i : BInv s) : BInv s' := by
  have hf : s'.extFiles = s.extFiles := congrArg BView.files h
  have ho : orchWaitOf s'.orch = orchWaitOf s.orch := congrArg BView.orchWait h
  have hr : s'.rt.isSome = s.rt.isSome := congrArg BView.rtSome h
  have hg : s'.initFlow.extRegistered.count = s.initFlow.extRegistered.count := congrArg BView.count h
  have hg2 : s'.initFlow.extRegistered.arrived = s.initFlow.extRegistered.arrived := congrArg BView.arrived h
  have ha : acls s'.agents = acls s.agents := congrArg BView.ags h
  have hen : extNames s' = extNames s := by
    have : ∀ l : List Agent, (l.filter (·.ext)).map (·.name) = ((acls l).filter (·.2 != 0)).map (·.1) := by
      intro l; induction l with
      | nil => rfl
      | cons x xs ih =>
        simp only [acls, List.filter_cons, List.map_cons] at ih ⊢
        cases hx : x.ext <;> simp [cls, hx, ih] <;> (repeat' split) <;> simp_all
    unfold extNames extAgents; rw [this, this, ha]
  have hel : (extAgents s').length = (extAgents s).length := by
    have := congrArg List.length hen; simpa [extNames] using this
  have hnr : nreg s' = nreg s := by
    have : ∀ l : List Agent, (l.filter regd).length = ((acls l).filter (·.2 == 3)).length := by
      intro l; induction l with
      | nil => rfl
      | cons x xs ih =>
        simp only [acls, List.filter_cons, List.map_cons] at ih ⊢
        have hx : regd x = (cls x == 3) := by
          unfold regd cls
          cases x.ext <;> simp <;> (repeat' split) <;> simp_all
        rw [hx]; split <;> simp_all
    unfold nreg; rw [this, this, ha]
  have hall : ∀ (k : Nat), (∀ a ∈ s.agents, cls a ≠ k) → ∀ a ∈ s'.agents, cls a ≠ k := by
    intro k hP a ham
    have hm : (a.name, cls a) ∈ acls s'.agents := List.mem_map_of_mem ham
    rw [ha] at hm
    obtain ⟨b, hb, hbe⟩ := List.mem_map.mp hm
    have h2 : cls b = cls a := congrArg (·.2) hbe
    rw [← h2]; exact hP b hb
  have cls_le : ∀ a : Agent, (a.ext = true → a.st ≠ .launchError) ↔ cls a ≠ 2 := by
    intro a; unfold cls; cases a.ext <;> simp <;> (repeat' split) <;> simp_all
  have cls_st : ∀ a : Agent, (a.ext = true → a.st ≠ .started) ↔ cls a ≠ 1 := by
    intro a; unfold cls; cases a.ext <;> simp <;> (repeat' split) <;> simp_all
  refine ⟨?_, ?_, ?_, ?_, ?_⟩
  · rw [hen, hf]; exact i.pre
  · rw [hel, hg]; exact i.cap
  · rw [hg2, hnr]; exact i.arr
  · intro ph hph
    have : s.orch = .iAwaitRegistered ph := orchWaitOf_eq.mpr (by rw [← ho]; exact orchWaitOf_eq.mp hph)
    obtain ⟨w1, w2, w3⟩ := i.wait ph this
    exact ⟨by rw [hen, hf]; exact w1, by rw [hg, hf]; exact w2, fun a ha' => (cls_le a).mpr (hall 2 (fun b hb => (cls_le b).mp (w3 b hb)) a ha')⟩
  · intro hrt
    obtain ⟨r1, r2⟩ := i.rt (by rw [← hr]; exact hrt)
    exact ⟨by rw [hen, hf]; exact r1, fun a ha' => (cls_st a).mpr (hall 1 (fun b hb => (cls_st b).mp (r2 b hb)) a ha')⟩

/-- files, orchestrator PC, existence of the runtime object and the gate's two numbers unchanged -/
abbrev BE (s s' : State) : Prop :=
  s'.extFiles = s.extFiles ∧ s'.orch = s.orch ∧ s'.rt.isSome = s.rt.isSome ∧
  s'.initFlow.extRegistered.count = s.initFlow.extRegistered.count ∧
  s'.initFlow.extRegistered.arrived = s.initFlow.extRegistered.arrived

theorem binv_of_be {s s' : State} (h : BE s s') (ha : acls s'.agents = acls s.agents) (i : BInv s) : BInv s' := by
  apply binv_of_bview _ i
  obtain ⟨h1, h2, h3, h4, h5⟩ := h
  simp only [bview, h1, h2, h3, h4, h5, ha]

theorem binv_of_be_agents {s s' : State} (h : BE s s') (ha : s'.agents = s.agents) (i : BInv s) : BInv s' :=
  binv_of_be h (by rw [ha]) i

theorem BE.trans' {a b c : State} (h1 : BE a b) (h2 : BE b c) : BE a c :=
  ⟨h2.1.trans h1.1, h2.2.1.trans h1.2.1, h2.2.2.1.trans h1.2.2.1, h2.2.2.2.1.trans h1.2.2.2.1, h2.2.2.2.2.trans h1.2.2.2.2⟩

macro "be_tac" : tactic => `(tactic| (splits <;> simp_all [BE]))

@[simp] theorem be_emit (s : State) (e : String) : BE s (s.emit e) := ⟨rfl, rfl, rfl, rfl, rfl⟩
@[simp] theorem be_emitEv (s : State) (k : EvKind) (r : String) : BE s (s.emitEv k r) := ⟨rfl, rfl, rfl, rfl, rfl⟩
@[simp] theorem be_emitCaller (s : State) (c : Nat) (e b : String) : BE s (s.emitCaller c e b) := ⟨rfl, rfl, rfl, rfl, rfl⟩
@[simp] theorem be_storeFatal (s : State) (t : String) : BE s (storeFatal s t) := by unfold storeFatal; be_tac
@[simp] theorem be_cancelFlows (s : State) (e : CErr) : BE s (cancelFlows s e) := by unfold cancelFlows; splits <;> simp [BE, Latch.cancel]
@[simp] theorem be_cancelInitFlow (s : State) (e : CErr) : BE s (cancelInitFlow s e) := by simp [BE, cancelInitFlow, Latch.cancel]
/-- every flow call except the arrival of a registering external extension -/
theorem be_flowCall (s : State) (f : FlowCall) (hf : f ≠ .initExternalAgentRegistered) : BE s (flowCall s f).1 := by
  cases f <;> first | exact absurd rfl hf | simp [BE, flowCall, cancelInitFlow, Latch.cancel]
@[simp] theorem be_setProc (s : State) (p : Proc) : BE s (setProc s p) := ⟨rfl, rfl, rfl, rfl, rfl⟩
@[simp] theorem be_setAgent (s : State) (a : Agent) : BE s (setAgent s a) := ⟨rfl, rfl, rfl, rfl, rfl⟩
@[simp] theorem be_addPending (s : State) (a c : String) : BE s (addPending s a c) := by unfold addPending; be_tac
@[simp] theorem be_answer (s : State) (a c r : String) : BE s (answer s a c r) := by unfold answer; be_tac
@[simp] theorem be_reply (s : State) (a c r : String) : BE s (reply s a c r) := ⟨rfl, rfl, rfl, rfl, rfl⟩
@[simp] theorem be_setFlight (s : State) (f : Flight) : BE s (setFlight s f) := ⟨rfl, rfl, rfl, rfl, rfl⟩
@[simp] theorem be_release (s : State) : BE s (release s) := ⟨rfl, rfl, rfl, rfl, rfl⟩
@[simp] theorem be_idsSet (s : State) (n : String) (k : Nat) : BE s (idsSet s n k) := ⟨rfl, rfl, rfl, rfl, rfl⟩
@[simp] theorem be_sendReply (s : State) (k : Nat) (b : String) : BE s (sendReply s k b).1 := by
  unfold sendReply; splits <;> simp_all [BE]

/-- the flows a program calls -/
def flowsOf {σ : Type} : List (Instr σ) → List FlowCall
  | [] => []
  | .flow f _ :: is => f :: flowsOf is
  | _ :: is => flowsOf is

theorem be_runRtInstrs (s : State) (cur : RtState) (is : List (Instr RtState))
    (hf : FlowCall.initExternalAgentRegistered ∉ flowsOf is) : BE s (runRtInstrs s cur is).1 := by
  induction is generalizing s cur with
  | nil => exact ⟨rfl, rfl, rfl, rfl, rfl⟩
  | cons i is ih =>
    cases i with
    | set x => exact ih s x (by simpa [flowsOf] using hf)
    | flow f chk =>
      have hf1 : f ≠ .initExternalAgentRegistered := by intro e; apply hf; simp [flowsOf, e]
      have hf2 : FlowCall.initExternalAgentRegistered ∉ flowsOf is := by intro e; apply hf; simp [flowsOf, e]
      simp only [runRtInstrs]
      split
      · exact be_flowCall s f hf1
      · exact BE.trans' (be_flowCall s f hf1) (ih _ _ hf2)
    | suspend ok nx => exact ⟨rfl, rfl, rfl, rfl, rfl⟩
    | subscribe es => exact ih s cur (by simpa [flowsOf] using hf)
    | setErrType => exact ih s cur (by simpa [flowsOf] using hf)

/-- table fact: no runtime program makes an external extension's registration arrival -/
theorem rtProg_noExtFlow (st : RtState) (c : RtCall) (is : List (Instr RtState)) (h : rtProg st c = some is) :
    FlowCall.initExternalAgentRegistered ∉ flowsOf is := by
  cases st <;> cases c <;> simp [rtProg] at h <;> subst h <;> simp [flowsOf]

theorem be_runRt_of {s s' : State} {st : RtState} {c : RtCall} {is : List (Instr RtState)} {x : RtState × Err × Option Park}
    (hp : rtProg st c = some is) (h : runRtInstrs s st is = (s', x)) : BE s s' := by
  have := be_runRtInstrs s st is (rtProg_noExtFlow st c is hp); rw [h] at this; exact this
theorem be_sendReply_of {s s' : State} {k : Nat} {b : String} {r : SendRes} (h : sendReply s k b = (s', r)) : BE s s' := by
  have := be_sendReply s k b; rw [h] at this; exact this

macro "be_tac2" : tactic => `(tactic| (splits <;>
  (try have hSR := be_sendReply_of (by assumption)) <;>
  (try have hRT := be_runRt_of (by assumption) (by assumption)) <;> simp_all [BE]))

@[simp] theorem be_rtCallBlocking (s : State) (call : String) (c : RtCall) : BE s (rtCallBlocking s call c) := by
  unfold rtCallBlocking; be_tac2
theorem be_wakeRt {s s' : State} (h : wakeRt s = some s') : BE s s' := by
  unfold wakeRt at h; split at h <;> simp at h
  rename_i hrt
  split at h <;> (simp at h; subst h; simp [BE, hrt])
@[simp] theorem be_rtDeliver (s : State) (call : String) (k : Nat) (b : String) (o : Option Nat) : BE s (rtDeliver s call k b o) := by
  unfold rtDeliver; be_tac2
@[simp] theorem be_rtResponse (s : State) (idk : Option Nat) (size : Nat) (h : String) (bad : Bool) : BE s (rtResponse s idk size h bad) := by
  unfold rtResponse; be_tac2
@[simp] theorem be_rtError (s : State) (idk : Option Nat) (et : String) : BE s (rtError s idk et) := by
  unfold rtError; be_tac2
@[simp] theorem be_rtInitError (s : State) (et : String) : BE s (rtInitError s et) := by
  unfold rtInitError; be_tac2
@[simp] theorem be_rtRestoreError (s : State) (et : String) : BE s (rtRestoreError s et) := by
  unfold rtRestoreError; be_tac2
@[simp] theorem be_rtCreds (s : State) (tok : String) : BE s (rtCreds s tok) := by unfold rtCreds; be_tac

theorem be_runAgInstrs (et : String) (s : State) (a : Agent) (is : List (Instr ExtState))
    (hf : FlowCall.initExternalAgentRegistered ∉ flowsOf is) : BE s (runAgInstrs et s a is).1 := by
  induction is generalizing s a with
  | nil => exact ⟨rfl, rfl, rfl, rfl, rfl⟩
  | cons i is ih =>
    cases i with
    | set x => exact ih s _ (by simpa [flowsOf] using hf)
    | flow f chk =>
      have hf1 : f ≠ .initExternalAgentRegistered := by intro e; apply hf; simp [flowsOf, e]
      have hf2 : FlowCall.initExternalAgentRegistered ∉ flowsOf is := by intro e; apply hf; simp [flowsOf, e]
      simp only [runAgInstrs]
      exact BE.trans' (be_flowCall s f hf1) (ih _ _ hf2)
    | suspend ok nx => exact ⟨rfl, rfl, rfl, rfl, rfl⟩
    | subscribe es => exact ih s _ (by simpa [flowsOf] using hf)
    | setErrType => exact ih s _ (by simpa [flowsOf] using hf)

/-- the state an agent program ends in -/
def finalSt : ExtState → List (Instr ExtState) → ExtState
  | st, [] => st
  | _, .set x :: is => finalSt x is
  | st, .suspend _ _ :: _ => st
  | st, _ :: is => finalSt st is

theorem runAgInstrs_st (et : String) (s : State) (a : Agent) (is : List (Instr ExtState)) :
    (runAgInstrs et s a is).2.1.st = finalSt a.st is ∧ (runAgInstrs et s a is).2.1.ext = a.ext := by
  induction is generalizing s a with
  | nil => exact ⟨rfl, rfl⟩
  | cons i is ih =>
    cases i <;> simp only [runAgInstrs, finalSt] <;> first
      | exact ih _ _
      | exact ⟨rfl, rfl⟩
      | trivial
      | (have h := ih (flowCall s ‹FlowCall›).1 (if (‹FlowCall› == FlowCall.initAgentReady && (flowCall s ‹FlowCall›).2) = true then { a with asked := true } else a)
         refine ⟨h.1.trans ?_, h.2.trans ?_⟩ <;> (split <;> rfl))

/-- table fact: except for the registration of an external extension in `Started`, a legal call other
    than `launchError` keeps the class of the agent and makes no registration arrival -/
theorem agProg_cls (a : Agent) (c : AgCall) (is : List (Instr ExtState)) (h : agProg a c = some is) (hc : c ≠ .launchError) :
    (a.ext = true ∧ a.st = .started ∧ ∃ es, c = .register es ∧
        is = [.subscribe es, .set .registered, .flow .initExternalAgentRegistered false]) ∨
    (cls { a with st := finalSt a.st is } = cls a ∧ FlowCall.initExternalAgentRegistered ∉ flowsOf is) := by
  unfold agProg at h
  split at h
  · rename_i hext
    cases hst : a.st <;> cases c <;> simp [extProg, hst] at h <;> (try exact absurd rfl hc) <;> subst h <;>
      first
        | (left; exact ⟨hext, rfl, _, rfl, rfl⟩)
        | (right; simp [finalSt, flowsOf, cls, hext, hst])
  · rename_i hext
    have hext' : a.ext = false := by simpa using hext
    cases hst : a.st <;> cases c <;> simp [intProgE, hst] at h <;> (try exact absurd rfl hc) <;> subst h <;>
      (right; simp [flowsOf, cls, hext'])

/-! ### replacing one agent (names are pairwise distinct) -/

def repl (a' : Agent) (b : Agent) : Agent := if b.name == a'.name then a' else b

theorem setAgent_agents (s : State) (a' : Agent) : (setAgent s a').agents = s.agents.map (repl a') := rfl

theorem filter_repl_same (l : List Agent) (a a' : Agent) (p : Agent → Bool) (hn : (l.map (·.name)).Nodup) (ha : a ∈ l)
    (hname : a'.name = a.name) (hp : p a' = p a) : ((l.map (repl a')).filter p).length = (l.filter p).length := by
  induction l with
  | nil => rfl
  | cons x xs ih =>
    simp only [List.map_cons, List.nodup_cons] at hn
    rcases List.mem_cons.mp ha with rfl | hm
    · have hx : repl a' a = a' := by simp [repl, hname]
      have hrest : xs.map (repl a') = xs := by
        conv => rhs; rw [← List.map_id xs]
        apply List.map_congr_left
        intro b hb
        have : b.name ≠ a'.name := by intro e; apply hn.1; rw [← hname, ← e]; exact List.mem_map_of_mem hb
        simp [repl, this]
      simp only [List.map_cons, hx, hrest, List.filter_cons, hp]
      split <;> rfl
    · have hx : repl a' x = x := by
        have : x.name ≠ a'.name := by intro e; apply hn.1; rw [e, hname]; exact List.mem_map_of_mem hm
        simp [repl, this]
      simp only [List.map_cons, hx, List.filter_cons]
      split <;> simp [ih hn.2 hm]

theorem filter_repl_gain (l : List Agent) (a a' : Agent) (p : Agent → Bool) (hn : (l.map (·.name)).Nodup) (ha : a ∈ l)
    (hname : a'.name = a.name) (hpa : p a = false) (hpa' : p a' = true) :
    ((l.map (repl a')).filter p).length = (l.filter p).length + 1 := by
  induction l with
  | nil => cases ha
  | cons x xs ih =>
    simp only [List.map_cons, List.nodup_cons] at hn
    rcases List.mem_cons.mp ha with rfl | hm
    · have hx : repl a' a = a' := by simp [repl, hname]
      have hrest : xs.map (repl a') = xs := by
        conv => rhs; rw [← List.map_id xs]
        apply List.map_congr_left
        intro b hb
        have : b.name ≠ a'.name := by intro e; apply hn.1; rw [← hname, ← e]; exact List.mem_map_of_mem hb
        simp [repl, this]
      simp [hx, hrest, hpa, hpa']
    · have hx : repl a' x = x := by
        have : x.name ≠ a'.name := by intro e; apply hn.1; rw [e, hname]; exact List.mem_map_of_mem hm
        simp [repl, this]
      simp only [List.map_cons, hx, List.filter_cons]
      split <;> simp [ih hn.2 hm] <;> omega

theorem acls_repl_same (l : List Agent) (a a' : Agent) (hn : (l.map (·.name)).Nodup) (ha : a ∈ l)
    (hname : a'.name = a.name) (hc : cls a' = cls a) : acls (l.map (repl a')) = acls l := by
  unfold acls
  rw [List.map_map]
  apply List.map_congr_left
  intro b hb
  by_cases hbn : b.name = a'.name
  · have : b = a := eq_of_nodup_map (·.name) l hn hb ha (by rw [hbn, hname])
    subst this
    simp [repl, hbn, hc]
  · simp [repl, hbn]

theorem extNames_repl (l : List Agent) (a' : Agent) (hext : ∀ b ∈ l, b.name = a'.name → b.ext = a'.ext) :
    ((l.map (repl a')).filter (·.ext)).map (·.name) = (l.filter (·.ext)).map (·.name) := by
  induction l with
  | nil => rfl
  | cons x xs ih =>
    have ih' := ih (fun b hb => hext b (List.mem_cons_of_mem _ hb))
    by_cases hx : x.name = a'.name
    · have he := hext x List.mem_cons_self hx
      simp only [List.map_cons, repl, hx, beq_self_eq_true, ↓reduceIte, List.filter_cons]
      rw [he]
      split
      · simp only [List.map_cons, List.cons.injEq]; exact ⟨hx.symm, ih'⟩
      · exact ih'
    · have : (x.name == a'.name) = false := by simpa using hx
      simp only [List.map_cons, repl, this, Bool.false_eq_true, ↓reduceIte, List.filter_cons]
      split
      · simp only [List.map_cons, List.cons.injEq, true_and]; exact ih'
      · exact ih'

theorem regd_le_ext (l : List Agent) : (l.filter regd).length ≤ (l.filter (·.ext)).length := by
  induction l with
  | nil => exact Nat.le_refl _
  | cons y ys ih =>
    simp only [List.filter_cons]
    by_cases hy : regd y = true
    · have he : y.ext = true := by
        unfold regd at hy; cases h : y.ext
        · simp [h] at hy
        · rfl
      simp only [hy, he, ↓reduceIte, List.length_cons]; omega
    · have hy' : regd y = false := by simpa using hy
      simp only [hy', Bool.false_eq_true, ↓reduceIte]
      split
      · simp only [List.length_cons]; omega
      · exact ih

theorem nreg_lt_ext (s : State) (a : Agent) (ha : a ∈ s.agents) (hext : a.ext = true) (hst : a.st = .started) :
    nreg s < (extAgents s).length := by
  unfold nreg extAgents
  generalize s.agents = l at ha
  induction l with
  | nil => cases ha
  | cons x xs ih =>
    rcases List.mem_cons.mp ha with rfl | hm
    · have h1 : regd a = false := by simp [regd, hext, hst]
      have h2 := regd_le_ext xs
      simp only [List.filter_cons, h1, hext, Bool.false_eq_true, ↓reduceIte, List.length_cons]
      omega
    · have h3 := ih hm
      simp only [List.filter_cons]
      by_cases hx : regd x = true
      · have he : x.ext = true := by
          unfold regd at hx; cases h : x.ext
          · simp [h] at hx
          · rfl
        simp only [hx, he, ↓reduceIte, List.length_cons]; omega
      · have hx' : regd x = false := by simpa using hx
        simp only [hx', Bool.false_eq_true, ↓reduceIte]
        split
        · simp only [List.length_cons]; omega
        · exact h3

/-- **An agent's API call.** A handler runs the legal program `is` of a known agent `a` and stores a
    successor `a'` that differs from the program's result only in fields the invariant does not look at. -/
theorem binv_agStep (s : State) (a a' : Agent) (c : AgCall) (is : List (Instr ExtState)) (et : String)
    (hA : AInv s) (hB : BInv s) (ha : a ∈ s.agents) (hp : agProg a c = some is) (hc : c ≠ .launchError)
    (hn' : a'.name = a.name) (he' : a'.ext = a.ext) (hs' : a'.st = finalSt a.st is) :
    BInv (setAgent (runAgInstrs et s a is).1 a') := by
  have hag : (runAgInstrs et s a is).1.agents = s.agents := runAgInstrs_agents et s a is
  rcases agProg_cls a c is hp hc with ⟨hext, hst, es, hce, his⟩ | ⟨hcls, hnf⟩
  · -- an external extension registers: one arrival at the gate, one more registered agent
    subst his
    have hlt := nreg_lt_ext s a ha hext hst
    have harr := hB.arr
    have hcap := hB.cap
    have hne : (s.initFlow.extRegistered.arrived == s.initFlow.extRegistered.count) = false := by
      have : s.initFlow.extRegistered.arrived ≠ s.initFlow.extRegistered.count := by omega
      simpa using this
    have hst' : a'.st = .registered := by rw [hs']; rfl
    have hregd_a : regd a = false := by simp [regd, hext, hst]
    have hregd_a' : regd a' = true := by simp [regd, he', hext, hst']
    -- the state the program leaves: the walk succeeded, nothing else the invariant looks at changed
    have hgate : (runAgInstrs et s a [Instr.subscribe es, Instr.set ExtState.registered, Instr.flow FlowCall.initExternalAgentRegistered false]).1.initFlow.extRegistered
        = { s.initFlow.extRegistered with arrived := s.initFlow.extRegistered.arrived + 1 } := by
      simp [runAgInstrs, flowCall, Latch.walk, hne]
    have hfiles : (runAgInstrs et s a [Instr.subscribe es, Instr.set ExtState.registered, Instr.flow FlowCall.initExternalAgentRegistered false]).1.extFiles = s.extFiles := by
      simp [runAgInstrs, flowCall]
    have horch : (runAgInstrs et s a [Instr.subscribe es, Instr.set ExtState.registered, Instr.flow FlowCall.initExternalAgentRegistered false]).1.orch = s.orch := by
      simp [runAgInstrs, flowCall]
    have hrtq : (runAgInstrs et s a [Instr.subscribe es, Instr.set ExtState.registered, Instr.flow FlowCall.initExternalAgentRegistered false]).1.rt = s.rt := by
      simp [runAgInstrs, flowCall]
    generalize (runAgInstrs et s a [Instr.subscribe es, Instr.set ExtState.registered, Instr.flow FlowCall.initExternalAgentRegistered false]).1 = s1 at hag hgate hfiles horch hrtq ⊢
    have hnr : nreg (setAgent s1 a') = nreg s + 1 := by
      unfold nreg; rw [setAgent_agents, hag]
      exact filter_repl_gain s.agents a a' regd hA.nodup ha hn' hregd_a hregd_a'
    have hen : extNames (setAgent s1 a') = extNames s := by
      unfold extNames extAgents; rw [setAgent_agents, hag]
      apply extNames_repl
      intro b hb hbn
      have : b = a := eq_of_nodup_map (·.name) s.agents hA.nodup hb ha (by rw [hbn, hn'])
      rw [this, he']
    have hel : (extAgents (setAgent s1 a')).length = (extAgents s).length := by
      have := congrArg List.length hen; simpa [extNames] using this
    have hmem : ∀ b ∈ (setAgent s1 a').agents, b = a' ∨ b ∈ s.agents := by
      intro b hb
      rw [setAgent_agents, hag] at hb
      obtain ⟨x, hx, rfl⟩ := List.mem_map.mp hb
      unfold repl; split
      · exact Or.inl rfl
      · exact Or.inr hx
    have e1 : (setAgent s1 a').extFiles = s.extFiles := hfiles
    have e2 : (setAgent s1 a').initFlow.extRegistered = { s.initFlow.extRegistered with arrived := s.initFlow.extRegistered.arrived + 1 } := hgate
    have e3 : (setAgent s1 a').orch = s.orch := horch
    have e4 : (setAgent s1 a').rt = s.rt := hrtq
    refine ⟨?_, ?_, ?_, ?_, ?_⟩
    · rw [hen, e1]; exact hB.pre
    · rw [hel, e2]; exact hcap
    · rw [hnr, e2]; simp [harr]
    · intro ph hph
      obtain ⟨w1, w2, w3⟩ := hB.wait ph (by rw [← e3]; exact hph)
      refine ⟨by rw [hen, e1]; exact w1, by rw [e2, e1]; exact w2, ?_⟩
      intro b hb hbe
      rcases hmem b hb with rfl | hb'
      · rw [hst']; intro e; cases e
      · exact w3 b hb' hbe
    · intro hrt
      exact absurd hst ((hB.rt (by rw [← e4]; exact hrt)).2 a ha hext)
  · -- the class of the agent is unchanged, no arrival at the registration gate
    have hbe := be_runAgInstrs et s a is hnf
    apply binv_of_be (BE.trans' hbe (be_setAgent _ a')) _ hB
    rw [setAgent_agents, hag]
    apply acls_repl_same s.agents a a' hA.nodup ha hn'
    have : cls a' = cls { a with st := finalSt a.st is } := by simp [cls, he', hs']
    rw [this, hcls]

/-! ### the Extensions API handlers -/

/-- wrapping a state by functions that keep the five view fields and the agents -/
theorem binv_wrap {s s' : State} (h : BE s s') (ha : s'.agents = s.agents) (i : BInv s) : BInv s' := binv_of_be_agents h ha i

theorem binv_append_internal (s : State) (a : Agent) (hi : a.ext = false) (i : BInv s) : BInv { s with agents := s.agents ++ [a] } := by
  have hf : ∀ p : Agent → Bool, p a = false → (s.agents ++ [a]).filter p = s.agents.filter p := by
    intro p hp; simp [List.filter_append, hp]
  have hen : extNames { s with agents := s.agents ++ [a] } = extNames s := by
    unfold extNames extAgents; rw [show ({ s with agents := s.agents ++ [a] } : State).agents = s.agents ++ [a] from rfl, hf _ hi]
  have hnr : nreg { s with agents := s.agents ++ [a] } = nreg s := by
    unfold nreg; rw [show ({ s with agents := s.agents ++ [a] } : State).agents = s.agents ++ [a] from rfl, hf regd (by simp [regd, hi])]
  have hel : (extAgents { s with agents := s.agents ++ [a] }).length = (extAgents s).length := by
    have := congrArg List.length hen; simpa [extNames] using this
  have hmem : ∀ b ∈ ({ s with agents := s.agents ++ [a] } : State).agents, b.ext = true → b ∈ s.agents := by
    intro b hb hbe
    rcases List.mem_append.mp hb with h | h
    · exact h
    · have : b = a := by simpa using h
      rw [this, hi] at hbe; cases hbe
  exact ⟨by rw [hen]; exact i.pre, by rw [hel]; exact i.cap, by rw [hnr]; exact i.arr,
    fun ph hph => let ⟨w1, w2, w3⟩ := i.wait ph hph; ⟨by rw [hen]; exact w1, w2, fun b hb hbe => w3 b (hmem b hb hbe) hbe⟩,
    fun hrt => let ⟨r1, r2⟩ := i.rt hrt; ⟨by rw [hen]; exact r1, fun b hb hbe => r2 b (hmem b hb hbe) hbe⟩⟩

theorem binv_agRegister (s : State) (n : String) (es : List Ev) (v : String) (hA : AInv s) (hB : BInv s) : BInv (agRegister s n es v) := by
  unfold agRegister
  split
  · exact binv_wrap (be_reply _ _ _ _) rfl hB
  · split
    · exact binv_wrap (be_reply _ _ _ _) rfl hB
    · split
      · rename_i a hfa
        have ha : a ∈ s.agents := List.mem_of_find?_eq_some hfa
        split
        · exact binv_wrap (be_reply _ _ _ _) rfl hB
        · split
          · exact binv_wrap (be_reply _ _ _ _) rfl hB
          · rename_i is hp
            dsimp only
            have hst := runAgInstrs_st "" s a is
            have hnm := runAgInstrs_name "" s a is
            have hstep := binv_agStep s a (runAgInstrs "" s a is).2.1 (.register es) is "" hA hB ha hp (by intro e; cases e) hnm hst.2 hst.1
            exact binv_wrap (BE.trans' (be_idsSet _ _ _) (be_reply _ _ _ _)) rfl hstep
      · split
        · exact binv_wrap (be_reply _ _ _ _) rfl hB
        · split
          · exact binv_wrap (be_reply _ _ _ _) rfl hB
          · split
            · exact binv_wrap (be_reply _ _ _ _) rfl hB
            · split
              · exact binv_wrap (be_reply _ _ _ _) rfl hB
              · dsimp only
                split
                · apply binv_wrap (be_reply _ _ _ _) rfl
                  exact binv_append_internal { s with nextSerial := s.nextSerial + 1 } _ rfl (binv_wrap (s := s) ⟨rfl, rfl, rfl, rfl, rfl⟩ rfl hB)
                · rename_i is hp
                  apply binv_wrap (BE.trans' (be_idsSet _ _ _) (be_reply _ _ _ _)) rfl
                  -- an internal agent's program touches no registration gate
                  have hnf : FlowCall.initExternalAgentRegistered ∉ flowsOf is := by
                    rcases agProg_cls _ _ is hp (by intro e; cases e) with ⟨hext, _⟩ | ⟨_, h⟩
                    · cases hext
                    · exact h
                  have hbe := be_runAgInstrs "" { s with nextSerial := s.nextSerial + 1 } { name := n, ext := false, serial := s.nextSerial } is hnf
                  have hag := runAgInstrs_agents "" { s with nextSerial := s.nextSerial + 1 } { name := n, ext := false, serial := s.nextSerial } is
                  have hext := (runAgInstrs_st "" { s with nextSerial := s.nextSerial + 1 } { name := n, ext := false, serial := s.nextSerial } is).2
                  have h1 : BInv (runAgInstrs "" { s with nextSerial := s.nextSerial + 1 } { name := n, ext := false, serial := s.nextSerial } is).1 :=
                    binv_wrap (BE.trans' (a := s) ⟨rfl, rfl, rfl, rfl, rfl⟩ hbe) hag hB
                  have := binv_append_internal _ _ hext h1
                  rw [hag] at this ⊢
                  exact this

theorem binv_agNext (s : State) (n m : String) (hA : AInv s) (hB : BInv s) : BInv (agNext s n m) := by
  unfold agNext
  split
  · exact binv_wrap (be_reply _ _ _ _) rfl hB
  · rename_i a hres
    have ha := resolveId_mem hres
    split
    · exact binv_wrap (be_reply _ _ _ _) rfl hB
    · rename_i is hp
      dsimp only
      have hst := runAgInstrs_st "" s a is
      have hnm := runAgInstrs_name "" s a is
      split
      · exact binv_wrap (be_addPending _ _ _) (by simp) (binv_agStep s a _ .ready is "" hA hB ha hp (by intro e; cases e) hnm hst.2 hst.1)
      · exact binv_wrap (be_reply _ _ _ _) rfl (binv_agStep s a _ .ready is "" hA hB ha hp (by intro e; cases e) hnm hst.2 hst.1)

theorem binv_agReport (s : State) (n c e m : String) (hA : AInv s) (hB : BInv s) : BInv (agReport s n c e m) := by
  unfold agReport
  split
  · exact binv_wrap (be_reply _ _ _ _) rfl hB
  · rename_i a hres
    have ha := resolveId_mem hres
    split
    · exact binv_wrap (be_reply _ _ _ _) rfl hB
    · dsimp only
      have hc : (if (c == "initerror") = true then AgCall.initError else AgCall.exitError) ≠ .launchError := by
        split <;> (intro e; cases e)
      split
      · exact binv_wrap (be_reply _ _ _ _) rfl hB
      · rename_i is hp
        have hst := runAgInstrs_st e s a is
        have hnm := runAgInstrs_name e s a is
        exact binv_wrap (BE.trans' (be_storeFatal _ _) (be_reply _ _ _ _)) (by simp)
          (binv_agStep s a _ _ is e hA hB ha hp hc hnm hst.2 hst.1)

theorem binv_renderWoken (l : Bool) (s : State) (hA : AInv s) (hB : BInv s) : ∀ s', renderWoken l s = some s' → BInv s' := by
  intro s' h
  unfold renderWoken at h
  split at h
  · cases h
  · rename_i a hf
    have ha : a ∈ s.agents := pickAgent_mem hf
    cases h
    apply binv_wrap (be_answer _ _ _ _) (by simp)
    apply binv_of_be (be_setAgent _ _) _ hB
    rw [setAgent_agents]
    exact acls_repl_same s.agents a _ hA.nodup ha rfl (by simp [cls])

theorem binv_wakeAgent (l : Bool) (s : State) (hA : AInv s) (hB : BInv s) : ∀ s', wakeAgent l s = some s' → BInv s' := by
  intro s' h
  unfold wakeAgent at h
  split at h
  · cases h
  · rename_i a hf
    have ha : a ∈ s.agents := pickAgent_mem hf
    dsimp only at h
    split at h
    · rename_i hst
      have hr : a.st = .ready := by simpa using hst
      cases h
      apply binv_of_be (be_setAgent _ _) _ hB
      rw [setAgent_agents]
      exact acls_repl_same s.agents a _ hA.nodup ha rfl (by simp [cls, hr])
    · cases h
      apply binv_wrap (be_answer _ _ _ _) (by simp)
      apply binv_of_be (be_setAgent _ _) _ hB
      rw [setAgent_agents]
      exact acls_repl_same s.agents a _ hA.nodup ha rfl (by simp [cls])

/-! ### more functions that keep the five view fields -/

theorem be_foldl_emit {α : Type} (l : List α) (f : α → String) (s : State) : BE s (l.foldl (fun s a => s.emit (f a)) s) := by
  induction l generalizing s with
  | nil => exact ⟨rfl, rfl, rfl, rfl, rfl⟩
  | cons a l ih => simp only [List.foldl_cons]; exact BE.trans' (be_emit s (f a)) (ih _)

@[simp] theorem be_die (s : State) (full st : String) (z : Bool) : BE s (die s full st z) := by
  unfold die
  split
  · exact ⟨rfl, rfl, rfl, rfl, rfl⟩
  · split
    · exact ⟨rfl, rfl, rfl, rfl, rfl⟩
    · dsimp only
      exact BE.trans' (b := { (setProc s _).emit _ with pending := _, exitQueue := _ }) ⟨rfl, rfl, rfl, rfl, rfl⟩ (be_foldl_emit _ _ _)
@[simp] theorem be_supKill (s : State) (full : String) : BE s (supKill s full) := by unfold supKill; be_tac
@[simp] theorem be_supTerm (s : State) (full : String) : BE s (supTerm s full) := by unfold supTerm; be_tac
@[simp] theorem be_initTailEvents (s : State) (ph : Phase) (st : String) : BE s (initTailEvents s ph st) := by
  unfold initTailEvents
  dsimp only
  generalize hs1 : (if s.rtDoneReg = true then s.emitEv _ _ else s) = s1
  have h0 : BE s s1 := by rw [← hs1]; split <;> exact ⟨rfl, rfl, rfl, rfl, rfl⟩
  exact BE.trans' h0 (BE.trans' (be_foldl_emit _ _ _) ⟨rfl, rfl, rfl, rfl, rfl⟩)
@[simp] theorem be_disarm (s : State) : BE s (disarmShutdownTimers s) := ⟨rfl, rfl, rfl, rfl, rfl⟩
@[simp] theorem be_resetTail (s : State) (n : Nat) : BE s (resetTail s n) := by unfold resetTail; be_tac
@[simp] theorem be_requestReset (s : State) (r : String) (n : Nat) : BE s (requestReset s r n) := by
  unfold requestReset
  have := be_cancelFlows { s with resv := s.resv.map fun r => { r with resetStarted := true } } .reset
  exact ⟨this.1, this.2.1, this.2.2.1, this.2.2.2.1, this.2.2.2.2⟩
@[simp] theorem be_finishFlight (s : State) (f : Flight) (e : String) : BE s (finishFlight s f e) := ⟨rfl, rfl, rfl, rfl, rfl⟩
@[simp] theorem be_fastInvoke (s : State) (f : Flight) : BE s (fastInvoke s f) := by unfold fastInvoke; be_tac
@[simp] theorem be_startServerInit (s : State) : BE s (startServerInit s) := by unfold startServerInit; be_tac
@[simp] theorem be_restoreDoneEvent (s : State) (ok : Bool) : BE s (restoreDoneEvent s ok) := ⟨rfl, rfl, rfl, rfl, rfl⟩
@[simp] theorem be_handleRestore (s : State) (key : String) : BE s (handleRestore s key) := by unfold handleRestore; be_tac
@[simp] theorem be_restoreFinish (s : State) (e : Option String) : BE s (restoreFinish s e) := by unfold restoreFinish; be_tac

def BEO (s : State) (o : Option State) : Prop := ∀ s', o = some s' → BE s s'
@[simp] theorem beO_none (s : State) : BEO s none := by intro s' h; cases h
@[simp] theorem beO_some (s x : State) : BEO s (some x) ↔ BE s x := by
  constructor
  · intro h; exact h x rfl
  · intro h s' e; cases e; exact h
theorem beO_flightMove (s : State) (f : Flight) : BEO s (flightMove s f) := by unfold flightMove; splits <;> simp_all [BE]
theorem beO_restoreResume (s : State) : BEO s (restoreResume s) := by unfold restoreResume; splits <;> simp_all [BE]
theorem beO_killMove (s : State) : BEO s (killMove s) := by unfold killMove; splits <;> simp_all [BE]

/-! ### the orchestrator -/

/-- the orchestrator PC changes to one that does not wait at the registration gate (or stays), nothing
    else the invariant looks at changes -/
theorem binv_of_beo {s s' : State} (hf : s'.extFiles = s.extFiles) (ho : orchWaitOf s'.orch = none ∨ s'.orch = s.orch)
    (hr : s'.rt.isSome = s.rt.isSome) (hc : s'.initFlow.extRegistered.count = s.initFlow.extRegistered.count)
    (ha : s'.initFlow.extRegistered.arrived = s.initFlow.extRegistered.arrived) (hag : acls s'.agents = acls s.agents)
    (i : BInv s) : BInv s' := by
  have i2 : BInv { s with orch := s'.orch } := by
    refine ⟨i.pre, i.cap, i.arr, ?_, i.rt⟩
    intro ph hph
    rcases ho with h | h
    · have := orchWaitOf_eq.mp hph; rw [h] at this; cases this
    · exact i.wait ph (by rw [← h]; exact hph)
  apply binv_of_bview _ i2
  simp only [bview, hf, hr, hc, ha, hag]

theorem acls_map_flag (l : List Agent) (c : Agent → Bool) : acls (l.map fun a => if c a then { a with flag := true } else a) = acls l := by
  unfold acls; rw [List.map_map]; apply List.map_congr_left; intro a _
  simp only [Function.comp]; split <;> rfl

theorem binv_invokeReturned (s : State) (ok rr : Bool) (et : String) (i : BInv s) : BInv (invokeReturned s ok rr et) := by
  unfold invokeReturned
  dsimp only
  splits <;> (refine binv_of_beo ?_ (Or.inl ?_) ?_ ?_ ?_ ?_ i <;> simp [orchWaitOf])

theorem binv_invokeFail (s : State) (e : Option CErr) (i : BInv s) : BInv (invokeFail s e) := by
  unfold invokeFail; exact binv_invokeReturned _ _ _ _ i

theorem binv_continueInvoke (s : State) (i : BInv s) : BInv (continueInvoke s) := by
  unfold continueInvoke
  splits
  · refine binv_of_beo ?_ (Or.inl ?_) ?_ ?_ ?_ ?_ i <;> simp [orchWaitOf]
  · apply binv_invokeFail
    refine binv_of_beo ?_ (Or.inr ?_) ?_ ?_ ?_ ?_ i <;> simp
  · refine binv_of_beo ?_ (Or.inl ?_) ?_ ?_ ?_ ?_ i <;> first | exact acls_map_flag _ _ | simp [orchWaitOf]

theorem binv_initFinish (s : State) (ph : Phase) (ok : Bool) (st : String) (e : Option CErr) (i : BInv s) : BInv (initFinish s ph ok st e) := by
  have h0 := be_initTailEvents s ph st
  have ha0 := initTailEvents_agents s ph st
  unfold initFinish
  dsimp only
  splits
  · refine binv_of_beo ?_ (Or.inl ?_) ?_ ?_ ?_ ?_ i <;> simp_all [orchWaitOf, BE]
  · refine binv_of_beo ?_ (Or.inl ?_) ?_ ?_ ?_ ?_ i <;> simp_all [orchWaitOf, BE]
  · apply binv_continueInvoke
    refine binv_of_beo ?_ (Or.inr ?_) ?_ ?_ ?_ ?_ i <;> simp_all [BE]
  · apply binv_invokeFail
    refine binv_of_beo ?_ (Or.inr ?_) ?_ ?_ ?_ ?_ i <;> simp_all [BE]
  · refine binv_of_beo ?_ (Or.inl ?_) ?_ ?_ ?_ ?_ i <;> simp_all [orchWaitOf, BE]

/-! ### launching the extensions -/

theorem extNames_append_ext (s : State) (a : Agent) (he : a.ext = true) :
    ((s.agents ++ [a]).filter (·.ext)).map (·.name) = extNames s ++ [a.name] := by
  simp [extNames, extAgents, List.filter_append, he]

theorem nreg_append_unreg (l : List Agent) (a : Agent) (h : regd a = false) : ((l ++ [a]).filter regd).length = (l.filter regd).length := by
  simp [List.filter_append, h]

/-- a state with one more external agent that has not registered (just launched, or refused at launch),
    created for the next extension file, while no runtime object exists -/
theorem binv_append_ext (s : State) (a : Agent) (i : BInv s) (he : a.ext = true) (hr : regd a = false)
    (hnw : orchWaitOf s.orch = none) (hcnt : s.initFlow.extRegistered.count = s.extFiles.length)
    (hnext : s.extFiles.drop (extNames s).length = a.name :: (s.extFiles.drop ((extNames s).length + 1))) :
    BInv { s with agents := s.agents ++ [a], nextSerial := s.nextSerial + 1 } := by
  have hlen : (extNames s).length < s.extFiles.length := by
    rcases Nat.lt_or_ge (extNames s).length s.extFiles.length with h | h
    · exact h
    · rw [List.drop_eq_nil_of_le h] at hnext; cases hnext
  have hen : extNames { s with agents := s.agents ++ [a], nextSerial := s.nextSerial + 1 } = extNames s ++ [a.name] :=
    extNames_append_ext s a he
  have hget : s.extFiles[(extNames s).length]? = some a.name := by
    have := congrArg List.head? hnext
    simpa [List.head?_drop] using this
  refine ⟨?_, ?_, ?_, ?_, ?_⟩
  · rw [hen]
    show _ = s.extFiles.take _
    simp only [List.length_append, List.length_singleton]
    rw [List.take_add_one, hget, ← i.pre]; rfl
  · have : (extAgents { s with agents := s.agents ++ [a], nextSerial := s.nextSerial + 1 }).length = (extNames s).length + 1 := by
      have := congrArg List.length hen; simpa [extNames] using this
    rw [this]; show _ ≤ s.initFlow.extRegistered.count; rw [hcnt]; omega
  · show s.initFlow.extRegistered.arrived = _
    unfold nreg; rw [show ({ s with agents := s.agents ++ [a], nextSerial := s.nextSerial + 1 } : State).agents = s.agents ++ [a] from rfl,
      nreg_append_unreg _ _ hr]; exact i.arr
  · intro ph hph
    have := orchWaitOf_eq.mp hph
    rw [show ({ s with agents := s.agents ++ [a], nextSerial := s.nextSerial + 1 } : State).orch = s.orch from rfl, hnw] at this; cases this
  · intro hrt
    -- with a runtime object every file has been launched: there is no next file
    have := (i.rt hrt).1
    rw [this] at hlen; exact absurd hlen (Nat.lt_irrefl _)

theorem findAgent_some_of_mem {s : State} {n : String} (h : n ∈ s.agents.map (·.name)) : (findAgent s n).isSome = true := by
  obtain ⟨b, hb, hbn⟩ := List.mem_map.mp h
  unfold findAgent
  rw [List.find?_isSome]
  exact ⟨b, hb, by simp [hbn]⟩

theorem binv_launchExtensions (s : State) (ph : Phase) (ps : List String) (hB : BInv s)
    (hnw : orchWaitOf s.orch = none) (hcnt : s.initFlow.extRegistered.count = s.extFiles.length)
    (hps : ps = s.extFiles.drop (extNames s).length)
    (hnoLE : ∀ a ∈ s.agents, a.ext = true → a.st ≠ .launchError) : BInv (launchExtensions s ph ps) := by
  induction ps generalizing s with
  | nil =>
    -- every file has been launched: the orchestrator now waits at the registration gate
    have hlen : s.extFiles.length ≤ (extNames s).length := by
      rcases Nat.lt_or_ge (extNames s).length s.extFiles.length with h | h
      · have : s.extFiles.drop (extNames s).length ≠ [] := by
          intro e; have := congrArg List.length e; simp at this; omega
        exact absurd hps.symm this
      · exact h
    have hall : extNames s = s.extFiles := by
      have := hB.pre; rw [List.take_of_length_le hlen] at this; exact this
    show BInv { s with orch := .iAwaitRegistered ph }
    exact ⟨hB.pre, hB.cap, hB.arr, fun _ _ => ⟨hall, hcnt, hnoLE⟩, hB.rt⟩
  | cons p ps ih =>
    unfold launchExtensions
    split
    · exact binv_initFinish _ _ _ _ _ hB
    · dsimp only
      have hnext : s.extFiles.drop (extNames s).length = p :: s.extFiles.drop ((extNames s).length + 1) := by
        rw [← hps]
        have : ps = (s.extFiles.drop (extNames s).length).tail := by rw [← hps]; rfl
        rw [this, List.tail_drop]
      split
      · -- over the limit: the new agent is marked as refused at launch, the init fails
        apply binv_initFinish
        apply binv_wrap (be_storeFatal _ _) (by simp)
        have hrepl : (setAgent { s with agents := s.agents ++ [{ name := p, ext := true, serial := s.nextSerial }], nextSerial := s.nextSerial + 1 }
            { name := p, ext := true, st := .launchError, errSet := true, errType := "TooManyExtensions", serial := s.nextSerial }).agents
            = s.agents ++ [{ name := p, ext := true, st := .launchError, errSet := true, errType := "TooManyExtensions", serial := s.nextSerial }] := by
          rename_i hcond _
          have hnot : p ∉ s.agents.map (·.name) := by
            apply findAgent_none_notMem
            cases hf : (findAgent s p).isSome
            · rfl
            · simp [hf] at hcond
          exact map_replace_last s.agents { name := p, ext := true, serial := s.nextSerial } _ hnot rfl
        have := binv_append_ext s { name := p, ext := true, st := .launchError, errSet := true, errType := "TooManyExtensions", serial := s.nextSerial }
          hB rfl (by simp [regd]) hnw hcnt hnext
        refine binv_of_bview ?_ this
        simp only [bview]
        rw [hrepl]; rfl
      · split
        · -- Exec fails: the new agent is marked as refused at launch, the init fails
          apply binv_initFinish
          apply binv_wrap (be_storeFatal _ _) (by simp)
          apply binv_wrap (be_emit _ _) rfl
          have hrepl : (setAgent { s with agents := s.agents ++ [{ name := p, ext := true, serial := s.nextSerial }], nextSerial := s.nextSerial + 1 }
              { name := p, ext := true, st := .launchError, errSet := true, errType := "UnknownError", serial := s.nextSerial }).agents
              = s.agents ++ [{ name := p, ext := true, st := .launchError, errSet := true, errType := "UnknownError", serial := s.nextSerial }] := by
            rename_i hcond _ _
            have hnot : p ∉ s.agents.map (·.name) := by
              apply findAgent_none_notMem
              cases hf : (findAgent s p).isSome
              · rfl
              · simp [hf] at hcond
            exact map_replace_last s.agents { name := p, ext := true, serial := s.nextSerial } _ hnot rfl
          have := binv_append_ext s { name := p, ext := true, st := .launchError, errSet := true, errType := "UnknownError", serial := s.nextSerial }
            hB rfl (by simp [regd]) hnw hcnt hnext
          refine binv_of_bview ?_ this
          simp only [bview]
          rw [hrepl]; rfl
        -- launched: one more external agent in Started
        apply ih
        · apply binv_wrap (be_emit _ _) rfl
          have := binv_append_ext s { name := p, ext := true, serial := s.nextSerial } hB rfl (by simp [regd]) hnw hcnt hnext
          exact binv_of_bview (by simp [bview]) this
        · exact hnw
        · exact hcnt
        · show ps = s.extFiles.drop (List.map (fun x : Agent => x.name) (List.filter (fun x : Agent => x.ext) (s.agents ++ [({ name := p, ext := true, serial := s.nextSerial } : Agent)]))).length
          rw [extNames_append_ext s _ rfl]
          simp only [List.length_append, List.length_singleton]
          have : ps = (s.extFiles.drop (extNames s).length).tail := by rw [← hps]; rfl
          rw [this, List.tail_drop]
        · intro b hb hbe
          rcases List.mem_append.mp hb with h | h
          · exact hnoLE b h hbe
          · have : b = { name := p, ext := true, serial := s.nextSerial } := by simpa using h
            rw [this]; intro e; cases e

theorem extNames_subset_names (s : State) : ∀ n ∈ extNames s, n ∈ s.agents.map (·.name) := by
  intro n hn
  obtain ⟨a, ha, rfl⟩ := List.mem_map.mp hn
  exact List.mem_map_of_mem (List.mem_filter.mp ha).1

theorem launch_head_found (s : State) (ph : Phase) (l : List String) (h : ∃ p ps, l = p :: ps ∧ (findAgent s p).isSome = true) :
    launchExtensions s ph l = initFinish s ph false "success" none := by
  obtain ⟨p, ps, rfl, hf⟩ := h
  unfold launchExtensions; simp [hf]

theorem binv_launch_head_found (s : State) (ph : Phase) (l : List String)
    (h : ∃ p ps, l = p :: ps ∧ p ∈ s.agents.map (·.name)) (i : BInv s) : BInv (launchExtensions s ph l) := by
  obtain ⟨p, ps, hl, hp⟩ := h
  rw [launch_head_found s ph l ⟨p, ps, hl, findAgent_some_of_mem hp⟩]
  exact binv_initFinish _ _ _ _ _ i

theorem binv_startInit (s : State) (ph : Phase) (hB : BInv s) (hnw : orchWaitOf s.orch = none) : BInv (startInit s ph) := by
  unfold startInit
  dsimp only
  have i1 : BInv { (s.emitEv .initStart ph.str) with gen := s.gen + 1, rtDoneReg := false } :=
    binv_of_beo (s := s) rfl (Or.inr rfl) rfl rfl rfl rfl hB
  split
  · exact binv_initFinish _ _ _ _ _ i1
  · rename_i hok
    -- the gate now expects one arrival per extension file
    have hsc : (s.initFlow.extRegistered.setCount s.extFiles.length).1 = { s.initFlow.extRegistered with count := s.extFiles.length } := by
      unfold Latch.setCount at hok ⊢
      split
      · rename_i hlt; simp [Latch.setCount, hlt] at hok
      · rfl
    have hpre_len : (extNames s).length ≤ s.extFiles.length := by
      have := congrArg List.length hB.pre
      simp only [List.length_take] at this
      omega
    have i2 : BInv { ({ (s.emitEv .initStart ph.str) with gen := s.gen + 1, rtDoneReg := false } : State) with
        initFlow := { s.initFlow with extRegistered := (s.initFlow.extRegistered.setCount s.extFiles.length).1 } } := by
      rw [hsc]
      refine ⟨hB.pre, ?_, hB.arr, ?_, hB.rt⟩
      · show (extAgents s).length ≤ s.extFiles.length
        simpa [extNames] using hpre_len
      · intro ph' hph
        have h2 : s.orch = .iAwaitRegistered ph' := hph
        have := orchWaitOf_eq.mp h2; rw [hnw] at this; cases this
    by_cases hne : extNames s = []
    · -- nothing launched yet in this epoch: the launch loop runs over all files
      apply binv_launchExtensions _ _ _ i2 hnw
      · show (s.initFlow.extRegistered.setCount s.extFiles.length).1.count = s.extFiles.length
        rw [hsc]
      · show s.extFiles = s.extFiles.drop (extNames s).length
        rw [hne]; rfl
      · intro a ha hext
        have : a.name ∈ extNames s := List.mem_map_of_mem (List.mem_filter.mpr ⟨ha, hext⟩)
        rw [hne] at this; cases this
    · -- agents of an earlier, failed initialisation are still there: the first launch is refused
      cases hfiles : s.extFiles with
      | nil =>
        have := hB.pre; rw [hfiles] at this; simp at this
        exact absurd this hne
      | cons p ps =>
        have hp : p ∈ s.agents.map (·.name) := by
          apply extNames_subset_names
          have hpre := hB.pre
          rw [hfiles] at hpre
          cases hen : extNames s with
          | nil => exact absurd hen hne
          | cons n ns =>
            rw [hen] at hpre
            simp only [List.length_cons, List.take_succ_cons, List.cons.injEq] at hpre
            rw [hpre.1]; exact List.mem_cons_self
        refine binv_launch_head_found _ _ _ ⟨p, ps, hfiles, hp⟩ i2

theorem all_regd_of_count (l : List Agent) (h : (l.filter regd).length = (l.filter (·.ext)).length) :
    ∀ a ∈ l, a.ext = true → regd a = true := by
  induction l with
  | nil => intro a ha; cases ha
  | cons x xs ih =>
    have hle := regd_le_ext xs
    simp only [List.filter_cons] at h
    by_cases hx : regd x = true
    · have he : x.ext = true := by
        unfold regd at hx; cases h' : x.ext
        · simp [h'] at hx
        · rfl
      simp only [hx, he, ↓reduceIte, List.length_cons, Nat.add_right_cancel_iff] at h
      intro a ha hae
      rcases List.mem_cons.mp ha with rfl | hm
      · exact hx
      · exact ih h a hm hae
    · have hx' : regd x = false := by simpa using hx
      simp only [hx', Bool.false_eq_true, ↓reduceIte] at h
      by_cases he : x.ext = true
      · simp only [he, ↓reduceIte, List.length_cons] at h; omega
      · have he' : x.ext = false := by simpa using he
        simp only [he', Bool.false_eq_true, ↓reduceIte] at h
        intro a ha hae
        rcases List.mem_cons.mp ha with rfl | hm
        · rw [he'] at hae; cases hae
        · exact ih h a hm hae

def BInvO (o : Option State) : Prop := ∀ s', o = some s' → BInv s'
@[simp] theorem binvO_none : BInvO none := by intro s' h; cases h
@[simp] theorem binvO_some (x : State) : BInvO (some x) ↔ BInv x := by
  constructor
  · intro h; exact h x rfl
  · intro h s' e; cases e; exact h

/-- **Passing the registration gate.** -/
theorem binvO_orchResume (s : State) (hB : BInv s) : BInvO (orchResume s) := by
  unfold orchResume
  split
  · exact binvO_none
  · -- waiting at the registration gate
    rename_i ph horch
    dsimp only
    split
    · exact binvO_none
    · rename_i hopen
      split
      · rw [binvO_some]; exact binv_initFinish _ _ _ _ _ hB
      · rename_i hnc
        split
        · rw [binvO_some]; exact binv_initFinish _ _ _ _ _ hB
        · rw [binvO_some]
          -- open and not cancelled: every arrival was made
          obtain ⟨w1, w2, w3⟩ := hB.wait ph horch
          have harr : s.initFlow.extRegistered.arrived = s.initFlow.extRegistered.count := by
            have : s.initFlow.extRegistered.isOpen = true := by simpa using hopen
            unfold Latch.isOpen at this
            have hc : s.initFlow.extRegistered.canceled = false := by simpa using hnc
            simpa [hc] using this
          have hcount : nreg s = (extAgents s).length := by
            have h1 : (extAgents s).length = s.extFiles.length := by
              have := congrArg List.length w1; simpa [extNames] using this
            rw [← hB.arr, harr, w2, h1]
          have hallreg := all_regd_of_count s.agents hcount
          have hstarted : ∀ a ∈ s.agents, a.ext = true → a.st ≠ .started := by
            intro a ha hae hst
            have := hallreg a ha hae
            simp [regd, hae, hst] at this
          refine ⟨hB.pre, hB.cap, hB.arr, ?_, fun _ => ⟨w1, hstarted⟩⟩
          intro ph' hph; cases hph
  all_goals (
    splits <;> first
      | exact binvO_none
      | (rw [binvO_some]; first
          | exact binv_initFinish _ _ _ _ _ hB
          | exact binv_invokeFail _ _ hB
          | (apply binv_initFinish; refine binv_of_beo ?_ (Or.inr ?_) ?_ ?_ ?_ ?_ hB <;> simp)
          | (apply binv_invokeReturned; refine binv_of_beo ?_ (Or.inr ?_) ?_ ?_ ?_ ?_ hB <;> simp)
          | exact binv_invokeReturned _ _ _ _ hB
          | (refine binv_of_beo ?_ (Or.inl ?_) ?_ ?_ ?_ ?_ hB <;> simp [orchWaitOf])))

/-! ### shutdown and reset -/

theorem shutdownOne_view (s : State) (a : Agent) (hn : (s.agents.map (·.name)).Nodup) (ha : (a.name, cls a) ∈ acls s.agents) :
    BE s (shutdownOne s a) ∧ acls (shutdownOne s a).agents = acls s.agents := by
  unfold shutdownOne
  splits <;> first
    | exact ⟨⟨rfl, rfl, rfl, rfl, rfl⟩, rfl⟩
    | (refine ⟨⟨rfl, rfl, rfl, rfl, rfl⟩, ?_⟩
       obtain ⟨b, hb, hbe⟩ := List.mem_map.mp ha
       have hbn : b.name = a.name := congrArg Prod.fst hbe
       have hbc : cls b = cls a := congrArg Prod.snd hbe
       rw [setAgent_agents]
       exact acls_repl_same s.agents b _ hn hb hbn.symm (by simpa [cls] using hbc.symm))

theorem foldl_shutdownOne_view (l : List Agent) (s : State) (hn : (s.agents.map (·.name)).Nodup)
    (hl : ∀ a ∈ l, (a.name, cls a) ∈ acls s.agents) :
    BE s (l.foldl shutdownOne s) ∧ acls (l.foldl shutdownOne s).agents = acls s.agents := by
  induction l generalizing s with
  | nil => exact ⟨⟨rfl, rfl, rfl, rfl, rfl⟩, rfl⟩
  | cons a l ih =>
    simp only [List.foldl_cons]
    obtain ⟨h1, h2⟩ := shutdownOne_view s a hn (hl a List.mem_cons_self)
    have hn' : ((shutdownOne s a).agents.map (·.name)).Nodup := by
      have : (shutdownOne s a).agents.map (·.name) = s.agents.map (·.name) := by
        have := congrArg (List.map Prod.fst) h2
        simpa [acls, List.map_map, Function.comp_def] using this
      rw [this]; exact hn
    obtain ⟨h3, h4⟩ := ih (shutdownOne s a) hn' (by intro b hb; rw [h2]; exact hl b (List.mem_cons_of_mem _ hb))
    exact ⟨BE.trans' h1 h3, h4.trans h2⟩

theorem binv_shutdownAgents (s : State) (k : ShutKind) (hA : AInv s) (hB : BInv s) : BInv (shutdownAgents s k) := by
  unfold shutdownAgents
  dsimp only
  obtain ⟨h1, h2⟩ := foldl_shutdownOne_view (s.agents.filter (·.ext))
    { s with renderer := .shutdown (reasonOf k), awaitingExit := [], agentWaits := [] } hA.nodup (by
      intro a ha; exact List.mem_map_of_mem (List.mem_filter.mp ha).1)
  refine binv_of_beo ?_ (Or.inl rfl) ?_ ?_ ?_ ?_ hB
  · exact h1.1
  · exact h1.2.2.1
  · exact h1.2.2.2.1
  · exact h1.2.2.2.2
  · exact h2

theorem binv_shutdownBody (s : State) (k : ShutKind) (hA : AInv s) (hB : BInv s) : BInv (shutdownBody s k) := by
  unfold shutdownBody
  splits <;> first
    | (refine binv_of_beo ?_ (Or.inl ?_) ?_ ?_ ?_ ?_ hB <;> simp [enterGrace, orchWaitOf, BE])
    | (refine binv_of_beo ?_ (Or.inl ?_) ?_ ?_ ?_ ?_ hB <;> simp [orchWaitOf, BE])
    | exact binv_shutdownAgents _ _ (by exact hA) (binv_of_beo (s := s) rfl (Or.inr rfl) rfl rfl rfl rfl hB)

theorem binv_beginShutdown (s : State) (k : ShutKind) (hA : AInv s) (hB : BInv s) : BInv (beginShutdown s k) := by
  unfold beginShutdown
  exact binv_shutdownBody _ k (by exact hA) (binv_of_beo (s := s) rfl (Or.inr rfl) rfl rfl rfl rfl hB)

theorem binv_afterReset (s : State) (n : Nat) (hB : BInv s) (hnw : orchWaitOf s.orch = none) : BInv (afterReset s n) := by
  unfold afterReset
  dsimp only
  refine ⟨by simp [extNames, extAgents], by simp [extAgents], by simp [nreg, Latch.clear], ?_, by intro h; simp at h⟩
  intro ph hph
  have h2 : s.orch = .iAwaitRegistered ph := hph
  have := orchWaitOf_eq.mp h2; rw [hnw] at this; cases this

theorem binv_finishShutdown (s : State) (k : ShutKind) (n : Nat) (hB : BInv s) : BInv (finishShutdown s k n) := by
  unfold finishShutdown
  have i1 : BInv (disarmShutdownTimers { s with shuttingDown := false, orch := .idle, agentWaits := [] }) := by
    refine binv_of_beo ?_ (Or.inl ?_) ?_ ?_ ?_ ?_ hB <;> simp [disarmShutdownTimers, orchWaitOf]
  dsimp only
  splits
  · exact binv_afterReset _ _ i1 rfl
  · refine binv_of_beo ?_ (Or.inr ?_) ?_ ?_ ?_ ?_ i1 <;> simp
  · refine binv_of_beo ?_ (Or.inr ?_) ?_ ?_ ?_ ?_ i1 <;> simp

theorem foldl_waits_view (l : List String) (acc : State × List String) :
    BE acc.1 (l.foldl (fun (acc : State × List String) full =>
      match procByFull acc.1 full with
      | some p => if p.chanClosed then acc
                  else if acc.1.agDeadlineFired then (supKill acc.1 full, acc.2)
                  else (acc.1, acc.2 ++ [full])
      | none => acc) acc).1 := by
  induction l generalizing acc with
  | nil => exact ⟨rfl, rfl, rfl, rfl, rfl⟩
  | cons x xs ih =>
    simp only [List.foldl_cons]
    refine BE.trans' ?_ (ih _)
    splits <;> simp [BE]

theorem binvO_shutResume (s : State) (n : Nat) (hA : AInv s) (hB : BInv s) : BInvO (shutResume s n) := by
  unfold shutResume
  split
  · splits <;> first
      | exact binvO_none
      | (rw [binvO_some]; first
          | exact binv_shutdownAgents _ _ hA hB
          | (apply binv_shutdownAgents
             · show AInvL (supKill _ _).agents; rw [supKill_agents]; exact hA
             · exact binv_wrap (be_supKill _ _) (supKill_agents _ _) hB))
  · have hw := foldl_waits_view s.agentWaits (s, [])
    have hwa := foldl_waits_agents s.agentWaits (s, [])
    dsimp only at hw hwa ⊢
    generalize (List.foldl _ (s, []) s.agentWaits) = r at hw hwa ⊢
    obtain ⟨s1, still⟩ := r
    dsimp only at hw hwa ⊢
    have h1 : BInv s1 := binv_wrap hw hwa hB
    splits <;> first
      | exact binvO_none
      | (rw [binvO_some]; (refine binv_of_beo ?_ (Or.inl ?_) ?_ ?_ ?_ ?_ h1 <;> simp [enterGrace, orchWaitOf]); done)
      | (rw [binvO_some]; (refine binv_of_beo ?_ (Or.inr ?_) ?_ ?_ ?_ ?_ h1 <;> simp); done)
  · splits <;> first
      | exact binvO_none
      | (rw [binvO_some]; apply binv_finishShutdown; first | exact hB | (refine binv_of_beo ?_ (Or.inr ?_) ?_ ?_ ?_ ?_ hB <;> simp))
  · exact binvO_none

theorem binv_startHandler (s : State) (r : HReq) (hA : AInv s) (hB : BInv s) (hidle : s.orch = .idle) : BInv (startHandler s r) := by
  have hnw : orchWaitOf s.orch = none := by rw [hidle]; rfl
  unfold startHandler
  splits <;> first
    | (apply binv_startInit
       · refine binv_of_beo ?_ (Or.inr ?_) ?_ ?_ ?_ ?_ hB <;> simp
       · exact hnw)
    | (apply binv_continueInvoke; refine binv_of_beo ?_ (Or.inr ?_) ?_ ?_ ?_ ?_ hB <;> simp)
    | (apply binv_beginShutdown
       · first | exact hA | (show AInvL _; simp; exact hA)
       · refine binv_of_beo ?_ (Or.inr ?_) ?_ ?_ ?_ ?_ hB <;> simp)

theorem binv_watchOne (s : State) (full : String) (z : Bool) (hA : AInv s) (hB : BInv s) : BInv (watchOne s full z) := by
  unfold watchOne
  dsimp only
  generalize hs1 : (if (!s.shuttingDown) = true then
      (storeFatal s (if (full == rtFull s) = true then "Runtime.ExitError" else "Extension.Crash"), CErr.procExit)
    else (s, CErr.nilErr)) = r
  have hr : BE s r.1 ∧ r.1.agents = s.agents := by
    rw [← hs1]; split
    · exact ⟨be_storeFatal _ _, storeFatal_agents _ _⟩
    · exact ⟨⟨rfl, rfl, rfl, rfl, rfl⟩, rfl⟩
  obtain ⟨s1, e1⟩ := r
  dsimp only at hr ⊢
  clear hs1
  have hA1 : AInv s1 := by show AInvL s1.agents; rw [hr.2]; exact hA
  have hB1 : BInv s1 := binv_wrap hr.1 hr.2 hB
  generalize hs2 : (if s1.awaitingExit.contains full = true then _ else s1) = s2
  have h2 : BInv s2 := by
    rw [← hs2]
    splits <;> first
      | exact hB1
      | (rename_i a hfa _ is hp
         have ha := findAgent_mem hfa
         have hc : (if z = true then AgCall.exited else AgCall.shutdownFailed) ≠ .launchError := by split <;> (intro e; cases e)
         have hst := runAgInstrs_st "" s1 a is
         have hnm := runAgInstrs_name "" s1 a is
         exact binv_agStep s1 a _ _ is "" hA1 hB1 ha hp hc hnm hst.2 hst.1)
  clear hs2
  splits <;> first
    | (refine binv_of_beo ?_ (Or.inr ?_) ?_ ?_ ?_ ?_ h2 <;> simp [BE]; done)
    | exact binv_wrap (BE.trans' (be_setProc _ _) (be_cancelFlows _ _)) (by simp) h2

theorem binvO_orElse' {a y : Option State} (ha : BInvO a) (hb : BInvO y) : BInvO (orElse' a fun _ => y) := by
  intro s' h; unfold orElse' at h; split at h
  · exact ha _ h
  · exact hb _ h

theorem BInvO.of_beO {s : State} {o : Option State} (hB : BInv s) (he : BEO s o) (ha : AgEqO s o) : BInvO o := by
  intro s' e; exact binv_wrap (he s' e) (ha s' e) hB

theorem binvO_platformMove (lifo : Bool) (s : State) (hA : AInv s) (hB : BInv s) : BInvO (platformMove lifo s) := by
  unfold platformMove
  refine binvO_orElse' (binvO_orchResume s hB) ?_
  refine binvO_orElse' (binvO_shutResume s _ hA hB) ?_
  refine binvO_orElse' (BInvO.of_beO hB (beO_restoreResume s) (restoreResume_agents s)) ?_
  split
  · rename_i r rest horch hqueue
    splits <;> first
      | exact binvO_none
      | (rw [binvO_some]; apply binv_startHandler
         · show AInvL _; exact hA
         · refine binv_of_beo ?_ (Or.inr ?_) ?_ ?_ ?_ ?_ hB <;> simp
         · exact horch)
  · intro s' hs
    obtain ⟨f, _, hm⟩ := firstSome_spec _ _ _ hs
    exact BInvO.of_beO hB (beO_flightMove s f) (flightMove_agents s f) s' hm

theorem binvO_wakeMove (l : Bool) (s : State) (hA : AInv s) (hB : BInv s) : BInvO (wakeMove l s) := by
  intro s' hs
  unfold wakeMove orElse' at hs
  split at hs
  · rename_i x hx; cases hs; exact binv_wrap (be_wakeRt hx) (wakeRt_agents hx) hB
  · exact binv_wakeAgent l s hA hB s' hs

theorem binvO_progress (v : Nat) (s : State) (hA : AInv s) (hB : BInv s) : BInvO (progress v s) := by
  have hp := fun l => binvO_platformMove l s hA hB
  have hw := fun l => binvO_wakeMove l s hA hB
  have hr : ∀ l, BInvO (renderWoken l s) := fun l => binv_renderWoken l s hA hB
  have hk := BInvO.of_beO hB (beO_killMove s) (killMove_agents s)
  unfold progress
  splits <;> first
    | exact binvO_none
    | (rw [binvO_some]; apply binv_watchOne
       · show AInvL _; exact hA
       · refine binv_of_beo ?_ (Or.inr ?_) ?_ ?_ ?_ ?_ hB <;> simp)
    | exact binvO_orElse' (binvO_orElse' (hw _) (binvO_orElse' (hp _) hk)) (hr _)
    | exact binvO_orElse' (binvO_orElse' (hp _) (binvO_orElse' (hw _) hk)) (hr _)
    | exact binvO_orElse' (binvO_orElse' (hp _) (binvO_orElse' hk (hw _))) (hr _)
    | exact binvO_orElse' (hr _) (binvO_orElse' (hw _) (binvO_orElse' (hp _) hk))
    | exact binvO_orElse' (hr _) (binvO_orElse' (hp _) (binvO_orElse' (hw _) hk))
    | exact binvO_orElse' (hr _) (binvO_orElse' (hp _) (binvO_orElse' hk (hw _)))

theorem abinv_settle (v n : Nat) (s : State) (hA : AInv s) (hB : BInv s) : AInv (settle v n s) ∧ BInv (settle v n s) := by
  induction n generalizing v s with
  | zero => exact ⟨hA, hB⟩
  | succ n ih =>
    unfold settle
    split
    · exact ⟨hA, hB⟩
    · rename_i s' hp
      exact ih _ s' (ainvO_progress v s hA s' hp) (binvO_progress v s hA hB s' hp)

theorem binv_applyOp (s : State) (o : Op) (hA : AInv s) (hB : BInv s) : BInv (applyOp s o) := by
  cases o with
  | register n es v => exact binv_agRegister s n es v hA hB
  | agNext n m => exact binv_agNext s n m hA hB
  | agReport n c e m => exact binv_agReport s n c e m hA hB
  | timer t =>
    simp only [applyOp]
    splits <;> first
      | exact hB
      | (apply binv_wrap _ _ hB <;> simp [BE]; done)
  | _ =>
    simp only [applyOp]
    splits <;> first
      | exact hB
      | (apply binv_wrap _ _ hB <;> simp [BE]; done)

theorem abinv_step (v : Nat) (s : State) (o : Op) (hA : AInv s) (hB : BInv s) : AInv (step v s o) ∧ BInv (step v s o) := by
  unfold step
  apply abinv_settle
  · exact ainv_applyOp _ _ hA
  · apply binv_applyOp
    · exact hA
    · exact binv_wrap (s := s) ⟨rfl, rfl, rfl, rfl, rfl⟩ rfl hB

theorem abinv_run (s : State) (H : List Nat) (ops : List (Nat × Op)) (hA : AInv s) (hB : BInv s) :
    AInv (run s H ops).1 ∧ BInv (run s H ops).1 := by
  induction ops generalizing s H with
  | nil => exact ⟨hA, hB⟩
  | cons x rest ih =>
    obtain ⟨v, o⟩ := x
    obtain ⟨h1, h2⟩ := abinv_step v s o hA hB
    exact ih _ _ h1 h2

/-- an initial state for the barrier invariant: no agents, no runtime object, a fresh registration
    gate, the orchestrator idle; everything else (extension files, timeout, mode, …) arbitrary -/
structure InitialB (s : State) : Prop where
  agents : s.agents = []
  rt : s.rt = none
  orch : s.orch = .idle
  gate : s.initFlow.extRegistered.arrived = 0

theorem binv_initial (s : State) (h : InitialB s) : BInv s := by
  obtain ⟨h1, h2, h3, h4⟩ := h
  refine ⟨by simp [extNames, extAgents, h1], by simp [extAgents, h1], by simp [nreg, h1, h4], ?_, by simp [h2]⟩
  intro ph hph; rw [h3] at hph; cases hph

end Rie.Sys
