import Rie.Proofs.SysIds
/-!
# The invocation counter never goes back (C01: ids are never reused)

`SysIds` shows that every function of the model leaves the counter `nextK` alone (`KQ.nk`) except an
admission, which moves it on by one. Here: over a step and over a whole run the counter never decreases.
Together with `RInv` (`SysResv`: the reservation's number is the counter minus one) this orders the
numbers of all invocations ever admitted — `C01_ids_increase_run`.
-/
namespace Rie.Sys

theorem le_of_kq {s s' : State} (h : KQ s s') : s.nextK ≤ s'.nextK := Nat.le_of_eq h.nk.symm

theorem nextK_applyOp (s : State) (o : Op) : s.nextK ≤ (applyOp s o).nextK := by
  cases o with
  | invoke c z h =>
    simp only [applyOp]
    split
    · exact le_of_kq (KQ.of_kk (by simp [KK]))
    · show s.nextK ≤ (startServerInit s).nextK + 1
      have := (KQ.of_kk (kk_startServerInit s)).nk
      omega
  | timer t =>
    simp only [applyOp]
    splits <;> first
      | exact Nat.le_refl _
      | exact Nat.le_trans (le_of_kq (KQ.of_kk (by simp [KK]))) (le_of_kq (kq_resetTail _ _))
      | exact Nat.le_trans (le_of_kq (KQ.of_kk (by simp [KK]))) (le_of_kq (kq_restoreFinish _ _))
      | exact le_of_kq (KQ.of_kk (by simp [KK]))
  | restore key => exact le_of_kq (kq_handleRestore _ _)
  | _ => (simp only [applyOp]; splits <;> exact le_of_kq (KQ.of_kk (by simp [KK])))

theorem nextK_step (v : Nat) (s : State) (o : Op) : s.nextK ≤ (step v s o).nextK := by
  unfold step
  exact Nat.le_trans (Nat.le_trans (le_of_kq (KQ.of_kk (by simp [KK]))) (nextK_applyOp _ o)) (le_of_kq (kq_settle _ _ _))

theorem nextK_run (s : State) (H : List Nat) (ops : List (Nat × Op)) : s.nextK ≤ (run s H ops).1.nextK := by
  induction ops generalizing s H with
  | nil => exact Nat.le_refl _
  | cons x ops ih => obtain ⟨v, o⟩ := x; exact Nat.le_trans (nextK_step v s o) (ih _ _)

end Rie.Sys
