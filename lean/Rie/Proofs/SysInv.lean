import Rie.Proofs.Sys

/-!
Whole-run invariants of the system model: facts about every state reachable from an initial
configuration by any sequence of ops (timers included) under any scheduler variant.

Method: three projections of a state — which callers are in flight and whether each still waits in
its main select (`selv`), which function-timeout timers are armed (`invT`), which callers got their
outcome in the current op (`doneOf`). Every model function except three leaves all three projections
unchanged (frame lemmas `same_*`, one per function, registered as simp rules so that they compose);
the three exceptions (`finishFlight`, the `invoke` op, the `timer (invoke c)` op) change them in an
explicit way.
-/
namespace Rie.Sys
open Rie.SM

def selv (fs : List Flight) : List (Nat × Bool) := fs.map fun f => (f.caller, f.g0 == .selecting)
def invT (ts : List Timer) : List Nat := ts.filterMap fun t => match t with | .invoke c => some c | _ => none
def doneOf (o : List Out) : List Nat := o.filterMap fun x => match x with | .caller c _ _ => some c | _ => none

/-- the three projections agree -/
abbrev Same (s s' : State) : Prop :=
  selv s'.flights = selv s.flights ∧ invT s'.timers = invT s.timers ∧ doneOf s'.out = doneOf s.out

theorem Same.trans {a b c : State} (h1 : Same a b) (h2 : Same b c) : Same a c :=
  ⟨h2.1.trans h1.1, h2.2.1.trans h1.2.1, h2.2.2.trans h1.2.2⟩

@[simp] theorem doneOf_append_line (o : List Out) (e : String) : doneOf (o ++ [.line e]) = doneOf o := by
  simp [doneOf]
@[simp] theorem doneOf_nil : doneOf [] = [] := rfl

/-- split every `if`/`match` of the goal, then let the frame lemmas proved so far do the rest -/
macro "splits" : tactic => `(tactic| repeat' (first | split | (dsimp only; split)))
macro "same_tac" : tactic => `(tactic| (splits <;> simp_all [Same]))

/-! ### Step.lean -/

@[simp] theorem same_emit (s : State) (e : String) : Same s (s.emit e) := ⟨rfl, rfl, by simp [State.emit]⟩
@[simp] theorem same_emitEv (s : State) (k : EvKind) (r : String) : Same s (s.emitEv k r) := ⟨rfl, rfl, by simp [State.emitEv, doneOf]⟩
@[simp] theorem same_storeFatal (s : State) (t : String) : Same s (storeFatal s t) := by unfold storeFatal; same_tac
@[simp] theorem same_cancelFlows (s : State) (e : CErr) : Same s (cancelFlows s e) := by unfold cancelFlows; same_tac
@[simp] theorem same_cancelInitFlow (s : State) (e : CErr) : Same s (cancelInitFlow s e) := ⟨rfl, rfl, rfl⟩
@[simp] theorem same_flowCall (s : State) (f : FlowCall) : Same s (flowCall s f).1 := by
  cases f <;> exact ⟨rfl, rfl, rfl⟩
@[simp] theorem same_setProc (s : State) (p : Proc) : Same s (setProc s p) := ⟨rfl, rfl, rfl⟩
@[simp] theorem same_setAgent (s : State) (a : Agent) : Same s (setAgent s a) := ⟨rfl, rfl, rfl⟩
@[simp] theorem same_addPending (s : State) (a c : String) : Same s (addPending s a c) := by unfold addPending; same_tac
@[simp] theorem same_reply (s : State) (a c r : String) : Same s (reply s a c r) := by unfold reply; same_tac
@[simp] theorem same_answer (s : State) (a c r : String) : Same s (answer s a c r) := by unfold answer; same_tac
@[simp] theorem same_release (s : State) : Same s (release s) := ⟨rfl, rfl, rfl⟩
@[simp] theorem same_idsSet (s : State) (n : String) (k : Nat) : Same s (idsSet s n k) := ⟨rfl, rfl, rfl⟩


theorem replaceFirst_none {α : Type} (p : α → Bool) (x : α) (l : List α) (h : l.find? p = none) : replaceFirst p x l = l := by
  induction l with
  | nil => rfl
  | cons y ys ih =>
    simp only [List.find?_cons] at h
    split at h
    · simp at h
    · rename_i hy; simp [replaceFirst, hy, ih h]

/-- replacing the first flight of a caller by one with the same caller and the same "still selecting"
    bit leaves `selv` unchanged -/
theorem selv_replaceFirst (l : List Flight) (f f' : Flight) (hf : l.find? (·.caller == f'.caller) = some f)
    (hg : (f'.g0 == .selecting) = (f.g0 == .selecting)) :
    selv (replaceFirst (·.caller == f'.caller) f' l) = selv l := by
  induction l with
  | nil => simp at hf
  | cons y ys ih =>
    simp only [List.find?_cons] at hf
    by_cases hy : (y.caller == f'.caller) = true
    · simp only [hy, Option.some.injEq] at hf
      subst hf
      have : y.caller = f'.caller := by simpa using hy
      simp [replaceFirst, selv, this, hg]
    · have hy' : (y.caller == f'.caller) = false := by simpa using hy
      simp only [hy'] at hf
      simp only [replaceFirst, hy', Bool.false_eq_true, ↓reduceIte, selv, List.map_cons, List.cons.injEq, true_and]
      exact ih hf

theorem same_setFlight (s : State) (f f' : Flight) (hf : getFlight s f'.caller = some f)
    (hg : (f'.g0 == .selecting) = (f.g0 == .selecting)) : Same s (setFlight s f') :=
  ⟨selv_replaceFirst s.flights f f' hf hg, rfl, rfl⟩

@[simp] theorem same_sendReply (s : State) (k : Nat) (b : String) : Same s (sendReply s k b).1 := by
  unfold sendReply
  split
  · exact ⟨rfl, rfl, rfl⟩
  · rename_i r hr
    split
    · exact ⟨rfl, rfl, rfl⟩
    · split
      · exact ⟨rfl, rfl, rfl⟩
      · split
        · exact ⟨rfl, rfl, rfl⟩
        · dsimp only
          split
          · rename_i f hf
            have hc := getFlight_caller _ _ _ hf
            refine Same.trans (b := { s with resv := some { r with replySent := true } }) ⟨rfl, rfl, rfl⟩ ?_
            apply same_setFlight _ f
            · simpa [hc] using hf
            · rfl
          · exact ⟨rfl, rfl, rfl⟩


@[simp] theorem same_runRtInstrs (s : State) (cur : RtState) (is : List (Instr RtState)) : Same s (runRtInstrs s cur is).1 := by
  induction is generalizing s cur with
  | nil => exact ⟨rfl, rfl, rfl⟩
  | cons i is ih =>
    cases i with
    | set x => exact ih s x
    | flow f chk =>
      simp only [runRtInstrs]
      split
      · exact same_flowCall s f
      · exact Same.trans (same_flowCall s f) (ih _ _)
    | suspend ok nx => exact ⟨rfl, rfl, rfl⟩
    | subscribe es => exact ih s cur
    | setErrType => exact ih s cur

@[simp] theorem same_runAgInstrs (et : String) (s : State) (a : Agent) (is : List (Instr ExtState)) : Same s (runAgInstrs et s a is).1 := by
  induction is generalizing s a with
  | nil => exact ⟨rfl, rfl, rfl⟩
  | cons i is ih =>
    cases i with
    | set x => exact ih s _
    | flow f chk => exact Same.trans (same_flowCall s f) (ih _ _)
    | suspend ok nx => exact ⟨rfl, rfl, rfl⟩
    | subscribe es => exact ih s _
    | setErrType => exact ih s _

theorem same_runRt_of {s s' : State} {cur : RtState} {is : List (Instr RtState)} {x : RtState × Err × Option Park}
    (h : runRtInstrs s cur is = (s', x)) : Same s s' := by
  have := same_runRtInstrs s cur is; rw [h] at this; exact this
theorem same_runAg_of {et : String} {s s' : State} {a : Agent} {is : List (Instr ExtState)} {x : Agent × Bool}
    (h : runAgInstrs et s a is = (s', x)) : Same s s' := by
  have := same_runAgInstrs et s a is; rw [h] at this; exact this
theorem same_sendReply_of {s s' : State} {k : Nat} {b : String} {r : SendRes}
    (h : sendReply s k b = (s', r)) : Same s s' := by
  have := same_sendReply s k b; rw [h] at this; exact this

/-- as `same_tac`, for functions that destructure the result of a pair-returning helper -/
macro "same_tac2" : tactic => `(tactic| (splits <;>
  (try have hSR := same_sendReply_of (by assumption)) <;>
  (try have hRT := same_runRt_of (by assumption)) <;>
  (try have hAG := same_runAg_of (by assumption)) <;> simp_all [Same]))

@[simp] theorem same_rtCallBlocking (s : State) (call : String) (c : RtCall) : Same s (rtCallBlocking s call c) := by
  unfold rtCallBlocking; same_tac2
theorem same_wakeRt {s s' : State} (h : wakeRt s = some s') : Same s s' := by
  unfold wakeRt at h; split at h <;> simp at h
  split at h <;> (simp at h; subst h; simp [Same])
@[simp] theorem same_rtDeliver (s : State) (call : String) (k : Nat) (b : String) (o : Option Nat) : Same s (rtDeliver s call k b o) := by
  unfold rtDeliver; same_tac2
@[simp] theorem same_rtResponse (s : State) (idk : Option Nat) (size : Nat) (h : String) (bad : Bool) : Same s (rtResponse s idk size h bad) := by
  unfold rtResponse; same_tac2
@[simp] theorem same_rtError (s : State) (idk : Option Nat) (et : String) : Same s (rtError s idk et) := by
  unfold rtError; same_tac2
@[simp] theorem same_rtInitError (s : State) (et : String) : Same s (rtInitError s et) := by
  unfold rtInitError; same_tac2
@[simp] theorem same_rtRestoreError (s : State) (et : String) : Same s (rtRestoreError s et) := by
  unfold rtRestoreError; same_tac2
@[simp] theorem same_rtCreds (s : State) (tok : String) : Same s (rtCreds s tok) := by
  unfold rtCreds; same_tac


@[simp] theorem same_agRegister (s : State) (n : String) (es : List Ev) (v : String) : Same s (agRegister s n es v) := by
  unfold agRegister; same_tac2
@[simp] theorem same_agNext (s : State) (n m : String) : Same s (agNext s n m) := by
  unfold agNext; same_tac2
theorem same_wakeAgent {l : Bool} {s s' : State} (h : wakeAgent l s = some s') : Same s s' := by
  unfold wakeAgent at h; split at h <;> simp at h
  split at h <;> (simp at h; subst h; simp [Same])
theorem same_renderWoken {l : Bool} {s s' : State} (h : renderWoken l s = some s') : Same s s' := by
  unfold renderWoken at h; split at h <;> simp at h
  subst h; simp [Same]
@[simp] theorem same_agReport (s : State) (n c e m : String) : Same s (agReport s n c e m) := by
  unfold agReport; same_tac2

/-! ### Orch.lean -/

theorem same_foldl_emit {α : Type} (l : List α) (f : α → String) (s : State) :
    Same s (l.foldl (fun s a => s.emit (f a)) s) := by
  induction l generalizing s with
  | nil => exact ⟨rfl, rfl, rfl⟩
  | cons a l ih => exact Same.trans (same_emit s (f a)) (ih _)

@[simp] theorem same_die (s : State) (full st : String) (z : Bool) : Same s (die s full st z) := by
  unfold die
  split
  · exact ⟨rfl, rfl, rfl⟩
  · split
    · exact ⟨rfl, rfl, rfl⟩
    · dsimp only
      refine Same.trans ?_ (same_foldl_emit _ _ _)
      simp [Same]
@[simp] theorem same_supKill (s : State) (full : String) : Same s (supKill s full) := by unfold supKill; same_tac
@[simp] theorem same_supTerm (s : State) (full : String) : Same s (supTerm s full) := by unfold supTerm; same_tac


theorem selv_map (l : List Flight) (g : Flight → Flight)
    (h : ∀ f, (g f).caller = f.caller ∧ ((g f).g0 == G0PC.selecting) = (f.g0 == G0PC.selecting)) : selv (l.map g) = selv l := by
  induction l with
  | nil => rfl
  | cons x xs ih => simp only [selv, List.map_cons, List.map_map, List.cons.injEq] at *; exact ⟨by simp [h x], ih⟩

@[simp] theorem selv_map_g4 (l : List Flight) (a b : G4PC) :
    selv (l.map fun f => if f.g4 == a then { f with g4 := b } else f) = selv l := by
  apply selv_map; intro f; split <;> simp
@[simp] theorem selv_map_g3 (l : List Flight) (a b : G3PC) :
    selv (l.map fun f => if f.g3 == a then { f with g3 := b } else f) = selv l := by
  apply selv_map; intro f; split <;> simp
@[simp] theorem selv_map_g2 (l : List Flight) (a b : G2PC) :
    selv (l.map fun f => if f.g2 == a then { f with g2 := b } else f) = selv l := by
  apply selv_map; intro f; split <;> simp
@[simp] theorem selv_map_g0 (l : List Flight) :
    selv (l.map fun f => if f.g0 == .timeoutResetWait then { f with g0 := .timeoutAwaitRelease } else f) = selv l := by
  apply selv_map; intro f; split
  · rename_i h; have : f.g0 = .timeoutResetWait := by simpa using h
    simp [this]; decide
  · simp

@[simp] theorem selv_map_g4' (l : List Flight) (a b : G4PC) :
    selv (l.map fun f => if f.g4 = a then { f with g4 := b } else f) = selv l := by
  apply selv_map; intro f; split <;> simp
@[simp] theorem selv_map_g3' (l : List Flight) (a b : G3PC) :
    selv (l.map fun f => if f.g3 = a then { f with g3 := b } else f) = selv l := by
  apply selv_map; intro f; split <;> simp
@[simp] theorem selv_map_g2' (l : List Flight) (a b : G2PC) :
    selv (l.map fun f => if f.g2 = a then { f with g2 := b } else f) = selv l := by
  apply selv_map; intro f; split <;> simp
@[simp] theorem selv_map_g0' (l : List Flight) :
    selv (l.map fun f => if f.g0 = .timeoutResetWait then { f with g0 := .timeoutAwaitRelease } else f) = selv l := by
  apply selv_map; intro f; split
  · rename_i h; simp [h]; decide
  · simp

@[simp] theorem same_invokeReturned (s : State) (ok rr : Bool) (et : String) : Same s (invokeReturned s ok rr et) := by
  unfold invokeReturned; same_tac2
@[simp] theorem same_invokeFail (s : State) (e : Option CErr) : Same s (invokeFail s e) := by unfold invokeFail; simp [Same]
@[simp] theorem same_continueInvoke (s : State) : Same s (continueInvoke s) := by unfold continueInvoke; same_tac
@[simp] theorem same_initTailEvents (s : State) (ph : Phase) (st : String) : Same s (initTailEvents s ph st) := by
  unfold initTailEvents
  dsimp only
  refine Same.trans (Same.trans (b := (if s.rtDoneReg = true then s.emitEv _ _ else s)) ?_ (same_foldl_emit _ _ _)) (same_emitEv _ _ _)
  split <;> simp [Same]
@[simp] theorem same_initFinish (s : State) (ph : Phase) (ok : Bool) (st : String) (e : Option CErr) : Same s (initFinish s ph ok st e) := by
  unfold initFinish; same_tac
@[simp] theorem same_launchExtensions (s : State) (ph : Phase) (ps : List String) : Same s (launchExtensions s ph ps) := by
  induction ps generalizing s with
  | nil => exact ⟨rfl, rfl, rfl⟩
  | cons p ps ih =>
    unfold launchExtensions
    splits <;> first | simp_all [Same] | (refine Same.trans ?_ (ih _); simp [Same])
@[simp] theorem same_startInit (s : State) (ph : Phase) : Same s (startInit s ph) := by unfold startInit; same_tac
/-- frame statement for the moves that may be disabled (`none`) -/
def SameO (s : State) (o : Option State) : Prop := ∀ s', o = some s' → Same s s'
@[simp] theorem sameO_none (s : State) : SameO s none := by intro s' h; cases h
@[simp] theorem sameO_some (s x : State) : SameO s (some x) ↔ Same s x := by
  constructor
  · intro h; exact h x rfl
  · intro h s' e; cases e; exact h

theorem sameO_orchResume (s : State) : SameO s (orchResume s) := by
  unfold orchResume; splits <;> simp_all [Same]

/-! ### shutdown choreography -/

theorem invT_filter (ts : List Timer) (p : Timer → Bool) (h : ∀ c, p (.invoke c) = true) : invT (ts.filter p) = invT ts := by
  induction ts with
  | nil => rfl
  | cons t ts ih =>
    cases t <;> simp only [List.filter_cons] <;> (try simp only [h]) <;> (split <;> simp_all [invT])
@[simp] theorem invT_append (a b : List Timer) : invT (a ++ b) = invT a ++ invT b := by simp [invT]
@[simp] theorem invT_nil : invT [] = [] := rfl
@[simp] theorem invT_cons_invoke (c : Nat) (ts : List Timer) : invT (.invoke c :: ts) = c :: invT ts := by simp [invT]
@[simp] theorem invT_cons_rt (ts : List Timer) : invT (.rtDeadline :: ts) = invT ts := by simp [invT]
@[simp] theorem invT_cons_ag (ts : List Timer) : invT (.agDeadline :: ts) = invT ts := by simp [invT]
@[simp] theorem invT_cons_grace (ts : List Timer) : invT (.grace :: ts) = invT ts := by simp [invT]
@[simp] theorem invT_cons_tail (n : Nat) (ts : List Timer) : invT (.resetTail n :: ts) = invT ts := by simp [invT]
@[simp] theorem invT_cons_hook (ts : List Timer) : invT (.restoreHook :: ts) = invT ts := by simp [invT]

@[simp] theorem same_disarmShutdownTimers (s : State) : Same s (disarmShutdownTimers s) := by
  refine ⟨rfl, ?_, rfl⟩
  exact invT_filter _ _ (by intro c; rfl)
@[simp] theorem same_afterReset (s : State) (n : Nat) : Same s (afterReset s n) := by unfold afterReset; simp [Same]
@[simp] theorem same_resetTail (s : State) (n : Nat) : Same s (resetTail s n) := by unfold resetTail; same_tac
@[simp] theorem same_finishShutdown (s : State) (k : ShutKind) (n : Nat) : Same s (finishShutdown s k n) := by
  unfold finishShutdown; same_tac
@[simp] theorem same_enterGrace (s : State) (k : ShutKind) : Same s (enterGrace s k) := by unfold enterGrace; simp [Same]
@[simp] theorem same_shutdownOne (s : State) (a : Agent) : Same s (shutdownOne s a) := by unfold shutdownOne; same_tac
theorem same_foldl_shutdownOne (l : List Agent) (s : State) : Same s (l.foldl shutdownOne s) := by
  induction l generalizing s with
  | nil => exact ⟨rfl, rfl, rfl⟩
  | cons a l ih => exact Same.trans (same_shutdownOne s a) (ih _)
@[simp] theorem same_shutdownAgents (s : State) (k : ShutKind) : Same s (shutdownAgents s k) := by
  unfold shutdownAgents
  dsimp only
  refine Same.trans (b := { s with renderer := .shutdown (reasonOf k), awaitingExit := [], agentWaits := [] }) ⟨rfl, rfl, rfl⟩ ?_
  exact Same.trans (same_foldl_shutdownOne _ _) ⟨rfl, rfl, rfl⟩
@[simp] theorem same_shutdownBody (s : State) (k : ShutKind) : Same s (shutdownBody s k) := by unfold shutdownBody; same_tac
@[simp] theorem same_beginShutdown (s : State) (k : ShutKind) : Same s (beginShutdown s k) := by unfold beginShutdown; simp [Same]

theorem same_foldl_waits (l : List String) (acc : State × List String) :
    Same acc.1 (l.foldl (fun (acc : State × List String) full =>
      match procByFull acc.1 full with
      | some p => if p.chanClosed then acc
                  else if acc.1.agDeadlineFired then (supKill acc.1 full, acc.2)
                  else (acc.1, acc.2 ++ [full])
      | none => acc) acc).1 := by
  induction l generalizing acc with
  | nil => exact ⟨rfl, rfl, rfl⟩
  | cons x xs ih =>
    simp only [List.foldl_cons]
    refine Same.trans ?_ (ih _)
    splits <;> simp [Same]

theorem sameO_shutResume (s : State) (n : Nat) : SameO s (shutResume s n) := by
  unfold shutResume
  split
  · splits <;> simp_all [Same]
  · have hw := same_foldl_waits s.agentWaits (s, [])
    dsimp only at hw ⊢
    generalize (List.foldl _ (s, []) s.agentWaits) = r at hw ⊢
    obtain ⟨s1, still⟩ := r
    dsimp only at hw ⊢
    splits <;> simp_all [Same]
  · splits <;> simp_all [Same]
  · simp

/-! ### Run.lean -/

@[simp] theorem same_startHandler (s : State) (r : HReq) : Same s (startHandler s r) := by
  unfold startHandler; same_tac
@[simp] theorem same_watchOne (s : State) (full : String) (z : Bool) : Same s (watchOne s full z) := by
  unfold watchOne; same_tac2
@[simp] theorem same_requestReset (s : State) (r : String) (n : Nat) : Same s (requestReset s r n) := by
  unfold requestReset; simp [Same]
@[simp] theorem same_startServerInit (s : State) : Same s (startServerInit s) := by unfold startServerInit; same_tac
@[simp] theorem same_restoreDoneEvent (s : State) (ok : Bool) : Same s (restoreDoneEvent s ok) := by unfold restoreDoneEvent; simp [Same]
@[simp] theorem same_handleRestore (s : State) (key : String) : Same s (handleRestore s key) := by unfold handleRestore; same_tac
@[simp] theorem same_restoreFinish (s : State) (e : Option String) : Same s (restoreFinish s e) := by
  unfold restoreFinish
  have h : invT (s.timers.filter (· != Timer.restoreHook)) = invT s.timers := invT_filter _ _ (by intro c; rfl)
  splits <;> simp_all [Same]
theorem sameO_restoreResume (s : State) : SameO s (restoreResume s) := by
  unfold restoreResume; splits <;> simp_all [Same]
theorem sameO_wakeMove (l : Bool) (s : State) : SameO s (wakeMove l s) := by
  intro s' h
  unfold wakeMove orElse' at h
  split at h
  · rename_i x hx; cases h; exact same_wakeRt hx
  · exact same_wakeAgent h
theorem sameO_killMove (s : State) : SameO s (killMove s) := by
  unfold killMove; splits <;> simp_all [Same]

/-- caller `c`'s call ends: its flight and its timeout timer go, its outcome is emitted -/
structure Fin (c : Nat) (s s' : State) : Prop where
  sel : selv s'.flights = (selv s.flights).filter (·.1 != c)
  tim : invT s'.timers = (invT s.timers).filter (· != c)
  don : doneOf s'.out = doneOf s.out ++ [c]

theorem fin_finishFlight (s : State) (f : Flight) (err : String) : Fin f.caller s (finishFlight s f err) := by
  refine ⟨?_, ?_, ?_⟩
  · simp only [finishFlight, State.emitCaller, selv, List.filter_map]
    congr 1
  · simp only [finishFlight, State.emitCaller]
    generalize s.timers = ts
    induction ts with
    | nil => rfl
    | cons t ts ih => cases t <;> simp_all [invT, List.filter_cons] <;> split <;> simp_all
  · simp [finishFlight, State.emitCaller, doneOf]

theorem Fin.of_same_left {c : Nat} {a b d : State} (h1 : Same a b) (h2 : Fin c b d) : Fin c a d :=
  ⟨by rw [h2.sel, h1.1], by rw [h2.tim, h1.2.1], by rw [h2.don, h1.2.2]⟩

/-- one move either leaves the projections alone or ends exactly one call that was in flight -/
def Trans (s s' : State) : Prop := Same s s' ∨ ∃ c, c ∈ (selv s.flights).map (·.1) ∧ Fin c s s'
def TransO (s : State) (o : Option State) : Prop := ∀ s', o = some s' → Trans s s'

theorem TransO.of_sameO {s : State} {o : Option State} (h : SameO s o) : TransO s o := fun s' e => Or.inl (h s' e)
theorem transO_orElse' {s : State} {a y : Option State}
    (ha : TransO s a) (hb : TransO s y) : TransO s (orElse' a fun _ => y) := by
  intro s' h; unfold orElse' at h; split at h
  · exact ha _ h
  · exact hb _ h

/-- a flight is "the" flight of its caller (always so when callers are pairwise distinct) -/
def IsFirst (s : State) (f : Flight) : Prop := getFlight s f.caller = some f

theorem same_setFlight_over (s0 s : State) (f f' : Flight) (hf : IsFirst s0 f) (hfl : s.flights = s0.flights)
    (ht : s.timers = s0.timers) (ho : s.out = s0.out)
    (hc : f'.caller = f.caller) (hg : (f'.g0 == .selecting) = (f.g0 == .selecting)) : Same s0 (setFlight s f') := by
  refine Same.trans (b := s) ⟨by rw [hfl], by rw [ht], by rw [ho]⟩ ?_
  apply same_setFlight s f f' _ hg
  unfold getFlight; rw [hfl, hc]; exact hf

theorem same_fastInvoke (s : State) (f : Flight) (hf : IsFirst s f) : Same s (fastInvoke s f) := by
  unfold fastInvoke
  splits <;> exact same_setFlight_over s _ f _ hf rfl rfl rfl rfl rfl

@[simp] theorem transO_none (s : State) : TransO s none := by intro s' h; cases h
@[simp] theorem transO_some (s x : State) : TransO s (some x) ↔ Trans s x := by
  constructor
  · intro h; exact h x rfl
  · intro h s' e; cases e; exact h

@[simp] theorem cancelFlows_flights (s : State) (e : CErr) : (cancelFlows s e).flights = s.flights := by unfold cancelFlows; split <;> rfl
@[simp] theorem cancelFlows_timers (s : State) (e : CErr) : (cancelFlows s e).timers = s.timers := by unfold cancelFlows; split <;> rfl
@[simp] theorem cancelFlows_out (s : State) (e : CErr) : (cancelFlows s e).out = s.out := by unfold cancelFlows; split <;> rfl
@[simp] theorem requestReset_flights (s : State) (r : String) (n : Nat) : (requestReset s r n).flights = s.flights := by simp [requestReset]
@[simp] theorem requestReset_timers (s : State) (r : String) (n : Nat) : (requestReset s r n).timers = s.timers := by simp [requestReset]
@[simp] theorem requestReset_out (s : State) (r : String) (n : Nat) : (requestReset s r n).out = s.out := by simp [requestReset]

theorem isFirst_mem {s : State} {f : Flight} (hf : IsFirst s f) : f.caller ∈ (selv s.flights).map (·.1) := by
  unfold IsFirst getFlight at hf
  have := List.mem_of_find?_eq_some hf
  simp only [selv, List.map_map, List.mem_map, Function.comp]
  exact ⟨f, this, rfl⟩

theorem transO_flightMove (s : State) (f : Flight) (hf : IsFirst s f) : TransO s (flightMove s f) := by
  have hmem := isFirst_mem hf
  unfold flightMove
  splits <;> simp only [transO_none, transO_some] <;> first
    | trivial
    | exact Or.inl (same_fastInvoke s f hf)
    | exact Or.inl (same_setFlight_over s _ f _ hf rfl rfl rfl rfl rfl)
    | exact Or.inl (same_setFlight_over s _ f _ hf (by simp) (by simp) (by simp) rfl rfl)
    | exact Or.inr ⟨f.caller, hmem, fin_finishFlight s f _⟩
    | exact Or.inr ⟨f.caller, hmem, Fin.of_same_left (same_release s) (fin_finishFlight _ f _)⟩

def callers (s : State) : List Nat := (selv s.flights).map (·.1)

theorem callers_eq (s : State) : callers s = s.flights.map (·.caller) := by
  simp [callers, selv, List.map_map, Function.comp_def]

theorem find_first_of_nodup (l : List Flight) (f : Flight) (hn : (l.map (·.caller)).Nodup) (hf : f ∈ l) :
    l.find? (·.caller == f.caller) = some f := by
  induction l with
  | nil => cases hf
  | cons x xs ih =>
    simp only [List.map_cons, List.nodup_cons] at hn
    rcases List.mem_cons.mp hf with rfl | hm
    · simp
    · have hne : x.caller ≠ f.caller := by
        intro e; apply hn.1; rw [e]; exact List.mem_map_of_mem hm
      have : (x.caller == f.caller) = false := by simpa using hne
      simp only [List.find?_cons, this]
      exact ih hn.2 hm

theorem isFirst_of_nodup {s : State} {f : Flight} (hn : (callers s).Nodup) (hf : f ∈ s.flights) : IsFirst s f := by
  rw [callers_eq] at hn
  exact find_first_of_nodup s.flights f hn hf

theorem firstSome_spec {α β : Type} (g : α → Option β) (l : List α) (y : β) (h : firstSome g l = some y) : ∃ x ∈ l, g x = some y := by
  induction l with
  | nil => cases h
  | cons x xs ih =>
    unfold firstSome at h
    split at h
    · rename_i z hz; cases h; exact ⟨x, List.mem_cons_self, hz⟩
    · obtain ⟨w, hw, hg⟩ := ih h; exact ⟨w, List.mem_cons_of_mem _ hw, hg⟩

theorem transO_platformMove (lifo : Bool) (s : State) (hn : (callers s).Nodup) : TransO s (platformMove lifo s) := by
  unfold platformMove
  refine transO_orElse' (TransO.of_sameO (sameO_orchResume s)) ?_
  refine transO_orElse' (TransO.of_sameO (sameO_shutResume s _)) ?_
  refine transO_orElse' (TransO.of_sameO (sameO_restoreResume s)) ?_
  splits <;> first
    | exact transO_none _
    | (rw [transO_some]; left; simp [Same]; done)
    | (intro s' h
       obtain ⟨f, hf, hm⟩ := firstSome_spec _ _ _ h
       exact transO_flightMove s f (isFirst_of_nodup hn hf) _ hm)

theorem transO_progress (v : Nat) (s : State) (hn : (callers s).Nodup) : TransO s (progress v s) := by
  have hp := fun l => transO_platformMove l s hn
  have hw := fun l => TransO.of_sameO (sameO_wakeMove l s)
  have hk := TransO.of_sameO (sameO_killMove s)
  have hr : ∀ l, TransO s (renderWoken l s) := fun l => TransO.of_sameO (fun s' h => same_renderWoken h)
  unfold progress
  splits <;> first
    | exact transO_none _
    | (rw [transO_some]; left; simp [Same]; done)
    | exact transO_orElse' (transO_orElse' (hw _) (transO_orElse' (hp _) hk)) (hr _)
    | exact transO_orElse' (transO_orElse' (hp _) (transO_orElse' (hw _) hk)) (hr _)
    | exact transO_orElse' (transO_orElse' (hp _) (transO_orElse' hk (hw _))) (hr _)
    | exact transO_orElse' (hr _) (transO_orElse' (hw _) (transO_orElse' (hp _) hk))
    | exact transO_orElse' (hr _) (transO_orElse' (hp _) (transO_orElse' (hw _) hk))
    | exact transO_orElse' (hr _) (transO_orElse' (hp _) (transO_orElse' hk (hw _)))

/-! ### the invariant -/

/-- `S`: callers submitted so far; `H`: callers answered before the current op -/
structure Inv (S H : List Nat) (s : State) : Prop where
  nodup : (callers s).Nodup
  armed : ∀ c, (c, true) ∈ selv s.flights → c ∈ invT s.timers
  once  : (H ++ doneOf s.out).Nodup
  excl  : ∀ c ∈ callers s, c ∉ H ++ doneOf s.out
  sub   : ∀ c, c ∈ S ↔ (c ∈ callers s ∨ c ∈ H ++ doneOf s.out)

theorem inv_same {S H : List Nat} {s s' : State} (h : Same s s') (i : Inv S H s) : Inv S H s' := by
  obtain ⟨h1, h2, h3⟩ := h
  have hc : callers s' = callers s := by simp [callers, h1]
  exact ⟨by rw [hc]; exact i.nodup, by rw [h1, h2]; exact i.armed, by rw [h3]; exact i.once,
    by rw [hc, h3]; exact i.excl, by rw [hc, h3]; exact i.sub⟩

theorem inv_fin {S H : List Nat} {s s' : State} {c : Nat} (h : Fin c s s') (hc : c ∈ callers s) (i : Inv S H s) : Inv S H s' := by
  obtain ⟨h1, h2, h3⟩ := h
  have hcal : callers s' = (callers s).filter (· != c) := by
    simp only [callers, h1, List.filter_map]; rfl
  have hnot : c ∉ H ++ doneOf s.out := i.excl c hc
  refine ⟨?_, ?_, ?_, ?_, ?_⟩
  · rw [hcal]; exact i.nodup.filter _
  · intro c' hm
    rw [h1] at hm
    have hm' := List.mem_filter.mp hm
    rw [h2]
    exact List.mem_filter.mpr ⟨i.armed c' hm'.1, by simpa using hm'.2⟩
  · rw [h3, ← List.append_assoc]
    exact List.nodup_append.mpr ⟨i.once, (by simp), by
      intro a ha b hb; have : b = c := by simpa using hb
      subst this; intro e; subst e; exact hnot ha⟩
  · intro c' hm
    rw [hcal] at hm
    have hm' := List.mem_filter.mp hm
    have hne : c' ≠ c := by simpa using hm'.2
    rw [h3, ← List.append_assoc]
    intro hin
    rcases List.mem_append.mp hin with h | h
    · exact i.excl c' hm'.1 h
    · exact hne (by simpa using h)
  · intro c'
    rw [hcal, h3, ← List.append_assoc, i.sub c']
    constructor
    · rintro (h | h)
      · by_cases e : c' = c
        · right; subst e; simp
        · left; exact List.mem_filter.mpr ⟨h, by simpa using e⟩
      · right; exact List.mem_append_left _ h
    · rintro (h | h)
      · left; exact (List.mem_filter.mp h).1
      · rcases List.mem_append.mp h with h | h
        · right; exact h
        · left; have : c' = c := by simpa using h
          subst this; exact hc

theorem inv_trans {S H : List Nat} {s s' : State} (h : Trans s s') (i : Inv S H s) : Inv S H s' := by
  rcases h with h | ⟨c, hc, h⟩
  · exact inv_same h i
  · exact inv_fin h hc i

theorem inv_settle {S H : List Nat} (v n : Nat) (s : State) (i : Inv S H s) : Inv S H (settle v n s) := by
  induction n generalizing v s with
  | zero => exact i
  | succ n ih =>
    unfold settle
    split
    · exact i
    · rename_i s' hp
      exact ih _ s' (inv_trans (transO_progress v s i.nodup s' hp) i)

/-! ### the ops -/

theorem same_applyOp (s : State) (o : Op) (h1 : ∀ c z h, o ≠ .invoke c z h) (h2 : ∀ t, o ≠ .timer t) : Same s (applyOp s o) := by
  cases o <;> first
    | exact absurd rfl (h1 _ _ _)
    | exact absurd rfl (h2 _)
    | (unfold applyOp; same_tac)

theorem invT_filter_invoke (ts : List Timer) (c : Nat) :
    invT (ts.filter (· != Timer.invoke c)) = (invT ts).filter (· != c) := by
  induction ts with
  | nil => rfl
  | cons t ts ih => cases t <;> simp_all [invT, List.filter_cons] <;> split <;> simp_all

theorem mem_selv {l : List Flight} {c : Nat} {b : Bool} : (c, b) ∈ selv l ↔ ∃ f ∈ l, f.caller = c ∧ (f.g0 == .selecting) = b := by
  simp [selv]

theorem mem_replaceFirst {α : Type} (p : α → Bool) (x y : α) (l : List α) (h : y ∈ replaceFirst p x l) : y = x ∨ y ∈ l := by
  induction l with
  | nil => cases h
  | cons z zs ih =>
    unfold replaceFirst at h
    split at h
    · rcases List.mem_cons.mp h with h | h
      · exact Or.inl h
      · exact Or.inr (List.mem_cons_of_mem _ h)
    · rcases List.mem_cons.mp h with h | h
      · exact Or.inr (h ▸ List.mem_cons_self)
      · rcases ih h with h | h
        · exact Or.inl h
        · exact Or.inr (List.mem_cons_of_mem _ h)

theorem callers_replaceFirst (l : List Flight) (f' : Flight) :
    (replaceFirst (·.caller == f'.caller) f' l).map (·.caller) = l.map (·.caller) := by
  induction l with
  | nil => rfl
  | cons z zs ih =>
    unfold replaceFirst
    split
    · rename_i h; have : z.caller = f'.caller := by simpa using h
      simp [this]
    · simp [ih]

theorem eq_of_nodup_map {α β : Type} (f : α → β) (l : List α) (hn : (l.map f).Nodup) {x y : α}
    (hx : x ∈ l) (hy : y ∈ l) (h : f x = f y) : x = y := by
  induction l with
  | nil => cases hx
  | cons z zs ih =>
    simp only [List.map_cons, List.nodup_cons] at hn
    rcases List.mem_cons.mp hx with rfl | hx' <;> rcases List.mem_cons.mp hy with rfl | hy'
    · rfl
    · exact absurd (h ▸ List.mem_map_of_mem hy') hn.1
    · exact absurd (h ▸ List.mem_map_of_mem hx') hn.1
    · exact ih hn.2 hx' hy'

theorem invT_filter_other (ts : List Timer) (t : Timer) (h : ∀ c, t ≠ .invoke c) :
    invT (ts.filter (· != t)) = invT ts :=
  invT_filter ts _ (by intro c; simpa using (h c).symm)

theorem same_timer_other (s : State) (t : Timer) (h : ∀ c, t ≠ .invoke c) : Same s (applyOp s (.timer t)) := by
  have hf := invT_filter_other s.timers t h
  cases t <;> first
    | exact absurd rfl (h _)
    | (simp only [applyOp]; splits <;> simp_all [Same])

theorem inv_timer_invoke {S H : List Nat} (s : State) (c : Nat) (i : Inv S H s) : Inv S H (applyOp s (.timer (.invoke c))) := by
  simp only [applyOp]
  split
  · exact i
  · split
    · -- the caller still waits: its call moves on to the timeout path
      rename_i f hfind
      have hfm : f ∈ s.flights := List.mem_of_find?_eq_some hfind
      have hfp := List.find?_some hfind
      simp only [Bool.and_eq_true, beq_iff_eq] at hfp
      obtain ⟨hfc, hfs⟩ := hfp
      -- flights of the new state
      have hfl : (setFlight (requestReset { s with timers := s.timers.filter (· != Timer.invoke c) } "Timeout" 1)
          { f with g0 := .timeoutResetWait, timedOut := true }).flights =
          replaceFirst (·.caller == f.caller) { f with g0 := .timeoutResetWait, timedOut := true } s.flights := by
        simp [setFlight]
      have htm : (setFlight (requestReset { s with timers := s.timers.filter (· != Timer.invoke c) } "Timeout" 1)
          { f with g0 := .timeoutResetWait, timedOut := true }).timers = s.timers.filter (· != Timer.invoke c) := by
        simp [setFlight]
      have hout : (setFlight (requestReset { s with timers := s.timers.filter (· != Timer.invoke c) } "Timeout" 1)
          { f with g0 := .timeoutResetWait, timedOut := true }).out = s.out := by
        simp [setFlight]
      generalize (setFlight (requestReset { s with timers := s.timers.filter (· != Timer.invoke c) } "Timeout" 1)
          { f with g0 := .timeoutResetWait, timedOut := true }) = s' at hfl htm hout
      have hcal : callers s' = callers s := by
        rw [callers_eq, callers_eq, hfl]
        exact callers_replaceFirst s.flights { f with g0 := .timeoutResetWait, timedOut := true }
      have hnd := i.nodup
      rw [callers_eq] at hnd
      refine ⟨by rw [hcal]; exact i.nodup, ?_, by rw [hout]; exact i.once, by rw [hcal, hout]; exact i.excl,
        by rw [hcal, hout]; exact i.sub⟩
      intro c' hm
      rw [htm, invT_filter_invoke]
      obtain ⟨g, hg, hgc, hgs⟩ := mem_selv.mp hm
      rw [hfl] at hg
      have hg0 := hg
      rcases mem_replaceFirst _ _ _ _ hg with hg | hg
      · subst hg; simp at hgs
      · -- g is an old flight, still selecting; it is not f (f was replaced and callers are distinct)
        have hold : c' ∈ invT s.timers := i.armed c' (mem_selv.mpr ⟨g, hg, hgc, hgs⟩)
        refine List.mem_filter.mpr ⟨hold, ?_⟩
        have hne : c' ≠ c := by
          intro e
          -- then g has f's caller, so g = f by distinctness; but f's slot now holds the replaced flight
          have hgf : g.caller = f.caller := by rw [hgc, e, hfc]
          have hnd' : (callers s').Nodup := by rw [hcal]; exact i.nodup
          rw [callers_eq, hfl] at hnd'
          have hrep : ({ f with g0 := G0PC.timeoutResetWait, timedOut := true } : Flight) ∈
              replaceFirst (·.caller == f.caller) { f with g0 := .timeoutResetWait, timedOut := true } s.flights := by
            have := find_first_of_nodup s.flights f hnd hfm
            have h2 := find_map_update s.flights f.caller f { f with g0 := .timeoutResetWait, timedOut := true } this rfl
            exact List.mem_of_find?_eq_some h2
          have := eq_of_nodup_map (·.caller) _ hnd' hg0 hrep (by simpa using hgf)
          subst this; simp at hgs
        simpa using hne
    · -- nobody with that caller waits any more
      rename_i hnone
      refine ⟨i.nodup, ?_, i.once, i.excl, i.sub⟩
      intro c' hm
      simp only []
      rw [invT_filter_invoke]
      refine List.mem_filter.mpr ⟨i.armed c' hm, ?_⟩
      obtain ⟨g, hg, hgc, hgs⟩ := mem_selv.mp hm
      have := List.find?_eq_none.mp hnone g hg
      simp only [Bool.and_eq_true, beq_iff_eq, not_and] at this
      have hne : c' ≠ c := by
        intro e; apply this (by rw [hgc, e]); simpa using hgs
      simpa using hne

theorem inv_invoke {S H : List Nat} (s : State) (c z : Nat) (h : String) (hfresh : c ∉ S) (i : Inv S H s) :
    Inv (S ++ [c]) H (applyOp s (.invoke c z h)) := by
  have i1 : Inv S H (startServerInit s) := inv_same (same_startServerInit s) i
  have hnc : c ∉ callers (startServerInit s) := fun hc => hfresh ((i1.sub c).mpr (Or.inl hc))
  have hna : c ∉ H ++ doneOf (startServerInit s).out := fun hc => hfresh ((i1.sub c).mpr (Or.inr hc))
  simp only [applyOp]
  generalize startServerInit s = s1 at i1 hnc hna
  split
  · -- refused at once
    have hcal : callers (s1.emitCaller c "AlreadyReserved" "empty") = callers s1 := rfl
    have hd : doneOf (s1.emitCaller c "AlreadyReserved" "empty").out = doneOf s1.out ++ [c] := by
      simp [State.emitCaller, doneOf]
    refine ⟨i1.nodup, i1.armed, ?_, ?_, ?_⟩
    · rw [hd, ← List.append_assoc]
      exact List.nodup_append.mpr ⟨i1.once, by simp, by
        intro a ha b hb; have : b = c := by simpa using hb
        subst this; intro e; subst e; exact hna ha⟩
    · intro c' hm
      rw [hd, ← List.append_assoc]
      intro hin
      rcases List.mem_append.mp hin with h' | h'
      · exact i1.excl c' hm h'
      · have : c' = c := by simpa using h'
        subst this; exact hnc hm
    · intro c'
      rw [hcal, hd, ← List.append_assoc, List.mem_append, i1.sub c']
      simp only [List.mem_append, List.mem_singleton]
      constructor
      · rintro ((h' | h') | h')
        · exact Or.inl h'
        · exact Or.inr (Or.inl h')
        · exact Or.inr (Or.inr h')
      · rintro (h' | (h' | h'))
        · exact Or.inl (Or.inl h')
        · exact Or.inl (Or.inr h')
        · exact Or.inr h'
  · -- admitted: a new flight, selecting, with its timeout armed
    have hsel : selv (s1.flights ++ [({ caller := c, k := s1.nextK, phash := h } : Flight)]) = selv s1.flights ++ [(c, true)] := by
      simp [selv]
    have hcal : ∀ x : State, x.flights = s1.flights ++ [({ caller := c, k := s1.nextK, phash := h } : Flight)] →
        callers x = callers s1 ++ [c] := by
      intro x hx; simp [callers, hx, hsel]
    refine ⟨?_, ?_, i1.once, ?_, ?_⟩
    · rw [hcal _ rfl]
      exact List.nodup_append.mpr ⟨i1.nodup, by simp, by
        intro a ha b hb; have : b = c := by simpa using hb
        subst this; intro e; subst e; exact hnc ha⟩
    · intro c' hm
      simp only [hsel, invT_append, List.mem_append] at hm ⊢
      rcases hm with hm | hm
      · exact Or.inl (i1.armed c' hm)
      · right; have : c' = c := by simpa using hm
        subst this; simp
    · intro c' hm
      rw [hcal _ rfl] at hm
      rcases List.mem_append.mp hm with hm | hm
      · exact i1.excl c' hm
      · have : c' = c := by simpa using hm
        subst this; exact hna
    · intro c'
      rw [hcal _ rfl, List.mem_append, i1.sub c']
      simp only [List.mem_append, List.mem_singleton]
      constructor
      · rintro ((h' | h') | h')
        · exact Or.inl (Or.inl h')
        · exact Or.inr h'
        · exact Or.inl (Or.inr h')
      · rintro ((h' | h') | h')
        · exact Or.inl (Or.inl h')
        · exact Or.inr h'
        · exact Or.inl (Or.inr h')

/-! ### runs -/

def opCaller : Op → Option Nat
  | .invoke c _ _ => some c
  | _ => none

theorem inv_applyOp {S H : List Nat} (s : State) (o : Op) (hfresh : ∀ c, opCaller o = some c → c ∉ S) (i : Inv S H s) :
    Inv (S ++ (opCaller o).toList) H (applyOp s o) := by
  cases o with
  | invoke c z h => exact inv_invoke s c z h (hfresh c rfl) i
  | timer t =>
    simp only [opCaller, Option.toList_none, List.append_nil]
    cases t with
    | invoke c => exact inv_timer_invoke s c i
    | rtDeadline => exact inv_same (same_timer_other s _ (by intro c; exact Timer.noConfusion)) i
    | agDeadline => exact inv_same (same_timer_other s _ (by intro c; exact Timer.noConfusion)) i
    | grace => exact inv_same (same_timer_other s _ (by intro c; exact Timer.noConfusion)) i
    | resetTail n => exact inv_same (same_timer_other s _ (by intro c; exact Timer.noConfusion)) i
    | restoreHook => exact inv_same (same_timer_other s _ (by intro c; exact Timer.noConfusion)) i
  | _ =>
    simp only [opCaller, Option.toList_none, List.append_nil]
    exact inv_same (same_applyOp s _ (by intro c z h; exact Op.noConfusion) (by intro t; exact Op.noConfusion)) i

theorem inv_step {S H : List Nat} (v : Nat) (s : State) (o : Op) (hfresh : ∀ c, opCaller o = some c → c ∉ S) (i : Inv S H s) :
    Inv (S ++ (opCaller o).toList) (H ++ doneOf s.out) (step v s o) := by
  unfold step
  apply inv_settle
  apply inv_applyOp _ _ hfresh
  have hc : callers { s with out := [] } = callers s := rfl
  exact ⟨i.nodup, i.armed, by simpa using i.once, by rw [hc]; simpa using i.excl, by rw [hc]; simpa using i.sub⟩

/-- a run: a scheduler variant and an op per step. Second component: the callers answered before the
    last op (those answered during it are in the final state's `out`). -/
def run : State → List Nat → List (Nat × Op) → State × List Nat
  | s, H, [] => (s, H)
  | s, H, (v, o) :: rest => run (step v s o) (H ++ doneOf s.out) rest

def submitted (ops : List (Nat × Op)) : List Nat := ops.filterMap fun x => opCaller x.2

theorem inv_run {S H : List Nat} (s : State) (ops : List (Nat × Op)) (i : Inv S H s)
    (hfresh : (S ++ submitted ops).Nodup) :
    Inv (S ++ submitted ops) (run s H ops).2 (run s H ops).1 := by
  induction ops generalizing S H s with
  | nil => simpa [run, submitted] using i
  | cons x rest ih =>
    obtain ⟨v, o⟩ := x
    have hsub : submitted ((v, o) :: rest) = (opCaller o).toList ++ submitted rest := by
      simp only [submitted, List.filterMap_cons]
      cases opCaller o <;> simp
    rw [hsub, ← List.append_assoc] at hfresh ⊢
    have hf : ∀ c, opCaller o = some c → c ∉ S := by
      intro c hc hm
      rw [hc] at hfresh
      have := (List.nodup_append.mp (List.nodup_append.mp hfresh).1).2.2 c hm c (by simp)
      exact this rfl
    exact ih (step v s o) (inv_step v s o hf i) hfresh

/-- an initial state: any configuration, nothing in flight, nothing armed, nothing printed -/
def Initial (s : State) : Prop := s.flights = [] ∧ s.timers = [] ∧ s.out = []

theorem inv_initial (s : State) (h : Initial s) : Inv [] [] s := by
  obtain ⟨h1, h2, h3⟩ := h
  refine ⟨by simp [callers, selv, h1], by simp [selv, h1], by simp [h3], by simp [callers, selv, h1], by simp [callers, selv, h1, h3]⟩

theorem mem_invT {ts : List Timer} {c : Nat} : c ∈ invT ts ↔ Timer.invoke c ∈ ts := by
  induction ts with
  | nil => simp
  | cons t ts ih => cases t <;> simp_all [invT]

end Rie.Sys
