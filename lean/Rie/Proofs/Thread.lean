import Rie.Model.Thread

namespace Rie.Thread

structure Inv (s : Sys) : Prop where
  /-- a pending release is never lost: somebody is runnable, or nobody waits -/
  nolost : s.flag = true → (∀ w ∈ s.ws, w ≠ .parked) ∨ (∃ w ∈ s.ws, w = .woken)
  /-- every effective release is consumed by exactly one `SuspendUnsafe` (or still pending) -/
  oneshot : s.passed + (if s.flag then 1 else 0) = s.released

theorem inv_init (n : Nat) : Inv (init n) := ⟨by simp [init], by simp [init]⟩

theorem firstParked_none {ws : List W} (h : firstParked ws = none) : ∀ w ∈ ws, w ≠ .parked := by
  intro w hw hp
  unfold firstParked at h
  rw [List.findIdx?_eq_none_iff] at h
  have := h w hw
  rw [hp] at this
  simp at this

theorem firstParked_lt {ws : List W} {j : Nat} (h : firstParked ws = some j) : j < ws.length := by
  unfold firstParked at h
  have := List.findIdx?_eq_some_iff_getElem.mp h
  exact this.1

theorem evalWait_inv (s : Sys) (i : Nat) (hi : Inv s) : Inv (evalWait s i) := by
  unfold evalWait
  split
  · rename_i hf
    refine ⟨by simp, ?_⟩
    have := hi.oneshot
    simp only [hf, ite_true] at this
    simp; omega
  · rename_i hf
    refine ⟨by intro h; exact absurd h hf, ?_⟩
    have := hi.oneshot
    simpa using this

theorem inv_step (s : Sys) (o : Op) (hi : Inv s) : Inv (step s o) := by
  cases o with
  | release k =>
    have hone : s.passed + 1 = (if s.flag then s.released else s.released + 1) := by
      have := hi.oneshot
      split <;> simp_all
    simp only [step]
    split
    · rename_i j htgt
      have hj : j < s.ws.length := by
        split at htgt
        · rename_i hk
          injection htgt with htgt
          have := (List.getElem?_eq_some_iff.mp hk).1
          omega
        · exact firstParked_lt htgt
      refine ⟨?_, by simpa using hone⟩
      intro _
      right
      exact ⟨.woken, List.mem_of_getElem? (by rw [List.getElem?_set_self hj]), rfl⟩
    · rename_i htgt
      refine ⟨?_, by simpa using hone⟩
      intro _
      left
      split at htgt
      · cases htgt
      · exact firstParked_none htgt
  | enter i =>
    simp only [step]
    split
    · exact evalWait_inv s i hi
    · exact hi
  | resume i =>
    simp only [step]
    split
    · exact evalWait_inv s i hi
    · exact hi
  | collect i =>
    simp only [step]
    split
    · rename_i hd
      refine ⟨?_, hi.oneshot⟩
      intro hf
      rcases hi.nolost hf with h | ⟨w, hw, hwk⟩
      · left
        intro w hw
        rcases List.mem_or_eq_of_mem_set hw with h' | h'
        · exact h w h'
        · rw [h']; simp
      · right
        subst hwk
        -- the woken waiter is not at index i (which holds `done`)
        obtain ⟨j, hj, hjw⟩ := List.getElem_of_mem hw
        refine ⟨.woken, ?_, rfl⟩
        have hne : i ≠ j := by
          intro hij
          subst hij
          rw [List.getElem?_eq_getElem hj, hjw] at hd
          cases hd
        have : (s.ws.set i .idle)[j]? = some .woken := by
          rw [List.getElem?_set_ne hne, List.getElem?_eq_getElem hj, hjw]
        exact List.mem_of_getElem? this
    · exact hi

theorem inv_run (s : Sys) (ops : List Op) (hi : Inv s) : Inv (run s ops) := by
  induction ops generalizing s with
  | nil => exact hi
  | cons o os ih => exact ih _ (inv_step s o hi)

end Rie.Thread
