import Rie.Model.DirectInvoke
import Rie.Proofs.Bucket

/-! Lemmas about the direct-invoke model (used by `Rie.Props.C17`). -/
namespace Rie.DirectInvoke
open Rie.Gen

/-! ### `chunks` -/

theorem chunksAux_flatten {α : Type} (cap fuel : Nat) (p : List α) (hc : 0 < cap) (hf : p.length ≤ fuel) :
    (chunksAux cap fuel p).flatten = p := by
  induction fuel generalizing p with
  | zero =>
    have : p = [] := List.eq_nil_of_length_eq_zero (by omega)
    subst this; rfl
  | succ fuel ih =>
    cases p with
    | nil => rfl
    | cons x xs =>
      simp only [chunksAux, List.flatten_cons]
      rw [ih]
      · exact List.take_append_drop cap (x :: xs)
      · simp only [List.length_drop, List.length_cons] at *; omega

theorem chunksAux_mem {α : Type} (cap fuel : Nat) (p c : List α) (hc : 0 < cap)
    (h : c ∈ chunksAux cap fuel p) : c.length ≤ cap ∧ c ≠ [] := by
  induction fuel generalizing p with
  | zero => simp [chunksAux] at h
  | succ fuel ih =>
    cases p with
    | nil => simp [chunksAux] at h
    | cons x xs =>
      simp only [chunksAux, List.mem_cons] at h
      cases h with
      | inl h =>
        subst h
        refine ⟨by simp only [List.length_take]; omega, ?_⟩
        cases cap with
        | zero => omega
        | succ k => simp
      | inr h => exact ih _ h

theorem chunks_flatten {α : Type} (p : List α) (cap : Nat) (hc : 0 < cap) : (chunks p cap).flatten = p := by
  unfold chunks
  rw [if_neg (by omega)]
  exact chunksAux_flatten cap _ p hc (Nat.le_refl _)

theorem chunks_mem {α : Type} (p c : List α) (cap : Nat) (h : c ∈ chunks p cap) :
    c.length ≤ cap ∧ c ≠ [] := by
  unfold chunks at h
  split at h
  · simp at h
  · exact chunksAux_mem cap _ p c (by omega) h

/-- a buffer that fits goes out in one piece -/
theorem chunks_small {α : Type} (p : List α) (cap : Nat) (h0 : p ≠ []) (h : p.length ≤ cap) :
    chunks p cap = [p] := by
  cases p with
  | nil => exact absurd rfl h0
  | cons x xs =>
    have hc : cap ≠ 0 := by simp only [List.length_cons] at h; omega
    unfold chunks
    rw [if_neg hc]
    simp only [List.length_cons, chunksAux]
    rw [List.take_of_length_le (by simpa using h), List.drop_eq_nil_of_le (by simpa using h)]
    cases xs.length <;> rfl

theorem flatMap_chunks_flatten {α : Type} (l : List (List α)) (cap : Nat) (hc : 0 < cap) :
    (l.flatMap (chunks · cap)).flatten = l.flatten := by
  induction l with
  | nil => rfl
  | cons a l ih =>
    simp only [List.flatMap_cons, List.flatten_append, List.flatten_cons, ih, chunks_flatten a cap hc]

theorem flatMap_chunks_mem {α : Type} (l : List (List α)) (cap : Nat) (c : List α)
    (h : c ∈ l.flatMap (chunks · cap)) : c.length ≤ cap ∧ c ≠ [] := by
  simp only [List.mem_flatMap] at h
  obtain ⟨a, _, hc⟩ := h
  exact chunks_mem a c cap hc

/-! ### `limN`, `cut` -/

theorem limN_flatten (rs : List Bytes) (n : Nat) (f : Bool) :
    (limN rs n f).1.flatten = rs.flatten.take n := by
  induction rs generalizing n with
  | nil => simp [limN]
  | cons r rs ih =>
    simp only [limN]
    split
    · subst_vars; simp
    · simp only [List.flatten_cons, ih, List.length_take, List.take_append]
      by_cases h : n ≤ r.length
      · have h1 : min n r.length = n := by omega
        have h2 : n - r.length = 0 := by omega
        simp [h1, h2]
      · have h1 : min n r.length = r.length := by omega
        rw [h1]

theorem limN_err (rs : List Bytes) (n : Nat) (f : Bool) :
    (limN rs n f).2 = (f && decide (rs.flatten.length < n)) := by
  induction rs generalizing n with
  | nil =>
    simp only [limN, List.flatten_nil, List.length_nil]
    split
    · subst_vars; simp
    · have : 0 < n := by omega
      simp [this]
  | cons r rs ih =>
    simp only [limN]
    split
    · subst_vars; simp
    · simp only [ih, List.flatten_cons, List.length_append, List.length_take]
      congr 1
      simp only [decide_eq_decide]
      omega

theorem cut_flatten (ws : List Bytes) (b : Nat) : (cut ws b).1.flatten = ws.flatten.take b := by
  induction ws generalizing b with
  | nil => simp [cut]
  | cons w ws ih =>
    simp only [cut]
    split
    · rename_i h
      simp only [List.flatten_cons, ih, List.take_append]
      rw [List.take_of_length_le h]
    · rename_i h
      have hb : b - w.length = 0 := by omega
      simp only [List.flatten_cons, List.take_append, hb, List.take_zero, List.append_nil]
      split
      · subst_vars; simp
      · simp

theorem cut_err (ws : List Bytes) (b : Nat) : (cut ws b).2 = decide (b < ws.flatten.length) := by
  induction ws generalizing b with
  | nil => simp [cut]
  | cons w ws ih =>
    simp only [cut]
    split
    · simp only [ih, List.flatten_cons, List.length_append, decide_eq_decide]; omega
    · simp only [List.flatten_cons, List.length_append]
      symm; simp only [decide_eq_true_eq]; omega

/-! ### stages of `send` -/

theorem reads_flatten (p : SendParams) (src : Src) :
    (reads p src).1.flatten = match p.lim with
      | none => src.payload
      | some n => src.payload.take n := by
  unfold reads Src.payload
  cases p.lim with
  | none =>
    simp only
    split
    · rfl
    · exact flatMap_chunks_flatten _ _ (by decide)
  | some n =>
    simp only [limN_flatten]
    rw [flatMap_chunks_flatten _ _ (by decide)]

theorem reads_err (p : SendParams) (src : Src) :
    (reads p src).2 = match p.lim with
      | none => src.fail
      | some n => (src.fail && decide (src.payload.length < n)) := by
  unfold reads Src.payload
  cases p.lim with
  | none => simp only; split <;> rfl
  | some n =>
    simp only [limN_err]
    rw [flatMap_chunks_flatten _ _ (by decide)]

theorem take_flatten_prefix {α : Type} (l : List (List α)) (j : Nat) : (l.take j).flatten <+: l.flatten := by
  refine ⟨(l.drop j).flatten, ?_⟩
  rw [← List.flatten_append, List.take_append_drop]

theorem applyReset_prefix (p : SendParams) (env : Env) (rs : List Bytes) :
    (applyReset p env rs).1.flatten <+: rs.flatten := by
  unfold applyReset
  split
  · split
    · exact take_flatten_prefix _ _
    · exact List.prefix_refl _
  · exact List.prefix_refl _

theorem applyReset_noerr (p : SendParams) (env : Env) (rs : List Bytes)
    (h : (applyReset p env rs).2 = false) : (applyReset p env rs).1 = rs := by
  unfold applyReset at *
  split
  · split
    · rename_i hm hr hj; simp [hm, hr, hj] at h
    · rfl
  · rfl

theorem applyReset_quiet (p : SendParams) (rs : List Bytes) : applyReset p Env.quiet rs = (rs, false) := by
  unfold applyReset Env.quiet
  cases p.mode <;> rfl

theorem splitWrites_flatten (p : SendParams) (rs : List Bytes) (h : p.WF) :
    (splitWrites p rs).flatten = rs.flatten := by
  unfold splitWrites
  split
  · rename_i cap refill hm hs
    obtain ⟨cap', refill', hs', hc, _⟩ := h.2 hm
    rw [hs] at hs'
    simp only [Option.some.injEq, Prod.mk.injEq] at hs'
    exact flatMap_chunks_flatten _ _ (by omega)
  · rfl

theorem applyBudget_prefix (env : Env) (ws : List Bytes) : (applyBudget env ws).1.flatten <+: ws.flatten := by
  unfold applyBudget
  split
  · exact List.prefix_refl _
  · rw [cut_flatten]; exact List.take_prefix _ _

theorem applyBudget_noerr (env : Env) (ws : List Bytes) (h : (applyBudget env ws).2 = false) :
    (applyBudget env ws).1.flatten = ws.flatten := by
  unfold applyBudget at *
  cases hb : env.budget with
  | none => rfl
  | some b =>
    simp only [hb, cut_err, decide_eq_false_iff_not] at h
    simp only [cut_flatten]
    rw [List.take_of_length_le (by omega)]

/-- what is forwarded when nothing interferes -/
def fullForward (p : SendParams) (src : Src) : Bytes :=
  match p.lim with
  | none => src.payload
  | some n => src.payload.take n

theorem send_forwarded_quiet (p : SendParams) (src : Src) (h : p.WF) :
    (send p src Env.quiet).forwarded = fullForward p src := by
  unfold send Out.forwarded fullForward
  simp only [applyReset_quiet]
  show (applyBudget Env.quiet _).1.flatten = _
  unfold applyBudget Env.quiet
  simp only [splitWrites_flatten _ _ h, reads_flatten]

theorem send_forwarded_prefix (p : SendParams) (src : Src) (env : Env) (h : p.WF) :
    (send p src env).forwarded <+: fullForward p src := by
  unfold send Out.forwarded fullForward
  simp only
  refine List.IsPrefix.trans (applyBudget_prefix _ _) ?_
  rw [splitWrites_flatten _ _ h, ← reads_flatten]
  exact applyReset_prefix _ _ _

theorem send_forwarded_noerr (p : SendParams) (src : Src) (env : Env) (h : p.WF)
    (he : (send p src env).copyErr = false) : (send p src env).forwarded = fullForward p src := by
  unfold send Out.forwarded fullForward at *
  simp only [Bool.or_eq_false_iff] at he
  obtain ⟨⟨_, ha⟩, hc⟩ := he
  simp only
  rw [applyBudget_noerr _ _ hc, splitWrites_flatten _ _ h, applyReset_noerr _ _ _ ha, reads_flatten]

theorem send_copyErr_quiet (p : SendParams) (src : Src) :
    (send p src Env.quiet).copyErr = (reads p src).2 := by
  unfold send
  simp only [applyReset_quiet]
  show ((reads p src).2 || false || (applyBudget Env.quiet _).2) = _
  unfold applyBudget Env.quiet
  simp

theorem send_trailer (p : SendParams) (src : Src) (env : Env) :
    (send p src env).trailer = classify p (send p src env).copyErr (send p src env).forwarded.length := rfl

/-! ### `receive` -/

theorem tokenChecks_congr (g₁ g₂ : Globals) (r : Req) (t : Token) (h : parsedOf g₁ = parsedOf g₂) :
    tokenChecks g₁ r t = tokenChecks g₂ r t := by
  unfold tokenChecks; rw [h]

theorem parsedOf_buffered (g₁ g₂ : Globals) (n : Int) :
    parsedOf { g₁ with maxSize := n, mode := .buffered } = parsedOf { g₂ with maxSize := n, mode := .buffered } := by
  simp [parsedOf]

theorem sendParams_buffered (g₁ g₂ : Globals) (n : Int) :
    sendParams { g₁ with maxSize := n, mode := .buffered } = sendParams { g₂ with maxSize := n, mode := .buffered } := by
  simp [sendParams]

theorem tokenChecks_ok (g : Globals) (r : Req) (t : Token) (p : Parsed) (h : tokenChecks g r t = .ok p) :
    p = parsedOf g ∧ r.id = t.id ∧ r.tok = t.tok ∧ r.ver = t.ver ∧ r.now ≤ t.deadline := by
  unfold tokenChecks at h
  split at h
  · cases h
  split at h
  · cases h
  split at h
  · cases h
  split at h
  · cases h
  rename_i h1 h2 h3 h4
  cases h
  exact ⟨rfl, by simpa using h1, by simpa using h2, by simpa using h3, by omega⟩

/-- the two ways a request is accepted -/
theorem receive_ok_cases (g : Globals) (r : Req) (t : Token) (p : Parsed) (h : (receive g r t).2 = .ok p) :
    r.custOk = true ∧ ∃ n m, hdrMax r.maxSize = .ok n ∧ hdrMode r.mode = .ok m ∧
      ((isStreaming n m = false ∧
          receive g r t = ({ g with maxSize := n, mode := .buffered },
                           tokenChecks { g with maxSize := n, mode := .buffered } r t)) ∨
       (isStreaming n m = true ∧ ∃ rate burst, hdrRate r.rate = .ok rate ∧ hdrBurst r.burst = .ok burst ∧
          receive g r t = ({ maxSize := n, mode := .streaming, rate := rate, burst := burst },
                           tokenChecks { maxSize := n, mode := .streaming, rate := rate, burst := burst } r t))) := by
  cases hc : r.custOk with
  | false => simp [receive, hc] at h
  | true =>
    refine ⟨rfl, ?_⟩
    cases hm : hdrMax r.maxSize with
    | error e => simp [receive, hc, hm] at h
    | ok n =>
      cases hmo : hdrMode r.mode with
      | error e => simp [receive, hc, hm, hmo] at h
      | ok m =>
        refine ⟨n, m, rfl, rfl, ?_⟩
        cases hst : isStreaming n m with
        | false =>
          refine Or.inl ⟨rfl, ?_⟩
          simp [receive, hc, hm, hmo, hst]
        | true =>
          refine Or.inr ⟨rfl, ?_⟩
          cases hr : hdrRate r.rate with
          | error e => simp [receive, hc, hm, hmo, hst, hr] at h
          | ok rate =>
            cases hb : hdrBurst r.burst with
            | error e => simp [receive, hc, hm, hmo, hst, hr, hb] at h
            | ok burst =>
              refine ⟨rate, burst, rfl, rfl, ?_⟩
              simp [receive, hc, hm, hmo, hst, hr, hb]

theorem hdrMax_ok (v : Bytes) (n : Int) (h : hdrMax v = .ok n) :
    (v = [] → n = DirectConsts.maxPayloadSize) ∧ (-1 ≤ DirectConsts.maxPayloadSize → -1 ≤ n) := by
  unfold hdrMax at h
  split at h
  · cases h; exact ⟨fun _ => rfl, fun h => h⟩
  · rename_i hv
    split at h
    · split at h
      · cases h; exact ⟨fun h0 => absurd h0 hv, fun _ => by omega⟩
      · cases h
    · cases h

theorem hdrRanged_ok (v : Bytes) (d lo hi : Int) (e : Err) (n : Int) (h : hdrRanged v d lo hi e = .ok n) :
    (v = [] → n = d) ∧ (lo ≤ d → d ≤ hi → lo ≤ n ∧ n ≤ hi) := by
  unfold hdrRanged at h
  split at h
  · cases h; exact ⟨fun _ => rfl, fun h1 h2 => ⟨h1, h2⟩⟩
  · rename_i hv
    split at h
    · split at h
      · rename_i hh; cases h; exact ⟨fun h0 => absurd h0 hv, fun _ _ => hh⟩
      · cases h
    · cases h

end Rie.DirectInvoke
