import Rie.Proofs.SanitizeErrType
import Rie.Proofs.SanitizeErrorCause
import Rie.Proofs.SanitizeRelease

/-! Lemmas for property C20 (error type, error cause, runtime release): see the three imported
files. -/
