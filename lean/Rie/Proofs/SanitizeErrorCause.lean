import Rie.Model.ErrorCause

/-! Lemmas about the error-cause compactor model. -/
namespace Rie.ErrorCause

variable {E P : Type}

theorem dots_length : dots.length = 3 := rfl

theorem escLen_le_halfLen (k : Consts) : escLen k ≤ halfLen k := Nat.div_le_self _ _

/-! ### cropString -/

theorem cropString_length_le (s : Bytes) (n : Nat) (hn : 3 ≤ n) : (cropString s n).length ≤ n := by
  unfold cropString
  split
  · assumption
  · simp only [List.length_append, List.length_take, dots_length]; omega

theorem cropString_cropOf (s : Bytes) (n : Nat) : CropOf (cropString s n) s := by
  unfold cropString
  split
  · exact Or.inl rfl
  · exact Or.inr ⟨n - 3, by omega, rfl⟩

/-- cropping twice with a smaller second length is still a `...`-marked prefix of the original -/
theorem cropString_cropString_cropOf (s : Bytes) (a b : Nat) (hba : b ≤ a) :
    CropOf (cropString (cropString s a) b) s := by
  by_cases h1 : s.length ≤ a
  · have : cropString s a = s := by simp [cropString, h1]
    rw [this]; exact cropString_cropOf s b
  · have e1 : cropString s a = s.take (a - 3) ++ dots := by simp [cropString, h1]
    rw [e1]
    unfold cropString
    split
    · exact Or.inr ⟨a - 3, by omega, rfl⟩
    · refine Or.inr ⟨b - 3, by omega, ?_⟩
      have hl : (s.take (a - 3)).length = a - 3 := by simp [List.length_take]; omega
      have : (s.take (a - 3) ++ dots).take (b - 3) = s.take (b - 3) := by
        rw [List.take_append_of_le_length (by omega), List.take_take]
        congr 1; omega
      rw [this]

/-! ### field relation -/

/-- what `C20_cause_fields` says about an output `o` for an input `c` -/
structure FieldsOf (o c : Cause E P) : Prop where
  exceptions : o.exceptions <+: c.exceptions
  paths : o.paths <+: c.paths
  message : CropOf o.message c.message
  workingDir : CropOf o.workingDir c.workingDir

theorem FieldsOf.refl (c : Cause E P) : FieldsOf c c :=
  ⟨List.prefix_refl _, List.prefix_refl _, Or.inl rfl, Or.inl rfl⟩

theorem cropTraces_fields (c : Cause E P) (f : Nat × Nat) :
    (cropTraces c f).exceptions <+: c.exceptions ∧ (cropTraces c f).paths <+: c.paths ∧
    (cropTraces c f).message = c.message ∧ (cropTraces c f).workingDir = c.workingDir := by
  unfold cropTraces
  split
  · exact ⟨List.take_prefix _ _, List.take_prefix _ _, rfl, rfl⟩
  · exact ⟨List.nil_prefix, List.nil_prefix, rfl, rfl⟩

theorem crop_fields (k : Consts) (c : Cause E P) (f : Nat × Nat) : FieldsOf (crop k c f) c := by
  obtain ⟨he, hp, hm, hw⟩ := cropTraces_fields c f
  unfold crop
  simp only
  split
  · exact ⟨he, hp, Or.inl hm, Or.inl hw⟩
  · refine ⟨he, hp, ?_, ?_⟩
    · show CropOf (cropString (cropTraces c f).message (halfLen k)) c.message
      rw [hm]; exact cropString_cropOf _ _
    · show CropOf (cropString (cropTraces c f).workingDir (halfLen k)) c.workingDir
      rw [hw]; exact cropString_cropOf _ _

theorem crop_zero (k : Consts) (c : Cause E P) :
    crop k c (0, 1) = { exceptions := [], excNil := true, paths := [], pathsNil := true,
                        message := cropString c.message (halfLen k),
                        workingDir := cropString c.workingDir (halfLen k) } := by
  simp [crop, cropTraces]

theorem cropEscaped_crop_zero_fields (k : Consts) (c : Cause E P) :
    FieldsOf (cropEscaped k (crop k c (0, 1))) c := by
  rw [crop_zero]
  exact ⟨List.nil_prefix, List.nil_prefix,
    cropString_cropString_cropOf _ _ _ (escLen_le_halfLen k),
    cropString_cropString_cropOf _ _ _ (escLen_le_halfLen k)⟩

theorem cropLoop_some (k : Consts) (enc : Enc E P) (c o : Cause E P) (fs : List (Nat × Nat))
    (h : cropLoop k enc c fs = some o) : size k enc o ≤ k.maxSize ∧ FieldsOf o c := by
  induction fs with
  | nil => simp [cropLoop] at h
  | cons f fs ih =>
    simp only [cropLoop] at h
    split at h
    · next hs =>
      cases h
      exact ⟨hs, crop_fields k c f⟩
    · exact ih h

theorem croppedJSON_fields (k : Consts) (enc : Enc E P) (c : Cause E P) :
    FieldsOf (croppedJSON k enc c) c := by
  unfold croppedJSON
  split
  · next o h => exact (cropLoop_some k enc c o _ h).2
  · simp only
    split
    · exact cropEscaped_crop_zero_fields k c
    · exact crop_fields k c (0, 1)

/-! ### size of the last resort -/

theorem size_le_of_no_traces (k : Consts) (enc : Enc E P) (c : Cause E P)
    (he : c.exceptions = []) (hen : c.excNil = true) (hp : c.paths = []) (hpn : c.pathsNil = true) :
    size k enc c ≤ k.fieldOverhead + 4 + enc.esc c.workingDir + 4 + (k.messageOverhead + enc.esc c.message) := by
  unfold size
  rw [he, hp, hen, hpn]
  simp only [List.map_nil, arraySize, if_true]
  cases c.message.isEmpty <;> simp <;> omega

theorem size_cropEscaped_crop_zero (k : Consts) (enc : Enc E P) (c : Cause E P)
    (hesc : ∀ b, enc.esc b ≤ k.expansion * b.length + 2) (hk : k.ok) :
    size k enc (cropEscaped k (crop k c (0, 1))) ≤ k.maxSize := by
  obtain ⟨h3, hfit⟩ := hk
  rw [crop_zero]
  show size k enc { exceptions := [], excNil := true, paths := [], pathsNil := true,
                    message := cropString (cropString c.message (halfLen k)) (escLen k),
                    workingDir := cropString (cropString c.workingDir (halfLen k)) (escLen k) } ≤ _
  have hs := size_le_of_no_traces k enc
    { exceptions := [], excNil := true, paths := ([] : List P), pathsNil := true,
      message := cropString (cropString c.message (halfLen k)) (escLen k),
      workingDir := cropString (cropString c.workingDir (halfLen k)) (escLen k) } rfl rfl rfl rfl
  have hm := cropString_length_le (cropString c.message (halfLen k)) (escLen k) h3
  have hw := cropString_length_le (cropString c.workingDir (halfLen k)) (escLen k) h3
  have em := hesc (cropString (cropString c.message (halfLen k)) (escLen k))
  have ew := hesc (cropString (cropString c.workingDir (halfLen k)) (escLen k))
  have mm := Nat.mul_le_mul_left k.expansion hm
  have mw := Nat.mul_le_mul_left k.expansion hw
  dsimp only at hs
  omega

theorem croppedJSON_size (k : Consts) (enc : Enc E P) (c : Cause E P)
    (hesc : ∀ b, enc.esc b ≤ k.expansion * b.length + 2) (hk : k.ok) :
    size k enc (croppedJSON k enc c) ≤ k.maxSize := by
  unfold croppedJSON
  split
  · next o h => exact (cropLoop_some k enc c o _ h).1
  · simp only
    split
    · exact size_cropEscaped_crop_zero k enc c hesc hk
    · next h => omega

/-! ### validated -/

theorem validated_bound (k : Consts) (enc : Enc E P) (c o : Cause E P)
    (hesc : ∀ b, enc.esc b ≤ k.expansion * b.length + 2) (hk : k.ok)
    (h : validated k enc c = some o) : size k enc o ≤ k.maxSize := by
  unfold validated at h
  split at h
  · split at h
    · cases h; exact croppedJSON_size k enc c hesc hk
    · next hs => cases h; omega
  · cases h

theorem validated_fields (k : Consts) (enc : Enc E P) (c o : Cause E P)
    (h : validated k enc c = some o) : FieldsOf o c := by
  unfold validated at h
  split at h
  · split at h
    · cases h; exact croppedJSON_fields k enc c
    · cases h; exact FieldsOf.refl c
  · cases h

theorem validated_none_iff (k : Consts) (enc : Enc E P) (c : Cause E P) :
    validated k enc c = none ↔
      (c.exceptions = [] ∧ c.paths = [] ∧ c.workingDir = [] ∧ c.message = []) := by
  unfold validated
  cases hv : isValid c with
  | true =>
    have : ¬ (c.exceptions = [] ∧ c.paths = [] ∧ c.workingDir = [] ∧ c.message = []) := by
      rintro ⟨h1, h2, h3, h4⟩
      simp [isValid, h1, h2, h3, h4] at hv
    simp only [if_true, this, iff_false]
    split <;> simp
  | false =>
    simp only [Bool.false_eq_true, if_false, true_iff]
    simp only [isValid, Bool.not_eq_false', Bool.and_eq_true, List.isEmpty_iff] at hv
    exact ⟨hv.1.2, hv.1.1.2, hv.1.1.1, hv.2⟩

/-- an untouched (small enough) cause is passed on as it is -/
theorem validated_small (k : Consts) (enc : Enc E P) (c : Cause E P)
    (hv : isValid c = true) (hs : size k enc c ≤ k.maxSize) : validated k enc c = some c := by
  simp [validated, hv, Nat.not_lt.mpr hs]

end Rie.ErrorCause
