import Rie.Proofs.SysAgents

/-!
Whole-run invariant of the extension identifiers (C13, "every call after register must carry a
known identifier"): the serial numbers of the agent objects (the model's stand-in for their UUIDs)
are pairwise distinct and below `nextSerial`, and a serial number that is dead — below `nextSerial`
and carried by no agent, e.g. every serial issued before a reset — stays dead for ever: an
identifier of an earlier sandbox generation is never known again.

Method as in `SysAgents`: most functions touch neither `agents` nor `nextSerial`; the rest replace
an agent by a successor with the same name and serial, append an agent with serial `nextSerial`
(incrementing it), or clear the list.
-/
namespace Rie.Sys
open Rie.SM

macro "ns_tac" : tactic => `(tactic| (splits <;> simp_all))

/-! ### functions that do not touch `nextSerial` -/

@[simp] theorem emit_ns' (s : State) (e : String) : (s.emit e).nextSerial = s.nextSerial := rfl
@[simp] theorem emitEv_ns' (s : State) (k : EvKind) (r : String) : (s.emitEv k r).nextSerial = s.nextSerial := rfl
@[simp] theorem emitCaller_ns' (s : State) (c : Nat) (e b : String) : (s.emitCaller c e b).nextSerial = s.nextSerial := rfl
@[simp] theorem storeFatal_ns (s : State) (t : String) : (storeFatal s t).nextSerial = s.nextSerial := by unfold storeFatal; ns_tac
@[simp] theorem cancelFlows_ns (s : State) (e : CErr) : (cancelFlows s e).nextSerial = s.nextSerial := by unfold cancelFlows; ns_tac
@[simp] theorem cancelInitFlow_ns (s : State) (e : CErr) : (cancelInitFlow s e).nextSerial = s.nextSerial := rfl
@[simp] theorem flowCall_ns (s : State) (f : FlowCall) : (flowCall s f).1.nextSerial = s.nextSerial := by cases f <;> rfl
@[simp] theorem setProc_ns (s : State) (p : Proc) : (setProc s p).nextSerial = s.nextSerial := rfl
@[simp] theorem addPending_ns (s : State) (a c : String) : (addPending s a c).nextSerial = s.nextSerial := by unfold addPending; ns_tac
@[simp] theorem answer_ns (s : State) (a c r : String) : (answer s a c r).nextSerial = s.nextSerial := by unfold answer; ns_tac
@[simp] theorem reply_ns (s : State) (a c r : String) : (reply s a c r).nextSerial = s.nextSerial := rfl
@[simp] theorem setFlight_ns (s : State) (f : Flight) : (setFlight s f).nextSerial = s.nextSerial := rfl
@[simp] theorem release_ns (s : State) : (release s).nextSerial = s.nextSerial := rfl
@[simp] theorem idsSet_ns (s : State) (n : String) (k : Nat) : (idsSet s n k).nextSerial = s.nextSerial := rfl
@[simp] theorem sendReply_ns (s : State) (k : Nat) (b : String) : (sendReply s k b).1.nextSerial = s.nextSerial := by
  unfold sendReply; splits <;> simp_all
@[simp] theorem runRtInstrs_ns (s : State) (cur : RtState) (is : List (Instr RtState)) : (runRtInstrs s cur is).1.nextSerial = s.nextSerial := by
  induction is generalizing s cur with
  | nil => rfl
  | cons i is ih =>
    cases i with
    | set x => exact ih s x
    | flow f chk =>
      simp only [runRtInstrs]
      split
      · exact flowCall_ns s f
      · rw [ih]; exact flowCall_ns s f
    | suspend ok nx => rfl
    | subscribe es => exact ih s cur
    | setErrType => exact ih s cur
@[simp] theorem runAgInstrs_ns (et : String) (s : State) (a : Agent) (is : List (Instr ExtState)) : (runAgInstrs et s a is).1.nextSerial = s.nextSerial := by
  induction is generalizing s a with
  | nil => rfl
  | cons i is ih =>
    cases i with
    | set x => exact ih s _
    | flow f chk => simp only [runAgInstrs]; rw [ih]; exact flowCall_ns s f
    | suspend ok nx => rfl
    | subscribe es => exact ih s _
    | setErrType => exact ih s _

theorem runRt_ns_of {s s' : State} {cur : RtState} {is : List (Instr RtState)} {x : RtState × Err × Option Park}
    (h : runRtInstrs s cur is = (s', x)) : s'.nextSerial = s.nextSerial := by
  have := runRtInstrs_ns s cur is; rw [h] at this; exact this
theorem sendReply_ns_of {s s' : State} {k : Nat} {b : String} {r : SendRes}
    (h : sendReply s k b = (s', r)) : s'.nextSerial = s.nextSerial := by
  have := sendReply_ns s k b; rw [h] at this; exact this

macro "ns_tac2" : tactic => `(tactic| (splits <;>
  (try have hSR := sendReply_ns_of (by assumption)) <;>
  (try have hRT := runRt_ns_of (by assumption)) <;> simp_all))

@[simp] theorem rtCallBlocking_ns (s : State) (call : String) (c : RtCall) : (rtCallBlocking s call c).nextSerial = s.nextSerial := by
  unfold rtCallBlocking; ns_tac2
@[simp] theorem rtDeliver_ns (s : State) (call : String) (k : Nat) (b : String) (o : Option Nat) : (rtDeliver s call k b o).nextSerial = s.nextSerial := by
  unfold rtDeliver; ns_tac2
@[simp] theorem rtResponse_ns (s : State) (idk : Option Nat) (size : Nat) (h : String) (bad : Bool) : (rtResponse s idk size h bad).nextSerial = s.nextSerial := by
  unfold rtResponse; ns_tac2
@[simp] theorem rtError_ns (s : State) (idk : Option Nat) (et : String) : (rtError s idk et).nextSerial = s.nextSerial := by
  unfold rtError; ns_tac2
@[simp] theorem rtInitError_ns (s : State) (et : String) : (rtInitError s et).nextSerial = s.nextSerial := by
  unfold rtInitError; ns_tac2
@[simp] theorem rtRestoreError_ns (s : State) (et : String) : (rtRestoreError s et).nextSerial = s.nextSerial := by
  unfold rtRestoreError; ns_tac2
@[simp] theorem rtCreds_ns (s : State) (tok : String) : (rtCreds s tok).nextSerial = s.nextSerial := by unfold rtCreds; ns_tac
theorem wakeRt_ns {s s' : State} (h : wakeRt s = some s') : s'.nextSerial = s.nextSerial := by
  unfold wakeRt at h; split at h <;> simp at h
  split at h <;> (simp at h; subst h; simp)

theorem foldl_emit_ns {α : Type} (l : List α) (f : α → String) (s : State) :
    (l.foldl (fun s a => s.emit (f a)) s).nextSerial = s.nextSerial := by
  induction l generalizing s with
  | nil => rfl
  | cons a l ih => simp only [List.foldl_cons]; rw [ih]; rfl

@[simp] theorem die_ns (s : State) (full st : String) (z : Bool) : (die s full st z).nextSerial = s.nextSerial := by
  unfold die
  split
  · rfl
  · split
    · rfl
    · dsimp only; rw [foldl_emit_ns]; rfl
@[simp] theorem supKill_ns (s : State) (full : String) : (supKill s full).nextSerial = s.nextSerial := by unfold supKill; ns_tac
@[simp] theorem supTerm_ns (s : State) (full : String) : (supTerm s full).nextSerial = s.nextSerial := by unfold supTerm; ns_tac
@[simp] theorem invokeReturned_ns (s : State) (ok rr : Bool) (et : String) : (invokeReturned s ok rr et).nextSerial = s.nextSerial := by
  unfold invokeReturned; ns_tac2
@[simp] theorem invokeFail_ns (s : State) (e : Option CErr) : (invokeFail s e).nextSerial = s.nextSerial := by unfold invokeFail; simp
@[simp] theorem initTailEvents_ns (s : State) (ph : Phase) (st : String) : (initTailEvents s ph st).nextSerial = s.nextSerial := by
  unfold initTailEvents
  dsimp only
  rw [emitEv_ns', foldl_emit_ns]
  split <;> rfl
@[simp] theorem disarm_ns (s : State) : (disarmShutdownTimers s).nextSerial = s.nextSerial := rfl
@[simp] theorem resetTail_ns (s : State) (n : Nat) : (resetTail s n).nextSerial = s.nextSerial := by unfold resetTail; ns_tac
@[simp] theorem enterGrace_ns (s : State) (k : ShutKind) : (enterGrace s k).nextSerial = s.nextSerial := rfl
@[simp] theorem requestReset_ns (s : State) (r : String) (n : Nat) : (requestReset s r n).nextSerial = s.nextSerial := by simp [requestReset]
@[simp] theorem finishFlight_ns (s : State) (f : Flight) (e : String) : (finishFlight s f e).nextSerial = s.nextSerial := rfl
@[simp] theorem fastInvoke_ns (s : State) (f : Flight) : (fastInvoke s f).nextSerial = s.nextSerial := by unfold fastInvoke; ns_tac
@[simp] theorem startServerInit_ns (s : State) : (startServerInit s).nextSerial = s.nextSerial := by unfold startServerInit; ns_tac
@[simp] theorem restoreDoneEvent_ns (s : State) (ok : Bool) : (restoreDoneEvent s ok).nextSerial = s.nextSerial := rfl
@[simp] theorem handleRestore_ns (s : State) (key : String) : (handleRestore s key).nextSerial = s.nextSerial := by unfold handleRestore; ns_tac
@[simp] theorem restoreFinish_ns (s : State) (e : Option String) : (restoreFinish s e).nextSerial = s.nextSerial := by unfold restoreFinish; ns_tac

/-- for the moves that may be disabled -/
def NsEqO (s : State) (o : Option State) : Prop := ∀ s', o = some s' → s'.nextSerial = s.nextSerial
@[simp] theorem nsEqO_none (s : State) : NsEqO s none := by intro s' h; cases h
@[simp] theorem nsEqO_some (s x : State) : NsEqO s (some x) ↔ x.nextSerial = s.nextSerial := by
  constructor
  · intro h; exact h x rfl
  · intro h s' e; cases e; exact h

theorem flightMove_ns (s : State) (f : Flight) : NsEqO s (flightMove s f) := by
  unfold flightMove; splits <;> simp_all
theorem restoreResume_ns (s : State) : NsEqO s (restoreResume s) := by
  unfold restoreResume; splits <;> simp_all
theorem killMove_ns (s : State) : NsEqO s (killMove s) := by
  unfold killMove; splits <;> simp_all

@[simp] theorem setAgent_ns (s : State) (a : Agent) : (setAgent s a).nextSerial = s.nextSerial := rfl

/-! ### the invariant -/

def serl (l : List Agent) : List Nat := l.map (·.serial)

/-- `D`: serial numbers known to be dead -/
structure SInvL (D : List Nat) (L : List Nat) (n : Nat) : Prop where
  lt    : ∀ k ∈ L, k < n
  nodup : L.Nodup
  dead  : ∀ k ∈ D, k < n ∧ k ∉ L

abbrev SInv (D : List Nat) (s : State) : Prop := SInvL D (serl s.agents) s.nextSerial

theorem sinv_eq {D : List Nat} {s s' : State} (ha : s'.agents = s.agents) (hn : s'.nextSerial = s.nextSerial) (i : SInv D s) : SInv D s' := by
  show SInvL D (serl s'.agents) s'.nextSerial
  rw [ha, hn]; exact i

/-- (name, serial) pairs: what replacing an agent by its successor preserves -/
def nsv (l : List Agent) : List (String × Nat) := l.map fun a => (a.name, a.serial)
theorem nsv_serl (l : List Agent) : (nsv l).map (·.2) = serl l := by simp [nsv, serl, List.map_map, Function.comp_def]
theorem nsv_names (l : List Agent) : (nsv l).map (·.1) = l.map (·.name) := by simp [nsv, List.map_map, Function.comp_def]

theorem sinv_nsv {D : List Nat} {s s' : State} (ha : nsv s'.agents = nsv s.agents) (hn : s'.nextSerial = s.nextSerial) (i : SInv D s) : SInv D s' := by
  show SInvL D (serl s'.agents) s'.nextSerial
  rw [← nsv_serl, ha, nsv_serl, hn]; exact i

theorem nsv_map_replace (l : List Agent) (a : Agent) (hb : ∀ b ∈ l, b.name = a.name → b.serial = a.serial) :
    nsv (l.map fun b => if b.name == a.name then a else b) = nsv l := by
  unfold nsv
  rw [List.map_map]
  apply List.map_congr_left
  intro b hbm
  by_cases hbn : b.name = a.name
  · simp [Function.comp, hbn, hb b hbm hbn]
  · simp [Function.comp, hbn]

theorem nsv_setAgent (s : State) (a a' : Agent) (hn : (s.agents.map (·.name)).Nodup) (ha : a ∈ s.agents)
    (hname : a'.name = a.name) (hser : a'.serial = a.serial) : nsv (setAgent s a').agents = nsv s.agents := by
  apply nsv_map_replace
  intro b hb hbn
  have : b = a := eq_of_name hn ha hb (by rw [hbn, hname])
  rw [this, hser]

theorem runAgInstrs_serial (et : String) (s : State) (a : Agent) (is : List (Instr ExtState)) : (runAgInstrs et s a is).2.1.serial = a.serial := by
  induction is generalizing s a with
  | nil => rfl
  | cons i is ih => cases i <;> simp only [runAgInstrs] <;> first | rfl | (rw [ih]; done) | (rw [ih]; split <;> rfl)

theorem runAg_sfacts {et : String} {s s1 : State} {a a1 : Agent} {is : List (Instr ExtState)} {p : Bool}
    (h : runAgInstrs et s a is = (s1, a1, p)) :
    s1.agents = s.agents ∧ s1.nextSerial = s.nextSerial ∧ a1.name = a.name ∧ a1.serial = a.serial := by
  have h1 := runAgInstrs_agents et s a is
  have h2 := runAgInstrs_ns et s a is
  have h3 := runAgInstrs_name et s a is
  have h4 := runAgInstrs_serial et s a is
  rw [h] at h1 h2 h3 h4
  exact ⟨h1, h2, h3, h4⟩

theorem sinv_agNext {D : List Nat} (s : State) (n m : String) (h : AInv s) (i : SInv D s) : SInv D (agNext s n m) := by
  unfold agNext
  split
  · exact sinv_eq (by simp) (by simp) i
  · rename_i a hres
    have ha := resolveId_mem hres
    split
    · exact sinv_eq (by simp) (by simp) i
    · rename_i is hp
      split
      rename_i s1 a1 parked heq
      obtain ⟨f1, f2, f3, f4⟩ := runAg_sfacts heq
      have hn1 : (s1.agents.map (·.name)).Nodup := by rw [f1]; exact h.nodup
      have ha1 : a ∈ s1.agents := by rw [f1]; exact ha
      split
      · refine sinv_nsv (s := s) ?_ ?_ i
        · rw [addPending_agents, ← f1]; exact nsv_setAgent s1 a _ hn1 ha1 f3 f4
        · rw [addPending_ns]; exact f2
      · refine sinv_nsv (s := s) ?_ ?_ i
        · rw [reply_agents, ← f1]; exact nsv_setAgent s1 a _ hn1 ha1 f3 f4
        · rw [reply_ns]; exact f2

theorem sinv_agReport {D : List Nat} (s : State) (n c e m : String) (h : AInv s) (i : SInv D s) : SInv D (agReport s n c e m) := by
  unfold agReport
  split
  · exact sinv_eq (by simp) (by simp) i
  · rename_i a hres
    have ha := resolveId_mem hres
    split
    · exact sinv_eq (by simp) (by simp) i
    · dsimp only
      split
      · exact sinv_eq (by simp) (by simp) i
      · rename_i is hp
        obtain ⟨f1, f2, f3, f4⟩ := runAg_sfacts (et := e) (s := s) (a := a) (is := is)
          (s1 := (runAgInstrs e s a is).1) (a1 := (runAgInstrs e s a is).2.1) (p := (runAgInstrs e s a is).2.2) rfl
        refine sinv_nsv (s := s) ?_ ?_ i
        · rw [reply_agents, storeFatal_agents, ← f1]
          exact nsv_setAgent _ a _ (by rw [f1]; exact h.nodup) (by rw [f1]; exact ha) f3 f4
        · rw [reply_ns, storeFatal_ns]; exact f2

/-- the invariant for moves that may be disabled -/
def SInvO (D : List Nat) (o : Option State) : Prop := ∀ s', o = some s' → SInv D s'
@[simp] theorem sinvO_none {D : List Nat} : SInvO D none := by intro s' h; cases h
@[simp] theorem sinvO_some {D : List Nat} (x : State) : SInvO D (some x) ↔ SInv D x := by
  constructor
  · intro h; exact h x rfl
  · intro h s' e; cases e; exact h
theorem SInvO.of_eq {D : List Nat} {s : State} {o : Option State} (i : SInv D s) (he : AgEqO s o) (hn : NsEqO s o) : SInvO D o := by
  intro s' e; exact sinv_eq (he s' e) (hn s' e) i

theorem sinv_renderWoken {D : List Nat} (l : Bool) (s : State) (h : AInv s) (i : SInv D s) : SInvO D (renderWoken l s) := by
  unfold renderWoken
  split
  · simp
  · rename_i a hf
    have ha : a ∈ s.agents := pickAgent_mem hf
    rw [sinvO_some]
    refine sinv_nsv (s := s) ?_ (by simp) i
    rw [answer_agents]; exact nsv_setAgent s a _ h.nodup ha rfl rfl

theorem sinv_wakeAgent {D : List Nat} (l : Bool) (s : State) (h : AInv s) (i : SInv D s) : SInvO D (wakeAgent l s) := by
  unfold wakeAgent
  split
  · simp
  · rename_i a hf
    have ha : a ∈ s.agents := pickAgent_mem hf
    dsimp only
    split
    · rw [sinvO_some]
      refine sinv_nsv (s := s) ?_ (by simp) i
      exact nsv_setAgent s a _ h.nodup ha rfl rfl
    · rw [sinvO_some]
      refine sinv_nsv (s := s) ?_ (by simp) i
      rw [answer_agents]; exact nsv_setAgent s a _ h.nodup ha rfl rfl

theorem sinv_watchOne {D : List Nat} (s : State) (full : String) (z : Bool) (h : AInv s) (i : SInv D s) : SInv D (watchOne s full z) := by
  unfold watchOne
  dsimp only
  generalize hs1 : (if (!s.shuttingDown) = true then
      (storeFatal s (if (full == rtFull s) = true then "Runtime.ExitError" else "Extension.Crash"), CErr.procExit)
    else (s, CErr.nilErr)) = r
  have hr : r.1.agents = s.agents := by rw [← hs1]; split <;> simp
  have hrn : r.1.nextSerial = s.nextSerial := by rw [← hs1]; split <;> simp
  have h1 : AInv r.1 := by show AInvL r.1.agents; rw [hr]; exact h
  have i1 : SInv D r.1 := sinv_eq hr hrn i
  obtain ⟨s1, e1⟩ := r
  dsimp only at h1 i1 ⊢
  clear hs1 hr hrn h i
  have key : SInv D (if s1.awaitingExit.contains full = true then
      match procByFull s1 full with
      | some p =>
        match findAgent s1 p.name with
        | some a =>
          match agProg a (if z = true then AgCall.exited else AgCall.shutdownFailed) with
          | some is => setAgent (runAgInstrs "" s1 a is).1 (runAgInstrs "" s1 a is).2.1
          | none => s1
        | none => s1
      | none => s1
    else s1) := by
    split
    · split
      · split
        · rename_i a hfa
          have ha := findAgent_mem hfa
          split
          · rename_i is hp
            obtain ⟨f1, f2, f3, f4⟩ := runAg_sfacts (et := "") (s := s1) (a := a) (is := is)
              (s1 := (runAgInstrs "" s1 a is).1) (a1 := (runAgInstrs "" s1 a is).2.1) (p := (runAgInstrs "" s1 a is).2.2) rfl
            refine sinv_nsv (s := s1) ?_ ?_ i1
            · rw [← f1]; exact nsv_setAgent _ a _ (by rw [f1]; exact h1.nodup) (by rw [f1]; exact ha) f3 f4
            · rw [setAgent_ns]; exact f2
          · exact i1
        · exact i1
      · exact i1
    · exact i1
  generalize (if s1.awaitingExit.contains full = true then _ else s1) = s2 at key ⊢
  splits <;> exact sinv_eq (by simp) (by simp) key

/-- a new agent with serial `nextSerial` is appended and `nextSerial` incremented -/
theorem sinvl_append {D : List Nat} {L : List Nat} {n : Nat} (i : SInvL D L n) : SInvL D (L ++ [n]) (n + 1) := by
  refine ⟨?_, ?_, ?_⟩
  · intro k hk
    rcases List.mem_append.mp hk with h | h
    · have := i.lt k h; omega
    · have : k = n := by simpa using h
      omega
  · exact List.nodup_append.mpr ⟨i.nodup, by simp, by
      intro a ha b hb; have : b = n := by simpa using hb
      subst this; intro e; subst e; exact absurd (i.lt _ ha) (by omega)⟩
  · intro k hk
    obtain ⟨h1, h2⟩ := i.dead k hk
    refine ⟨by omega, ?_⟩
    intro hm
    rcases List.mem_append.mp hm with h | h
    · exact h2 h
    · have : k = n := by simpa using h
      omega

theorem sinv_agRegister {D : List Nat} (s : State) (n : String) (es : List Ev) (v : String) (h : AInv s) (i : SInv D s) : SInv D (agRegister s n es v) := by
  unfold agRegister
  split
  · exact sinv_eq (by simp) (by simp) i
  · split
    · exact sinv_eq (by simp) (by simp) i
    · split
      · rename_i a hfa
        have ha : a ∈ s.agents := List.mem_of_find?_eq_some hfa
        split
        · exact sinv_eq (by simp) (by simp) i
        · split
          · exact sinv_eq (by simp) (by simp) i
          · rename_i is hp
            dsimp only
            obtain ⟨f1, f2, f3, f4⟩ := runAg_sfacts (et := "") (s := s) (a := a) (is := is)
              (s1 := (runAgInstrs "" s a is).1) (a1 := (runAgInstrs "" s a is).2.1) (p := (runAgInstrs "" s a is).2.2) rfl
            refine sinv_nsv (s := s) ?_ ?_ i
            · rw [reply_agents, idsSet_agents, ← f1]
              exact nsv_setAgent _ a _ (by rw [f1]; exact h.nodup) (by rw [f1]; exact ha) f3 f4
            · rw [reply_ns, idsSet_ns, setAgent_ns]; exact f2
      · split
        · exact sinv_eq (by simp) (by simp) i
        · split
          · exact sinv_eq (by simp) (by simp) i
          · split
            · exact sinv_eq (by simp) (by simp) i
            · split
              · exact sinv_eq (by simp) (by simp) i
              · dsimp only
                split
                · show SInvL D (serl (reply _ _ _ _).agents) (reply _ _ _ _).nextSerial
                  rw [reply_agents, reply_ns]
                  show SInvL D (serl (s.agents ++ [_])) (s.nextSerial + 1)
                  simp only [serl, List.map_append, List.map_cons, List.map_nil]
                  exact sinvl_append i
                · rename_i is hp
                  show SInvL D (serl (reply (idsSet _ _ _) _ _ _).agents) (reply (idsSet _ _ _) _ _ _).nextSerial
                  rw [reply_agents, idsSet_agents, reply_ns, idsSet_ns]
                  obtain ⟨f1, f2, f3, f4⟩ := runAg_sfacts (et := "") (s := { s with nextSerial := s.nextSerial + 1 })
                    (a := { name := n, ext := false, serial := s.nextSerial }) (is := is)
                    (s1 := (runAgInstrs "" { s with nextSerial := s.nextSerial + 1 } { name := n, ext := false, serial := s.nextSerial } is).1)
                    (a1 := (runAgInstrs "" { s with nextSerial := s.nextSerial + 1 } { name := n, ext := false, serial := s.nextSerial } is).2.1)
                    (p := (runAgInstrs "" { s with nextSerial := s.nextSerial + 1 } { name := n, ext := false, serial := s.nextSerial } is).2.2) rfl
                  show SInvL D (serl (_ ++ [_])) _
                  rw [f1, f2]
                  simp only [serl, List.map_append, List.map_cons, List.map_nil, f4]
                  exact sinvl_append i

/-! ### orchestrator -/

theorem nsv_map_flag (l : List Agent) (c : Agent → Bool) :
    nsv (l.map fun a => if c a then { a with flag := true } else a) = nsv l := by
  unfold nsv; rw [List.map_map]; apply List.map_congr_left; intro a _
  simp only [Function.comp]; split <;> rfl

theorem sinv_continueInvoke {D : List Nat} (s : State) (i : SInv D s) : SInv D (continueInvoke s) := by
  unfold continueInvoke
  splits
  · exact i
  · exact sinv_eq (by simp) (by simp) i
  · exact sinv_nsv (s := s) (nsv_map_flag _ _) rfl i

theorem sinv_initFinish {D : List Nat} (s : State) (ph : Phase) (ok : Bool) (st : String) (e : Option CErr) (i : SInv D s) : SInv D (initFinish s ph ok st e) := by
  unfold initFinish
  splits <;> first
    | (refine sinv_eq ?_ ?_ i <;> (simp; done))
    | (apply sinv_continueInvoke; refine sinv_eq ?_ ?_ i <;> (simp; done))

macro "sframe" i:term : tactic => `(tactic| (refine sinv_eq ?_ ?_ $i <;> (simp; done)))

theorem shutdownOne_nsv (s : State) (a : Agent) (hn : (s.agents.map (·.name)).Nodup) (ha : (a.name, a.serial) ∈ nsv s.agents) :
    nsv (shutdownOne s a).agents = nsv s.agents := by
  unfold shutdownOne
  splits <;> try rfl
  obtain ⟨b, hb, hbe⟩ := List.mem_map.mp ha
  have hbn : b.name = a.name := congrArg Prod.fst hbe
  have hbs : b.serial = a.serial := congrArg Prod.snd hbe
  exact nsv_setAgent _ b _ hn hb hbn.symm hbs.symm

theorem shutdownOne_ns (s : State) (a : Agent) : (shutdownOne s a).nextSerial = s.nextSerial := by
  unfold shutdownOne; splits <;> rfl

theorem foldl_shutdownOne_nsv (l : List Agent) (s : State) (hn : (s.agents.map (·.name)).Nodup)
    (hl : ∀ a ∈ l, (a.name, a.serial) ∈ nsv s.agents) :
    nsv (l.foldl shutdownOne s).agents = nsv s.agents ∧ (l.foldl shutdownOne s).nextSerial = s.nextSerial := by
  induction l generalizing s with
  | nil => exact ⟨rfl, rfl⟩
  | cons a l ih =>
    simp only [List.foldl_cons]
    have h1 := shutdownOne_nsv s a hn (hl a List.mem_cons_self)
    obtain ⟨h2, h3⟩ := ih (shutdownOne s a) (by rw [← nsv_names, h1, nsv_names]; exact hn)
      (by intro b hb; rw [h1]; exact hl b (List.mem_cons_of_mem _ hb))
    exact ⟨by rw [h2, h1], by rw [h3, shutdownOne_ns]⟩

theorem sinv_shutdownAgents {D : List Nat} (s : State) (k : ShutKind) (h : AInv s) (i : SInv D s) : SInv D (shutdownAgents s k) := by
  unfold shutdownAgents
  dsimp only
  obtain ⟨h2, h3⟩ := foldl_shutdownOne_nsv (List.filter (fun a => a.ext) s.agents)
    { s with renderer := .shutdown (reasonOf k), awaitingExit := [], agentWaits := [] } h.nodup (by
      intro a ha
      have : a ∈ s.agents := (List.mem_filter.mp ha).1
      exact List.mem_map.mpr ⟨a, this, rfl⟩)
  exact sinv_nsv (s := s) h2 h3 i

theorem sinv_shutdownBody {D : List Nat} (s : State) (k : ShutKind) (h : AInv s) (i : SInv D s) : SInv D (shutdownBody s k) := by
  unfold shutdownBody
  splits <;> first
    | sframe i
    | exact sinv_shutdownAgents _ _ h i

theorem sinv_beginShutdown {D : List Nat} (s : State) (k : ShutKind) (h : AInv s) (i : SInv D s) : SInv D (beginShutdown s k) := by
  unfold beginShutdown; exact sinv_shutdownBody _ k h i

/-- the reset: no agent is left, every serial issued so far is dead from now on -/
theorem sinv_afterReset {D : List Nat} (s : State) (n : Nat) (i : SInv D s) : SInv D (afterReset s n) := by
  unfold afterReset
  exact ⟨by simp [serl], by simp [serl], fun k hk => ⟨(i.dead k hk).1, by simp [serl]⟩⟩

theorem sinv_finishShutdown {D : List Nat} (s : State) (k : ShutKind) (n : Nat) (i : SInv D s) : SInv D (finishShutdown s k n) := by
  unfold finishShutdown
  splits
  · apply sinv_afterReset; sframe i
  · sframe i
  · sframe i

theorem sinv_launchExtensions {D : List Nat} (s : State) (ph : Phase) (ps : List String) (i : SInv D s) : SInv D (launchExtensions s ph ps) := by
  induction ps generalizing s with
  | nil => exact i
  | cons p ps ih =>
    unfold launchExtensions
    split
    · exact sinv_initFinish _ _ _ _ _ i
    · rename_i hcond
      have hnot : p ∉ s.agents.map (·.name) := by
        apply findAgent_none_notMem
        cases hf : (findAgent s p).isSome
        · rfl
        · simp [hf] at hcond
      dsimp only
      split
      · apply sinv_initFinish
        show SInvL D (serl (storeFatal _ _).agents) (storeFatal _ _).nextSerial
        rw [storeFatal_agents, storeFatal_ns]
        show SInvL D (serl (List.map _ (s.agents ++ [_]))) (s.nextSerial + 1)
        rw [map_replace_last s.agents { name := p, ext := true, serial := s.nextSerial }
          { name := p, ext := true, st := ExtState.launchError, errSet := true, errType := "TooManyExtensions", serial := s.nextSerial } hnot rfl]
        simp only [serl, List.map_append, List.map_cons, List.map_nil]
        exact sinvl_append i
      · split
        · apply sinv_initFinish
          show SInvL D (serl (storeFatal _ _).agents) (storeFatal _ _).nextSerial
          rw [storeFatal_agents, storeFatal_ns]
          show SInvL D (serl (List.map _ (s.agents ++ [_]))) (s.nextSerial + 1)
          rw [map_replace_last s.agents { name := p, ext := true, serial := s.nextSerial }
            { name := p, ext := true, st := ExtState.launchError, errSet := true, errType := "UnknownError", serial := s.nextSerial } hnot rfl]
          simp only [serl, List.map_append, List.map_cons, List.map_nil]
          exact sinvl_append i
        · apply ih
          show SInvL D (serl (s.agents ++ [_])) (s.nextSerial + 1)
          simp only [serl, List.map_append, List.map_cons, List.map_nil]
          exact sinvl_append i

theorem sinv_startInit {D : List Nat} (s : State) (ph : Phase) (i : SInv D s) : SInv D (startInit s ph) := by
  unfold startInit
  splits
  · apply sinv_initFinish; sframe i
  · apply sinv_launchExtensions; sframe i

theorem sinvO_orchResume {D : List Nat} (s : State) (i : SInv D s) : SInvO D (orchResume s) := by
  unfold orchResume
  splits <;> first
    | exact sinvO_none
    | (rw [sinvO_some]; first
        | exact sinv_initFinish _ _ _ _ _ i
        | exact i
        | sframe i
        | (apply sinv_initFinish; sframe i))

theorem foldl_waits_ns (l : List String) (acc : State × List String) :
    (l.foldl (fun (acc : State × List String) full =>
      match procByFull acc.1 full with
      | some p => if p.chanClosed then acc
                  else if acc.1.agDeadlineFired then (supKill acc.1 full, acc.2)
                  else (acc.1, acc.2 ++ [full])
      | none => acc) acc).1.nextSerial = acc.1.nextSerial := by
  induction l generalizing acc with
  | nil => rfl
  | cons x xs ih =>
    simp only [List.foldl_cons]
    rw [ih]
    splits <;> simp

theorem sinvO_shutResume {D : List Nat} (s : State) (n : Nat) (h : AInv s) (i : SInv D s) : SInvO D (shutResume s n) := by
  unfold shutResume
  split
  · splits <;> first
      | exact sinvO_none
      | (rw [sinvO_some]; first
          | exact sinv_shutdownAgents _ _ h i
          | (apply sinv_shutdownAgents
             · show AInvL (supKill _ _).agents; rw [supKill_agents]; exact h
             · sframe i))
  · have hw := foldl_waits_agents s.agentWaits (s, [])
    have hwn := foldl_waits_ns s.agentWaits (s, [])
    dsimp only at hw hwn ⊢
    generalize (List.foldl _ (s, []) s.agentWaits) = r at hw hwn ⊢
    obtain ⟨s1, still⟩ := r
    dsimp only at hw hwn ⊢
    have i1 : SInv D s1 := sinv_eq hw hwn i
    splits <;> first
      | exact sinvO_none
      | (rw [sinvO_some]; first | exact i1 | sframe i1)
  · splits <;> first
      | exact sinvO_none
      | (rw [sinvO_some]; apply sinv_finishShutdown; first | exact i | sframe i)
  · exact sinvO_none

theorem sinv_startHandler {D : List Nat} (s : State) (r : HReq) (h : AInv s) (i : SInv D s) : SInv D (startHandler s r) := by
  unfold startHandler
  splits <;> first
    | exact sinv_startInit _ _ i
    | (apply sinv_startInit; first | exact i | sframe i)
    | (apply sinv_continueInvoke; first | exact i | sframe i)
    | (apply sinv_beginShutdown
       · first | exact h | (show AInvL _; simp only [emit_agents']; exact h)
       · first | exact i | sframe i)

theorem sinvO_orElse' {D : List Nat} {a y : Option State} (ha : SInvO D a) (hb : SInvO D y) : SInvO D (orElse' a fun _ => y) := by
  intro s' h; unfold orElse' at h; split at h
  · exact ha _ h
  · exact hb _ h

theorem sinvO_platformMove {D : List Nat} (lifo : Bool) (s : State) (h : AInv s) (i : SInv D s) : SInvO D (platformMove lifo s) := by
  unfold platformMove
  refine sinvO_orElse' (sinvO_orchResume s i) ?_
  refine sinvO_orElse' (sinvO_shutResume s _ h i) ?_
  refine sinvO_orElse' (SInvO.of_eq i (restoreResume_agents s) (restoreResume_ns s)) ?_
  splits <;> first
    | exact sinvO_none
    | (rw [sinvO_some]; apply sinv_startHandler
       · first | exact h | (show AInvL _; exact h)
       · first | exact i | sframe i)
    | (intro s' hs
       obtain ⟨f, _, hm⟩ := firstSome_spec _ _ _ hs
       exact SInvO.of_eq i (flightMove_agents s f) (flightMove_ns s f) s' hm)

theorem sinvO_wakeMove {D : List Nat} (l : Bool) (s : State) (h : AInv s) (i : SInv D s) : SInvO D (wakeMove l s) := by
  unfold wakeMove
  refine sinvO_orElse' ?_ (sinv_wakeAgent l s h i)
  intro s' hs
  exact sinv_eq (wakeRt_agents hs) (wakeRt_ns hs) i

theorem sinvO_progress {D : List Nat} (v : Nat) (s : State) (h : AInv s) (i : SInv D s) : SInvO D (progress v s) := by
  have hp := fun l => sinvO_platformMove (D := D) l s h i
  have hw := fun l => sinvO_wakeMove (D := D) l s h i
  have hr := fun l => sinv_renderWoken (D := D) l s h i
  have hk := SInvO.of_eq i (killMove_agents s) (killMove_ns s)
  unfold progress
  splits <;> first
    | exact sinvO_none
    | (rw [sinvO_some]; apply sinv_watchOne
       · exact h
       · exact i)
    | exact sinvO_orElse' (sinvO_orElse' (hw _) (sinvO_orElse' (hp _) hk)) (hr _)
    | exact sinvO_orElse' (sinvO_orElse' (hp _) (sinvO_orElse' (hw _) hk)) (hr _)
    | exact sinvO_orElse' (sinvO_orElse' (hp _) (sinvO_orElse' hk (hw _))) (hr _)
    | exact sinvO_orElse' (hr _) (sinvO_orElse' (hw _) (sinvO_orElse' (hp _) hk))
    | exact sinvO_orElse' (hr _) (sinvO_orElse' (hp _) (sinvO_orElse' (hw _) hk))
    | exact sinvO_orElse' (hr _) (sinvO_orElse' (hp _) (sinvO_orElse' hk (hw _)))

theorem sinv_settle {D : List Nat} (v n : Nat) (s : State) (h : AInv s) (i : SInv D s) : SInv D (settle v n s) := by
  induction n generalizing v s with
  | zero => exact i
  | succ n ih =>
    unfold settle
    split
    · exact i
    · rename_i s' hp
      exact ih _ s' (ainvO_progress v s h s' hp) (sinvO_progress v s h i s' hp)

theorem sinv_applyOp {D : List Nat} (s : State) (o : Op) (h : AInv s) (i : SInv D s) : SInv D (applyOp s o) := by
  cases o with
  | register n es v => exact sinv_agRegister s n es v h i
  | agNext n m => exact sinv_agNext s n m h i
  | agReport n c e m => exact sinv_agReport s n c e m h i
  | timer t =>
    simp only [applyOp]
    splits <;> first
      | exact i
      | sframe i
  | _ => (simp only [applyOp]; splits <;> first | exact i | sframe i)

theorem sinv_step {D : List Nat} (v : Nat) (s : State) (o : Op) (h : AInv s) (i : SInv D s) : SInv D (step v s o) := by
  unfold step
  have h' : AInv { s with out := [] } := h
  have i' : SInv D { s with out := [] } := i
  exact sinv_settle _ _ _ (ainv_applyOp _ o h') (sinv_applyOp _ o h' i')

theorem sinv_run {D : List Nat} (s : State) (H : List Nat) (ops : List (Nat × Op)) (h : AInv s) (i : SInv D s) : SInv D (run s H ops).1 := by
  induction ops generalizing s H with
  | nil => exact i
  | cons x rest ih => obtain ⟨v, o⟩ := x; exact ih _ _ (ainv_step v s o h) (sinv_step v s o h i)

end Rie.Sys
