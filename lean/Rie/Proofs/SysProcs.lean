import Rie.Proofs.SysAgents

/-!
Whole-run invariant of the process table (C07): **the events watcher never panics.** In every reachable
state, every termination event that waits to be handled names a process the orchestrator knows and
whose exit channel exists — so `watchOne` never takes its two `log.Panic` branches.

All three parts of the invariant are phrased through `procByFull` (the first process with that
supervisor name), which is what the code looks up:
  * X: every queued exit event names a known process with an exit channel, no longer alive;
  * Y: a known process that is alive has an exit channel;
  * Z: a known process whose exit channel is closed is not alive.
-/
namespace Rie.Sys
open Rie.SM

structure PInv (s : State) : Prop where
  x : ∀ e ∈ s.exitQueue, ∃ p, procByFull s e.1 = some p ∧ p.chanCreated = true ∧ p.alive = false
  y : ∀ f p, procByFull s f = some p → p.alive = true → p.chanCreated = true
  z : ∀ f p, procByFull s f = some p → p.chanClosed = true → p.alive = false

/-- same process table, same queue -/
theorem pinv_of_eq {s s' : State} (hp : s'.procs = s.procs) (hq : s'.exitQueue = s.exitQueue) (h : PInv s) : PInv s' := by
  have hb : ∀ f, procByFull s' f = procByFull s f := by intro f; unfold procByFull; rw [hp]
  exact ⟨by rw [hq]; intro e he; rw [hb]; exact h.x e he, by intro f p; rw [hb]; exact h.y f p, by intro f p; rw [hb]; exact h.z f p⟩


/-! ### functions that touch neither `procs` nor `exitQueue` -/

@[simp] theorem emit_procs' (s : State) (e : String) : (s.emit e).procs = s.procs := rfl
@[simp] theorem emit_exitQueue (s : State) (e : String) : (s.emit e).exitQueue = s.exitQueue := rfl
@[simp] theorem emitCaller_procs' (s : State) (c : Nat) (e b : String) : (s.emitCaller c e b).procs = s.procs := rfl
@[simp] theorem emitCaller_exitQueue (s : State) (c : Nat) (e b : String) : (s.emitCaller c e b).exitQueue = s.exitQueue := rfl

/-- both fields unchanged -/
abbrev PQ (s s' : State) : Prop := s'.procs = s.procs ∧ s'.exitQueue = s.exitQueue

macro "pq_tac" : tactic => `(tactic| (splits <;> simp_all [PQ]))

@[simp] theorem pq_storeFatal (s : State) (t : String) : PQ s (storeFatal s t) := by unfold storeFatal; pq_tac
@[simp] theorem pq_cancelFlows (s : State) (e : CErr) : PQ s (cancelFlows s e) := by unfold cancelFlows; pq_tac
@[simp] theorem pq_cancelInitFlow (s : State) (e : CErr) : PQ s (cancelInitFlow s e) := ⟨rfl, rfl⟩
@[simp] theorem pq_flowCall (s : State) (f : FlowCall) : PQ s (flowCall s f).1 := by cases f <;> exact ⟨rfl, rfl⟩
@[simp] theorem pq_setAgent (s : State) (a : Agent) : PQ s (setAgent s a) := ⟨rfl, rfl⟩
@[simp] theorem pq_addPending (s : State) (a c : String) : PQ s (addPending s a c) := by unfold addPending; pq_tac
@[simp] theorem pq_answer (s : State) (a c r : String) : PQ s (answer s a c r) := by unfold answer; pq_tac
@[simp] theorem pq_reply (s : State) (a c r : String) : PQ s (reply s a c r) := ⟨rfl, rfl⟩
@[simp] theorem pq_setFlight (s : State) (f : Flight) : PQ s (setFlight s f) := ⟨rfl, rfl⟩
@[simp] theorem pq_release (s : State) : PQ s (release s) := ⟨rfl, rfl⟩
@[simp] theorem pq_idsSet (s : State) (n : String) (k : Nat) : PQ s (idsSet s n k) := ⟨rfl, rfl⟩
@[simp] theorem pq_sendReply (s : State) (k : Nat) (b : String) : PQ s (sendReply s k b).1 := by
  unfold sendReply; splits <;> simp_all [PQ]
@[simp] theorem pq_runRtInstrs (s : State) (cur : RtState) (is : List (Instr RtState)) : PQ s (runRtInstrs s cur is).1 := by
  induction is generalizing s cur with
  | nil => exact ⟨rfl, rfl⟩
  | cons i is ih =>
    cases i with
    | set x => exact ih s x
    | flow f chk =>
      simp only [runRtInstrs]
      split
      · exact pq_flowCall s f
      · have := ih (flowCall s f).1 cur; have h2 := pq_flowCall s f
        exact ⟨this.1.trans h2.1, this.2.trans h2.2⟩
    | suspend ok nx => exact ⟨rfl, rfl⟩
    | subscribe es => exact ih s cur
    | setErrType => exact ih s cur
@[simp] theorem pq_runAgInstrs (et : String) (s : State) (a : Agent) (is : List (Instr ExtState)) : PQ s (runAgInstrs et s a is).1 := by
  induction is generalizing s a with
  | nil => exact ⟨rfl, rfl⟩
  | cons i is ih =>
    cases i with
    | set x => exact ih s _
    | flow f chk =>
      simp only [runAgInstrs]
      have := ih (flowCall s f).1 (if f == .initAgentReady && (flowCall s f).2 then { a with asked := true } else a); have h2 := pq_flowCall s f
      exact ⟨this.1.trans h2.1, this.2.trans h2.2⟩
    | suspend ok nx => exact ⟨rfl, rfl⟩
    | subscribe es => exact ih s _
    | setErrType => exact ih s _

theorem pq_runRt_of {s s' : State} {cur : RtState} {is : List (Instr RtState)} {x : RtState × Err × Option Park}
    (h : runRtInstrs s cur is = (s', x)) : PQ s s' := by
  have := pq_runRtInstrs s cur is; rw [h] at this; exact this
theorem pq_runAg_of {et : String} {s s' : State} {a : Agent} {is : List (Instr ExtState)} {x : Agent × Bool}
    (h : runAgInstrs et s a is = (s', x)) : PQ s s' := by
  have := pq_runAgInstrs et s a is; rw [h] at this; exact this
theorem pq_sendReply_of {s s' : State} {k : Nat} {b : String} {r : SendRes}
    (h : sendReply s k b = (s', r)) : PQ s s' := by
  have := pq_sendReply s k b; rw [h] at this; exact this

macro "pq_tac2" : tactic => `(tactic| (splits <;>
  (try have hSR := pq_sendReply_of (by assumption)) <;>
  (try have hRT := pq_runRt_of (by assumption)) <;>
  (try have hAG := pq_runAg_of (by assumption)) <;> simp_all [PQ]))

@[simp] theorem pq_rtCallBlocking (s : State) (call : String) (c : RtCall) : PQ s (rtCallBlocking s call c) := by unfold rtCallBlocking; pq_tac2
@[simp] theorem pq_rtDeliver (s : State) (call : String) (k : Nat) (b : String) (o : Option Nat) : PQ s (rtDeliver s call k b o) := by unfold rtDeliver; pq_tac2
@[simp] theorem pq_rtResponse (s : State) (idk : Option Nat) (size : Nat) (h : String) (bad : Bool) : PQ s (rtResponse s idk size h bad) := by unfold rtResponse; pq_tac2
@[simp] theorem pq_rtError (s : State) (idk : Option Nat) (et : String) : PQ s (rtError s idk et) := by unfold rtError; pq_tac2
@[simp] theorem pq_rtInitError (s : State) (et : String) : PQ s (rtInitError s et) := by unfold rtInitError; pq_tac2
@[simp] theorem pq_rtRestoreError (s : State) (et : String) : PQ s (rtRestoreError s et) := by unfold rtRestoreError; pq_tac2
@[simp] theorem pq_rtCreds (s : State) (tok : String) : PQ s (rtCreds s tok) := by unfold rtCreds; pq_tac
@[simp] theorem pq_agRegister (s : State) (n : String) (es : List Ev) (v : String) : PQ s (agRegister s n es v) := by unfold agRegister; pq_tac2
@[simp] theorem pq_agNext (s : State) (n m : String) : PQ s (agNext s n m) := by unfold agNext; pq_tac2
@[simp] theorem pq_agReport (s : State) (n c e m : String) : PQ s (agReport s n c e m) := by unfold agReport; pq_tac2
theorem pq_wakeRt {s s' : State} (h : wakeRt s = some s') : PQ s s' := by
  unfold wakeRt at h; split at h <;> simp at h
  split at h <;> (simp at h; subst h; simp [PQ])
theorem pq_wakeAgent {l : Bool} {s s' : State} (h : wakeAgent l s = some s') : PQ s s' := by
  unfold wakeAgent at h; split at h <;> simp at h
  split at h <;> (simp at h; subst h; simp [PQ])
theorem pq_renderWoken {l : Bool} {s s' : State} (h : renderWoken l s = some s') : PQ s s' := by
  unfold renderWoken at h; split at h <;> simp at h
  subst h; simp [PQ]

/-! ### the process table -/

theorem find?_map_full (l : List Proc) (g : Proc → Proc) (hg : ∀ q, (g q).full = q.full) (f : String) :
    (l.map g).find? (·.full == f) = (l.find? (·.full == f)).map g := by
  induction l with
  | nil => rfl
  | cons q qs ih =>
    simp only [List.map_cons, List.find?_cons, hg q]
    split
    · rfl
    · exact ih

theorem procByFull_map (s : State) (g : Proc → Proc) (hg : ∀ q, (g q).full = q.full) (f : String) :
    procByFull { s with procs := s.procs.map g } f = (procByFull s f).map g :=
  find?_map_full s.procs g hg f

theorem procByFull_full {s : State} {f : String} {p : Proc} (h : procByFull s f = some p) : p.full = f := by
  have := List.find?_some h; simpa using this

/-- the successor of a known process in the table (same supervisor name) -/
def procUpd (p' : Proc) (q : Proc) : Proc := if q.full == p'.full then p' else q
theorem procUpd_full (p' q : Proc) : (procUpd p' q).full = q.full := by
  unfold procUpd; split
  · rename_i h; have : q.full = p'.full := by simpa using h
    rw [this]
  · rfl

theorem procByFull_setProc (s : State) (p' : Proc) (f : String) :
    procByFull (setProc s p') f = (procByFull s f).map (procUpd p') :=
  procByFull_map s (procUpd p') (procUpd_full p') f

/-- replacing a known process by a successor that keeps name and exit channel and does not come back to
    life preserves the invariant, provided "closed" is only set on a dead one -/
theorem pinv_setProc (s : State) (p p' : Proc) (h : PInv s) (hp : procByFull s p.full = some p)
    (hf : p'.full = p.full) (hc : p'.chanCreated = p.chanCreated) (ha : p'.alive = true → p.alive = true)
    (hz : p'.chanClosed = true → p'.alive = false) : PInv (setProc s p') := by
  have key : ∀ f q', procByFull (setProc s p') f = some q' →
      ∃ q, procByFull s f = some q ∧ (q' = q ∨ (q' = p' ∧ q = p)) := by
    intro f q' hq
    rw [procByFull_setProc] at hq
    cases h0 : procByFull s f with
    | none => rw [h0] at hq; cases hq
    | some q =>
      rw [h0] at hq
      simp only [Option.map_some, Option.some.injEq] at hq
      refine ⟨q, rfl, ?_⟩
      unfold procUpd at hq
      split at hq
      · rename_i hqf
        right
        refine ⟨hq.symm, ?_⟩
        have hqf' : q.full = p.full := by rw [← hf]; simpa using hqf
        have hfq : f = p.full := by rw [← procByFull_full h0, hqf']
        rw [hfq] at h0; rw [hp] at h0; cases h0; rfl
      · left; exact hq.symm
  have hq : (setProc s p').exitQueue = s.exitQueue := rfl
  refine ⟨?_, ?_, ?_⟩
  · intro e he
    rw [hq] at he
    obtain ⟨q, hq0, hcc, hal⟩ := h.x e he
    have : procByFull (setProc s p') e.1 = some (procUpd p' q) := by rw [procByFull_setProc, hq0]; rfl
    refine ⟨_, this, ?_, ?_⟩
    · unfold procUpd; split
      · rename_i hqf
        have hqf' : q.full = p.full := by rw [← hf]; simpa using hqf
        have : e.1 = p.full := by rw [← procByFull_full hq0, hqf']
        rw [this, hp] at hq0; cases hq0
        rw [hc]; exact hcc
      · exact hcc
    · unfold procUpd; split
      · rename_i hqf
        have hqf' : q.full = p.full := by rw [← hf]; simpa using hqf
        have : e.1 = p.full := by rw [← procByFull_full hq0, hqf']
        rw [this, hp] at hq0; cases hq0
        cases hpa : p'.alive
        · rfl
        · rw [ha hpa] at hal; cases hal
      · exact hal
  · intro f q' hq' hal
    obtain ⟨q, hq0, hor⟩ := key f q' hq'
    rcases hor with rfl | ⟨rfl, rfl⟩
    · exact h.y f _ hq0 hal
    · rw [hc]; exact h.y f _ hq0 (ha hal)
  · intro f q' hq' hcl
    obtain ⟨q, hq0, hor⟩ := key f q' hq'
    rcases hor with rfl | ⟨rfl, rfl⟩
    · exact h.z f _ hq0 hcl
    · exact hz hcl

theorem foldl_emit_pq {α : Type} (l : List α) (f : α → String) (s : State) :
    PQ s (l.foldl (fun s a => s.emit (f a)) s) := by
  induction l generalizing s with
  | nil => exact ⟨rfl, rfl⟩
  | cons a l ih => simp only [List.foldl_cons]; have := ih (s.emit (f a)); exact ⟨this.1, this.2⟩

/-- adding an exit event for a known dead process with an exit channel -/
theorem pinv_push (s : State) (full : String) (z : Bool) (p : Proc) (h : PInv s) (hp : procByFull s full = some p)
    (hc : p.chanCreated = true) (ha : p.alive = false) : PInv { s with exitQueue := s.exitQueue ++ [(full, z)] } := by
  refine ⟨?_, h.y, h.z⟩
  intro e he
  rcases List.mem_append.mp he with he | he
  · exact h.x e he
  · have : e = (full, z) := by simpa using he
    subst this; exact ⟨p, hp, hc, ha⟩

theorem pinv_die (s : State) (full st : String) (z : Bool) (h : PInv s) : PInv (die s full st z) := by
  unfold die
  split
  · exact h
  · rename_i p hp
    split
    · exact h
    · rename_i hal
      have hal' : p.alive = true := by simpa using hal
      have hpf := procByFull_full hp
      have h1 : PInv (setProc s { p with alive := false }) :=
        pinv_setProc s p _ h (by rw [hpf]; exact hp) rfl rfl (by intro e; cases e) (by intro _; rfl)
      have hp1 : procByFull (setProc s { p with alive := false }) full = some { p with alive := false } := by
        rw [procByFull_setProc, hp]
        simp only [Option.map_some, procUpd]
        have : (p.full == ({ p with alive := false } : Proc).full) = true := by simp [Proc.full]
        rw [if_pos this]
      dsimp only
      have h2 := pinv_push (setProc s { p with alive := false }) full z _ h1 hp1 (h.y full p hp hal') rfl
      refine pinv_of_eq ?_ ?_ h2
      · rw [(foldl_emit_pq _ _ _).1]; rfl
      · rw [(foldl_emit_pq _ _ _).2]; rfl

theorem pinv_emit (s : State) (e : String) (h : PInv s) : PInv (s.emit e) := pinv_of_eq (s := s) rfl rfl h

theorem pinv_supKill (s : State) (full : String) (h : PInv s) : PInv (supKill s full) := by
  unfold supKill
  split
  · exact pinv_emit _ _ h
  · exact pinv_die _ _ _ _ (pinv_emit _ _ h)

theorem pinv_supTerm (s : State) (full : String) (h : PInv s) : PInv (supTerm s full) := by
  unfold supTerm
  splits <;> first
    | exact pinv_emit _ _ h
    | exact pinv_die _ _ _ _ (pinv_emit _ _ h)

/-- a new process: alive, with an exit channel, not closed -/
theorem pinv_exec (s : State) (pr : Proc) (h : PInv s) (hc : pr.chanCreated = true) (hcl : pr.chanClosed = false) :
    PInv { s with procs := s.procs ++ [pr] } := by
  have hb : ∀ f q, procByFull { s with procs := s.procs ++ [pr] } f = some q → procByFull s f = some q ∨ q = pr := by
    intro f q hq
    unfold procByFull at hq ⊢
    simp only [List.find?_append] at hq
    cases h0 : List.find? (fun x => x.full == f) s.procs with
    | some q0 => rw [h0] at hq; left; simpa using hq
    | none =>
      rw [h0] at hq
      simp only [Option.none_or, List.find?_cons] at hq
      split at hq
      · right; cases hq; rfl
      · cases hq
  have hkeep : ∀ f q, procByFull s f = some q → procByFull { s with procs := s.procs ++ [pr] } f = some q := by
    intro f q hq
    unfold procByFull at hq ⊢
    simp only [List.find?_append, hq, Option.some_or]
  refine ⟨?_, ?_, ?_⟩
  · intro e he
    obtain ⟨p, hp, h1, h2⟩ := h.x e he
    exact ⟨p, hkeep _ _ hp, h1, h2⟩
  · intro f q hq hal
    rcases hb f q hq with h0 | rfl
    · exact h.y f q h0 hal
    · exact hc
  · intro f q hq hcl'
    rcases hb f q hq with h0 | rfl
    · exact h.z f q h0 hcl'
    · rw [hcl] at hcl'; cases hcl'

/-! ### more functions that touch neither field -/

theorem PQ.trans' {a b c : State} (h1 : PQ a b) (h2 : PQ b c) : PQ a c := ⟨h2.1.trans h1.1, h2.2.trans h1.2⟩
theorem pinv_of_pq {s s' : State} (h : PQ s s') (i : PInv s) : PInv s' := pinv_of_eq h.1 h.2 i

@[simp] theorem pq_invokeReturned (s : State) (ok rr : Bool) (et : String) : PQ s (invokeReturned s ok rr et) := by unfold invokeReturned; pq_tac2
@[simp] theorem pq_invokeFail (s : State) (e : Option CErr) : PQ s (invokeFail s e) := by unfold invokeFail; simp [PQ]
@[simp] theorem pq_continueInvoke (s : State) : PQ s (continueInvoke s) := by unfold continueInvoke; pq_tac
@[simp] theorem pq_initTailEvents (s : State) (ph : Phase) (st : String) : PQ s (initTailEvents s ph st) := by
  unfold initTailEvents
  dsimp only
  generalize hs1 : (if s.rtDoneReg = true then s.emitEv _ _ else s) = s1
  have h0 : PQ s s1 := by rw [← hs1]; split <;> exact ⟨rfl, rfl⟩
  have h1 := foldl_emit_pq ((s1.agents.filter (·.ext)) ++ (s1.agents.filter (!·.ext))) agentInfoLine s1
  exact PQ.trans' h0 (PQ.trans' h1 ⟨rfl, rfl⟩)
@[simp] theorem pq_initFinish (s : State) (ph : Phase) (ok : Bool) (st : String) (e : Option CErr) : PQ s (initFinish s ph ok st e) := by
  unfold initFinish; pq_tac
@[simp] theorem pq_disarm (s : State) : PQ s (disarmShutdownTimers s) := ⟨rfl, rfl⟩
@[simp] theorem pq_afterReset (s : State) (n : Nat) : PQ s (afterReset s n) := ⟨rfl, rfl⟩
@[simp] theorem pq_resetTail (s : State) (n : Nat) : PQ s (resetTail s n) := by unfold resetTail; pq_tac
@[simp] theorem pq_enterGrace (s : State) (k : ShutKind) : PQ s (enterGrace s k) := ⟨rfl, rfl⟩
@[simp] theorem pq_shutdownOne (s : State) (a : Agent) : PQ s (shutdownOne s a) := by unfold shutdownOne; pq_tac
theorem pq_foldl_shutdownOne (l : List Agent) (s : State) : PQ s (l.foldl shutdownOne s) := by
  induction l generalizing s with
  | nil => exact ⟨rfl, rfl⟩
  | cons a l ih => exact PQ.trans' (pq_shutdownOne s a) (ih _)
@[simp] theorem pq_shutdownAgents (s : State) (k : ShutKind) : PQ s (shutdownAgents s k) := by
  unfold shutdownAgents
  dsimp only
  have := pq_foldl_shutdownOne (s.agents.filter (·.ext)) { s with renderer := .shutdown (reasonOf k), awaitingExit := [], agentWaits := [] }
  exact ⟨this.1, this.2⟩
@[simp] theorem pq_requestReset (s : State) (r : String) (n : Nat) : PQ s (requestReset s r n) := by unfold requestReset; simp [PQ]
@[simp] theorem pq_finishFlight (s : State) (f : Flight) (e : String) : PQ s (finishFlight s f e) := ⟨rfl, rfl⟩
@[simp] theorem pq_fastInvoke (s : State) (f : Flight) : PQ s (fastInvoke s f) := by unfold fastInvoke; pq_tac
@[simp] theorem pq_startServerInit (s : State) : PQ s (startServerInit s) := by unfold startServerInit; pq_tac
@[simp] theorem pq_restoreDoneEvent (s : State) (ok : Bool) : PQ s (restoreDoneEvent s ok) := ⟨rfl, rfl⟩
@[simp] theorem pq_handleRestore (s : State) (key : String) : PQ s (handleRestore s key) := by unfold handleRestore; pq_tac
@[simp] theorem pq_restoreFinish (s : State) (e : Option String) : PQ s (restoreFinish s e) := by unfold restoreFinish; pq_tac

def PQO (s : State) (o : Option State) : Prop := ∀ s', o = some s' → PQ s s'
@[simp] theorem pqO_none (s : State) : PQO s none := by intro s' h; cases h
@[simp] theorem pqO_some (s x : State) : PQO s (some x) ↔ PQ s x := by
  constructor
  · intro h; exact h x rfl
  · intro h s' e; cases e; exact h
theorem pqO_flightMove (s : State) (f : Flight) : PQO s (flightMove s f) := by unfold flightMove; splits <;> simp_all [PQ]
theorem pqO_restoreResume (s : State) : PQO s (restoreResume s) := by unfold restoreResume; splits <;> simp_all [PQ]

/-! ### functions that change the process table -/

theorem pinv_launchExtensions (s : State) (ph : Phase) (ps : List String) (h : PInv s) : PInv (launchExtensions s ph ps) := by
  induction ps generalizing s with
  | nil => exact pinv_of_eq (s := s) rfl rfl h
  | cons p ps ih =>
    unfold launchExtensions
    split
    · exact pinv_of_pq (pq_initFinish _ _ _ _ _) h
    · dsimp only
      split
      · apply pinv_of_pq (pq_initFinish _ _ _ _ _)
        apply pinv_of_pq (pq_storeFatal _ _)
        exact pinv_of_eq (s := s) rfl rfl h
      · split
        · -- Exec fails: no process, no exit channel
          apply pinv_of_pq (pq_initFinish _ _ _ _ _)
          apply pinv_of_pq (pq_storeFatal _ _)
          apply pinv_emit
          exact pinv_of_eq (s := s) rfl rfl h
        · apply ih
          apply pinv_emit
          have h0 : PInv { s with agents := s.agents ++ [{ name := p, ext := true, serial := s.nextSerial }], nextSerial := s.nextSerial + 1 } :=
            pinv_of_eq (s := s) rfl rfl h
          exact pinv_exec _ { name := p, gen := s.gen, chanCreated := true } h0 rfl rfl

theorem pinv_startInit (s : State) (ph : Phase) (h : PInv s) : PInv (startInit s ph) := by
  unfold startInit
  splits
  · exact pinv_of_pq (pq_initFinish _ _ _ _ _) (pinv_of_eq (s := s) rfl rfl h)
  · exact pinv_launchExtensions _ _ _ (pinv_of_eq (s := s) rfl rfl h)

def PInvO (o : Option State) : Prop := ∀ s', o = some s' → PInv s'
@[simp] theorem pinvO_none : PInvO none := by intro s' h; cases h
@[simp] theorem pinvO_some (x : State) : PInvO (some x) ↔ PInv x := by
  constructor
  · intro h; exact h x rfl
  · intro h s' e; cases e; exact h
theorem PInvO.of_pqO {s : State} {o : Option State} (h : PInv s) (he : PQO s o) : PInvO o := by
  intro s' e; exact pinv_of_pq (he s' e) h

theorem pinvO_orchResume (s : State) (h : PInv s) : PInvO (orchResume s) := by
  unfold orchResume
  splits <;> first
    | exact pinvO_none
    | (rw [pinvO_some]; first
        | exact pinv_of_pq (pq_initFinish _ _ _ _ _) h
        | exact pinv_of_pq (pq_initFinish _ _ _ _ _) (pinv_of_eq (s := s) rfl rfl h)
        | exact pinv_of_eq (s := s) rfl rfl h
        | exact pinv_of_pq (pq_invokeFail _ _) h
        | exact pinv_of_pq (pq_invokeReturned _ _ _ _) (pinv_emit _ _ h)
        | exact pinv_of_pq (pq_invokeReturned _ _ _ _) h
        | (-- the runtime is exec'd
           have hx : ∀ (msg : String) (o : OrchPC), PInv { (({ s with rt := some .started, rtFlag := false, rtParked := [], procs := s.procs ++ [{ name := "runtime", gen := s.gen, chanCreated := true }], rtDoneReg := true } : State).emit msg) with orch := o } := by
             intro msg o
             have h0 : PInv { s with rt := some .started, rtFlag := false, rtParked := [], rtDoneReg := true } := pinv_of_eq (s := s) rfl rfl h
             have h1 := pinv_exec _ { name := "runtime", gen := s.gen, chanCreated := true } h0 rfl rfl
             exact pinv_of_eq (s := { s with rt := some .started, rtFlag := false, rtParked := [], rtDoneReg := true, procs := s.procs ++ [{ name := "runtime", gen := s.gen, chanCreated := true }] }) rfl rfl h1
           exact hx _ _))

theorem pinv_shutdownBody (s : State) (k : ShutKind) (h : PInv s) : PInv (shutdownBody s k) := by
  unfold shutdownBody
  splits <;> first
    | exact pinv_of_pq (pq_enterGrace _ _) (pinv_supKill _ _ h)
    | exact pinv_of_pq (pq_enterGrace _ _) h
    | exact pinv_of_eq (s := supTerm { s with timers := s.timers ++ [.rtDeadline, .agDeadline] } _) rfl rfl (pinv_supTerm _ _ (pinv_of_eq (s := s) rfl rfl h))
    | exact pinv_of_pq (pq_shutdownAgents _ _) (pinv_of_eq (s := s) rfl rfl h)

theorem pinv_beginShutdown (s : State) (k : ShutKind) (h : PInv s) : PInv (beginShutdown s k) := by
  unfold beginShutdown; exact pinv_shutdownBody _ k (pinv_of_eq (s := s) rfl rfl h)

theorem pinv_startHandler (s : State) (r : HReq) (h : PInv s) : PInv (startHandler s r) := by
  unfold startHandler
  splits <;> first
    | exact pinv_startInit _ _ (pinv_of_eq (s := s) rfl rfl h)
    | exact pinv_of_pq (pq_continueInvoke _) (pinv_of_eq (s := s) rfl rfl h)
    | exact pinv_beginShutdown _ _ (pinv_emit _ _ (pinv_of_eq (s := s) rfl rfl h))
    | exact pinv_beginShutdown _ _ (pinv_of_eq (s := s) rfl rfl h)

/-- all exit channels closed, nothing queued: the table is cleared of its channels -/
theorem pinv_clearChans (s : State) (h : PInv s) (hq : s.exitQueue = [])
    (hall : (s.procs.filter (·.chanCreated)).all (·.chanClosed) = true) :
    PInv { s with procs := s.procs.map fun p => { p with chanCreated := false } } := by
  have hg : ∀ q : Proc, ({ q with chanCreated := false } : Proc).full = q.full := fun _ => rfl
  have hb : ∀ f, procByFull { s with procs := s.procs.map fun p => { p with chanCreated := false } } f
      = (procByFull s f).map fun p => { p with chanCreated := false } := fun f => procByFull_map s _ hg f
  have dead : ∀ f q, procByFull s f = some q → q.alive = false := by
    intro f q hq'
    cases hc : q.chanCreated
    · cases ha : q.alive
      · rfl
      · have := h.y f q hq' ha; rw [hc] at this; cases this
    · have hm : q ∈ s.procs.filter (·.chanCreated) := List.mem_filter.mpr ⟨List.mem_of_find?_eq_some hq', hc⟩
      have := List.all_eq_true.mp hall q hm
      exact h.z f q hq' this
  refine ⟨?_, ?_, ?_⟩
  · intro e he; rw [show ({ s with procs := _ } : State).exitQueue = s.exitQueue from rfl, hq] at he; cases he
  · intro f q hq' ha
    rw [hb] at hq'
    cases h0 : procByFull s f with
    | none => rw [h0] at hq'; cases hq'
    | some q0 =>
      rw [h0] at hq'; simp only [Option.map_some, Option.some.injEq] at hq'
      subst hq'
      have := dead f q0 h0
      simp only at ha; rw [this] at ha; cases ha
  · intro f q hq' hcl
    rw [hb] at hq'
    cases h0 : procByFull s f with
    | none => rw [h0] at hq'; cases hq'
    | some q0 =>
      rw [h0] at hq'; simp only [Option.map_some, Option.some.injEq] at hq'
      subst hq'
      exact dead f q0 h0

theorem pinv_finishShutdown (s : State) (k : ShutKind) (n : Nat) (h : PInv s) : PInv (finishShutdown s k n) := by
  unfold finishShutdown
  splits <;> first
    | exact pinv_of_pq (pq_afterReset _ _) (pinv_of_pq (pq_disarm _) (pinv_of_eq (s := s) rfl rfl h))
    | exact pinv_of_eq (s := s) rfl rfl h

theorem pinv_foldl_waits (l : List String) (acc : State × List String) (h : PInv acc.1) :
    PInv (l.foldl (fun (acc : State × List String) full =>
      match procByFull acc.1 full with
      | some p => if p.chanClosed then acc
                  else if acc.1.agDeadlineFired then (supKill acc.1 full, acc.2)
                  else (acc.1, acc.2 ++ [full])
      | none => acc) acc).1 := by
  induction l generalizing acc with
  | nil => exact h
  | cons x xs ih =>
    simp only [List.foldl_cons]
    apply ih
    splits <;> first | exact h | exact pinv_supKill _ _ h

theorem pinvO_shutResume (s : State) (n : Nat) (h : PInv s) (hq : s.exitQueue = []) : PInvO (shutResume s n) := by
  unfold shutResume
  split
  · splits <;> first
      | exact pinvO_none
      | (rw [pinvO_some]; first
          | exact pinv_of_pq (pq_shutdownAgents _ _) h
          | exact pinv_of_pq (pq_shutdownAgents _ _) (pinv_supKill _ _ h))
  · have hw := pinv_foldl_waits s.agentWaits (s, []) h
    dsimp only at hw ⊢
    generalize (List.foldl _ (s, []) s.agentWaits) = r at hw ⊢
    obtain ⟨s1, still⟩ := r
    dsimp only at hw ⊢
    splits <;> first
      | exact pinvO_none
      | (rw [pinvO_some]; first
          | exact pinv_of_pq (pq_enterGrace _ _) (pinv_of_eq (s := s1) rfl rfl hw)
          | exact pinv_of_eq (s := s1) rfl rfl hw)
  · splits <;> first
      | exact pinvO_none
      | (rw [pinvO_some]; first
          | (rename_i hall; exact pinv_finishShutdown _ _ _ (pinv_clearChans s h hq hall))
          | exact pinv_finishShutdown _ _ _ h)
  · exact pinvO_none

theorem flowCall_crashed (s : State) (f : FlowCall) : (flowCall s f).1.crashed = s.crashed := by cases f <;> rfl
theorem runAgInstrs_crashed (et : String) (s : State) (a : Agent) (is : List (Instr ExtState)) : (runAgInstrs et s a is).1.crashed = s.crashed := by
  induction is generalizing s a with
  | nil => rfl
  | cons i is ih =>
    cases i with
    | set x => exact ih s _
    | flow f chk => simp only [runAgInstrs]; rw [ih]; exact flowCall_crashed s f
    | suspend ok nx => rfl
    | subscribe es => exact ih s _
    | setErrType => exact ih s _
theorem cancelFlows_crashed (s : State) (e : CErr) : (cancelFlows s e).crashed = s.crashed := by unfold cancelFlows; split <;> rfl

/-- **The events watcher does not panic**: if the event it handles names a known process with an exit
    channel (which the invariant says of every queued event), `watchOne` raises no crash and keeps the
    invariant. -/
theorem pinv_watchOne (s : State) (full : String) (z : Bool) (h : PInv s)
    (hev : ∃ p, procByFull s full = some p ∧ p.chanCreated = true ∧ p.alive = false) :
    PInv (watchOne s full z) ∧ (watchOne s full z).crashed = s.crashed := by
  obtain ⟨p, hp, hc, ha⟩ := hev
  unfold watchOne
  dsimp only
  generalize hs1 : (if (!s.shuttingDown) = true then
      (storeFatal s (if (full == rtFull s) = true then "Runtime.ExitError" else "Extension.Crash"), CErr.procExit)
    else (s, CErr.nilErr)) = r
  have hr : PQ s r.1 ∧ r.1.crashed = s.crashed := by
    rw [← hs1]; split
    · exact ⟨pq_storeFatal _ _, by unfold storeFatal; split <;> rfl⟩
    · exact ⟨⟨rfl, rfl⟩, rfl⟩
  obtain ⟨s1, e1⟩ := r
  dsimp only at hr ⊢
  clear hs1
  -- handleProcessExit changes agents only
  generalize hs2 : (if s1.awaitingExit.contains full = true then _ else s1) = s2
  have h2 : PQ s1 s2 ∧ s2.crashed = s1.crashed := by
    rw [← hs2]
    splits <;> first
      | exact ⟨⟨rfl, rfl⟩, rfl⟩
      | exact ⟨PQ.trans' (pq_runAgInstrs _ _ _ _) (pq_setAgent _ _), by
          show (runAgInstrs _ _ _ _).1.crashed = _; exact runAgInstrs_crashed _ _ _ _⟩
  clear hs2
  have hpq : PQ s s2 := PQ.trans' hr.1 h2.1
  have hcr : s2.crashed = s.crashed := h2.2.trans hr.2
  have hi2 : PInv s2 := pinv_of_pq hpq h
  have hp2 : procByFull s2 full = some p := by unfold procByFull; rw [hpq.1]; exact hp
  rw [hp2]
  have hnc : (!p.chanCreated) = false := by rw [hc]; rfl
  simp only [hnc, Bool.false_eq_true, ↓reduceIte]
  have hpf := procByFull_full hp2
  have h3 : PInv (setProc s2 { p with chanClosed := true }) :=
    pinv_setProc s2 p _ hi2 (by rw [hpf]; exact hp2) rfl rfl (by intro e; rw [ha] at e; cases e) (by intro _; exact ha)
  exact ⟨pinv_of_pq (pq_cancelFlows _ _) h3, by rw [cancelFlows_crashed]; exact hcr⟩

theorem pinvO_killMove (s : State) (h : PInv s) : PInvO (killMove s) := by
  unfold killMove
  splits
  · rw [pinvO_some]; exact pinv_supKill _ _ (pinv_of_eq (s := s) rfl rfl h)
  · exact pinvO_none

theorem pinvO_wakeMove (l : Bool) (s : State) (h : PInv s) : PInvO (wakeMove l s) := by
  intro s' hs
  unfold wakeMove orElse' at hs
  split at hs
  · rename_i x hx; cases hs; exact pinv_of_pq (pq_wakeRt hx) h
  · exact pinv_of_pq (pq_wakeAgent hs) h

theorem pinvO_orElse' {a y : Option State} (ha : PInvO a) (hb : PInvO y) : PInvO (orElse' a fun _ => y) := by
  intro s' h; unfold orElse' at h; split at h
  · exact ha _ h
  · exact hb _ h

theorem pinvO_platformMove (lifo : Bool) (s : State) (h : PInv s) (hq : s.exitQueue = []) : PInvO (platformMove lifo s) := by
  unfold platformMove
  refine pinvO_orElse' (pinvO_orchResume s h) ?_
  refine pinvO_orElse' (pinvO_shutResume s _ h hq) ?_
  refine pinvO_orElse' (PInvO.of_pqO h (pqO_restoreResume s)) ?_
  splits <;> first
    | exact pinvO_none
    | (rw [pinvO_some]; apply pinv_startHandler; exact pinv_of_eq (s := s) rfl rfl h)
    | (intro s' hs
       obtain ⟨f, _, hm⟩ := firstSome_spec _ _ _ hs
       exact PInvO.of_pqO h (pqO_flightMove s f) s' hm)

/-- one internal move keeps the invariant and (if it is the events watcher's) raises no crash -/
theorem pinvO_progress (v : Nat) (s : State) (h : PInv s) : PInvO (progress v s) := by
  unfold progress
  split
  · exact pinvO_none
  · split
    · rename_i full zero rest hq
      rw [pinvO_some]
      have hx := h.x (full, zero) (by rw [hq]; exact List.mem_cons_self)
      have h' : PInv { s with exitQueue := rest } := by
        refine ⟨?_, h.y, h.z⟩
        intro e he; exact h.x e (by rw [hq]; exact List.mem_cons_of_mem _ he)
      exact (pinv_watchOne _ full zero h' hx).1
    · rename_i hq
      have hp := fun l => pinvO_platformMove l s h hq
      have hw := fun l => pinvO_wakeMove l s h
      have hk := pinvO_killMove s h
      have hr : ∀ l, PInvO (renderWoken l s) := fun l s' hs => pinv_of_pq (pq_renderWoken hs) h
      dsimp only
      splits <;> first
        | exact pinvO_orElse' (pinvO_orElse' (hw _) (pinvO_orElse' (hp _) hk)) (hr _)
        | exact pinvO_orElse' (pinvO_orElse' (hp _) (pinvO_orElse' (hw _) hk)) (hr _)
        | exact pinvO_orElse' (pinvO_orElse' (hp _) (pinvO_orElse' hk (hw _))) (hr _)
        | exact pinvO_orElse' (hr _) (pinvO_orElse' (hw _) (pinvO_orElse' (hp _) hk))
        | exact pinvO_orElse' (hr _) (pinvO_orElse' (hp _) (pinvO_orElse' (hw _) hk))
        | exact pinvO_orElse' (hr _) (pinvO_orElse' (hp _) (pinvO_orElse' hk (hw _)))

theorem pinv_settle (v n : Nat) (s : State) (h : PInv s) : PInv (settle v n s) := by
  induction n generalizing v s with
  | zero => exact h
  | succ n ih =>
    unfold settle
    split
    · exact h
    · rename_i s' hp
      exact ih _ s' (pinvO_progress v s h s' hp)

theorem pinv_applyOp (s : State) (o : Op) (h : PInv s) : PInv (applyOp s o) := by
  cases o with
  | exit base st z =>
    simp only [applyOp]
    split
    · exact pinv_die _ _ _ _ h
    · exact h
  | timer t =>
    simp only [applyOp]
    splits <;> first
      | exact h
      | exact pinv_of_eq (s := s) rfl rfl h
      | exact pinv_of_pq (pq_resetTail _ _) (pinv_of_eq (s := s) rfl rfl h)
      | exact pinv_of_pq (pq_restoreFinish _ _) (pinv_of_pq (pq_cancelInitFlow _ _) (pinv_of_eq (s := s) rfl rfl h))
      | exact pinv_of_pq (pq_setFlight _ _) (pinv_of_pq (pq_requestReset _ _ _) (pinv_of_eq (s := s) rfl rfl h))
  | _ => (simp only [applyOp]; splits <;> first | exact h | (refine pinv_of_pq ?_ h; simp [PQ]))

theorem pinv_step (v : Nat) (s : State) (o : Op) (h : PInv s) : PInv (step v s o) := by
  unfold step
  exact pinv_settle _ _ _ (pinv_applyOp _ _ (pinv_of_eq (s := s) rfl rfl h))

theorem pinv_run (s : State) (H : List Nat) (ops : List (Nat × Op)) (h : PInv s) : PInv (run s H ops).1 := by
  induction ops generalizing s H with
  | nil => exact h
  | cons x rest ih => obtain ⟨v, o⟩ := x; exact ih _ _ (pinv_step v s o h)

/-- every state the emulator passes through: after an op, and after each internal move (not only the
    quiescent states `run` returns) -/
inductive Reach : State → Prop where
  | init (s : State) : s.procs = [] → s.exitQueue = [] → Reach s
  | op (s : State) (o : Op) : Reach s → Reach (applyOp { s with out := [] } o)
  | move (v : Nat) (s s' : State) : Reach s → progress v s = some s' → Reach s'

theorem pinv_reach {s : State} (h : Reach s) : PInv s := by
  induction h with
  | init s hp hq =>
    have hnone : ∀ f p, procByFull s f = some p → False := by
      intro f p hpf; unfold procByFull at hpf; rw [hp] at hpf; cases hpf
    exact ⟨(by intro e he; rw [hq] at he; cases he), fun f p hpf _ => (hnone f p hpf).elim, fun f p hpf _ => (hnone f p hpf).elim⟩
  | op s o _ ih => exact pinv_applyOp _ _ (pinv_of_eq (s := s) rfl rfl ih)
  | move v s s' _ hp ih => exact pinvO_progress v s ih s' hp

end Rie.Sys
