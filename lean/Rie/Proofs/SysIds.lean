import Rie.Proofs.SysInv

/-!
Whole-run invariant of the invocation numbers (C01, "a fresh request id"): **every invocation number the
emulator holds anywhere is below the counter** — so the number given to an invocation at admission (the
counter's value, then incremented) differs from every number still held: by the reservation, by a queued
handler request, by the handler that is running, by the renderer (the event a slow runtime may still fetch).
-/
namespace Rie.Sys
open Rie.SM

def reqK : HReq → List Nat | .invoke k _ _ => [k] | _ => []
def rendK : Renderer → List Nat | .invoke k _ _ => [k] | _ => []
def rkf : Option Resv → List Nat | some r => [r.k] | none => []
def ckf : Option (Nat × Nat × String) → List Nat | some c => [c.1] | none => []
def qkf (q : List HReq) : List Nat := q.flatMap reqK

/-- every invocation number held somewhere -/
def known (s : State) : List Nat := rkf s.resv ++ ckf s.curInv ++ rendK s.renderer ++ qkf s.queue

@[simp] theorem rkf_some (r : Resv) : rkf (some r) = [r.k] := rfl
@[simp] theorem rkf_none : rkf none = [] := rfl
@[simp] theorem rkf_map_resetStarted (o : Option Resv) : rkf (o.map fun r => { r with resetStarted := true }) = rkf o := by cases o <;> rfl
@[simp] theorem ckf_some (c : Nat × Nat × String) : ckf (some c) = [c.1] := rfl
@[simp] theorem ckf_none : ckf none = [] := rfl
@[simp] theorem qkf_nil : qkf [] = [] := rfl
@[simp] theorem qkf_append (a b : List HReq) : qkf (a ++ b) = qkf a ++ qkf b := by simp [qkf]
@[simp] theorem qkf_cons (x : HReq) (q : List HReq) : qkf (x :: q) = reqK x ++ qkf q := by simp [qkf]
@[simp] theorem rendK_invoke (k c : Nat) (h : String) : rendK (.invoke k c h) = [k] := rfl
@[simp] theorem rendK_none : rendK .none = [] := rfl
@[simp] theorem rendK_shutdown (r : String) : rendK (.shutdown r) = [] := rfl
@[simp] theorem rendK_restore : rendK .restore = [] := rfl
@[simp] theorem reqK_invoke (k c : Nat) (h : String) : reqK (.invoke k c h) = [k] := rfl
@[simp] theorem reqK_init : reqK .init = [] := rfl
@[simp] theorem reqK_reset (r : String) (n : Nat) : reqK (.reset r n) = [] := rfl
@[simp] theorem reqK_shutdown (n : Nat) : reqK (.shutdown n) = [] := rfl

/-- the five places are untouched (the reservation and the queue up to what they say about numbers) -/
abbrev KK (s s' : State) : Prop :=
  s'.nextK = s.nextK ∧ rkf s'.resv = rkf s.resv ∧ s'.curInv = s.curInv ∧ s'.renderer = s.renderer ∧ qkf s'.queue = qkf s.queue

theorem KK.trans' {a b c : State} (h1 : KK a b) (h2 : KK b c) : KK a c :=
  ⟨h2.1.trans h1.1, h2.2.1.trans h1.2.1, h2.2.2.1.trans h1.2.2.1, h2.2.2.2.1.trans h1.2.2.2.1, h2.2.2.2.2.trans h1.2.2.2.2⟩

macro "kk_tac" : tactic => `(tactic| (splits <;> simp_all [KK]))

@[simp] theorem kk_emit (s : State) (e : String) : KK s (s.emit e) := ⟨rfl, rfl, rfl, rfl, rfl⟩
@[simp] theorem kk_emitEv (s : State) (k : EvKind) (r : String) : KK s (s.emitEv k r) := ⟨rfl, rfl, rfl, rfl, rfl⟩
@[simp] theorem kk_emitCaller (s : State) (c : Nat) (e b : String) : KK s (s.emitCaller c e b) := ⟨rfl, rfl, rfl, rfl, rfl⟩

/-- the counter stands and nothing new is held -/
structure KQ (s s' : State) : Prop where
  nk : s'.nextK = s.nextK
  sub : ∀ k, k ∈ known s' → k ∈ known s

theorem mem_known (s : State) (k : Nat) :
    k ∈ known s ↔ k ∈ rkf s.resv ∨ k ∈ ckf s.curInv ∨ k ∈ rendK s.renderer ∨ k ∈ qkf s.queue := by
  simp [known, or_assoc]

theorem KQ.of_kk {s s' : State} (h : KK s s') : KQ s s' :=
  ⟨h.1, by intro k; simp only [mem_known, h.2.1, h.2.2.1, h.2.2.2.1, h.2.2.2.2]; exact id⟩
theorem KQ.refl (s : State) : KQ s s := ⟨rfl, fun _ h => h⟩
theorem KQ.trans {a b c : State} (h1 : KQ a b) (h2 : KQ b c) : KQ a c := ⟨h2.nk.trans h1.nk, fun k hk => h1.sub k (h2.sub k hk)⟩
/-- a state that differs from `s` in the five places only by holding less -/
theorem KQ.mk' {s s' : State} (h1 : s'.nextK = s.nextK) (h2 : ∀ k, k ∈ rkf s'.resv → k ∈ known s) (h3 : ∀ k, k ∈ ckf s'.curInv → k ∈ known s)
    (h4 : ∀ k, k ∈ rendK s'.renderer → k ∈ known s) (h5 : ∀ k, k ∈ qkf s'.queue → k ∈ known s) : KQ s s' :=
  ⟨h1, by intro k hk; rcases (mem_known s' k).mp hk with h | h | h | h
          · exact h2 k h
          · exact h3 k h
          · exact h4 k h
          · exact h5 k h⟩

@[simp] theorem kk_storeFatal (s : State) (t : String) : KK s (storeFatal s t) := by unfold storeFatal; kk_tac
@[simp] theorem kk_cancelFlows (s : State) (e : CErr) : KK s (cancelFlows s e) := by unfold cancelFlows; kk_tac
@[simp] theorem kk_cancelInitFlow (s : State) (e : CErr) : KK s (cancelInitFlow s e) := ⟨rfl, rfl, rfl, rfl, rfl⟩
@[simp] theorem kk_flowCall (s : State) (f : FlowCall) : KK s (flowCall s f).1 := by cases f <;> exact ⟨rfl, rfl, rfl, rfl, rfl⟩
@[simp] theorem kk_setAgent (s : State) (a : Agent) : KK s (setAgent s a) := ⟨rfl, rfl, rfl, rfl, rfl⟩
@[simp] theorem kk_addPending (s : State) (a c : String) : KK s (addPending s a c) := by unfold addPending; kk_tac
@[simp] theorem kk_answer (s : State) (a c r : String) : KK s (answer s a c r) := by unfold answer; kk_tac
@[simp] theorem kk_reply (s : State) (a c r : String) : KK s (reply s a c r) := ⟨rfl, rfl, rfl, rfl, rfl⟩
@[simp] theorem kk_setFlight (s : State) (f : Flight) : KK s (setFlight s f) := ⟨rfl, rfl, rfl, rfl, rfl⟩
theorem kq_release (s : State) : KQ s (release s) := by
  refine KQ.mk' rfl ?_ ?_ ?_ ?_ <;> intro k hk <;> simp [release, mem_known] at hk ⊢ <;> simp [hk]
@[simp] theorem kk_idsSet (s : State) (n : String) (k : Nat) : KK s (idsSet s n k) := ⟨rfl, rfl, rfl, rfl, rfl⟩
@[simp] theorem kk_sendReply (s : State) (k : Nat) (b : String) : KK s (sendReply s k b).1 := by
  unfold sendReply; splits <;> simp_all [KK]
@[simp] theorem kk_runRtInstrs (s : State) (cur : RtState) (is : List (Instr RtState)) : KK s (runRtInstrs s cur is).1 := by
  induction is generalizing s cur with
  | nil => exact ⟨rfl, rfl, rfl, rfl, rfl⟩
  | cons i is ih =>
    cases i with
    | set x => exact ih s x
    | flow f chk =>
      simp only [runRtInstrs]
      split
      · exact kk_flowCall s f
      · have := ih (flowCall s f).1 cur; have h2 := kk_flowCall s f
        exact KK.trans' h2 this
    | suspend ok nx => exact ⟨rfl, rfl, rfl, rfl, rfl⟩
    | subscribe es => exact ih s cur
    | setErrType => exact ih s cur
@[simp] theorem kk_runAgInstrs (et : String) (s : State) (a : Agent) (is : List (Instr ExtState)) : KK s (runAgInstrs et s a is).1 := by
  induction is generalizing s a with
  | nil => exact ⟨rfl, rfl, rfl, rfl, rfl⟩
  | cons i is ih =>
    cases i with
    | set x => exact ih s _
    | flow f chk =>
      simp only [runAgInstrs]
      have := ih (flowCall s f).1 (if f == .initAgentReady && (flowCall s f).2 then { a with asked := true } else a); have h2 := kk_flowCall s f
      exact KK.trans' h2 this
    | suspend ok nx => exact ⟨rfl, rfl, rfl, rfl, rfl⟩
    | subscribe es => exact ih s _
    | setErrType => exact ih s _

theorem kk_runRt_of {s s' : State} {cur : RtState} {is : List (Instr RtState)} {x : RtState × Err × Option Park}
    (h : runRtInstrs s cur is = (s', x)) : KK s s' := by
  have := kk_runRtInstrs s cur is; rw [h] at this; exact this
theorem kk_runAg_of {et : String} {s s' : State} {a : Agent} {is : List (Instr ExtState)} {x : Agent × Bool}
    (h : runAgInstrs et s a is = (s', x)) : KK s s' := by
  have := kk_runAgInstrs et s a is; rw [h] at this; exact this
theorem kk_sendReply_of {s s' : State} {k : Nat} {b : String} {r : SendRes}
    (h : sendReply s k b = (s', r)) : KK s s' := by
  have := kk_sendReply s k b; rw [h] at this; exact this

macro "kk_tac2" : tactic => `(tactic| (splits <;>
  (try have hSR := kk_sendReply_of (by assumption)) <;>
  (try have hRT := kk_runRt_of (by assumption)) <;>
  (try have hAG := kk_runAg_of (by assumption)) <;> simp_all [KK]))

@[simp] theorem kk_rtCallBlocking (s : State) (call : String) (c : RtCall) : KK s (rtCallBlocking s call c) := by unfold rtCallBlocking; kk_tac2
@[simp] theorem kk_rtDeliver (s : State) (call : String) (k : Nat) (b : String) (o : Option Nat) : KK s (rtDeliver s call k b o) := by unfold rtDeliver; kk_tac2
@[simp] theorem kk_rtResponse (s : State) (idk : Option Nat) (size : Nat) (h : String) (bad : Bool) : KK s (rtResponse s idk size h bad) := by unfold rtResponse; kk_tac2
@[simp] theorem kk_rtError (s : State) (idk : Option Nat) (et : String) : KK s (rtError s idk et) := by unfold rtError; kk_tac2
@[simp] theorem kk_rtInitError (s : State) (et : String) : KK s (rtInitError s et) := by unfold rtInitError; kk_tac2
@[simp] theorem kk_rtRestoreError (s : State) (et : String) : KK s (rtRestoreError s et) := by unfold rtRestoreError; kk_tac2
@[simp] theorem kk_rtCreds (s : State) (tok : String) : KK s (rtCreds s tok) := by unfold rtCreds; kk_tac
@[simp] theorem kk_agRegister (s : State) (n : String) (es : List Ev) (v : String) : KK s (agRegister s n es v) := by unfold agRegister; kk_tac2
@[simp] theorem kk_agNext (s : State) (n m : String) : KK s (agNext s n m) := by unfold agNext; kk_tac2
@[simp] theorem kk_agReport (s : State) (n c e m : String) : KK s (agReport s n c e m) := by unfold agReport; kk_tac2
theorem kk_wakeRt {s s' : State} (h : wakeRt s = some s') : KK s s' := by
  unfold wakeRt at h; split at h <;> simp at h
  split at h <;> (simp at h; subst h; simp [KK])
theorem kk_wakeAgent {l : Bool} {s s' : State} (h : wakeAgent l s = some s') : KK s s' := by
  unfold wakeAgent at h; split at h <;> simp at h
  split at h <;> (simp at h; subst h; simp [KK])
theorem kk_renderWoken {l : Bool} {s s' : State} (h : renderWoken l s = some s') : KK s s' := by
  unfold renderWoken at h; split at h <;> simp at h
  subst h; simp [KK]

/-! ### the process table -/


theorem kk_foldl_emit {α : Type} (l : List α) (f : α → String) (s : State) : KK s (l.foldl (fun s a => s.emit (f a)) s) := by
  induction l generalizing s with
  | nil => exact ⟨rfl, rfl, rfl, rfl, rfl⟩
  | cons a l ih => simp only [List.foldl_cons]; exact KK.trans' (show KK s (s.emit (f a)) from ⟨rfl, rfl, rfl, rfl, rfl⟩) (ih _)

/-- close a leaf: the counter stands; whatever is held afterwards was held before -/
macro "kq_leaf" : tactic => `(tactic|
  (refine KQ.mk' ?_ ?_ ?_ ?_ ?_ <;> (try intro k hk) <;> simp_all [mem_known, KK] <;>
   (try (rename_i hk; rcases hk with h | h <;> simp_all))))

theorem kq_invokeReturned (s : State) (ok rr : Bool) (et : String) : KQ s (invokeReturned s ok rr et) := by
  unfold invokeReturned
  splits <;> (try have hSR := kk_sendReply_of (by assumption)) <;> kq_leaf
theorem kq_invokeFail (s : State) (e : Option CErr) : KQ s (invokeFail s e) := by unfold invokeFail; exact kq_invokeReturned _ _ _ _
theorem kq_continueInvoke (s : State) : KQ s (continueInvoke s) := by
  unfold continueInvoke
  split
  · kq_leaf
  · rename_i k c h hc
    dsimp only
    split
    · refine KQ.trans ?_ (kq_invokeFail _ _); kq_leaf
    · kq_leaf
@[simp] theorem kk_initTailEvents (s : State) (ph : Phase) (st : String) : KK s (initTailEvents s ph st) := by
  unfold initTailEvents
  dsimp only
  generalize hs1 : (if s.rtDoneReg = true then s.emitEv _ _ else s) = s1
  have h0 : KK s s1 := by rw [← hs1]; split <;> exact ⟨rfl, rfl, rfl, rfl, rfl⟩
  have h1 := kk_foldl_emit ((s1.agents.filter (·.ext)) ++ (s1.agents.filter (!·.ext))) agentInfoLine s1
  exact KK.trans' h0 (KK.trans' h1 ⟨rfl, rfl, rfl, rfl, rfl⟩)
theorem kq_initFinish (s : State) (ph : Phase) (ok : Bool) (st : String) (e : Option CErr) : KQ s (initFinish s ph ok st e) := by
  unfold initFinish
  have h0 : KQ s { (initTailEvents s ph st) with rtDoneReg := false } := KQ.of_kk (by simp [KK])
  dsimp only
  splits
  · exact KQ.trans h0 (by kq_leaf)
  · exact KQ.trans h0 (by kq_leaf)
  · exact KQ.trans h0 (kq_continueInvoke _)
  · exact KQ.trans h0 (KQ.trans (by kq_leaf) (kq_invokeFail _ _))
  · exact KQ.trans h0 (by kq_leaf)
@[simp] theorem kk_disarm (s : State) : KK s (disarmShutdownTimers s) := ⟨rfl, rfl, rfl, rfl, rfl⟩
theorem kq_afterReset (s : State) (n : Nat) : KQ s (afterReset s n) := by unfold afterReset; kq_leaf
theorem kq_resetTail (s : State) (n : Nat) : KQ s (resetTail s n) := by
  unfold resetTail
  dsimp only
  have h0 : KQ s (release { s with doneChan := none, cached := none, rapidPhaseInvoking := false, initChan := s.initChan.drain }) :=
    KQ.trans (KQ.of_kk (by simp [KK])) (kq_release _)
  splits <;> exact KQ.trans h0 (by kq_leaf)
@[simp] theorem kk_enterGrace (s : State) (k : ShutKind) : KK s (enterGrace s k) := ⟨rfl, rfl, rfl, rfl, rfl⟩
@[simp] theorem kk_shutdownOne (s : State) (a : Agent) : KK s (shutdownOne s a) := by unfold shutdownOne; kk_tac
theorem kk_foldl_shutdownOne (l : List Agent) (s : State) : KK s (l.foldl shutdownOne s) := by
  induction l generalizing s with
  | nil => exact ⟨rfl, rfl, rfl, rfl, rfl⟩
  | cons a l ih => exact KK.trans' (kk_shutdownOne s a) (ih _)
theorem kq_shutdownAgents (s : State) (k : ShutKind) : KQ s (shutdownAgents s k) := by
  unfold shutdownAgents
  dsimp only
  refine KQ.trans ?_ (KQ.of_kk (kk_foldl_shutdownOne _ _))
  kq_leaf
@[simp] theorem kk_requestReset (s : State) (r : String) (n : Nat) : KK s (requestReset s r n) := by unfold requestReset; simp [KK]
@[simp] theorem kk_finishFlight (s : State) (f : Flight) (e : String) : KK s (finishFlight s f e) := ⟨rfl, rfl, rfl, rfl, rfl⟩
theorem kq_fastInvoke (s : State) (f : Flight) : KQ s (fastInvoke s f) := by unfold fastInvoke; splits <;> kq_leaf
@[simp] theorem kk_startServerInit (s : State) : KK s (startServerInit s) := by unfold startServerInit; kk_tac
@[simp] theorem kk_restoreDoneEvent (s : State) (ok : Bool) : KK s (restoreDoneEvent s ok) := ⟨rfl, rfl, rfl, rfl, rfl⟩
theorem kq_handleRestore (s : State) (key : String) : KQ s (handleRestore s key) := by unfold handleRestore; splits <;> kq_leaf
theorem kq_restoreFinish (s : State) (e : Option String) : KQ s (restoreFinish s e) := by unfold restoreFinish; splits <;> kq_leaf

def KQO (s : State) (o : Option State) : Prop := ∀ s', o = some s' → KQ s s'
@[simp] theorem kqO_none (s : State) : KQO s none := by intro s' h; cases h
@[simp] theorem kqO_some (s x : State) : KQO s (some x) ↔ KQ s x := by
  constructor
  · intro h; exact h x rfl
  · intro h s' e; cases e; exact h

/-! ### processes -/
@[simp] theorem kk_setProc (s : State) (p : Proc) : KK s (setProc s p) := ⟨rfl, rfl, rfl, rfl, rfl⟩
@[simp] theorem kk_die (s : State) (full st : String) (z : Bool) : KK s (die s full st z) := by
  unfold die
  split
  · exact ⟨rfl, rfl, rfl, rfl, rfl⟩
  · split
    · exact ⟨rfl, rfl, rfl, rfl, rfl⟩
    · dsimp only
      refine KK.trans' ?_ (kk_foldl_emit _ _ _)
      simp [KK]
@[simp] theorem kk_supKill (s : State) (full : String) : KK s (supKill s full) := by unfold supKill; kk_tac
@[simp] theorem kk_supTerm (s : State) (full : String) : KK s (supTerm s full) := by unfold supTerm; kk_tac

/-! ### the orchestrator -/
theorem kq_launchExtensions (s : State) (ph : Phase) (ps : List String) : KQ s (launchExtensions s ph ps) := by
  induction ps generalizing s with
  | nil => unfold launchExtensions; kq_leaf
  | cons p ps ih =>
    unfold launchExtensions
    dsimp only
    splits
    · exact kq_initFinish _ _ _ _ _
    · refine KQ.trans ?_ (kq_initFinish _ _ _ _ _); (apply KQ.of_kk; simp [KK]; done)
    · refine KQ.trans ?_ (kq_initFinish _ _ _ _ _); (apply KQ.of_kk; simp [KK]; done)
    · refine KQ.trans ?_ (ih _); (apply KQ.of_kk; simp [KK]; done)

theorem kq_startInit (s : State) (ph : Phase) : KQ s (startInit s ph) := by
  unfold startInit
  dsimp only
  split
  · refine KQ.trans ?_ (kq_initFinish _ _ _ _ _); (apply KQ.of_kk; simp [KK]; done)
  · refine KQ.trans ?_ (kq_launchExtensions _ _ _); (apply KQ.of_kk; simp [KK]; done)

theorem kqO_orchResume (s : State) : KQO s (orchResume s) := by
  unfold orchResume
  splits <;> first
    | exact kqO_none _
    | (rw [kqO_some]; first
        | exact kq_initFinish _ _ _ _ _
        | exact kq_invokeFail _ _
        | exact kq_invokeReturned _ _ _ _
        | (refine KQ.trans ?_ (kq_initFinish _ _ _ _ _); (apply KQ.of_kk; simp [KK]; done))
        | (refine KQ.trans ?_ (kq_invokeReturned _ _ _ _); (apply KQ.of_kk; simp [KK]; done))
        | (apply KQ.of_kk; simp [KK]; done))

theorem kq_finishShutdown (s : State) (k : ShutKind) (n : Nat) : KQ s (finishShutdown s k n) := by
  unfold finishShutdown
  dsimp only
  splits
  · refine KQ.trans ?_ (kq_afterReset _ _); (apply KQ.of_kk; simp [KK]; done)
  · (apply KQ.of_kk; simp [KK]; done)
  · (apply KQ.of_kk; simp [KK]; done)

theorem kq_shutdownBody (s : State) (k : ShutKind) : KQ s (shutdownBody s k) := by
  unfold shutdownBody
  splits <;> first
    | exact kq_shutdownAgents _ _
    | (refine KQ.trans ?_ (kq_shutdownAgents _ _); (apply KQ.of_kk; simp [KK]; done))
    | (apply KQ.of_kk; simp [KK]; done)

theorem kq_beginShutdown (s : State) (k : ShutKind) : KQ s (beginShutdown s k) := by
  unfold beginShutdown
  refine KQ.trans ?_ (kq_shutdownBody _ _); (apply KQ.of_kk; simp [KK]; done)

theorem kk_foldl_waits (l : List String) (acc : State × List String) :
    KK acc.1 (l.foldl (fun (acc : State × List String) full =>
      match procByFull acc.1 full with
      | some p => if p.chanClosed then acc
                  else if acc.1.agDeadlineFired then (supKill acc.1 full, acc.2)
                  else (acc.1, acc.2 ++ [full])
      | none => acc) acc).1 := by
  induction l generalizing acc with
  | nil => exact ⟨rfl, rfl, rfl, rfl, rfl⟩
  | cons x l ih =>
    simp only [List.foldl_cons]
    refine KK.trans' ?_ (ih _)
    splits <;> simp [KK]

theorem kqO_shutResume (s : State) (n : Nat) : KQO s (shutResume s n) := by
  unfold shutResume
  split
  · splits <;> first
      | exact kqO_none _
      | (rw [kqO_some]; first
          | exact kq_shutdownAgents _ _
          | (refine KQ.trans ?_ (kq_shutdownAgents _ _); (apply KQ.of_kk; simp [KK]; done)))
  · dsimp only
    have hw := kk_foldl_waits s.agentWaits (s, [])
    generalize (s.agentWaits.foldl _ (s, [])) = r at hw ⊢
    obtain ⟨s1, still⟩ := r
    dsimp only at hw ⊢
    splits <;> first
      | exact kqO_none _
      | (rw [kqO_some]; exact KQ.trans (KQ.of_kk hw) (KQ.of_kk (by simp [KK])))
  · splits <;> first
      | exact kqO_none _
      | (rw [kqO_some]; first
          | exact kq_finishShutdown _ _ _
          | (refine KQ.trans ?_ (kq_finishShutdown _ _ _); (apply KQ.of_kk; simp [KK]; done)))
  · exact kqO_none _

/-! ### handlers, goroutines, the scheduler -/

theorem kk_watchOne (s : State) (full : String) (z : Bool) : KK s (watchOne s full z) := by
  unfold watchOne
  dsimp only
  generalize hs1 : (if (!s.shuttingDown) = true then
      (storeFatal s (if (full == rtFull s) = true then "Runtime.ExitError" else "Extension.Crash"), CErr.procExit)
    else (s, CErr.nilErr)) = r
  have hr : KK s r.1 := by rw [← hs1]; split <;> simp [KK]
  obtain ⟨s1, e1⟩ := r
  dsimp only at hr ⊢
  clear hs1
  generalize hs2 : (if s1.awaitingExit.contains full = true then _ else s1) = s2
  have h2 : KK s1 s2 := by
    rw [← hs2]
    splits <;> first
      | (simp [KK]; done)
      | exact KK.trans' (kk_runAgInstrs "" s1 ‹Agent› ‹List (Instr ExtState)›) (kk_setAgent _ _)
  clear hs2
  refine KK.trans' hr (KK.trans' h2 ?_)
  splits <;> simp [KK]

/-- a handler starts with a request taken from the queue: its number (if any) was held by the queue -/
theorem kq_startHandler (s0 s : State) (r : HReq) (h0 : KQ s0 s) (hr : ∀ k, k ∈ reqK r → k ∈ known s0) :
    KQ s0 (startHandler s r) := by
  cases r with
  | init => unfold startHandler; refine KQ.trans h0 (KQ.trans ?_ (kq_startInit _ _)); (apply KQ.of_kk; simp [KK]; done)
  | invoke k c h =>
    -- the number moves from the queue to the handler: nothing new relative to `s0`
    have h1 : KQ s0 { s with curInv := some (k, c, h),
                             flights := s.flights.map fun f => if f.g4 == .waitMutex then { f with g4 := .running } else f } := by
      refine KQ.mk' h0.nk ?_ ?_ ?_ ?_
      · intro x hx; exact h0.sub x ((mem_known s x).mpr (Or.inl hx))
      · intro x hx; simp only [ckf_some, List.mem_singleton] at hx; subst hx; exact hr _ (by simp)
      · intro x hx; exact h0.sub x ((mem_known s x).mpr (Or.inr (Or.inr (Or.inl hx))))
      · intro x hx; exact h0.sub x ((mem_known s x).mpr (Or.inr (Or.inr (Or.inr hx))))
    unfold startHandler
    dsimp only
    split
    · exact KQ.trans h1 (kq_startInit _ _)
    · exact KQ.trans h1 (kq_continueInvoke _)
  | reset reason n =>
    unfold startHandler
    dsimp only
    refine KQ.trans h0 (KQ.trans ?_ (kq_beginShutdown _ _))
    splits <;> (apply KQ.of_kk; simp [KK]; done)
  | shutdown n => unfold startHandler; refine KQ.trans h0 (KQ.trans ?_ (kq_beginShutdown _ _)); (apply KQ.of_kk; simp [KK]; done)

theorem kqO_flightMove (s : State) (f : Flight) : KQO s (flightMove s f) := by
  unfold flightMove
  splits <;> first
    | exact kqO_none _
    | (rw [kqO_some]; first
        | exact kq_fastInvoke _ _
        | (refine KQ.trans ?_ (KQ.of_kk (kk_setFlight _ _)); first
            | exact kq_release _
            | (refine KQ.trans ?_ (kq_release _); (apply KQ.of_kk; simp [KK]; done))
            | (apply KQ.of_kk; simp [KK]; done))
        | (refine KQ.trans ?_ (KQ.of_kk (kk_finishFlight _ _ _)); first
            | exact kq_release _
            | exact KQ.refl _)
        | (apply KQ.of_kk; simp [KK]; done))

theorem kqO_restoreResume (s : State) : KQO s (restoreResume s) := by
  unfold restoreResume
  splits <;> first
    | exact kqO_none _
    | (rw [kqO_some]; exact kq_restoreFinish _ _)

theorem kqO_orElse' {s : State} {a y : Option State} (ha : KQO s a) (hb : KQO s y) : KQO s (orElse' a fun _ => y) := by
  unfold orElse'
  split
  · rename_i x; intro s' e; cases e; exact ha x rfl
  · exact hb

theorem qkf_sub_dropLast (q : List HReq) (l : HReq) (h : q.getLast? = some l) :
    qkf q = qkf q.dropLast ++ reqK l := by
  have : q = q.dropLast ++ [l] := by
    cases q with
    | nil => simp at h
    | cons a t =>
      have hne : a :: t ≠ [] := List.cons_ne_nil a t
      have h1 := List.dropLast_concat_getLast hne
      rw [List.getLast?_eq_some_getLast hne] at h
      cases h
      exact h1.symm
  conv => lhs; rw [this]
  simp

theorem kqO_platformMove (lifo : Bool) (s : State) : KQO s (platformMove lifo s) := by
  unfold platformMove
  refine kqO_orElse' (kqO_orchResume s) ?_
  refine kqO_orElse' (kqO_shutResume s _) ?_
  refine kqO_orElse' (kqO_restoreResume s) ?_
  split
  · rename_i r rest ho hq
    split
    · split
      · rename_i l hl
        rw [kqO_some]
        have hsplit := qkf_sub_dropLast s.queue l hl
        refine kq_startHandler s _ l ?_ ?_
        · refine KQ.mk' rfl ?_ ?_ ?_ ?_ <;> intro x hx <;> simp only [mem_known] <;> simp_all
        · intro x hx; simp only [mem_known, hsplit, List.mem_append]; exact Or.inr (Or.inr (Or.inr (Or.inr hx)))
      · exact kqO_none _
    · rw [kqO_some]
      refine kq_startHandler s _ r ?_ ?_
      · refine KQ.mk' rfl ?_ ?_ ?_ ?_ <;> intro x hx <;> simp only [mem_known] <;> simp_all
      · intro x hx; simp only [mem_known, hq, qkf_cons, List.mem_append]; exact Or.inr (Or.inr (Or.inr (Or.inl hx)))
  · intro s' hs
    obtain ⟨f, _, hm⟩ := firstSome_spec _ _ _ hs
    exact kqO_flightMove s f s' hm

theorem kqO_wakeMove (l : Bool) (s : State) : KQO s (wakeMove l s) := by
  intro s' hs
  unfold wakeMove orElse' at hs
  split at hs
  · rename_i x hx; cases hs; exact KQ.of_kk (kk_wakeRt hx)
  · exact KQ.of_kk (kk_wakeAgent hs)

theorem kqO_killMove (s : State) : KQO s (killMove s) := by
  unfold killMove
  split
  · rw [kqO_some]; apply KQ.of_kk; simp [KK]
  · exact kqO_none _

theorem kqO_progress (v : Nat) (s : State) : KQO s (progress v s) := by
  have hp := fun l => kqO_platformMove l s
  have hw := fun l => kqO_wakeMove l s
  have hk := kqO_killMove s
  have hr : ∀ l, KQO s (renderWoken l s) := fun l s' h => KQ.of_kk (kk_renderWoken h)
  unfold progress
  splits <;> first
    | exact kqO_none _
    | (rw [kqO_some]; refine KQ.trans ?_ (KQ.of_kk (kk_watchOne _ _ _)); (apply KQ.of_kk; simp [KK]; done))
    | exact kqO_orElse' (kqO_orElse' (hw _) (kqO_orElse' (hp _) hk)) (hr _)
    | exact kqO_orElse' (kqO_orElse' (hp _) (kqO_orElse' (hw _) hk)) (hr _)
    | exact kqO_orElse' (kqO_orElse' (hp _) (kqO_orElse' hk (hw _))) (hr _)
    | exact kqO_orElse' (hr _) (kqO_orElse' (hw _) (kqO_orElse' (hp _) hk))
    | exact kqO_orElse' (hr _) (kqO_orElse' (hp _) (kqO_orElse' (hw _) hk))
    | exact kqO_orElse' (hr _) (kqO_orElse' (hp _) (kqO_orElse' hk (hw _)))

theorem kq_settle (v n : Nat) (s : State) : KQ s (settle v n s) := by
  induction n generalizing v s with
  | zero => exact KQ.refl _
  | succ n ih =>
    unfold settle
    split
    · exact KQ.refl _
    · rename_i s' hp
      exact KQ.trans (kqO_progress v s s' hp) (ih _ s')

/-! ### the invariant -/

/-- every invocation number held anywhere is below the counter -/
def KInv (s : State) : Prop := ∀ k, k ∈ known s → k < s.nextK

theorem kinv_of_kq {s s' : State} (h : KQ s s') (i : KInv s) : KInv s' := by
  intro k hk; rw [h.nk]; exact i k (h.sub k hk)

/-- every op except an admitted invocation holds nothing new -/
theorem kinv_applyOp (s : State) (o : Op) (i : KInv s) : KInv (applyOp s o) := by
  cases o with
  | invoke c z h =>
    simp only [applyOp]
    split
    · exact kinv_of_kq (KQ.of_kk (by simp [KK])) i
    · -- admission: the new number is the counter's value, the counter moves on
      have i1 : KInv (startServerInit s) := kinv_of_kq (KQ.of_kk (kk_startServerInit s)) i
      intro k hk
      simp only [mem_known, rkf_some, List.mem_singleton] at hk
      show k < (startServerInit s).nextK + 1
      rcases hk with hk | hk | hk | hk
      · omega
      · exact Nat.lt_succ_of_lt (i1 k ((mem_known _ k).mpr (Or.inr (Or.inl hk))))
      · exact Nat.lt_succ_of_lt (i1 k ((mem_known _ k).mpr (Or.inr (Or.inr (Or.inl hk)))))
      · exact Nat.lt_succ_of_lt (i1 k ((mem_known _ k).mpr (Or.inr (Or.inr (Or.inr hk)))))
  | timer t =>
    simp only [applyOp]
    splits <;> first
      | exact i
      | exact kinv_of_kq (kq_resetTail _ _) (kinv_of_kq (KQ.of_kk (by simp [KK])) i)
      | exact kinv_of_kq (kq_restoreFinish _ _) (kinv_of_kq (KQ.of_kk (by simp [KK])) i)
      | exact kinv_of_kq (KQ.of_kk (by simp [KK])) i
  | restore key => exact kinv_of_kq (kq_handleRestore _ _) i
  | _ => (simp only [applyOp]; splits <;> exact kinv_of_kq (KQ.of_kk (by simp [KK])) i)

theorem kinv_step (v : Nat) (s : State) (o : Op) (i : KInv s) : KInv (step v s o) := by
  unfold step
  exact kinv_of_kq (kq_settle _ _ _) (kinv_applyOp _ o (kinv_of_kq (KQ.of_kk (by simp [KK])) i))

theorem kinv_run (s : State) (H : List Nat) (ops : List (Nat × Op)) (i : KInv s) : KInv (run s H ops).1 := by
  induction ops generalizing s H with
  | nil => exact i
  | cons x ops ih => obtain ⟨v, o⟩ := x; exact ih _ _ (kinv_step v s o i)

end Rie.Sys
