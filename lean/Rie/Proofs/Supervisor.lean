import Rie.Model.Supervisor

/-! Lemmas and the inductive invariant of the local supervisor's bookkeeping model. -/
namespace Rie.Supervisor

/-- 1 if model pid `pid` exists and has exited, else 0 -/
def pidExitedFlag (s : Sup) (pid : Nat) : Nat :=
  match s.procs[pid]? with
  | some p => if p.isExited then 1 else 0
  | none => 0

/-- The inductive invariant. -/
structure Inv (s : Sup) : Prop where
  /-- per process: one event iff exited, none otherwise -/
  perPid   : ∀ pid, evCountPid s pid = pidExitedFlag s pid
  /-- per name: #events = #exited processes started under that name -/
  perName  : ∀ n, evCountName s n = exitedCountName s n
  /-- every event names its process and carries the status its process exited with -/
  truthful : ∀ e ∈ s.events, s.procs[e.pid]? = some ⟨e.name, .exited e.status⟩
  /-- the map points at existing processes started under that very name -/
  mapWf    : ∀ n pid, s.map.lookup n = some pid → ∃ st, s.procs[pid]? = some ⟨n, st⟩

@[simp] theorem isExited_running (nm : Nat) : (⟨nm, .running⟩ : Proc).isExited = false := rfl
@[simp] theorem isExited_exited (nm : Nat) (st : Status) : (⟨nm, .exited st⟩ : Proc).isExited = true := rfl

theorem inv_init : Inv init := by
  refine ⟨?_, ?_, ?_, ?_⟩
  · intro pid; simp [init, evCountPid, pidExitedFlag]
  · intro n; simp [init, evCountName, exitedCountName]
  · intro e he; simp [init] at he
  · intro n pid h; simp [init] at h

/-! ### `exitProc` -/

theorem exitProc_running {s : Sup} {pid nm : Nat} (st : Status)
    (h : s.procs[pid]? = some ⟨nm, .running⟩) :
    exitProc s pid st = { s with procs := s.procs.set pid ⟨nm, .exited st⟩,
                                 events := s.events ++ [⟨pid, nm, st⟩] } := by
  simp [exitProc, h]

theorem exitProc_not_running {s : Sup} {pid : Nat} (st : Status)
    (h : ∀ nm, s.procs[pid]? ≠ some ⟨nm, .running⟩) : exitProc s pid st = s := by
  unfold exitProc
  split
  · rename_i nm heq
    exact absurd heq (h nm)
  · rfl

theorem exitProc_map (s : Sup) (pid : Nat) (st : Status) : (exitProc s pid st).map = s.map := by
  unfold exitProc; split <;> rfl

theorem exitProc_procs_length (s : Sup) (pid : Nat) (st : Status) :
    (exitProc s pid st).procs.length = s.procs.length := by
  unfold exitProc; split <;> simp

theorem inv_exitProc {s : Sup} (hi : Inv s) (pid : Nat) (st : Status) : Inv (exitProc s pid st) := by
  by_cases hr : ∃ nm, s.procs[pid]? = some ⟨nm, .running⟩
  · obtain ⟨nm, hr⟩ := hr
    have hlt : pid < s.procs.length := by
      obtain ⟨h, _⟩ := List.getElem?_eq_some_iff.mp hr
      exact h
    have hget : s.procs[pid] = ⟨nm, .running⟩ := by
      obtain ⟨_, h⟩ := List.getElem?_eq_some_iff.mp hr
      exact h
    rw [exitProc_running st hr]
    obtain ⟨hp, hn, ht, hm⟩ := hi
    refine ⟨?_, ?_, ?_, ?_⟩
    · intro q
      have hq := hp q
      simp only [evCountPid, pidExitedFlag, List.countP_append, List.countP_cons, List.countP_nil] at hq ⊢
      by_cases hpq : pid = q
      · subst hpq
        rw [hr] at hq
        simp only [isExited_running] at hq
        rw [List.getElem?_set_self hlt]
        simp [hq]
      · rw [List.getElem?_set_ne hpq]
        have : (pid == q) = false := by simpa using hpq
        simp [this, hq]
    · intro n
      have hn' := hn n
      simp only [evCountName, exitedCountName, List.countP_append, List.countP_cons, List.countP_nil] at hn' ⊢
      rw [List.countP_set hlt, hget]
      simp [hn']
    · intro e he
      simp only [List.mem_append, List.mem_singleton] at he
      cases he with
      | inl he =>
        have hold := ht e he
        have hne : pid ≠ e.pid := by
          intro heq
          rw [← heq, hr] at hold
          cases hold
        simp only
        rw [List.getElem?_set_ne hne]
        exact hold
      | inr he =>
        subst he
        simp only
        exact List.getElem?_set_self hlt
    · intro n p hl
      obtain ⟨st', hst⟩ := hm n p hl
      simp only
      by_cases hpp : pid = p
      · subst hpp
        rw [hr] at hst
        cases hst
        exact ⟨_, List.getElem?_set_self hlt⟩
      · exact ⟨st', by rw [List.getElem?_set_ne hpp]; exact hst⟩
  · rw [exitProc_not_running st (fun nm h => hr ⟨nm, h⟩)]
    exact hi

/-! ### `exec` -/

theorem inv_exec {s : Sup} (hi : Inv s) (name : Nat) :
    Inv { s with procs := s.procs ++ [⟨name, .running⟩], map := (name, s.procs.length) :: s.map } := by
  obtain ⟨hp, hn, ht, hm⟩ := hi
  refine ⟨?_, ?_, ?_, ?_⟩
  · intro q
    have hq := hp q
    simp only [evCountPid, pidExitedFlag] at hq ⊢
    by_cases hlt : q < s.procs.length
    · rw [List.getElem?_append_left hlt]; exact hq
    · have hge : s.procs.length ≤ q := Nat.le_of_not_lt hlt
      rw [List.getElem?_eq_none hge] at hq
      rw [hq]
      by_cases heq : q = s.procs.length
      · subst heq
        rw [List.getElem?_concat_length]
        simp
      · rw [List.getElem?_eq_none (by simp; omega)]
  · intro n
    have hn' := hn n
    simp only [evCountName, exitedCountName, List.countP_append, List.countP_cons, List.countP_nil] at hn' ⊢
    simp [hn']
  · intro e he
    have hold := ht e he
    have hlt : e.pid < s.procs.length := by
      obtain ⟨h, _⟩ := List.getElem?_eq_some_iff.mp hold
      exact h
    simp only
    rw [List.getElem?_append_left hlt]
    exact hold
  · intro n p hl
    simp only [List.lookup_cons] at hl
    split at hl
    · rename_i heq
      have hnn : n = name := by simpa using heq
      cases hl
      subst hnn
      exact ⟨.running, List.getElem?_concat_length⟩
    · obtain ⟨st', hst⟩ := hm n p hl
      have hlt : p < s.procs.length := by
        obtain ⟨h, _⟩ := List.getElem?_eq_some_iff.mp hst
        exact h
      exact ⟨st', by simp only; rw [List.getElem?_append_left hlt]; exact hst⟩

/-! ### steps and runs -/

theorem inv_step {s : Sup} (hi : Inv s) (o : Op) : Inv (step s o).1 := by
  cases o with
  | exec name started =>
    simp only [step]
    split
    · exact inv_exec hi name
    · exact hi
  | exit pid st => exact inv_exitProc hi pid st
  | terminate name =>
    simp only [step]
    split <;> exact hi
  | kill name dp dit =>
    simp only [step]
    split
    · exact hi
    · split
      · exact hi
      · exact hi
      · split
        · exact hi
        · split
          · exact inv_exitProc hi _ _
          · exact hi
  | foreign => exact hi

theorem run_nil (s : Sup) : run s [] = s := rfl

theorem run_cons (s : Sup) (o : Op) (os : List Op) : run s (o :: os) = run (step s o).1 os := rfl

theorem run_append (s : Sup) (a b : List Op) : run s (a ++ b) = run (run s a) b := by
  simp [run, List.foldl_append]

theorem inv_run {s : Sup} (hi : Inv s) (ops : List Op) : Inv (run s ops) := by
  induction ops generalizing s with
  | nil => exact hi
  | cons o os ih => exact ih (inv_step hi o)

/-! ### monotonicity: exited processes and emitted events are never touched again -/

theorem exitProc_keeps_exited {s : Sup} {q nm : Nat} {st : Status} (pid : Nat) (st' : Status)
    (h : s.procs[q]? = some ⟨nm, .exited st⟩) : (exitProc s pid st').procs[q]? = some ⟨nm, .exited st⟩ := by
  unfold exitProc
  split
  · rename_i nm' heq
    have hne : pid ≠ q := by
      intro he; subst he; rw [h] at heq; cases heq
    simp only
    rw [List.getElem?_set_ne hne]; exact h
  · exact h

theorem exitProc_events_prefix (s : Sup) (pid : Nat) (st : Status) :
    ∃ l, (exitProc s pid st).events = s.events ++ l ∧ l.length ≤ 1 := by
  unfold exitProc
  split
  · exact ⟨[_], rfl, by simp⟩
  · exact ⟨[], by simp, by simp⟩

theorem step_keeps_exited {s : Sup} {q nm : Nat} {st : Status} (o : Op)
    (h : s.procs[q]? = some ⟨nm, .exited st⟩) : (step s o).1.procs[q]? = some ⟨nm, .exited st⟩ := by
  cases o with
  | exec name started =>
    simp only [step]
    split
    · have hlt : q < s.procs.length := by
        obtain ⟨h', _⟩ := List.getElem?_eq_some_iff.mp h
        exact h'
      simp only
      rw [List.getElem?_append_left hlt]; exact h
    · exact h
  | exit pid st' => exact exitProc_keeps_exited pid st' h
  | terminate name =>
    simp only [step]
    split <;> exact h
  | kill name dp dit =>
    simp only [step]
    split
    · exact h
    · split
      · exact h
      · exact h
      · split
        · exact h
        · split
          · exact exitProc_keeps_exited _ _ h
          · exact h
  | foreign => exact h

theorem step_events_prefix (s : Sup) (o : Op) :
    ∃ l, (step s o).1.events = s.events ++ l ∧ l.length ≤ 1 := by
  have triv : ∃ l, s.events = s.events ++ l ∧ l.length ≤ 1 := ⟨[], by simp, by simp⟩
  cases o with
  | exec name started =>
    simp only [step]
    split <;> exact triv
  | exit pid st' => exact exitProc_events_prefix s pid st'
  | terminate name =>
    simp only [step]
    split <;> exact triv
  | kill name dp dit =>
    simp only [step]
    split
    · exact triv
    · split
      · exact triv
      · exact triv
      · split
        · exact triv
        · split
          · exact exitProc_events_prefix s _ _
          · exact triv
  | foreign => exact triv

theorem run_keeps_exited {s : Sup} {q nm : Nat} {st : Status} (ops : List Op)
    (h : s.procs[q]? = some ⟨nm, .exited st⟩) : (run s ops).procs[q]? = some ⟨nm, .exited st⟩ := by
  induction ops generalizing s with
  | nil => exact h
  | cons o os ih => exact ih (step_keeps_exited o h)

theorem run_events_prefix (s : Sup) (ops : List Op) : ∃ l, (run s ops).events = s.events ++ l := by
  induction ops generalizing s with
  | nil => exact ⟨[], by rw [run_nil]; simp⟩
  | cons o os ih =>
    obtain ⟨l1, h1, _⟩ := step_events_prefix s o
    obtain ⟨l2, h2⟩ := ih (s := (step s o).1)
    exact ⟨l1 ++ l2, by rw [run_cons, h2, h1, List.append_assoc]⟩

/-! ### successful execs are what fills the process table and the map -/

theorem step_started (s : Sup) (o : Op) (n : Nat) :
    startedCountName (step s o).1 n = startedCountName s n + (if isExec n o then 1 else 0) := by
  have hex : ∀ pid st, startedCountName (exitProc s pid st) n = startedCountName s n := by
    intro pid st
    unfold exitProc
    split
    · rename_i nm heq
      have hlt : pid < s.procs.length := by
        obtain ⟨h', _⟩ := List.getElem?_eq_some_iff.mp heq
        exact h'
      have hget : s.procs[pid] = ⟨nm, .running⟩ := by
        obtain ⟨_, h'⟩ := List.getElem?_eq_some_iff.mp heq
        exact h'
      simp only [startedCountName]
      rw [List.countP_set hlt, hget]
      simp only
      by_cases hnm : (nm == n) = true
      · have hpos : 0 < List.countP (fun p => p.name == n) s.procs := by
          apply List.countP_pos_iff.mpr
          exact ⟨s.procs[pid], List.getElem_mem hlt, by rw [hget]; exact hnm⟩
        simp only [hnm, if_true]
        omega
      · simp [hnm]
    · rfl
  cases o with
  | exec name started =>
    cases started with
    | true =>
      simp only [step, isExec, if_true, startedCountName, List.countP_append, List.countP_cons, List.countP_nil]
      simp
    | false => simp [step, isExec]
  | exit pid st' => simp only [step, isExec]; rw [hex]; simp
  | terminate name =>
    simp only [step, isExec]
    split <;> simp
  | kill name dp dit =>
    simp only [step, isExec]
    split
    · simp
    · split
      · simp
      · simp
      · split
        · simp
        · split
          · rw [hex]; simp
          · simp
  | foreign => simp [step, isExec]

theorem run_started (s : Sup) (ops : List Op) (n : Nat) :
    startedCountName (run s ops) n = startedCountName s n + ops.countP (isExec n) := by
  induction ops generalizing s with
  | nil => rw [run_nil]; simp
  | cons o os ih =>
    rw [run_cons, ih, step_started, List.countP_cons]
    omega

theorem step_lookup_none (s : Sup) (o : Op) (n : Nat) :
    ((step s o).1.map.lookup n = none) ↔ (s.map.lookup n = none ∧ isExec n o = false) := by
  cases o with
  | exec name started =>
    cases started with
    | true =>
      simp only [step, if_true, isExec, List.lookup_cons]
      by_cases h : (n == name) = true
      · have hnn : n = name := by simpa using h
        subst hnn
        simp
      · have h1 : (n == name) = false := by simpa using h
        have h' : (name == n) = false := by
          simp only [beq_eq_false_iff_ne, ne_eq] at h1 ⊢
          exact fun e => h1 e.symm
        simp [h1, h']
    | false => simp [step, isExec]
  | exit pid st' => simp [step, isExec, exitProc_map]
  | terminate name =>
    simp only [step, isExec]
    split <;> simp
  | kill name dp dit =>
    simp only [step, isExec]
    split
    · simp
    · split
      · simp
      · simp
      · split
        · simp
        · split
          · simp [exitProc_map]
          · simp
  | foreign => simp [step, isExec]

theorem run_lookup_none (s : Sup) (ops : List Op) (n : Nat) :
    ((run s ops).map.lookup n = none) ↔ (s.map.lookup n = none ∧ ∀ o ∈ ops, isExec n o = false) := by
  induction ops generalizing s with
  | nil => rw [run_nil]; simp
  | cons o os ih =>
    rw [run_cons, ih, step_lookup_none]
    simp only [List.mem_cons, forall_eq_or_imp]
    constructor
    · rintro ⟨⟨a, b⟩, c⟩; exact ⟨a, b, c⟩
    · rintro ⟨a, b, c⟩; exact ⟨⟨a, b⟩, c⟩

end Rie.Supervisor
