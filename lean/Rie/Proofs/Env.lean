import Rie.Model.Env

/-! Lemmas about the `Env` model (maps as association lists, layer invariants, the `'='` cut). -/
set_option linter.unusedSimpArgs false

namespace Rie.Env
open Rie.Gen.EnvKeys

/-! ### maps -/

theorem lookup_cons_ite (m : Layer) (a b k : String) :
    List.lookup k ((a, b) :: m) = if k = a then some b else List.lookup k m := by
  rw [List.lookup_cons]
  by_cases h : k = a
  · subst h; simp
  · have hb : (k == a) = false := by simp [h]
    simp only [hb, h, if_false]

theorem lookup_put (m : Layer) (k v k' : String) :
    (put m k v).lookup k' = if k' = k then some v else m.lookup k' := by
  simp only [put, lookup_cons_ite]

theorem lookup_put_self (m : Layer) (k v : String) : (put m k v).lookup k = some v := by
  simp [lookup_put]

theorem lookup_put_ne (m : Layer) (k v k' : String) (h : k' ≠ k) :
    (put m k v).lookup k' = m.lookup k' := by
  simp [lookup_put, h]

theorem lookup_union_nil (k : String) : (union []).lookup k = none := rfl

theorem lookup_union_cons (m : Layer) (ms : List Layer) (k : String) :
    (union (m :: ms)).lookup k = ((union ms).lookup k).or (m.lookup k) := by
  simp [union, List.lookup_append]

theorem firstSome_cons {α : Type} (a : Option α) (r : List (Option α)) :
    firstSome (a :: r) = a.or (firstSome r) := by
  cases a <;> simp [firstSome]

/-- `mapUnion`: the last map that defines `k` wins. -/
theorem lookup_union (ms : List Layer) (k : String) :
    (union ms).lookup k = firstSome (ms.reverse.map fun m => m.lookup k) := by
  induction ms with
  | nil => rfl
  | cons m ms ih =>
    rw [lookup_union_cons, ih]
    simp only [List.reverse_cons, List.map_append, List.map_cons, List.map_nil]
    generalize (ms.reverse.map fun m => m.lookup k) = l
    induction l with
    | nil => cases h : m.lookup k <;> simp [firstSome]
    | cons a l ihl => cases a <;> simp [firstSome, ihl]

theorem lookup_exclude (m : Layer) (c : String → Bool) (k : String) :
    (exclude m c).lookup k = if c k then none else m.lookup k := by
  induction m with
  | nil => simp [exclude]
  | cons p m ih =>
    obtain ⟨a, b⟩ := p
    simp only [exclude] at ih ⊢
    by_cases hk : k = a
    · subst hk
      by_cases hc : c k <;> simp [List.filter_cons, hc, lookup_cons_ite, ih]
    · by_cases hc : c a <;> by_cases hck : c k <;> simp [List.filter_cons, hc, hck, lookup_cons_ite, ih, hk]

theorem lookup_filter_ne (m : Layer) (a k : String) (h : k ≠ a) :
    (m.filter fun q => q.1 != a).lookup k = m.lookup k := by
  induction m with
  | nil => rfl
  | cons p m ih =>
    obtain ⟨x, y⟩ := p
    by_cases hx : x = a
    · subst hx
      simp [List.filter_cons, lookup_cons_ite, ih, h]
    · by_cases hk : k = x
      · subst hk; simp [List.filter_cons, hx, lookup_cons_ite]
      · simp [List.filter_cons, hx, lookup_cons_ite, ih, hk]

/-- the canonical form has the same content -/
theorem lookup_dedup (m : Layer) (k : String) : (dedup m).lookup k = m.lookup k := by
  induction m with
  | nil => rfl
  | cons p m ih =>
    obtain ⟨a, b⟩ := p
    have : dedup ((a, b) :: m) = (a, b) :: (dedup m).filter fun q => q.1 != a := rfl
    rw [this]
    by_cases hk : k = a
    · subst hk; simp [List.lookup_cons]
    · simp only [List.lookup_cons]
      have hb : (k == a) = false := by simp [hk]
      simp only [hb]
      rw [lookup_filter_ne _ _ _ hk, ih]

/-- … and no key twice -/
theorem dedup_nodup (m : Layer) : ((dedup m).map Prod.fst).Nodup := by
  induction m with
  | nil => simp [dedup]
  | cons p m ih =>
    obtain ⟨a, b⟩ := p
    have : dedup ((a, b) :: m) = (a, b) :: (dedup m).filter fun q => q.1 != a := rfl
    rw [this, List.map_cons, List.nodup_cons]
    constructor
    · intro hmem
      obtain ⟨q, hq, hqa⟩ := List.mem_map.1 hmem
      have := (List.mem_filter.1 hq).2
      simp [hqa] at this
    · exact (ih.sublist ((List.filter_sublist).map Prod.fst))

/-! ### which keys a layer can hold -/

def KeysIn (m : Layer) (ks : List String) : Prop := ∀ p ∈ m, p.1 ∈ ks

theorem KeysIn.lookup_none {m : Layer} {ks : List String} (h : KeysIn m ks) {k : String}
    (hk : k ∉ ks) : m.lookup k = none := by
  induction m with
  | nil => rfl
  | cons p m ih =>
    obtain ⟨a, b⟩ := p
    have ha : a ∈ ks := h (a, b) (by simp)
    have hne : k ≠ a := fun e => hk (e ▸ ha)
    simp only [List.lookup_cons]
    have hb : (k == a) = false := by simp [hne]
    simp only [hb]
    exact ih fun p hp => h p (List.mem_cons_of_mem _ hp)

theorem KeysIn.put {m : Layer} {ks : List String} (h : KeysIn m ks) {k : String} (v : String)
    (hk : k ∈ ks) : KeysIn (put m k v) ks := by
  intro p hp
  simp only [Env.put, List.mem_cons] at hp
  rcases hp with rfl | hp
  · exact hk
  · exact h p hp

theorem KeysIn.mono {m : Layer} {ks ks' : List String} (h : KeysIn m ks)
    (hs : ∀ k ∈ ks, k ∈ ks') : KeysIn m ks' := fun p hp => hs _ (h p hp)

theorem keysIn_nil (ks : List String) : KeysIn [] ks := fun _ h => by simp at h

theorem keysIn_lookupEnv (keys : List String) (proc : Layer) : KeysIn (lookupEnv keys proc) keys := by
  intro p hp
  simp only [lookupEnv, List.mem_filterMap] at hp
  obtain ⟨k, hk, h⟩ := hp
  cases hv : proc.lookup k with
  | none => simp [hv] at h
  | some v => simp [hv] at h; subst h; exact hk

theorem lookup_lookupEnv (keys : List String) (proc : Layer) (k : String) :
    (lookupEnv keys proc).lookup k = if k ∈ keys then proc.lookup k else none := by
  induction keys with
  | nil => simp [lookupEnv]
  | cons a keys ih =>
    simp only [lookupEnv, List.filterMap_cons] at ih ⊢
    by_cases hk : k = a
    · subst hk
      cases hv : proc.lookup k with
      | none =>
        simp only [Option.map_none]
        rw [ih]; simp [hv]
      | some v => simp [List.lookup_cons]
    · have hb : (k == a) = false := by simp [hk]
      cases hv : proc.lookup a with
      | none => simp only [Option.map_none]; rw [ih]; simp [hk]
      | some v => simp only [Option.map_some, List.lookup_cons, hb]; rw [ih]; simp [hk]

/-- credential keys of either mode -/
def allCredentialKeys : List String := credentialKeys ++ [cachingUriKey, cachingTokenKey]

/-- Layer invariant: every layer only holds keys of its class. -/
structure WF (e : Environment) : Prop where
  platform : KeysIn e.platform platformKeys
  runtime : KeysIn e.runtime runtimeKeys
  unreserved : KeysIn e.platformUnreserved platformUnreservedKeys
  credentials : KeysIn e.credentials allCredentialKeys

/-! side conditions on the regenerated keys (re-checked by the kernel whenever the code's key
sets change) -/
theorem apiKey_platform : apiKey ∈ platformKeys := by decide
theorem fnNameKey_platform : fnNameKey ∈ platformKeys := by decide
theorem fnVersionKey_platform : fnVersionKey ∈ platformKeys := by decide
theorem handlerKey_runtime : handlerKey ∈ runtimeKeys := by decide
theorem initHandlerKey_eq : initHandlerKey = handlerKey := by decide
theorem executionEnvKey_runtime : executionEnvKey ∈ runtimeKeys := by decide
theorem taskRootKey_runtime : taskRootKey ∈ runtimeKeys := by decide
theorem runtimeDirKey_runtime : runtimeDirKey ∈ runtimeKeys := by decide
theorem accessKeyIdKey_cred : accessKeyIdKey ∈ allCredentialKeys := by decide
theorem secretKeyKey_cred : secretKeyKey ∈ allCredentialKeys := by decide
theorem sessionTokenKey_cred : sessionTokenKey ∈ allCredentialKeys := by decide
theorem cachingUriKey_cred : cachingUriKey ∈ allCredentialKeys := by decide
theorem cachingTokenKey_cred : cachingTokenKey ∈ allCredentialKeys := by decide

theorem wf_new (proc : Layer) : WF (newEnvironment proc) :=
  ⟨keysIn_lookupEnv _ _, keysIn_lookupEnv _ _, keysIn_lookupEnv _ _, keysIn_nil _⟩

theorem wf_storeNonCredential {e : Environment} (h : WF e) (cust : Layer) (hd fn fv : String) :
    WF (storeNonCredential e cust hd fn fv) := by
  refine ⟨?_, ?_, h.unreserved, h.credentials⟩
  · simp only [storeNonCredential]
    have h1 : KeysIn (if fn = "" then e.platform else put e.platform fnNameKey fn) platformKeys := by
      split
      · exact h.platform
      · exact h.platform.put _ fnNameKey_platform
    split
    · exact h1
    · exact h1.put _ fnVersionKey_platform
  · simp only [storeNonCredential]
    split
    · exact h.runtime
    · exact h.runtime.put _ handlerKey_runtime

theorem wf_withCreds {e : Environment} (h : WF e) {c : Layer} (hc : KeysIn c allCredentialKeys) :
    WF { e with credentials := c } := ⟨h.platform, h.runtime, h.unreserved, hc⟩

theorem wf_step {e : Environment} (h : WF e) (o : Op) : WF (step e o) := by
  cases o with
  | storeRuntimeAPI a => exact ⟨h.platform.put _ apiKey_platform, h.runtime, h.unreserved, h.credentials⟩
  | setHandler v => exact ⟨h.platform, h.runtime.put _ handlerKey_runtime, h.unreserved, h.credentials⟩
  | setExecutionEnv v => exact ⟨h.platform, h.runtime.put _ executionEnvKey_runtime, h.unreserved, h.credentials⟩
  | setTaskRoot v => exact ⟨h.platform, h.runtime.put _ taskRootKey_runtime, h.unreserved, h.credentials⟩
  | setRuntimeDir v => exact ⟨h.platform, h.runtime.put _ runtimeDirKey_runtime, h.unreserved, h.credentials⟩
  | storeFromInit c hd ak sk st fn fv =>
    have hc := ((h.credentials.put ak accessKeyIdKey_cred).put sk secretKeyKey_cred).put st sessionTokenKey_cred
    exact wf_storeNonCredential (wf_withCreds h hc) _ _ _ _
  | storeFromInitCaching host port c hd fn fv tok =>
    have hc := (h.credentials.put (credentialsURI host port) cachingUriKey_cred).put tok cachingTokenKey_cred
    exact wf_storeNonCredential (wf_withCreds h hc) _ _ _ _
  | storeFromCLI vars => exact ⟨h.platform, h.runtime, h.unreserved, h.credentials⟩

theorem wf_run {e : Environment} (h : WF e) (ops : List Op) : WF (run e ops) := by
  induction ops generalizing e with
  | nil => exact h
  | cons o ops ih => exact ih (wf_step h o)

/-! ### the non-customer layers do not depend on customer maps -/

/-- the same call with an empty customer map -/
def Op.eraseCustomer : Op → Op
  | .storeFromInit _ h ak sk st fn fv => .storeFromInit [] h ak sk st fn fv
  | .storeFromInitCaching host port _ h fn fv tok => .storeFromInitCaching host port [] h fn fv tok
  | .storeFromCLI _ => .storeFromCLI []
  | o => o

/-- everything of an `Environment` except the customer layer -/
def Environment.reserved (e : Environment) : Layer × Layer × Layer × Layer × Layer × Bool × Bool :=
  (e.rapid, e.platform, e.runtime, e.platformUnreserved, e.credentials, e.runtimeAPISet, e.initEnvVarsSet)

theorem reserved_step (e e' : Environment) (o o' : Op) (h : e.reserved = e'.reserved)
    (ho : o.eraseCustomer = o'.eraseCustomer) : (step e o).reserved = (step e' o').reserved := by
  simp only [Environment.reserved, Prod.mk.injEq] at h
  obtain ⟨h1, h2, h3, h4, h5, h6, h7⟩ := h
  cases o <;> cases o' <;> simp only [Op.eraseCustomer, reduceCtorEq, Op.storeRuntimeAPI.injEq,
    Op.setHandler.injEq, Op.setExecutionEnv.injEq, Op.setTaskRoot.injEq, Op.setRuntimeDir.injEq,
    Op.storeFromInit.injEq, Op.storeFromInitCaching.injEq, Op.storeFromCLI.injEq] at ho <;>
    simp_all [step, storeNonCredential, Environment.reserved]

theorem reserved_run (e e' : Environment) (ops ops' : List Op) (h : e.reserved = e'.reserved)
    (ho : ops.map Op.eraseCustomer = ops'.map Op.eraseCustomer) :
    (run e ops).reserved = (run e' ops').reserved := by
  induction ops generalizing e e' ops' with
  | nil =>
    cases ops' with
    | nil => exact h
    | cons _ _ => simp at ho
  | cons o ops ih =>
    cases ops' with
    | nil => simp at ho
    | cons o' ops' =>
      simp only [List.map_cons, List.cons.injEq] at ho
      exact ih (step e o) (step e' o') ops' (reserved_step e e' o o' h ho.1) ho.2

/-! ### the address survives every later call that is not `StoreRuntimeAPIEnvironmentVariable` -/

def Op.isStoreAPI : Op → Bool
  | .storeRuntimeAPI _ => true
  | _ => false

theorem fnNameKey_ne_api : apiKey ≠ fnNameKey := by decide
theorem fnVersionKey_ne_api : apiKey ≠ fnVersionKey := by decide

theorem api_step (e : Environment) (o : Op) (ho : o.isStoreAPI = false) :
    (step e o).platform.lookup apiKey = e.platform.lookup apiKey := by
  cases o <;> simp only [Op.isStoreAPI, reduceCtorEq] at ho <;> simp only [step, storeNonCredential]
  all_goals
    repeat' split
    all_goals simp [lookup_put_ne, fnNameKey_ne_api, fnVersionKey_ne_api]

theorem api_run (e : Environment) (ops : List Op) (ho : ∀ o ∈ ops, o.isStoreAPI = false) :
    (run e ops).platform.lookup apiKey = e.platform.lookup apiKey := by
  induction ops generalizing e with
  | nil => rfl
  | cons o ops ih =>
    simp only [run, List.foldl_cons]
    have := ih (step e o) fun o' h' => ho o' (List.mem_cons_of_mem _ h')
    simp only [run] at this
    rw [this, api_step e o (ho o (by simp))]

/-! ### the `'='` cut -/

theorem splitChars_append (k v : List Char) (hk : '=' ∉ k) :
    splitChars (k ++ '=' :: v) = some (k, v) := by
  induction k with
  | nil => simp [splitChars]
  | cons c k ih =>
    have hc : c ≠ '=' := fun e => hk (by simp [e])
    have hk' : '=' ∉ k := fun h => hk (List.mem_cons_of_mem _ h)
    simp [splitChars, hc, ih hk']

/-- whatever the cut returns re-assembles to the input, and the key part has no `'='` -/
theorem splitChars_sound (s k v : List Char) (h : splitChars s = some (k, v)) :
    s = k ++ '=' :: v ∧ '=' ∉ k := by
  induction s generalizing k with
  | nil => simp [splitChars] at h
  | cons c cs ih =>
    simp only [splitChars] at h
    split at h
    · next hc => simp at h; obtain ⟨rfl, rfl⟩ := h; simp [hc]
    · next hc =>
      cases hs : splitChars cs with
      | none => simp [hs] at h
      | some kv =>
        obtain ⟨k', v'⟩ := kv
        simp [hs] at h
        obtain ⟨rfl, rfl⟩ := h
        obtain ⟨h1, h2⟩ := ih k' hs
        refine ⟨by simp [h1], ?_⟩
        intro hm
        simp only [List.mem_cons] at hm
        rcases hm with hm | hm
        · exact hc hm.symm
        · exact h2 hm

theorem splitChars_none (s : List Char) : splitChars s = none ↔ '=' ∉ s := by
  induction s with
  | nil => simp [splitChars]
  | cons c cs ih =>
    simp only [splitChars]
    split
    · next hc => simp [hc]
    · next hc =>
      cases hs : splitChars cs with
      | none =>
        have := ih.1 hs
        simp [this, Ne.symm hc]
      | some kv =>
        have : ¬ ('=' ∉ cs) := fun h => by simp [ih.2 h] at hs
        simp at this
        simp [this]

end Rie.Env
