import Rie.Proofs.SysBarrier2

/-!
Whole-run invariant of the init events (C15): over any run, the number of init-start events emitted
equals the number of init-report events plus one while an initialisation is in progress (the
orchestrator is at one of its three init waits) — every initialisation that has ended has emitted
exactly one report — and init-runtime-done events never outnumber the reports.

The three event kinds are their own constructor of `Out` (`Out.ev`), so counting them involves no
text. Method as before: a frame relation `EE` (event counts of the current op's output and "an init
is in progress" unchanged) for every model function; `startInit`, `initFinish`/`initTailEvents` and
the orchestrator moves are the ones that change them.
-/
namespace Rie.Sys
open Rie.SM

/-- how many events of kind `k` the list holds -/
def evk (o : List Out) (k : EvKind) : Nat := (o.filter fun x => match x with | .ev k' _ => k' == k | _ => false).length

@[simp] theorem evk_nil (k : EvKind) : evk [] k = 0 := rfl
@[simp] theorem evk_append (a b : List Out) (k : EvKind) : evk (a ++ b) k = evk a k + evk b k := by
  simp [evk, List.filter_append]
@[simp] theorem evk_line (e : String) (k : EvKind) : evk [.line e] k = 0 := rfl
@[simp] theorem evk_caller (c : Nat) (e b : String) (k : EvKind) : evk [.caller c e b] k = 0 := rfl
theorem evk_ev (k' : EvKind) (r : String) (k : EvKind) : evk [.ev k' r] k = if k' == k then 1 else 0 := by
  simp only [evk, List.filter_cons, List.filter_nil]; split <;> rfl

def inInit : OrchPC → Bool
  | .iAwaitRegistered _ | .iAwaitRestoreReady _ | .iAwaitAgentsReady _ => true
  | _ => false

/-- the three counts of the current op's output, and whether an init is in progress, unchanged -/
abbrev EE (s s' : State) : Prop :=
  evk s'.out .initStart = evk s.out .initStart ∧ evk s'.out .initReport = evk s.out .initReport ∧
  evk s'.out .initRuntimeDone = evk s.out .initRuntimeDone ∧ inInit s'.orch = inInit s.orch ∧ evk s'.out .initStart = evk s.out .initStart

macro "ee_simp" : tactic => `(tactic| simp [EE, State.emit, State.emitCaller, setProc, setAgent, reply, setFlight, release, idsSet,
  finishFlight, disarmShutdownTimers, restoreDoneEvent, cancelInitFlow])

theorem EE.trans' {a b c : State} (h1 : EE a b) (h2 : EE b c) : EE a c :=
  ⟨h2.1.trans h1.1, h2.2.1.trans h1.2.1, h2.2.2.1.trans h1.2.2.1, h2.2.2.2.1.trans h1.2.2.2.1, h2.2.2.2.2.trans h1.2.2.2.2⟩

macro "ee_tac" : tactic => `(tactic| (splits <;> simp_all [EE]))

@[simp] theorem ee_emit (s : State) (e : String) : EE s (s.emit e) := (by ee_simp)
@[simp] theorem ee_emitCaller (s : State) (c : Nat) (e b : String) : EE s (s.emitCaller c e b) := (by ee_simp)
@[simp] theorem ee_storeFatal (s : State) (t : String) : EE s (storeFatal s t) := by unfold storeFatal; ee_tac
@[simp] theorem ee_cancelFlows (s : State) (e : CErr) : EE s (cancelFlows s e) := by unfold cancelFlows; splits <;> simp [EE, Latch.cancel]
@[simp] theorem ee_cancelInitFlow (s : State) (e : CErr) : EE s (cancelInitFlow s e) := by simp [EE, cancelInitFlow, Latch.cancel]
/-- every flow call except the arrival of a registering external extension -/
theorem ee_flowCall (s : State) (f : FlowCall) (hf : f ≠ .initAgentReady) : EE s (flowCall s f).1 := by
  cases f <;> first | exact absurd rfl hf | simp [EE, flowCall, cancelInitFlow, Latch.cancel]
@[simp] theorem ee_setProc (s : State) (p : Proc) : EE s (setProc s p) := (by ee_simp)
@[simp] theorem ee_setAgent (s : State) (a : Agent) : EE s (setAgent s a) := (by ee_simp)
@[simp] theorem ee_addPending (s : State) (a c : String) : EE s (addPending s a c) := by unfold addPending; ee_tac
@[simp] theorem ee_answer (s : State) (a c r : String) : EE s (answer s a c r) := by unfold answer; ee_tac
@[simp] theorem ee_reply (s : State) (a c r : String) : EE s (reply s a c r) := (by ee_simp)
@[simp] theorem ee_setFlight (s : State) (f : Flight) : EE s (setFlight s f) := (by ee_simp)
@[simp] theorem ee_release (s : State) : EE s (release s) := (by ee_simp)
@[simp] theorem ee_idsSet (s : State) (n : String) (k : Nat) : EE s (idsSet s n k) := (by ee_simp)
@[simp] theorem ee_sendReply (s : State) (k : Nat) (b : String) : EE s (sendReply s k b).1 := by
  unfold sendReply; splits <;> simp_all [EE]

theorem ee_runRtInstrs (s : State) (cur : RtState) (is : List (Instr RtState))
    (hf : FlowCall.initAgentReady ∉ flowsOf is) : EE s (runRtInstrs s cur is).1 := by
  induction is generalizing s cur with
  | nil => simp [EE, runRtInstrs]
  | cons i is ih =>
    cases i with
    | set x => exact ih s x (by simpa [flowsOf] using hf)
    | flow f chk =>
      have hf1 : f ≠ .initAgentReady := by intro e; apply hf; simp [flowsOf, e]
      have hf2 : FlowCall.initAgentReady ∉ flowsOf is := by intro e; apply hf; simp [flowsOf, e]
      simp only [runRtInstrs]
      split
      · exact ee_flowCall s f hf1
      · exact EE.trans' (ee_flowCall s f hf1) (ih _ _ hf2)
    | suspend ok nx => simp [EE, runRtInstrs]
    | subscribe es => exact ih s cur (by simpa [flowsOf] using hf)
    | setErrType => exact ih s cur (by simpa [flowsOf] using hf)

theorem ee_runRt_of {s s' : State} {st : RtState} {c : RtCall} {is : List (Instr RtState)} {x : RtState × Err × Option Park}
    (hp : rtProg st c = some is) (h : runRtInstrs s st is = (s', x)) : EE s s' := by
  have := ee_runRtInstrs s st is (rtProg_noAgFlow st c is hp); rw [h] at this; exact this
theorem ee_sendReply_of {s s' : State} {k : Nat} {b : String} {r : SendRes} (h : sendReply s k b = (s', r)) : EE s s' := by
  have := ee_sendReply s k b; rw [h] at this; exact this

macro "ee_tac2" : tactic => `(tactic| (splits <;>
  (try have hSR := ee_sendReply_of (by assumption)) <;>
  (try have hRT := ee_runRt_of (by assumption) (by assumption)) <;> simp_all [EE]))

@[simp] theorem ee_rtCallBlocking (s : State) (call : String) (c : RtCall) : EE s (rtCallBlocking s call c) := by
  unfold rtCallBlocking; ee_tac2
theorem ee_wakeRt {s s' : State} (h : wakeRt s = some s') : EE s s' := by
  unfold wakeRt at h; split at h <;> simp at h
  rename_i hrt
  split at h <;> (simp at h; subst h; simp [EE, hrt])
@[simp] theorem ee_rtDeliver (s : State) (call : String) (k : Nat) (b : String) (o : Option Nat) : EE s (rtDeliver s call k b o) := by
  unfold rtDeliver; ee_tac2
@[simp] theorem ee_rtResponse (s : State) (idk : Option Nat) (size : Nat) (h : String) (bad : Bool) : EE s (rtResponse s idk size h bad) := by
  unfold rtResponse; ee_tac2
@[simp] theorem ee_rtError (s : State) (idk : Option Nat) (et : String) : EE s (rtError s idk et) := by
  unfold rtError; ee_tac2
@[simp] theorem ee_rtInitError (s : State) (et : String) : EE s (rtInitError s et) := by
  unfold rtInitError; ee_tac2
@[simp] theorem ee_rtRestoreError (s : State) (et : String) : EE s (rtRestoreError s et) := by
  unfold rtRestoreError; ee_tac2
@[simp] theorem ee_rtCreds (s : State) (tok : String) : EE s (rtCreds s tok) := by unfold rtCreds; ee_tac

theorem ee_runAgInstrs (et : String) (s : State) (a : Agent) (is : List (Instr ExtState))
    (hf : FlowCall.initAgentReady ∉ flowsOf is) : EE s (runAgInstrs et s a is).1 := by
  induction is generalizing s a with
  | nil => simp [EE, runAgInstrs]
  | cons i is ih =>
    cases i with
    | set x => exact ih s _ (by simpa [flowsOf] using hf)
    | flow f chk =>
      have hf1 : f ≠ .initAgentReady := by intro e; apply hf; simp [flowsOf, e]
      have hf2 : FlowCall.initAgentReady ∉ flowsOf is := by intro e; apply hf; simp [flowsOf, e]
      simp only [runAgInstrs]
      exact EE.trans' (ee_flowCall s f hf1) (ih _ _ hf2)
    | suspend ok nx => simp [EE, runAgInstrs]
    | subscribe es => exact ih s _ (by simpa [flowsOf] using hf)
    | setErrType => exact ih s _ (by simpa [flowsOf] using hf)


theorem ee_foldl_emit {α : Type} (l : List α) (f : α → String) (s : State) : EE s (l.foldl (fun s a => s.emit (f a)) s) := by
  induction l generalizing s with
  | nil => exact (by ee_simp)
  | cons a l ih => simp only [List.foldl_cons]; exact EE.trans' (ee_emit s (f a)) (ih _)

@[simp] theorem ee_die (s : State) (full st : String) (z : Bool) : EE s (die s full st z) := by
  unfold die
  split
  · exact (by ee_simp)
  · split
    · exact (by ee_simp)
    · dsimp only
      exact EE.trans' (b := { (setProc s _).emit _ with pending := _, exitQueue := _ }) (by ee_simp) (ee_foldl_emit _ _ _)
@[simp] theorem ee_supKill (s : State) (full : String) : EE s (supKill s full) := by unfold supKill; ee_tac
@[simp] theorem ee_supTerm (s : State) (full : String) : EE s (supTerm s full) := by unfold supTerm; ee_tac
@[simp] theorem ee_disarm (s : State) : EE s (disarmShutdownTimers s) := (by ee_simp)
@[simp] theorem ee_resetTail (s : State) (n : Nat) : EE s (resetTail s n) := by unfold resetTail; ee_tac
@[simp] theorem ee_requestReset (s : State) (r : String) (n : Nat) : EE s (requestReset s r n) := by
  unfold requestReset
  have := ee_cancelFlows { s with resv := s.resv.map fun r => { r with resetStarted := true } } .reset
  exact ⟨this.1, this.2.1, this.2.2.1, this.2.2.2.1, this.2.2.2.2⟩
@[simp] theorem ee_finishFlight (s : State) (f : Flight) (e : String) : EE s (finishFlight s f e) := (by ee_simp)
@[simp] theorem ee_fastInvoke (s : State) (f : Flight) : EE s (fastInvoke s f) := by unfold fastInvoke; ee_tac
@[simp] theorem ee_startServerInit (s : State) : EE s (startServerInit s) := by unfold startServerInit; ee_tac
@[simp] theorem ee_restoreDoneEvent (s : State) (ok : Bool) : EE s (restoreDoneEvent s ok) := (by ee_simp)
@[simp] theorem ee_handleRestore (s : State) (key : String) : EE s (handleRestore s key) := by unfold handleRestore; ee_tac
@[simp] theorem ee_restoreFinish (s : State) (e : Option String) : EE s (restoreFinish s e) := by unfold restoreFinish; ee_tac

def EEO (s : State) (o : Option State) : Prop := ∀ s', o = some s' → EE s s'
@[simp] theorem eeO_none (s : State) : EEO s none := by intro s' h; cases h
@[simp] theorem eeO_some (s x : State) : EEO s (some x) ↔ EE s x := by
  constructor
  · intro h; exact h x rfl
  · intro h s' e; cases e; exact h
theorem eeO_flightMove (s : State) (f : Flight) : EEO s (flightMove s f) := by unfold flightMove; splits <;> simp_all [EE]
theorem eeO_restoreResume (s : State) : EEO s (restoreResume s) := by unfold restoreResume; splits <;> simp_all [EE]
theorem eeO_killMove (s : State) : EEO s (killMove s) := by unfold killMove; splits <;> simp_all [EE]



/-! ### programs, unconditionally -/

theorem ee_flowCall' (s : State) (f : FlowCall) : EE s (flowCall s f).1 := by
  cases f <;> simp [EE, flowCall, cancelInitFlow, Latch.cancel]

theorem ee_runAgInstrs' (et : String) (s : State) (a : Agent) (is : List (Instr ExtState)) : EE s (runAgInstrs et s a is).1 := by
  induction is generalizing s a with
  | nil => simp [EE, runAgInstrs]
  | cons i is ih =>
    cases i with
    | set x => exact ih s _
    | flow f chk => simp only [runAgInstrs]; exact EE.trans' (ee_flowCall' s f) (ih _ _)
    | suspend ok nx => simp [EE, runAgInstrs]
    | subscribe es => exact ih s _
    | setErrType => exact ih s _

theorem ee_runAg_of {et : String} {s s1 : State} {a a1 : Agent} {is : List (Instr ExtState)} {p : Bool}
    (h : runAgInstrs et s a is = (s1, a1, p)) : EE s s1 := by
  have := ee_runAgInstrs' et s a is; rw [h] at this; exact this

/-! ### the invariant -/

/-- `c` = (init-starts, init-reports, init-runtime-dones) emitted before the current op -/
structure EInv (c : Nat × Nat × Nat) (s : State) : Prop where
  bal : c.1 + evk s.out .initStart = c.2.1 + evk s.out .initReport + (if inInit s.orch then 1 else 0)
  rtd : c.2.2 + evk s.out .initRuntimeDone ≤ c.2.1 + evk s.out .initReport

theorem einv_of_ee {c : Nat × Nat × Nat} {s s' : State} (h : EE s s') (i : EInv c s) : EInv c s' := by
  obtain ⟨h1, h2, h3, h4, _⟩ := h
  exact ⟨by rw [h1, h2, h4]; exact i.bal, by rw [h3, h2]; exact i.rtd⟩

/-- counts unchanged, and afterwards no init is in progress -/
abbrev EN (s s' : State) : Prop :=
  evk s'.out .initStart = evk s.out .initStart ∧ evk s'.out .initReport = evk s.out .initReport ∧
  evk s'.out .initRuntimeDone = evk s.out .initRuntimeDone ∧ inInit s'.orch = false

theorem einv_of_en {c : Nat × Nat × Nat} {s s' : State} (h : EN s s') (hn : inInit s.orch = false) (i : EInv c s) : EInv c s' := by
  obtain ⟨h1, h2, h3, h4⟩ := h
  have := i.bal; rw [hn] at this
  exact ⟨by rw [h1, h2, h4]; exact this, by rw [h3, h2]; exact i.rtd⟩

theorem EN.of_ee_en {a b c : State} (h1 : EE a b) (h2 : EN b c) : EN a c :=
  ⟨h2.1.trans h1.1, h2.2.1.trans h1.2.1, h2.2.2.1.trans h1.2.2.1, h2.2.2.2⟩

theorem en_invokeReturned (s : State) (ok rr : Bool) (et : String) : EN s (invokeReturned s ok rr et) := by
  unfold invokeReturned
  splits <;> (try have hSR := ee_sendReply_of (by assumption)) <;> simp_all [EN, EE, inInit]

theorem en_invokeFail (s : State) (e : Option CErr) : EN s (invokeFail s e) := by
  unfold invokeFail; exact en_invokeReturned _ _ _ _

theorem en_continueInvoke (s : State) : EN s (continueInvoke s) := by
  unfold continueInvoke
  splits
  · simp [EN, inInit]
  · refine EN.of_ee_en ?_ (en_invokeFail _ _); simp [EE, State.emit]
  · simp [EN, inInit, State.emit]

theorem evk_foldl_emit {α : Type} (l : List α) (f : α → String) (s : State) (k : EvKind) :
    evk (l.foldl (fun s a => s.emit (f a)) s).out k = evk s.out k := by
  induction l generalizing s with
  | nil => rfl
  | cons a l ih => simp only [List.foldl_cons]; rw [ih]; simp [State.emit]

/-- the tail of an init: exactly one report, at most one runtime-done, no start -/
theorem evk_initTailEvents (s : State) (ph : Phase) (st : String) :
    evk (initTailEvents s ph st).out .initStart = evk s.out .initStart ∧
    evk (initTailEvents s ph st).out .initReport = evk s.out .initReport + 1 ∧
    evk (initTailEvents s ph st).out .initRuntimeDone ≤ evk s.out .initRuntimeDone + 1 := by
  unfold initTailEvents
  dsimp only
  generalize hs1 : (if s.rtDoneReg = true then s.emitEv _ _ else s) = s1
  have h0 : evk s1.out .initStart = evk s.out .initStart ∧ evk s1.out .initReport = evk s.out .initReport ∧
      evk s1.out .initRuntimeDone ≤ evk s.out .initRuntimeDone + 1 := by
    rw [← hs1]; split <;> simp [State.emitEv, evk_ev]
  refine ⟨?_, ?_, ?_⟩
  · simp only [State.emitEv, evk_append, evk_ev, evk_foldl_emit]; simp [h0.1]
  · simp only [State.emitEv, evk_append, evk_ev, evk_foldl_emit]; simp [h0.2.1]
  · simp only [State.emitEv, evk_append, evk_ev, evk_foldl_emit]; simpa using h0.2.2

/-- finishing an init that owes its report: afterwards nothing is owed and no init is in progress -/
theorem einv_initFinish {c : Nat × Nat × Nat} (s : State) (ph : Phase) (ok : Bool) (st : String) (e : Option CErr)
    (hb : c.1 + evk s.out .initStart = c.2.1 + evk s.out .initReport + 1)
    (hr : c.2.2 + evk s.out .initRuntimeDone ≤ c.2.1 + evk s.out .initReport) : EInv c (initFinish s ph ok st e) := by
  obtain ⟨t1, t2, t3⟩ := evk_initTailEvents s ph st
  have key : ∀ s' : State, EN (initTailEvents s ph st) s' → EInv c s' := by
    intro s' h
    obtain ⟨h1, h2, h3, h4⟩ := h
    refine ⟨?_, ?_⟩
    · rw [h1, h2, h4, t1, t2]; simp; omega
    · rw [h3, h2, t2]; omega
  unfold initFinish
  dsimp only
  splits
  · apply key; simp [EN, inInit]
  · apply key; simp [EN, inInit]
  · apply key; refine EN.of_ee_en ?_ (en_continueInvoke _); simp [EE]
  · apply key; refine EN.of_ee_en ?_ (en_invokeFail _ _); simp [EE, State.emit]
  · apply key; simp [EN, inInit]

@[simp] theorem storeFatal_out (s : State) (t : String) : (storeFatal s t).out = s.out := by unfold storeFatal; split <;> rfl
@[simp] theorem setAgent_out (s : State) (a : Agent) : (setAgent s a).out = s.out := rfl

theorem einv_launchExtensions {c : Nat × Nat × Nat} (s : State) (ph : Phase) (ps : List String)
    (hb : c.1 + evk s.out .initStart = c.2.1 + evk s.out .initReport + 1)
    (hr : c.2.2 + evk s.out .initRuntimeDone ≤ c.2.1 + evk s.out .initReport) : EInv c (launchExtensions s ph ps) := by
  induction ps generalizing s with
  | nil =>
    show EInv c { s with orch := .iAwaitRegistered ph }
    exact ⟨by simpa [inInit] using hb, hr⟩
  | cons p ps ih =>
    unfold launchExtensions
    split
    · exact einv_initFinish _ _ _ _ _ hb hr
    · dsimp only
      split
      · apply einv_initFinish <;> simpa using (by assumption)
      · split
        · apply einv_initFinish
          · simpa [State.emit] using hb
          · simpa [State.emit] using hr
        · apply ih
          · simpa [State.emit] using hb
          · simpa [State.emit] using hr

theorem einv_startInit {c : Nat × Nat × Nat} (s : State) (ph : Phase) (i : EInv c s) (hn : inInit s.orch = false) : EInv c (startInit s ph) := by
  have hb := i.bal; rw [hn] at hb; simp at hb
  unfold startInit
  dsimp only
  splits
  · apply einv_initFinish
    · simp [State.emitEv, evk_ev]; omega
    · simpa [State.emitEv, evk_ev] using i.rtd
  · apply einv_launchExtensions
    · simp [State.emitEv, evk_ev]; omega
    · simpa [State.emitEv, evk_ev] using i.rtd

/-! ### the API handlers and the watcher: no init event, no orchestrator move -/

macro "ee_tac3" : tactic => `(tactic| (splits <;> (try have hAG := ee_runAg_of (by assumption)) <;> simp_all [EE]))

theorem ee_agNext (s : State) (n m : String) : EE s (agNext s n m) := by
  unfold agNext; ee_tac3

theorem ee_agReport (s : State) (n c e m : String) : EE s (agReport s n c e m) := by
  unfold agReport
  splits <;> (try have hAG2 := ee_runAgInstrs' e s ‹Agent› ‹List (Instr ExtState)›) <;> simp_all [EE]

theorem ee_agRegister (s : State) (n : String) (es : List Ev) (v : String) : EE s (agRegister s n es v) := by
  unfold agRegister
  splits <;> (try have hAG := ee_runAg_of (by assumption)) <;>
    (try have hAG2 := ee_runAgInstrs' "" s ‹Agent› ‹List (Instr ExtState)›) <;>
    (try have hAG3 := ee_runAgInstrs' "" { s with nextSerial := s.nextSerial + 1 } { name := n, ext := false, serial := s.nextSerial } ‹List (Instr ExtState)›) <;>
    simp_all [EE]

theorem eeO_wakeAgent (l : Bool) (s : State) : EEO s (wakeAgent l s) := by
  unfold wakeAgent; splits <;> simp_all [EE]
theorem eeO_renderWoken (l : Bool) (s : State) : EEO s (renderWoken l s) := by
  unfold renderWoken; splits <;> simp_all [EE]

theorem ee_watchOne (s : State) (full : String) (z : Bool) : EE s (watchOne s full z) := by
  unfold watchOne
  dsimp only
  generalize hs1 : (if (!s.shuttingDown) = true then
      (storeFatal s (if (full == rtFull s) = true then "Runtime.ExitError" else "Extension.Crash"), CErr.procExit)
    else (s, CErr.nilErr)) = r
  have hr : EE s r.1 := by rw [← hs1]; split <;> simp [EE]
  obtain ⟨s1, e1⟩ := r
  dsimp only at hr ⊢
  clear hs1
  generalize hs2 : (if s1.awaitingExit.contains full = true then _ else s1) = s2
  have h2 : EE s1 s2 := by
    rw [← hs2]
    splits <;> first
      | (simp [EE]; done)
      | exact EE.trans' (ee_runAgInstrs' "" s1 ‹Agent› ‹List (Instr ExtState)›) (ee_setAgent _ _)
  clear hs2
  refine EE.trans' hr (EE.trans' h2 ?_)
  splits <;> simp [EE]

def EInvO (c : Nat × Nat × Nat) (o : Option State) : Prop := ∀ s', o = some s' → EInv c s'
@[simp] theorem einvO_none {c : Nat × Nat × Nat} : EInvO c none := by intro s' h; cases h
@[simp] theorem einvO_some {c : Nat × Nat × Nat} (x : State) : EInvO c (some x) ↔ EInv c x := by
  constructor
  · intro h; exact h x rfl
  · intro h s' e; cases e; exact h
theorem EInvO.of_eeO {c : Nat × Nat × Nat} {s : State} {o : Option State} (i : EInv c s) (he : EEO s o) : EInvO c o := by
  intro s' e; exact einv_of_ee (he s' e) i

/-- the orchestrator: an init wait leads to the next init wait or to the end of the init; an invoke
    wait leads to an invoke wait or to the end of the invocation -/
theorem einvO_orchResume {c : Nat × Nat × Nat} (s : State) (i : EInv c s) : EInvO c (orchResume s) := by
  unfold orchResume
  split
  · exact einvO_none
  · -- iAwaitRegistered
    rename_i ph horch
    have hb := i.bal; rw [horch] at hb; simp [inInit] at hb
    dsimp only
    splits <;> first
      | exact einvO_none
      | (rw [einvO_some]; first
          | exact einv_initFinish _ _ _ _ _ hb i.rtd
          | exact ⟨by simpa [State.emit, inInit] using hb, by simpa [State.emit] using i.rtd⟩)
  · -- iAwaitRestoreReady
    rename_i ph horch
    have hb := i.bal; rw [horch] at hb; simp [inInit] at hb
    dsimp only
    splits <;> first
      | exact einvO_none
      | (rw [einvO_some]; first
          | exact einv_initFinish _ _ _ _ _ hb i.rtd
          | (apply einv_initFinish <;> simpa using (by assumption))
          | exact ⟨by simpa [inInit] using hb, by simpa using i.rtd⟩)
  · -- iAwaitAgentsReady
    rename_i ph horch
    have hb := i.bal; rw [horch] at hb; simp [inInit] at hb
    dsimp only
    splits <;> first
      | exact einvO_none
      | (rw [einvO_some]; first
          | exact einv_initFinish _ _ _ _ _ hb i.rtd
          | (apply einv_initFinish <;> simpa using (by assumption)))
  all_goals first
   | exact einvO_none
   | (
    rename_i horch
    have hn : inInit s.orch = false := by rw [horch]; rfl
    splits <;> first
      | exact einvO_none
      | (rw [einvO_some]; first
          | exact einv_of_en (en_invokeFail _ _) hn i
          | exact einv_of_en (en_invokeReturned _ _ _ _) hn i
          | (refine einv_of_en ?_ hn i; refine EN.of_ee_en ?_ (en_invokeReturned _ _ _ _); simp [EE, State.emit])
          | (refine einv_of_en ?_ hn i; simp [EN, inInit, State.emit])))

/-! ### shutdown and reset: no init event; afterwards no init is in progress -/

theorem ee_shutdownOne (s : State) (a : Agent) : EE s (shutdownOne s a) := by
  unfold shutdownOne; splits <;> simp [EE]

theorem ee_foldl_shutdownOne (l : List Agent) (s : State) : EE s (l.foldl shutdownOne s) := by
  induction l generalizing s with
  | nil => simp [EE]
  | cons a l ih => simp only [List.foldl_cons]; exact EE.trans' (ee_shutdownOne s a) (ih _)

theorem en_shutdownAgents (s : State) (k : ShutKind) : EN s (shutdownAgents s k) := by
  unfold shutdownAgents
  dsimp only
  have h := ee_foldl_shutdownOne (s.agents.filter (·.ext)) { s with renderer := .shutdown (reasonOf k), awaitingExit := [], agentWaits := [] }
  exact ⟨h.1, h.2.1, h.2.2.1, rfl⟩

theorem en_shutdownBody (s : State) (k : ShutKind) : EN s (shutdownBody s k) := by
  unfold shutdownBody
  splits <;> (try dsimp only) <;> first
    | (simp [EN, enterGrace, inInit, supKill]; done)
    | (have h := ee_supKill s ‹Proc›.full; exact ⟨h.1, h.2.1, h.2.2.1, by simp [enterGrace, inInit]⟩)
    | (have h := ee_supTerm s (rtFull s); exact ⟨h.1, h.2.1, h.2.2.1, by simp [inInit]⟩)
    | (simp [EN, inInit]; done)
    | exact en_shutdownAgents _ _

theorem en_beginShutdown (s : State) (k : ShutKind) : EN s (beginShutdown s k) := by
  unfold beginShutdown
  exact EN.of_ee_en (by simp [EE]) (en_shutdownBody _ k)

theorem en_finishShutdown (s : State) (k : ShutKind) (n : Nat) : EN s (finishShutdown s k n) := by
  unfold finishShutdown
  dsimp only
  splits <;> simp [EN, afterReset, disarmShutdownTimers, inInit, State.emit]

theorem ee_foldl_waits (l : List String) (acc : State × List String) :
    EE acc.1 (l.foldl (fun (acc : State × List String) full =>
      match procByFull acc.1 full with
      | some p => if p.chanClosed then acc
                  else if acc.1.agDeadlineFired then (supKill acc.1 full, acc.2)
                  else (acc.1, acc.2 ++ [full])
      | none => acc) acc).1 := by
  induction l generalizing acc with
  | nil => simp [EE]
  | cons x xs ih =>
    simp only [List.foldl_cons]
    refine EE.trans' ?_ (ih _)
    splits <;> simp [EE]

theorem einvO_shutResume {c : Nat × Nat × Nat} (s : State) (n : Nat) (i : EInv c s) : EInvO c (shutResume s n) := by
  unfold shutResume
  split
  · rename_i k horch
    have hn : inInit s.orch = false := by rw [horch]; rfl
    splits <;> first
      | exact einvO_none
      | (rw [einvO_some]; first
          | exact einv_of_en (en_shutdownAgents _ _) hn i
          | exact einv_of_en (EN.of_ee_en (ee_supKill _ _) (en_shutdownAgents _ _)) hn i)
  · rename_i k horch
    have hn : inInit s.orch = false := by rw [horch]; rfl
    have hw := ee_foldl_waits s.agentWaits (s, [])
    dsimp only at hw ⊢
    generalize (List.foldl _ (s, []) s.agentWaits) = r at hw ⊢
    obtain ⟨s1, still⟩ := r
    dsimp only at hw ⊢
    have i1 : EInv c s1 := einv_of_ee hw i
    have hn1 : inInit s1.orch = false := by rw [hw.2.2.2.1]; exact hn
    splits <;> first
      | exact einvO_none
      | (rw [einvO_some]; refine einv_of_en ?_ hn1 i1; simp [EN, enterGrace, inInit]; done)
      | (rw [einvO_some]; refine einv_of_ee ?_ i1; simp [EE]; done)
  · rename_i k horch
    have hn : inInit s.orch = false := by rw [horch]; rfl
    splits <;> first
      | exact einvO_none
      | (rw [einvO_some]; first
          | exact einv_of_en (en_finishShutdown _ _ _) hn i
          | exact einv_of_en (EN.of_ee_en (by simp [EE]) (en_finishShutdown _ _ _)) hn i)
  · exact einvO_none

theorem einv_startHandler {c : Nat × Nat × Nat} (s : State) (r : HReq) (i : EInv c s) (hidle : s.orch = .idle) : EInv c (startHandler s r) := by
  have hn : inInit s.orch = false := by rw [hidle]; rfl
  unfold startHandler
  splits <;> first
    | (apply einv_startInit
       · exact einv_of_ee (by simp [EE]) i
       · simpa using hn)
    | exact einv_of_en (EN.of_ee_en (by simp [EE]) (en_continueInvoke _)) hn i
    | exact einv_of_en (EN.of_ee_en (by simp [EE, State.emit]) (en_beginShutdown _ _)) hn i
    | (refine einv_of_en (EN.of_ee_en ?_ (en_beginShutdown _ _)) hn i; splits <;> simp [EE, State.emit])

theorem einvO_orElse' {c : Nat × Nat × Nat} {a y : Option State} (ha : EInvO c a) (hb : EInvO c y) : EInvO c (orElse' a fun _ => y) := by
  intro s' h; unfold orElse' at h; split at h
  · exact ha _ h
  · exact hb _ h

theorem einvO_platformMove {c : Nat × Nat × Nat} (lifo : Bool) (s : State) (i : EInv c s) : EInvO c (platformMove lifo s) := by
  unfold platformMove
  refine einvO_orElse' (einvO_orchResume s i) ?_
  refine einvO_orElse' (einvO_shutResume s _ i) ?_
  refine einvO_orElse' (EInvO.of_eeO i (eeO_restoreResume s)) ?_
  split
  · rename_i r rest horch hqueue
    splits <;> first
      | exact einvO_none
      | (rw [einvO_some]; apply einv_startHandler
         · exact einv_of_ee (by simp [EE]) i
         · exact horch)
  · intro s' hs
    obtain ⟨f, _, hm⟩ := firstSome_spec _ _ _ hs
    exact EInvO.of_eeO i (eeO_flightMove s f) s' hm

theorem einvO_wakeMove {c : Nat × Nat × Nat} (l : Bool) (s : State) (i : EInv c s) : EInvO c (wakeMove l s) := by
  intro s' hs
  unfold wakeMove orElse' at hs
  split at hs
  · rename_i x hx; cases hs; exact einv_of_ee (ee_wakeRt hx) i
  · exact EInvO.of_eeO i (eeO_wakeAgent l s) s' hs

theorem einvO_progress {c : Nat × Nat × Nat} (v : Nat) (s : State) (i : EInv c s) : EInvO c (progress v s) := by
  have hp := fun l => einvO_platformMove (c := c) l s i
  have hw := fun l => einvO_wakeMove (c := c) l s i
  have hr := fun l => EInvO.of_eeO i (eeO_renderWoken l s)
  have hk := EInvO.of_eeO i (eeO_killMove s)
  unfold progress
  splits <;> first
    | exact einvO_none
    | (rw [einvO_some]; refine einv_of_ee (EE.trans' ?_ (ee_watchOne _ _ _)) i; simp [EE])
    | exact einvO_orElse' (einvO_orElse' (hw _) (einvO_orElse' (hp _) hk)) (hr _)
    | exact einvO_orElse' (einvO_orElse' (hp _) (einvO_orElse' (hw _) hk)) (hr _)
    | exact einvO_orElse' (einvO_orElse' (hp _) (einvO_orElse' hk (hw _))) (hr _)
    | exact einvO_orElse' (hr _) (einvO_orElse' (hw _) (einvO_orElse' (hp _) hk))
    | exact einvO_orElse' (hr _) (einvO_orElse' (hp _) (einvO_orElse' (hw _) hk))
    | exact einvO_orElse' (hr _) (einvO_orElse' (hp _) (einvO_orElse' hk (hw _)))

theorem einv_settle {c : Nat × Nat × Nat} (v n : Nat) (s : State) (i : EInv c s) : EInv c (settle v n s) := by
  induction n generalizing v s with
  | zero => exact i
  | succ n ih =>
    unfold settle
    split
    · exact i
    · rename_i s' hp
      exact ih _ s' (einvO_progress v s i s' hp)

theorem ee_applyOp (s : State) (o : Op) : EE s (applyOp s o) := by
  cases o with
  | register n es v => exact ee_agRegister s n es v
  | agNext n m => exact ee_agNext s n m
  | agReport n c e m => exact ee_agReport s n c e m
  | timer t => simp only [applyOp]; splits <;> simp [EE]
  | _ => simp only [applyOp]; splits <;> simp [EE]

/-- the counts carried from op to op: everything the previous ops printed -/
def addc (c : Nat × Nat × Nat) (o : List Out) : Nat × Nat × Nat :=
  (c.1 + evk o .initStart, c.2.1 + evk o .initReport, c.2.2 + evk o .initRuntimeDone)

theorem einv_step {c : Nat × Nat × Nat} (v : Nat) (s : State) (o : Op) (i : EInv c s) : EInv (addc c s.out) (step v s o) := by
  unfold step
  apply einv_settle
  apply einv_of_ee (ee_applyOp _ o)
  exact ⟨by simpa [addc, Nat.add_assoc] using i.bal, by simpa [addc] using i.rtd⟩

/-- `runE` = `run` that also carries the three counts -/
def runE : State → Nat × Nat × Nat → List (Nat × Op) → State × (Nat × Nat × Nat)
  | s, c, [] => (s, c)
  | s, c, (v, o) :: rest => runE (step v s o) (addc c s.out) rest

theorem runE_state (s : State) (c : Nat × Nat × Nat) (H : List Nat) (ops : List (Nat × Op)) : (runE s c ops).1 = (run s H ops).1 := by
  induction ops generalizing s c H with
  | nil => rfl
  | cons x rest ih => obtain ⟨v, o⟩ := x; exact ih _ _ _

theorem einv_runE {c : Nat × Nat × Nat} (s : State) (ops : List (Nat × Op)) (i : EInv c s) : EInv (runE s c ops).2 (runE s c ops).1 := by
  induction ops generalizing s c with
  | nil => exact i
  | cons x rest ih => obtain ⟨v, o⟩ := x; exact ih _ (einv_step v s o i)

end Rie.Sys
