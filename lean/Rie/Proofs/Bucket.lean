import Rie.Model.Bucket

/-! Lemmas about the token bucket model (used by `Rie.Props.C17`). -/
namespace Rie.Bucket

theorem produce_capacity (b : Bucket) : (produce b).capacity = b.capacity := by
  unfold produce; split <;> rfl

theorem produce_refill (b : Bucket) : (produce b).refill = b.refill := by
  unfold produce; split <;> rfl

theorem produce_tokens_le (b : Bucket) : (produce b).tokens ≤ b.tokens + b.refill := by
  unfold produce; split
  · simp only; omega
  · omega

/-- for a well-formed bucket one tick is `min (tokens + refill) capacity` -/
theorem produce_tokens (b : Bucket) (h : b.tokens ≤ b.capacity) :
    (produce b).tokens = min (b.tokens + b.refill) b.capacity := by
  unfold produce; split
  · rfl
  · omega

theorem produce_wf (b : Bucket) (h : b.WF) : (produce b).WF := by
  unfold Bucket.WF at *
  rw [produce_capacity, produce_refill, produce_tokens b h.2.2]
  omega

theorem consume_capacity (b : Bucket) (n : Nat) : (consume b n).1.capacity = b.capacity := by
  unfold consume; split <;> rfl

theorem consume_refill (b : Bucket) (n : Nat) : (consume b n).1.refill = b.refill := by
  unfold consume; split <;> rfl

theorem consume_ok_iff (b : Bucket) (n : Nat) : (consume b n).2 = true ↔ n ≤ b.tokens := by
  unfold consume; split <;> simp [*]

theorem consume_tokens (b : Bucket) (n : Nat) :
    (consume b n).1.tokens = if n ≤ b.tokens then b.tokens - n else b.tokens := by
  unfold consume; split <;> rfl

theorem consume_wf (b : Bucket) (n : Nat) (h : b.WF) : (consume b n).1.WF := by
  unfold Bucket.WF at *
  rw [consume_capacity, consume_refill, consume_tokens]
  split <;> omega

theorem step_capacity (s : St) (o : Op) : (step s o).b.capacity = s.b.capacity := by
  cases o
  · exact produce_capacity _
  · exact consume_capacity _ _

theorem step_refill (s : St) (o : Op) : (step s o).b.refill = s.b.refill := by
  cases o
  · exact produce_refill _
  · exact consume_refill _ _

theorem step_wf (s : St) (o : Op) (h : s.b.WF) : (step s o).b.WF := by
  cases o
  · exact produce_wf _ h
  · exact consume_wf _ _ h

theorem run_nil (s : St) : run s [] = s := rfl
theorem run_cons (s : St) (o : Op) (ops : List Op) : run s (o :: ops) = run (step s o) ops := rfl
theorem run_append (s : St) (a b : List Op) : run s (a ++ b) = run (run s a) b := by
  simp [run, List.foldl_append]

theorem run_capacity (s : St) (ops : List Op) : (run s ops).b.capacity = s.b.capacity := by
  induction ops generalizing s with
  | nil => rfl
  | cons o ops ih => rw [run_cons, ih, step_capacity]

theorem run_refill (s : St) (ops : List Op) : (run s ops).b.refill = s.b.refill := by
  induction ops generalizing s with
  | nil => rfl
  | cons o ops ih => rw [run_cons, ih, step_refill]

theorem run_wf (s : St) (ops : List Op) (h : s.b.WF) : (run s ops).b.WF := by
  induction ops generalizing s with
  | nil => exact h
  | cons o ops ih => rw [run_cons]; exact ih _ (step_wf s o h)

theorem tickCount_cons_tick (ops : List Op) : tickCount (.tick :: ops) = tickCount ops + 1 := by
  simp [tickCount]

theorem tickCount_cons_consume (n : Nat) (ops : List Op) : tickCount (.consume n :: ops) = tickCount ops := by
  simp [tickCount]

theorem run_ticks (s : St) (ops : List Op) : (run s ops).ticks = s.ticks + tickCount ops := by
  induction ops generalizing s with
  | nil => simp [run_nil, tickCount]
  | cons o ops ih =>
    rw [run_cons, ih]
    cases o
    · rw [tickCount_cons_tick]; simp only [step]; omega
    · rw [tickCount_cons_consume]; simp only [step]

/-- one step: admitted bytes + tokens in the bucket grow by at most `refill`, and only on a tick -/
theorem step_potential (s : St) (o : Op) :
    (step s o).consumed + (step s o).b.tokens ≤
      s.consumed + s.b.tokens + (if o = .tick then s.b.refill else 0) := by
  cases o with
  | tick =>
    have := produce_tokens_le s.b
    simp only [step, if_true]; omega
  | consume n =>
    simp only [step, consume]
    split <;> simp <;> omega

/-- **the inductive invariant of the rate bound**, from any state, for any schedule -/
theorem run_potential (s : St) (ops : List Op) :
    (run s ops).consumed + (run s ops).b.tokens ≤
      s.consumed + s.b.tokens + tickCount ops * s.b.refill := by
  induction ops generalizing s with
  | nil => simp [run_nil, tickCount]
  | cons o ops ih =>
    rw [run_cons]
    have h1 := ih (step s o)
    have h2 := step_potential s o
    rw [step_refill] at h1
    cases o with
    | tick =>
      rw [tickCount_cons_tick, Nat.add_mul]
      simp only [if_true] at h2
      omega
    | consume n =>
      rw [tickCount_cons_consume]
      simp at h2
      omega

theorem consumed_mono (s : St) (ops : List Op) : s.consumed ≤ (run s ops).consumed := by
  induction ops generalizing s with
  | nil => exact Nat.le_refl _
  | cons o ops ih =>
    rw [run_cons]
    refine Nat.le_trans ?_ (ih _)
    cases o
    · exact Nat.le_refl _
    · simp only [step]; split <;> omega

/-! closed form of `k` ticks -/

theorem produceN_capacity (k : Nat) (b : Bucket) : (produceN k b).capacity = b.capacity := by
  induction k generalizing b with
  | zero => rfl
  | succ k ih => simp only [produceN]; rw [ih, produce_capacity]

theorem produceN_refill (k : Nat) (b : Bucket) : (produceN k b).refill = b.refill := by
  induction k generalizing b with
  | zero => rfl
  | succ k ih => simp only [produceN]; rw [ih, produce_refill]

theorem produceN_tokens (k : Nat) (b : Bucket) (h : b.tokens ≤ b.capacity) :
    (produceN k b).tokens = min (b.tokens + k * b.refill) b.capacity := by
  induction k generalizing b with
  | zero => simp only [produceN]; omega
  | succ k ih =>
    simp only [produceN]
    have hp := produce_tokens b h
    have hc := produce_capacity b
    have hr := produce_refill b
    rw [ih (produce b) (by rw [hp, hc]; omega), hp, hc, hr, Nat.succ_mul]
    omega

theorem produceN_wf (k : Nat) (b : Bucket) (h : b.WF) : (produceN k b).WF := by
  induction k generalizing b with
  | zero => exact h
  | succ k ih => exact ih _ (produce_wf b h)

/-- `⌈d/r⌉·r ≥ d` -/
theorem ceil_mul_ge (d r : Nat) (hr : 0 < r) : d ≤ (d + r - 1) / r * r := by
  have h := Nat.div_add_mod (d + r - 1) r
  have hm := Nat.mod_lt (d + r - 1) hr
  rw [Nat.mul_comm] at h
  omega

/-- `j < ⌈d/r⌉ → j·r < d` -/
theorem lt_ceil_mul_lt (d r j : Nat) (hr : 0 < r) (hj : j < (d + r - 1) / r) : j * r < d := by
  have h := Nat.div_add_mod (d + r - 1) r
  have hm := Nat.mod_lt (d + r - 1) hr
  rw [Nat.mul_comm] at h
  have : (j + 1) * r ≤ (d + r - 1) / r * r := Nat.mul_le_mul_right r hj
  rw [Nat.add_mul] at this
  omega

/-- after `ticksNeeded` ticks a buffer of at most `capacity` bytes is admitted -/
theorem admitted_after (b : Bucket) (n : Nat) (h : b.WF) (hn : n ≤ b.capacity) :
    (consume (produceN (ticksNeeded b n) b) n).2 = true := by
  rw [consume_ok_iff, produceN_tokens _ _ h.2.2]
  have := ceil_mul_ge (n - b.tokens) b.refill h.2.1
  unfold ticksNeeded
  omega

/-- … and not earlier -/
theorem not_admitted_before (b : Bucket) (n j : Nat) (h : b.WF) (hj : j < ticksNeeded b n) :
    (consume (produceN j b) n).2 = false := by
  have hlt := lt_ceil_mul_lt (n - b.tokens) b.refill j h.2.1 hj
  have : ¬ (consume (produceN j b) n).2 = true := by
    rw [consume_ok_iff, produceN_tokens _ _ h.2.2]
    omega
  simpa using this

theorem ticksNeeded_le (b : Bucket) (n : Nat) : ticksNeeded b n ≤ (n + b.refill - 1) / b.refill := by
  unfold ticksNeeded
  apply Nat.div_le_div_right
  omega

theorem admit_some (b : Bucket) (n : Nat) (hn : n ≤ b.capacity) :
    admitOne b n = some (ticksNeeded b n, (consume (produceN (ticksNeeded b n) b) n).1) := by
  unfold admitOne
  rw [if_neg (by omega)]

theorem admit_wf (b b' : Bucket) (n k : Nat) (h : b.WF) (ha : admitOne b n = some (k, b')) :
    b'.WF ∧ b'.capacity = b.capacity ∧ b'.refill = b.refill := by
  unfold admitOne at ha
  split at ha
  · cases ha
  · simp only [Option.some.injEq, Prod.mk.injEq] at ha
    rw [← ha.2]
    refine ⟨consume_wf _ _ (produceN_wf _ _ h), ?_, ?_⟩
    · rw [consume_capacity, produceN_capacity]
    · rw [consume_refill, produceN_refill]

/-- sum of the per-buffer worst cases `⌈n/refill⌉` -/
def tickBudget (refill : Nat) : List Nat → Nat
  | [] => 0
  | n :: ns => (n + refill - 1) / refill + tickBudget refill ns

/-- **the copy terminates**: every list of buffers, each at most `capacity`, is admitted in full
    after finitely many ticks, at most `Σ ⌈nᵢ/refill⌉` -/
theorem admitAll_terminates (b : Bucket) (ns : List Nat) (h : b.WF) (hn : ∀ n ∈ ns, n ≤ b.capacity) :
    ∃ k b', admitAll b ns = some (k, b') ∧ k ≤ tickBudget b.refill ns ∧ b'.WF := by
  induction ns generalizing b with
  | nil => exact ⟨0, b, rfl, Nat.le_refl _, h⟩
  | cons n ns ih =>
    have hn0 : n ≤ b.capacity := hn n (List.mem_cons_self ..)
    have ha := admit_some b n hn0
    obtain ⟨hw, hc, hr⟩ := admit_wf b _ n _ h ha
    obtain ⟨k', b'', hall, hk, hw'⟩ := ih _ hw (fun m hm => by rw [hc]; exact hn m (List.mem_cons_of_mem _ hm))
    refine ⟨ticksNeeded b n + k', b'', ?_, ?_, hw'⟩
    · simp only [admitAll, ha, hall]
    · have := ticksNeeded_le b n
      rw [hr] at hk
      simp only [tickBudget]
      omega

/-- `refillNumber` never exceeds `rate · interval` (integer division rounds down) -/
theorem refillOf_le (rate ms : Nat) : refillOf rate ms * 1000 ≤ rate * ms := by
  unfold refillOf
  exact Nat.div_mul_le_self _ _

end Rie.Bucket
