import Rie.Model.Payload

namespace Rie.Payload

/-- what must hold of a renderer working on payload `p` -/
def Inv (max : Nat) (p : List UInt8) (r : Renderer) : Prop :=
  (r.buf = [] ∧ r.rest.take max = p.take max ∧ (r.rest = p ∨ p.take max = [])) ∨ (r.buf ≠ [] ∧ r.buf = p.take max)

theorem inv_new (max : Nat) (old p : List UInt8) : Inv max p (newRenderer old p) := by
  left; exact ⟨rfl, rfl, Or.inl rfl⟩

theorem render_inv (max : Nat) (p : List UInt8) (r : Renderer) (h : Inv max p r) :
    Inv max p (render max r).1 ∧ (render max r).2 = p.take max := by
  rcases h with ⟨hb, ht, hr⟩ | ⟨hb, he⟩
  · have : r.buf.isEmpty = true := by simp [hb]
    simp only [render, this, ↓reduceIte]
    refine ⟨?_, ht⟩
    by_cases hd : r.rest.take max = []
    · left
      refine ⟨hd, ?_, Or.inr (by rw [← ht]; exact hd)⟩
      -- nothing could be read: either nothing is left or max = 0
      rw [← ht, hd]
      rcases List.take_eq_nil_iff.mp hd with h0 | hn
      · simp [h0]
      · simp [hn]
    · right
      exact ⟨hd, ht⟩
  · have : r.buf.isEmpty = false := by cases hrb : r.buf <;> simp_all
    simp only [render, this, Bool.false_eq_true, ↓reduceIte]
    exact ⟨Or.inr ⟨hb, he⟩, he⟩

theorem renders_exact (max : Nat) (p : List UInt8) (n : Nat) (r : Renderer) (h : Inv max p r) :
    Inv max p (renders max n r).1 ∧ ∀ x ∈ (renders max n r).2, x = p.take max := by
  induction n generalizing r with
  | zero => exact ⟨h, by simp [renders]⟩
  | succ n ih =>
    have h1 := render_inv max p r h
    have h2 := ih (render max r).1 h1.1
    refine ⟨h2.1, ?_⟩
    intro x hx
    simp only [renders, List.mem_cons] at hx
    rcases hx with rfl | hx
    · exact h1.2
    · exact h2.2 x hx

theorem history_exact (max : Nat) (b : List UInt8) (h : List (List UInt8 × Nat)) :
    ∀ i (hi : i < h.length), ∃ ds, (history max b h)[i]? = some ds ∧ ∀ x ∈ ds, x = (h[i].1).take max := by
  induction h generalizing b with
  | nil => intro i hi; simp at hi
  | cons pn rest ih =>
    obtain ⟨p, n⟩ := pn
    intro i hi
    cases i with
    | zero =>
      refine ⟨(renders max n (newRenderer b p)).2, by simp [history], ?_⟩
      exact (renders_exact max p n _ (inv_new max b p)).2
    | succ j =>
      have hj : j < rest.length := by simpa using hi
      obtain ⟨ds, hds, hall⟩ := ih (renders max n (newRenderer b p)).1.buf j hj
      exact ⟨ds, by simpa [history] using hds, by simpa using hall⟩

end Rie.Payload
