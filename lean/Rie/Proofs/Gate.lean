import Rie.Model.Gate

/-! Lemmas and inductive invariants for the gate model. -/
namespace Rie.Gate

theorem mem_broadcast_not_parked {ws : List W} {w : W} (h : w ∈ broadcast ws) : w ≠ .parked := by
  unfold broadcast at h
  rw [List.mem_map] at h
  obtain ⟨a, _, ha⟩ := h
  cases a <;> simp at ha <;> subst ha <;> simp

theorem broadcast_length (ws : List W) : (broadcast ws).length = ws.length := by
  simp [broadcast]

/-- The inductive invariant. -/
structure Inv (s : Sys) : Prop where
  le      : s.g.arrived ≤ s.g.count
  bound   : s.g.count ≤ uint16Max
  ghost   : s.g.arrived = s.g.walks
  nolost  : ∀ w ∈ s.ws, w = .parked → s.g.isOpen = false

theorem inv_init (c n : Nat) (hc : c ≤ uint16Max) : Inv (init c n) := by
  refine ⟨by simp [init], hc, rfl, ?_⟩
  intro w hw hp
  simp [init, List.mem_replicate] at hw
  rw [hw.2] at hp; cases hp

theorem mem_set_cases {ws : List W} {i : Nat} {v w : W} (h : w ∈ ws.set i v) : w ∈ ws ∨ w = v :=
  List.mem_or_eq_of_mem_set h

theorem evalWait_parked {g : G} (h : evalWait g = .parked) : g.isOpen = false := by
  unfold evalWait at h
  split at h
  · cases h
  · simpa using ‹¬ g.isOpen = true›

theorem inv_step (s : Sys) (o : Op) (hi : Inv s) (hw : o.noWrap s = true) : Inv (step s o).1 := by
  obtain ⟨hle, hb, hg, hn⟩ := hi
  cases o with
  | setCount n =>
    simp only [step]
    split
    · exact ⟨hle, hb, hg, hn⟩
    · rename_i hc
      simp only [Bool.or_eq_true, decide_eq_true_eq, not_or, Nat.not_lt] at hc
      refine ⟨hc.2, by simpa using hc.1, hg, ?_⟩
      intro w hw hp
      simp only at hw
      split at hw
      · exact absurd hp (mem_broadcast_not_parked hw)
      · rename_i hne
        have := hn w hw hp
        simp only [G.isOpen, Bool.or_eq_false_iff] at this ⊢
        exact ⟨by simpa using hne, this.2⟩
  | reset =>
    simp only [step]
    split
    · exact ⟨hle, hb, hg, hn⟩
    · rename_i hc
      refine ⟨by simp, hb, rfl, ?_⟩
      intro w hw hp
      have := hn w hw hp
      simp only [G.isOpen, Bool.or_eq_false_iff, beq_eq_false_iff_ne, ne_eq] at this ⊢
      obtain ⟨h1, h2⟩ := this
      refine ⟨?_, h2⟩
      intro h0
      have h0' : 0 = s.g.count := h0
      apply h1; omega
  | walk =>
    simp only [step]
    split
    · exact ⟨hle, hb, hg, hn⟩
    · rename_i hc
      have hne : s.g.arrived ≠ s.g.count := by simpa using hc
      refine ⟨by simp only; omega, hb, by simp only; omega, ?_⟩
      intro w hw hp
      simp only at hw
      split at hw
      · exact absurd hp (mem_broadcast_not_parked hw)
      · rename_i hne'
        have := hn w hw hp
        simp only [G.isOpen, Bool.or_eq_false_iff] at this ⊢
        exact ⟨by simpa using hne', this.2⟩
  | cancel e =>
    simp only [step]
    refine ⟨hle, hb, hg, ?_⟩
    intro w hw hp
    exact absurd hp (mem_broadcast_not_parked hw)
  | clear =>
    simp only [step]
    refine ⟨by simp, hb, rfl, ?_⟩
    intro w hw hp
    have := hn w hw hp
    simp only [G.isOpen, Bool.or_eq_false_iff, beq_eq_false_iff_ne, ne_eq] at this ⊢
    obtain ⟨h1, _⟩ := this
    refine ⟨?_, trivial⟩
    intro h0
    have h0' : 0 = s.g.count := h0
    apply h1; omega
  | register n =>
    simp only [step]
    simp only [Op.noWrap, decide_eq_true_eq] at hw
    have hmod : (s.g.count + n) % (uint16Max + 1) = s.g.count + n := Nat.mod_eq_of_lt (by omega)
    refine ⟨by simp only [hmod]; omega, by simp only [hmod]; exact hw, hg, ?_⟩
    intro w hw' hp
    have := hn w hw' hp
    simp only [G.isOpen, Bool.or_eq_false_iff, beq_eq_false_iff_ne, ne_eq, hmod] at this ⊢
    exact ⟨by omega, this.2⟩
  | enter i =>
    simp only [step]
    split
    · refine ⟨hle, hb, hg, ?_⟩
      intro w hw' hp
      rcases mem_set_cases hw' with h | h
      · exact hn w h hp
      · exact evalWait_parked (h ▸ hp)
    · exact ⟨hle, hb, hg, hn⟩
  | resume i =>
    simp only [step]
    split
    · refine ⟨hle, hb, hg, ?_⟩
      intro w hw' hp
      rcases mem_set_cases hw' with h | h
      · exact hn w h hp
      · exact evalWait_parked (h ▸ hp)
    · exact ⟨hle, hb, hg, hn⟩
  | collect i =>
    simp only [step]
    split
    · refine ⟨hle, hb, hg, ?_⟩
      intro w hw' hp
      rcases mem_set_cases hw' with h | h
      · exact hn w h hp
      · rw [h] at hp; cases hp
    · exact ⟨hle, hb, hg, hn⟩

theorem inv_run (s : Sys) (ops : List Op) (hi : Inv s) (hw : NoWrap s ops) : Inv (run s ops) := by
  induction ops generalizing s with
  | nil => simpa [run] using hi
  | cons o os ih =>
    simp only [run, List.foldl_cons]
    exact ih _ (inv_step s o hi hw.1) hw.2

end Rie.Gate

namespace Rie.Gate

/-! ### refusals are inert -/

theorem walk_refused_inert (s : Sys) (h : (step s .walk).2 = .integrity) : (step s .walk).1 = s := by
  simp only [step] at h ⊢
  split
  · rfl
  · rename_i hc; simp [hc] at h

theorem walk_refused_iff (s : Sys) : (step s .walk).2 = .integrity ↔ s.g.arrived = s.g.count := by
  simp only [step]
  split
  · rename_i h; simpa using h
  · rename_i h; simpa using h

theorem setCount_refused_inert (s : Sys) (n : Nat) (h : (step s (.setCount n)).2 = .integrity) :
    (step s (.setCount n)).1 = s := by
  simp only [step] at h ⊢
  split
  · rfl
  · rename_i hc; simp [hc] at h

theorem setCount_refused_iff (s : Sys) (n : Nat) :
    (step s (.setCount n)).2 = .integrity ↔ (n > uint16Max ∨ n < s.g.arrived) := by
  simp only [step]
  split
  · rename_i h; simpa using h
  · rename_i h; simpa using h

/-! ### a waiter completes only when its condition holds, with the right value -/

theorem evalWait_done {g : G} {r : Res} (h : evalWait g = .done r) :
    (r = .ok ∧ g.arrived = g.count ∧ g.canceled = false) ∨
    (g.canceled = true ∧ r = cancelRes g.err) := by
  unfold evalWait at h
  split at h
  · rename_i ho
    injection h with h
    unfold G.result at h
    split at h
    · right; exact ⟨‹_›, h.symm⟩
    · left
      rename_i hc
      simp only [G.isOpen, Bool.or_eq_true, beq_iff_eq] at ho
      simp only [Bool.not_eq_true] at hc
      rcases ho with ho | ho
      · exact ⟨h.symm, ho, hc⟩
      · rw [hc] at ho; cases ho
  · cases h

/-- the only ops that can put waiter `i` into `done` are its own `enter`/`resume`, and then the
    gate condition holds in the state the step was taken in. -/
theorem done_only_when_open (s : Sys) (o : Op) (i : Nat) (r : Res)
    (hbefore : ∀ r', s.ws[i]? ≠ some (.done r'))
    (hafter : (step s o).1.ws[i]? = some (.done r)) :
    (o = .enter i ∨ o = .resume i) ∧
    ((r = .ok ∧ s.g.arrived = s.g.count ∧ s.g.canceled = false) ∨
     (s.g.canceled = true ∧ r = cancelRes s.g.err)) := by
  have hb : ∀ (ws : List W), ws[i]? ≠ some (.done r) → (broadcast ws)[i]? ≠ some (.done r) := by
    intro ws h h'
    apply h
    simp only [broadcast, List.getElem?_map, Option.map_eq_some_iff] at h'
    obtain ⟨a, ha, hh⟩ := h'
    cases a <;> simp at hh
    · rw [ha, hh]
  cases o with
  | setCount n =>
    simp only [step] at hafter
    split at hafter
    · exact absurd hafter (hbefore r)
    · simp only at hafter
      split at hafter
      · exact absurd hafter (hb _ (hbefore r))
      · exact absurd hafter (hbefore r)
  | reset =>
    simp only [step] at hafter
    split at hafter <;> exact absurd hafter (hbefore r)
  | walk =>
    simp only [step] at hafter
    split at hafter
    · exact absurd hafter (hbefore r)
    · simp only at hafter
      split at hafter
      · exact absurd hafter (hb _ (hbefore r))
      · exact absurd hafter (hbefore r)
  | cancel e =>
    simp only [step] at hafter
    exact absurd hafter (hb _ (hbefore r))
  | clear => simp only [step] at hafter; exact absurd hafter (hbefore r)
  | register n => simp only [step] at hafter; exact absurd hafter (hbefore r)
  | enter j =>
    simp only [step] at hafter
    split at hafter
    · simp only [List.getElem?_set] at hafter
      split at hafter
      · rename_i hji
        split at hafter
        · injection hafter with hafter
          exact ⟨Or.inl (by rw [hji]), evalWait_done hafter⟩
        · cases hafter
      · exact absurd hafter (hbefore r)
    · exact absurd hafter (hbefore r)
  | resume j =>
    simp only [step] at hafter
    split at hafter
    · simp only [List.getElem?_set] at hafter
      split at hafter
      · rename_i hji
        split at hafter
        · injection hafter with hafter
          exact ⟨Or.inr (by rw [hji]), evalWait_done hafter⟩
        · cases hafter
      · exact absurd hafter (hbefore r)
    · exact absurd hafter (hbefore r)
  | collect j =>
    simp only [step] at hafter
    split at hafter
    · simp only [List.getElem?_set] at hafter
      split at hafter
      · split at hafter <;> cases hafter
      · exact absurd hafter (hbefore r)
    · exact absurd hafter (hbefore r)

/-! ### cancellation is sticky until `clear` -/

def Op.keepsCancel : Op → Bool
  | .clear => false
  | .cancel _ => false
  | _ => true

theorem cancel_step_sticky (s : Sys) (o : Op) (e : Option Nat)
    (hc : s.g.canceled = true) (he : s.g.err = e) (ho : o.keepsCancel = true) :
    (step s o).1.g.canceled = true ∧ (step s o).1.g.err = e := by
  cases o <;> simp only [step, Op.keepsCancel] at ho ⊢ <;> try (split <;> simp_all)
  all_goals simp_all

theorem cancel_run_sticky (s : Sys) (ops : List Op) (e : Option Nat)
    (hc : s.g.canceled = true) (he : s.g.err = e) (ho : ∀ o ∈ ops, o.keepsCancel = true) :
    (run s ops).g.canceled = true ∧ (run s ops).g.err = e := by
  induction ops generalizing s with
  | nil => exact ⟨hc, he⟩
  | cons o os ih =>
    simp only [run, List.foldl_cons]
    have := cancel_step_sticky s o e hc he (ho o (by simp))
    exact ih _ this.1 this.2 (fun o' h' => ho o' (by simp [h']))

theorem cancel_establishes (s : Sys) (e : Option Nat) :
    (step s (.cancel e)).1.g.canceled = true ∧ (step s (.cancel e)).1.g.err = e := by
  simp [step]

/-- a waiter that evaluates its condition on a cancelled gate returns the cancellation error -/
theorem evalWait_canceled (g : G) (hc : g.canceled = true) :
    evalWait g = .done (cancelRes g.err) := by
  simp [evalWait, G.isOpen, G.result, hc]

/-- a waiter that evaluates its condition on an open, not cancelled gate returns ok -/
theorem evalWait_open_ok (g : G) (ha : g.arrived = g.count) (hc : g.canceled = false) :
    evalWait g = .done .ok := by
  simp [evalWait, G.isOpen, G.result, hc, ha]

theorem evalWait_closed (g : G) (ha : g.arrived ≠ g.count) (hc : g.canceled = false) :
    evalWait g = .parked := by
  simp [evalWait, G.isOpen, hc, ha]

end Rie.Gate
