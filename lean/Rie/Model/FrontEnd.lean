/-
The RIE front end: what `InvokeHandler` (cmd/aws-lambda-rie/handlers.go) writes to the HTTP response of
the caller, as a function of the error `sandbox.Invoke` returned and of what the emulator core wrote
into the response proxy (`ResponseWriterProxy`: status code, body). The handler is a `switch` over
the error followed by a common tail; each case is a short sequence of actions on the response.

The table below is the model; `Rie/Gen/FrontEnd.lean` is regenerated from the source on every run
(`unitdrv frontend`, go/ast) and proved equal to it (`Rie.Props.FrontEndTable`).
-/
namespace Rie.FrontEnd

inductive Act where
  | hdr (code : Nat)      -- w.WriteHeader(<constant>)
  | hdrProxyIfSet         -- if invokeResp.StatusCode != 0 { w.WriteHeader(invokeResp.StatusCode) }
  | writeBody             -- w.Write(invokeResp.Body)
  | writeTimeout          -- w.Write("Task timed out after N.00 seconds")
  | ret                   -- return
  | unknown (s : String)  -- something the extractor did not recognise
deriving DecidableEq, Repr

def parseAct (s : String) : Act :=
  if s == "hdr:400" then .hdr 400 else if s == "hdr:500" then .hdr 500 else if s == "hdr:502" then .hdr 502
  else if s == "hdr:504" then .hdr 504 else if s == "hdr:200" then .hdr 200
  else if s == "hdrproxyifset" then .hdrProxyIfSet else if s == "writebody" then .writeBody
  else if s == "writetimeout" then .writeTimeout else if s == "ret" then .ret else .unknown s

/-- what the caller's HTTP response consists of -/
inductive Chunk where
  | body        -- the bytes the emulator core put into the proxy (the runtime's response, or the platform's error JSON)
  | timeoutMsg  -- the front end's own time-out text
deriving DecidableEq, Repr

structure Resp where
  status : Nat := 0            -- 0: never set explicitly → net/http sends 200
  chunks : List Chunk := []
deriving DecidableEq, Repr

/-- net/http: the first WriteHeader counts, and only before anything was written -/
def setStatus (r : Resp) (code : Nat) : Resp :=
  if r.status == 0 && r.chunks.isEmpty then { r with status := code } else r

/-- run a sequence of actions; `true` = the handler returned -/
def run (proxyStatus : Nat) : List Act → Resp → Resp × Bool
  | [], r => (r, false)
  | .hdr c :: as, r => run proxyStatus as (setStatus r c)
  | .hdrProxyIfSet :: as, r => run proxyStatus as (if proxyStatus != 0 then setStatus r proxyStatus else r)
  | .writeBody :: as, r => run proxyStatus as { r with chunks := r.chunks ++ [.body] }
  | .writeTimeout :: as, r => run proxyStatus as { r with chunks := r.chunks ++ [.timeoutMsg] }
  | .ret :: _, r => (r, true)
  | .unknown _ :: as, r => run proxyStatus as r

/-- the error switch of `InvokeHandler` -/
def table : List (List String × List Act) := [
  (["ErrAlreadyReserved"], [.hdr 400, .ret]),
  (["ErrInternalServerError"], [.hdr 500, .ret]),
  (["ErrInitDoneFailed"], [.hdr 502, .writeBody, .ret]),
  (["ErrReserveReservationDone"], [.hdr 504, .ret]),
  (["ErrNotReserved"], []),                -- empty cases: Go does not fall through, control leaves the switch
  (["ErrAlreadyReplied"], []),
  (["ErrAlreadyInvocating"], [.hdr 400, .ret]),
  (["ErrInvokeReservationDone"], [.hdr 504, .ret]),
  (["ErrInvokeResponseAlreadyWritten"], [.ret]),
  (["ErrInvokeDoneFailed"], [.hdr 502, .writeBody, .ret]),
  (["ErrReleaseReservationDone"], [.hdr 504, .ret]),
  (["ErrInvokeTimeout"], [.writeTimeout, .ret])]

/-- the statements after the switch -/
def tail : List Act := [.hdrProxyIfSet, .writeBody]

/-- the caller's HTTP response for the error returned by `sandbox.Invoke` (`none`: no error) -/
def respond (err : Option String) (proxyStatus : Nat) : Resp :=
  match err with
  | none => (run proxyStatus tail {}).1
  | some e =>
    match table.find? (·.1.contains e) with
    | none => (run proxyStatus tail {}).1          -- an error no case names
    | some (_, acts) =>
      let (r, returned) := run proxyStatus acts {}
      if returned then r else (run proxyStatus tail r).1

end Rie.FrontEnd
