import Rie.Model.ErrorCause
import Rie.Gen.SanitizeConsts

/-! The constants of the built code (regenerated `Rie.Gen.Sanitize`) as a `Consts` value. -/
namespace Rie.ErrorCause

def gen : Consts where
  maxSize := Rie.Gen.Sanitize.maxErrorCauseSizeBytes
  padding := Rie.Gen.Sanitize.paddingForFieldNames
  expansion := Rie.Gen.Sanitize.maxJSONEscapeExpansion
  factors := Rie.Gen.Sanitize.truncationFactors
  fieldOverhead := Rie.Gen.Sanitize.fieldOverhead
  messageOverhead := Rie.Gen.Sanitize.messageOverhead

end Rie.ErrorCause
