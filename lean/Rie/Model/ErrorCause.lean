/-
Model of `model.ValidatedErrorCauseJSON` AFTER `json.Unmarshal` (lambda/rapi/model/error_cause.go,
error_cause_compactor.go): `isValid`, the size check, `croppedJSON` (crop loop over the
truncation factors, `crop(0)`, final `cropEscaped`), `cropString`.

What is abstract (parameters of the model, see `Enc`):
* `esc b`      = `len(json.Marshal(string(b)))` — the JSON-escaped length of a string, quotes
                 included. `encoding/json` is trusted for it; the only fact used by the bound
                 theorem is `esc b ≤ expansion * |b| + 2`, checked on every generated string
                 by the harness.
* `excSize e`  = `len(json.Marshal(e))` for one element of `Exceptions`,
  `pathSize p` = `len(json.Marshal(p))` for one element of `Paths`.
JSON *parsing* (`json.Unmarshal`, which also decides "invalid JSON → dropped") is delegated to
`encoding/json`.

What is concrete: the JSON object layout of `ErrorCause`
  `{"exceptions":X,"working_directory":W,"paths":P[,"message":M]}` — `message` has `omitempty`;
a nil slice marshals as `null` (4 bytes), an empty non-nil one as `[]`, elements are separated by
commas. The two field-name overheads are measured on the built code (`Consts`). Go keeps a nil
slice nil under `s[:0]`, so nil-ness is a field of the model.

`int(float64(len) * factor)` is modelled with exact rational arithmetic `len * num / den`
(`factor = num/den` read from the source literal, `math.Min(factor, 1)` respected); the harness
checks on every run that this equals Go's float computation for the lengths it tries.

Core Lean only (the oracle executable links this file).
-/
namespace Rie.ErrorCause

abbrev Bytes := List UInt8

/-- the truncation indicator `...` -/
def dots : Bytes := [46, 46, 46]

structure Consts where
  /-- `MaxErrorCauseSizeBytes` -/
  maxSize : Nat
  /-- `paddingForFieldNames` -/
  padding : Nat
  /-- `maxJSONEscapeExpansion` -/
  expansion : Nat
  /-- `truncationFactors` as fractions `(num, den)` -/
  factors : List (Nat × Nat)
  /-- bytes of `{"exceptions":` + `,"working_directory":` + `,"paths":` + `}` (measured) -/
  fieldOverhead : Nat
  /-- bytes of `,"message":` (measured) -/
  messageOverhead : Nat
deriving Repr

structure Cause (E P : Type) where
  exceptions : List E
  /-- the Go slice `Exceptions` is nil -/
  excNil     : Bool
  workingDir : Bytes
  paths      : List P
  /-- the Go slice `Paths` is nil -/
  pathsNil   : Bool
  message    : Bytes

structure Enc (E P : Type) where
  esc      : Bytes → Nat
  excSize  : E → Nat
  pathSize : P → Nat

/-- `len(json.Marshal(slice))` from the sizes of its elements -/
def arraySize (isNil : Bool) (sizes : List Nat) : Nat :=
  match sizes with
  | [] => if isNil then 4 else 2
  | _ :: _ => 2 + sizes.sum + (sizes.length - 1)

variable {E P : Type}

/-- `len(json.Marshal(cause))` -/
def size (k : Consts) (enc : Enc E P) (c : Cause E P) : Nat :=
  k.fieldOverhead + arraySize c.excNil (c.exceptions.map enc.excSize) + enc.esc c.workingDir
    + arraySize c.pathsNil (c.paths.map enc.pathSize)
    + (if c.message.isEmpty then 0 else k.messageOverhead + enc.esc c.message)

/-- `isValid` -/
def isValid (c : Cause E P) : Bool :=
  !(c.workingDir.isEmpty && c.paths.isEmpty && c.exceptions.isEmpty && c.message.isEmpty)

/-- `cropString` (Go panics for `length < 3` on a longer string; excluded by `Consts.ok`) -/
def cropString (s : Bytes) (n : Nat) : Bytes :=
  if s.length ≤ n then s else s.take (n - 3) ++ dots

/-- `(MaxErrorCauseSizeBytes - paddingForFieldNames) / 2` -/
def halfLen (k : Consts) : Nat := (k.maxSize - k.padding) / 2
/-- `((MaxErrorCauseSizeBytes - paddingForFieldNames) / 2) / maxJSONEscapeExpansion` -/
def escLen (k : Consts) : Nat := halfLen k / k.expansion

/-- `int(float64(n) * math.Min(factor, 1))` for `factor = f.1 / f.2 > 0` -/
def scale (n : Nat) (f : Nat × Nat) : Nat := if f.2 ≤ f.1 then n else n * f.1 / f.2

/-- `cropStackTraces` -/
def cropTraces (c : Cause E P) (f : Nat × Nat) : Cause E P :=
  if 0 < f.1 then
    { c with exceptions := c.exceptions.take (scale c.exceptions.length f),
             paths := c.paths.take (scale c.paths.length f) }
  else
    { c with exceptions := [], excNil := true, paths := [], pathsNil := true }

/-- `crop` = `cropStackTraces; cropMessage; cropWorkingDir` -/
def crop (k : Consts) (c : Cause E P) (f : Nat × Nat) : Cause E P :=
  let c' := cropTraces c f
  if 0 < f.1 then c'
  else { c' with message := cropString c'.message (halfLen k),
                 workingDir := cropString c'.workingDir (halfLen k) }

/-- `cropEscaped` -/
def cropEscaped (k : Consts) (c : Cause E P) : Cause E P :=
  { c with message := cropString c.message (escLen k),
           workingDir := cropString c.workingDir (escLen k) }

/-- the `for _, factor := range truncationFactors` loop: first crop that fits -/
def cropLoop (k : Consts) (enc : Enc E P) (c : Cause E P) : List (Nat × Nat) → Option (Cause E P)
  | [] => none
  | f :: fs =>
    let c' := crop k c f
    if size k enc c' ≤ k.maxSize then some c' else cropLoop k enc c fs

/-- `croppedJSON` -/
def croppedJSON (k : Consts) (enc : Enc E P) (c : Cause E P) : Cause E P :=
  match cropLoop k enc c k.factors with
  | some o => o
  | none =>
    let c0 := crop k c (0, 1)
    if k.maxSize < size k enc c0 then cropEscaped k c0 else c0

/-- `ValidatedErrorCauseJSON` on the parsed cause: `none` = rejected (dropped) -/
def validated (k : Consts) (enc : Enc E P) (c : Cause E P) : Option (Cause E P) :=
  if isValid c then
    if k.maxSize < size k enc c then some (croppedJSON k enc c) else some c
  else none

/-- Side conditions on the constants of the built code (discharged by `decide` on the
    regenerated `Rie.Gen.Sanitize` values): `cropString` is never asked for fewer than 3 bytes,
    and two strings of `escLen` bytes, each byte expanded `expansion`-fold, plus the field
    names, two `null`s and the quotes fit. -/
def Consts.ok (k : Consts) : Prop :=
  3 ≤ escLen k ∧
  2 * (k.expansion * escLen k + 2) + k.fieldOverhead + k.messageOverhead + 8 ≤ k.maxSize

instance (k : Consts) : Decidable k.ok := by unfold Consts.ok; exact inferInstance

/-- `o` is `i` or a truncation of `i` marked with `...` -/
def CropOf (o i : Bytes) : Prop := o = i ∨ ∃ n, n < i.length ∧ o = i.take n ++ dots

end Rie.ErrorCause
