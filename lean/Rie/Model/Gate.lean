/-
Model L0: the counting gate of `lambda/core/gates.go` (`gateImpl`) together with the
goroutines blocked in `AwaitGateCondition`.

Atomicity assumption (DESIGN §4): every method of `gateImpl` holds the gate's mutex from
entry to exit, so each is one atomic step; `sync.Cond.Wait` atomically unlocks and parks;
`Broadcast` makes every parked waiter runnable (`woken`); a woken waiter re-acquires the
mutex and re-evaluates the loop condition in one step (`resume`).

Core Lean only (the oracle executable links this file).
-/
namespace Rie.Gate

/-- What `AwaitGateCondition` returns. `err e` is the error handed to `CancelWithError`,
    `canceled` is `ErrGateCanceled` (cancel with a nil error). -/
inductive Res where
  | ok
  | canceled
  | err (e : Nat)
deriving DecidableEq, Repr

/-- A goroutine that may call `AwaitGateCondition`. -/
inductive W where
  | idle                -- not inside the call
  | parked              -- inside `Cond.Wait`, not signalled
  | woken               -- signalled, has not yet re-acquired the mutex
  | done (r : Res)      -- returned `r`
deriving DecidableEq, Repr

/-- `gateImpl` plus one ghost field. -/
structure G where
  count    : Nat
  arrived  : Nat
  canceled : Bool
  err      : Option Nat
  /-- ghost: accepted `WalkThrough`s since the last effective re-arm (`Reset` on a gate
      that is not cancelled, or `Clear`). -/
  walks    : Nat
deriving DecidableEq, Repr

def G.isOpen (g : G) : Bool := g.arrived == g.count || g.canceled

/-- `if g.err != nil { return g.err }; return ErrGateCanceled` -/
def cancelRes : Option Nat → Res
  | some e => .err e
  | none   => .canceled

/-- value returned by a waiter that finds the loop condition false -/
def G.result (g : G) : Res :=
  if g.canceled then cancelRes g.err else .ok

structure Sys where
  g  : G
  ws : List W
deriving DecidableEq, Repr

inductive Op where
  | setCount (n : Nat)
  | reset
  | walk
  | cancel (e : Option Nat)
  | clear
  | register (n : Nat)
  | enter (i : Nat)       -- waiter i calls AwaitGateCondition
  | resume (i : Nat)      -- woken waiter i re-acquires the mutex
  | collect (i : Nat)     -- harness bookkeeping: a returned waiter becomes idle again
deriving DecidableEq, Repr

/-- return value of the operation itself -/
inductive Ret where
  | unit          -- the Go method has no result (or the op is a waiter step)
  | ok            -- nil error
  | integrity     -- ErrGateIntegrity
deriving DecidableEq, Repr

def broadcast (ws : List W) : List W :=
  ws.map fun w => match w with
    | .parked => .woken
    | w => w

/-- waiter step shared by `enter` and `resume` : evaluate the loop condition under the mutex -/
def evalWait (g : G) : W := if g.isOpen then .done g.result else .parked

def uint16Max : Nat := 65535

def step (s : Sys) : Op → Sys × Ret
  | .setCount n =>
      if n > uint16Max || n < s.g.arrived then (s, .integrity)
      else
        let g' := { s.g with count := n }
        -- after `fix: wake waiters when SetCount makes the gate condition true`
        ({ g := g', ws := if g'.arrived == g'.count then broadcast s.ws else s.ws }, .ok)
  | .reset =>
      if s.g.canceled then (s, .unit)
      else ({ s with g := { s.g with arrived := 0, walks := 0 } }, .unit)
  | .walk =>
      if s.g.arrived == s.g.count then (s, .integrity)
      else
        let g' := { s.g with arrived := s.g.arrived + 1, walks := s.g.walks + 1 }
        ({ g := g', ws := if g'.arrived == g'.count then broadcast s.ws else s.ws }, .ok)
  | .cancel e =>
      ({ g := { s.g with canceled := true, err := e }, ws := broadcast s.ws }, .unit)
  | .clear =>
      ({ s with g := { s.g with canceled := false, arrived := 0, err := none, walks := 0 } }, .unit)
  | .register n =>
      ({ s with g := { s.g with count := (s.g.count + n) % (uint16Max + 1) } }, .unit)
  | .enter i =>
      match s.ws[i]? with
      | some .idle => ({ s with ws := s.ws.set i (evalWait s.g) }, .unit)
      | _ => (s, .unit)
  | .resume i =>
      match s.ws[i]? with
      | some .woken => ({ s with ws := s.ws.set i (evalWait s.g) }, .unit)
      | _ => (s, .unit)
  | .collect i =>
      match s.ws[i]? with
      | some (.done _) => ({ s with ws := s.ws.set i .idle }, .unit)
      | _ => (s, .unit)

def run (s : Sys) (ops : List Op) : Sys := ops.foldl (fun s o => (step s o).1) s

/-- `NewGate(count)` with `n` goroutines that may wait on it. -/
def init (count n : Nat) : Sys :=
  { g := { count := count, arrived := 0, canceled := false, err := none, walks := 0 },
    ws := List.replicate n .idle }

/-- The only arithmetic the Go code does on `count` that could wrap is `Register`
    (unused outside the repository's tests). The theorems exclude wrapping registers. -/
def Op.noWrap (s : Sys) : Op → Bool
  | .register n => s.g.count + n ≤ uint16Max
  | _ => true

def NoWrap : Sys → List Op → Prop
  | _, [] => True
  | s, o :: os => o.noWrap s = true ∧ NoWrap (step s o).1 os

end Rie.Gate
