import Rie.Gen.DirectConsts
import Rie.Model.Bucket

/-
Model of the direct-invoke path of `lambda/core/directinvoke/{directinvoke.go,util.go}`:

* `receive`  = `ReceiveDirectInvoke` (header parsing into the four package-level variables
  `MaxDirectResponseSize`, `InvokeResponseMode`, `ResponseBandwidthRate`,
  `ResponseBandwidthBurstSize`, then the checks against the reservation `Token`);
* `send`     = `SendDirectInvokeResponse` as far as bytes and the `End-Of-Response` trailer are
  concerned (`sendPayloadLimitedResponse`, `asyncPayloadCopy` + `BandwidthLimitingCopy`);
* `chunks`   = `bandwidthlimiter.ChunkIterator`.

Header values are byte strings exactly as `http.Header.Get` returns them (`[]` = absent or empty —
the Go code cannot tell the two apart). Decoding of the `Customer-Headers` value (base64 + JSON)
is delegated to `encoding/base64` / `encoding/json`: the model only sees whether it succeeded.

Core Lean only (the oracle executable links this file).
-/
namespace Rie.DirectInvoke
open Rie.Gen

abbrev Bytes := List UInt8

inductive Mode where
  | buffered
  | streaming
deriving DecidableEq, Repr

/-- the package-level variables of `directinvoke` -/
structure Globals where
  maxSize : Int     -- MaxDirectResponseSize
  mode    : Mode    -- InvokeResponseMode
  rate    : Int     -- ResponseBandwidthRate
  burst   : Int     -- ResponseBandwidthBurstSize
deriving DecidableEq, Repr

inductive Err where
  | malformedCustomerHeaders
  | invalidMaxPayloadSize
  | invalidInvokeResponseMode
  | invalidResponseBandwidthRate
  | invalidResponseBandwidthBurstSize
  | invalidInvokeID
  | invalidReservationToken
  | invalidFunctionVersion
  | reservationExpired
deriving DecidableEq, Repr

structure Req where
  custOk  : Bool    -- `CustomerHeaders.Load` succeeded
  maxSize : Bytes   -- header MaxPayloadSize
  mode    : Bytes   -- header InvokeResponseMode
  rate    : Bytes   -- header ResponseBandwidthRate
  burst   : Bytes   -- header ResponseBandwidthBurstSize
  id      : Bytes   -- header Invoke-Id
  tok     : Bytes   -- URL parameter reservationtoken
  ver     : Bytes   -- header Invoked-Function-Version
  now     : Int     -- metering.Monotime() at arrival
deriving DecidableEq, Repr

structure Token where
  id       : Bytes
  tok      : Bytes
  ver      : Bytes
  deadline : Int    -- InvackDeadlineNs
deriving DecidableEq, Repr

/-- what the rest of the request handling consumes: the payload limit, the response mode and —
    only for a streaming invoke — rate and burst -/
structure Parsed where
  limit   : Int
  mode    : Mode
  shaping : Option (Int × Int)
deriving DecidableEq, Repr

/-! ### `strconv.ParseInt(s, 10, 64)` -/

def isDigit (b : UInt8) : Bool := 0x30 ≤ b && b ≤ 0x39

def digitsVal : Bytes → Nat → Option Nat
  | [], acc => some acc
  | b :: bs, acc => if isDigit b then digitsVal bs (acc * 10 + (b.toNat - 48)) else none

/-- one or more decimal digits (no underscores: the base is given explicitly) -/
def parseUnsigned (s : Bytes) : Option Nat := if s = [] then none else digitsVal s 0

def two63 : Nat := 9223372036854775808

/-- optional sign, digits, value within `int64` (otherwise `ErrRange`/`ErrSyntax`: an error) -/
def parseInt64 (s : Bytes) : Option Int :=
  match s with
  | [] => none
  | c :: r =>
    if c = 0x2B then (parseUnsigned r).bind fun v => if v < two63 then some (Int.ofNat v) else none
    else if c = 0x2D then (parseUnsigned r).bind fun v => if v ≤ two63 then some (-(Int.ofNat v)) else none
    else (parseUnsigned s).bind fun v => if v < two63 then some (Int.ofNat v) else none

/-! ### `strings.EqualFold(value, "Buffered" | "Streaming")` -/

def lower (b : UInt8) : UInt8 := if 0x41 ≤ b && b ≤ 0x5A then b + 32 else b

/-- `strings.EqualFold value target` for an ASCII-letter target given in lower case. Besides the
    ASCII case pairs, Unicode simple case folding joins U+017F (ſ, bytes C5 BF) with `s` and
    U+212A (K, bytes E2 84 AA) with `k`; no other non-ASCII rune folds to an ASCII letter, and
    invalid UTF-8 decodes to U+FFFD, which matches nothing. -/
def foldEq : Bytes → Bytes → Bool
  | [], [] => true
  | [], _ :: _ => false
  | _ :: _, [] => false
  | v :: vs, t :: ts =>
    if lower v = t then foldEq vs ts
    else match vs with
      | v2 :: vs2 =>
        if v = 0xC5 && v2 = 0xBF && t = 0x73 then foldEq vs2 ts
        else match vs2 with
          | v3 :: vs3 => if v = 0xE2 && v2 = 0x84 && v3 = 0xAA && t = 0x6B then foldEq vs3 ts else false
          | [] => false
      | [] => false

/-- `convertToInvokeResponseMode` -/
def parseMode (v : Bytes) : Option Mode :=
  if foldEq v (DirectConsts.modeBuffered.map lower) then some .buffered
  else if foldEq v (DirectConsts.modeStreaming.map lower) then some .streaming
  else none

/-! ### the four optional headers -/

def hdrMax (v : Bytes) : Except Err Int :=
  if v = [] then .ok DirectConsts.maxPayloadSize
  else match parseInt64 v with
    | some n => if n ≥ -1 then .ok n else .error .invalidMaxPayloadSize
    | none => .error .invalidMaxPayloadSize

def hdrMode (v : Bytes) : Except Err Mode :=
  if v = [] then .ok .buffered
  else match parseMode v with
    | some m => .ok m
    | none => .error .invalidInvokeResponseMode

def hdrRanged (v : Bytes) (dflt lo hi : Int) (e : Err) : Except Err Int :=
  if v = [] then .ok dflt
  else match parseInt64 v with
    | some n => if lo ≤ n ∧ n ≤ hi then .ok n else .error e
    | none => .error e

def hdrRate (v : Bytes) : Except Err Int :=
  hdrRanged v DirectConsts.responseBandwidthRate DirectConsts.minResponseBandwidthRate
    DirectConsts.maxResponseBandwidthRate .invalidResponseBandwidthRate

def hdrBurst (v : Bytes) : Except Err Int :=
  hdrRanged v DirectConsts.responseBandwidthBurstSize DirectConsts.minResponseBandwidthBurstSize
    DirectConsts.maxResponseBandwidthBurstSize .invalidResponseBandwidthBurstSize

def parsedOf (g : Globals) : Parsed :=
  { limit := g.maxSize, mode := g.mode,
    shaping := if g.mode = .streaming then some (g.rate, g.burst) else none }

/-- the checks against the reservation token, in the order of the code -/
def tokenChecks (g : Globals) (r : Req) (t : Token) : Except Err Parsed :=
  if r.id ≠ t.id then .error .invalidInvokeID
  else if r.tok ≠ t.tok then .error .invalidReservationToken
  else if r.ver ≠ t.ver then .error .invalidFunctionVersion
  else if r.now > t.deadline then .error .reservationExpired
  else .ok (parsedOf g)

/-- `isStreamingInvoke(int(MaxDirectResponseSize), InvokeResponseMode)` -/
def isStreaming (maxSize : Int) (m : Mode) : Bool := maxSize == -1 || m == .streaming

/-- `ReceiveDirectInvoke`. Every package variable is assigned its default and then, if the header
    is present and valid, the header's value (`X = default; if h != "" { X = parse(h) }`), which is
    written here as one assignment of `hdrX h`; the state left behind by each early return is
    spelled out. Rate and burst are (re)assigned ONLY inside the streaming branch: after a
    buffered request they keep whatever an earlier request left there. -/
def receive (g : Globals) (r : Req) (t : Token) : Globals × Except Err Parsed :=
  if r.custOk = false then (g, .error .malformedCustomerHeaders)
  else match hdrMax r.maxSize with
    | .error e => ({ g with maxSize := DirectConsts.maxPayloadSize }, .error e)
    | .ok n =>
      match hdrMode r.mode with
      | .error e => ({ g with maxSize := n, mode := .buffered }, .error e)
      | .ok m =>
        if isStreaming n m then
          match hdrRate r.rate with
          | .error e =>
            ({ g with maxSize := n, mode := .streaming, rate := DirectConsts.responseBandwidthRate }, .error e)
          | .ok rate =>
            match hdrBurst r.burst with
            | .error e =>
              ({ maxSize := n, mode := .streaming, rate := rate,
                 burst := DirectConsts.responseBandwidthBurstSize }, .error e)
            | .ok burst =>
              let g' : Globals := { maxSize := n, mode := .streaming, rate := rate, burst := burst }
              (g', tokenChecks g' r t)
        else
          let g' : Globals := { g with maxSize := n, mode := .buffered }
          (g', tokenChecks g' r t)

/-- the package variables as initialised at program start -/
def initGlobals : Globals :=
  { maxSize := DirectConsts.initMaxDirectResponseSize,
    mode := if DirectConsts.initInvokeResponseModeStreaming then .streaming else .buffered,
    rate := DirectConsts.initResponseBandwidthRate,
    burst := DirectConsts.initResponseBandwidthBurstSize }

/-- a sequence of requests: the results, in order -/
def receiveAll (g : Globals) : List (Req × Token) → List (Except Err Parsed)
  | [] => []
  | (r, t) :: rest => (receive g r t).2 :: receiveAll (receive g r t).1 rest

/-! ### what `SendDirectInvokeResponse` reads from the package variables -/

structure SendParams where
  mode    : Mode
  maxSize : Int
  /-- `(capacity, refillNumber)` of the bucket built by `NewStreamedResponseWriter`; read on the
      streaming path only -/
  shaping : Option (Nat × Nat)
deriving DecidableEq, Repr

def sendParams (g : Globals) : SendParams :=
  { mode := g.mode, maxSize := g.maxSize,
    shaping := if g.mode = .streaming then
        some (g.burst.toNat, Bucket.refillOf g.rate.toNat DirectConsts.defaultRefillIntervalMs)
      else none }

/-! ### `ChunkIterator` -/

def chunksAux {α : Type} (cap : Nat) : Nat → List α → List (List α)
  | 0, _ => []
  | _ + 1, [] => []
  | fuel + 1, x :: xs => (x :: xs).take cap :: chunksAux cap fuel ((x :: xs).drop cap)

/-- `NewChunkIterator(p, cap)` iterated with `Next()` until it returns nil -/
def chunks {α : Type} (p : List α) (cap : Nat) : List (List α) :=
  if cap = 0 then [] else chunksAux cap p.length p

/-! ### the copy -/

/-- size of the buffer `io.Copy` allocates (Go standard library) -/
def copyBuf : Nat := 32768

/-- the response payload as a reader: what successive `Read` calls return at most (a `Read` never
    joins two chunks), and whether the stream ends in EOF or in a read error (returned by a `Read`
    of its own, after the last byte) -/
structure Src where
  chunks   : List Bytes
  fail     : Bool
  /-- the reader implements `io.WriterTo` (e.g. `*bytes.Reader`): `io.Copy` then hands every chunk
      to the writer in one `Write`, unless the reader is wrapped in `io.LimitReader` -/
  writerTo : Bool := false
deriving DecidableEq, Repr

def Src.payload (s : Src) : Bytes := s.chunks.flatten

/-- what happens around the copy -/
structure Env where
  /-- a reset reaches `sendStreamingInvoke…Response` (which cancels the `CancellableWriter`) while
      the copy is inside its `resetAt`-th `Read` (0-based). Streaming path only. -/
  resetAt : Option Nat := none
  /-- the connection takes this many more bytes: the `Write` that crosses the budget is partial
      and fails -/
  budget  : Option Nat := none
deriving DecidableEq, Repr

inductive Trailer where
  | complete
  | oversized
  | truncated
deriving DecidableEq, Repr

structure Out where
  writes  : List Bytes     -- the successful `Write`s on the http.ResponseWriter, in order
  copyErr : Bool           -- `io.Copy` returned an error
  trailer : Trailer        -- End-Of-Response
deriving DecidableEq, Repr

def Out.forwarded (o : Out) : Bytes := o.writes.flatten

/-- reads through `io.LimitReader(src, n)`: each read is cut to the remaining `n`; with `n = 0`
    the reader reports EOF without touching the source (so a pending read error stays unseen) -/
def limN : List Bytes → Nat → Bool → List Bytes × Bool
  | [], n, fail => ([], if n = 0 then false else fail)
  | r :: rs, n, fail =>
    if n = 0 then ([], false)
    else
      let d := r.take n
      let t := limN rs (n - d.length) fail
      (d :: t.1, t.2)

/-- the writes that fit into the connection's budget; `true` = a write failed -/
def cut : List Bytes → Nat → List Bytes × Bool
  | [], _ => ([], false)
  | w :: ws, b =>
    if w.length ≤ b then
      let t := cut ws (b - w.length)
      (w :: t.1, t.2)
    else (if b = 0 then [] else [w.take b], true)

def SendParams.restricted (p : SendParams) : Bool := p.mode == .buffered || p.maxSize != -1

/-- `Some(MaxDirectResponseSize+1)` when the payload goes through `io.LimitReader` -/
def SendParams.lim (p : SendParams) : Option Nat :=
  if p.restricted then some (p.maxSize + 1).toNat else none

/-- the data returned by the successive `Read`s of `io.Copy`, and whether the last `Read`
    returned an error -/
def reads (p : SendParams) (src : Src) : List Bytes × Bool :=
  match p.lim with
  | none =>
    if src.writerTo then (src.chunks, src.fail)
    else (src.chunks.flatMap (chunks · copyBuf), src.fail)
  | some n => limN (src.chunks.flatMap (chunks · copyBuf)) n src.fail

/-- a reset during `Read` number `j`: the data of that read and of all later ones is refused by the
    cancelled writer. A reset that arrives during the final (EOF) read changes nothing. -/
def applyReset (p : SendParams) (env : Env) (rs : List Bytes) : List Bytes × Bool :=
  match p.mode, env.resetAt with
  | .streaming, some j => if j < rs.length then (rs.take j, true) else (rs, false)
  | _, _ => (rs, false)

/-- `BandwidthLimitingWriter.Write`: buffers larger than the bucket go out in capacity-sized pieces -/
def splitWrites (p : SendParams) (rs : List Bytes) : List Bytes :=
  match p.mode, p.shaping with
  | .streaming, some (cap, _) => rs.flatMap (chunks · cap)
  | _, _ => rs

def applyBudget (env : Env) (ws : List Bytes) : List Bytes × Bool :=
  match env.budget with
  | none => (ws, false)
  | some b => cut ws b

def classify (p : SendParams) (copyErr : Bool) (written : Nat) : Trailer :=
  if copyErr then .truncated
  else match p.mode with
    | .buffered => if (written : Int) = p.maxSize + 1 then .oversized else .complete
    | .streaming => if p.maxSize ≠ -1 ∧ (written : Int) > p.maxSize then .oversized else .complete

/-- A runtime whose response body STALLS during `Read` number `j` (connection open, nothing arrives)
    while a reset comes in: the reset closes the runtime's connection, which ends the parked `Read`
    with an error. For the copy that is a source delivering its first `j` reads and then failing —
    all theorems about `send` quantify over the source, so they cover it. -/
def Src.stallAt (src : Src) (j : Nat) : Src :=
  { chunks := (src.chunks.flatMap fun c => Rie.DirectInvoke.chunks c copyBuf).take j, fail := true, writerTo := false }

/-- `SendDirectInvokeResponse` (bytes on the wire and the End-Of-Response trailer) -/
def send (p : SendParams) (src : Src) (env : Env) : Out :=
  let r := reads p src
  let a := applyReset p env r.1
  let c := applyBudget env (splitWrites p a.1)
  let copyErr := r.2 || a.2 || c.2
  { writes := c.1, copyErr := copyErr, trailer := classify p copyErr c.1.flatten.length }

/-- `NewBucket` accepts the streaming parameters; `maxSize ≥ -1` (what `receive` establishes) -/
def SendParams.WF (p : SendParams) : Prop :=
  -1 ≤ p.maxSize ∧ (p.mode = .streaming → ∃ cap refill, p.shaping = some (cap, refill) ∧ 0 < cap ∧ 0 < refill)

/-- nothing interferes with the copy -/
def Env.quiet : Env := {}

end Rie.DirectInvoke
